"""C17 — random models and rewirings keep their documented invariants.

proof  : lean/Pyunicorn/Properties/C17.lean (for every stream of RNG draws: the
         geographical rewiring kernels keep the graph simple, `edges` its edge
         list, every degree, link lengths within eps per rewiring, degree pairs;
         cross-link kernels: exact count, cross/total degrees, internal blocks;
         Barabasi-Albert growth: exactly m(N-m) links)
tie    : the RNG functions the kernels call (numpy.random.random / uniform, the
         module global `randint` of core._ext.numerics) are replaced by recording
         suppliers; the Lean model replays exactly the recorded draws and must
         reproduce adjacency, edge array, cross adjacency, link array and loop
         counter of the compiled kernels and of the public methods
search : the documented invariants themselves, evaluated on before/after
         adjacency of the real code (independent of the model), per single
         rewiring and per run, plus the igraph-backed generators
"""
import contextlib
import io
import itertools
from fractions import Fraction

import numpy as np

from . import common  # noqa: F401


# --------------------------------------------------------------------------
# encoding
# --------------------------------------------------------------------------

def enc_mat(M):
    M = np.asarray(M)
    if M.size == 0:
        return "-"
    return ";".join(",".join(str(int(v)) for v in row) for row in M)


def enc_vec(v):
    return ",".join(str(int(x)) for x in v) or "-"


class Stop(Exception):
    """raised by a draw supplier whose budget is exhausted (the kernel would
    go on drawing: non-terminating calls are outside 'defined')"""


class Patched:
    """Replace the RNG entry points used by the randomisation code by
    `supplier(kind, arg)`; restores them on exit."""

    def __init__(self, K, supplier):
        self.K, self.sup = K, supplier

    def __enter__(self):
        self.o_random = np.random.random
        self.o_uniform = np.random.uniform
        self.o_randint = self.K.randint
        np.random.random = lambda *a, **k: self.sup("random", a[0] if a else k.get("size"))
        np.random.uniform = lambda low=0.0, high=1.0, size=None: self.sup("uniform", (low, high, size))
        self.K.randint = lambda *a, **k: self.sup("randint", a[0])
        return self

    def __exit__(self, *exc):
        np.random.random = self.o_random
        np.random.uniform = self.o_uniform
        self.K.randint = self.o_randint
        return False


class PairStream:
    """index pairs in [0,b1) x [0,b2): mostly a cyclic walk through a shuffled
    list of *all* pairs (so an admissible pair is found within b1*b2 draws if
    one exists), mixed with independent uniform pairs; `budget` pairs at most."""

    def __init__(self, rng, b1, b2, budget):
        self.rng, self.b1, self.b2, self.left = rng, b1, b2, 2 * budget + 10
        self.all = [(i, j) for i in range(b1) for j in range(b2)]
        rng.shuffle(self.all)
        self.pos = 0
        self.cur = None
        self.pairs = []

    def first(self):
        if self.left <= 0 or not self.all:
            raise Stop()
        self.left -= 1
        if self.rng.random() < 0.25:
            self.cur = (self.rng.randrange(self.b1), self.rng.randrange(self.b2))
        else:
            self.cur = self.all[self.pos % len(self.all)]
            self.pos += 1
        return self.cur[0]

    def second(self):
        self.pairs.append(self.cur)
        return self.cur[1]


# --------------------------------------------------------------------------
# generators
# --------------------------------------------------------------------------

def rand_graph(rng, n, p):
    A = np.zeros((n, n), dtype=np.int8)
    for i in range(n):
        for j in range(i):
            if rng.random() < p:
                A[i, j] = A[j, i] = 1
    return A


def structured_graph(rng, n):
    kind = rng.choice(["random", "random", "random", "matching", "cycle", "path",
                       "complete", "star", "two-cliques"])
    A = np.zeros((n, n), dtype=np.int8)
    if kind == "random":
        return kind, rand_graph(rng, n, rng.choice([0.2, 0.35, 0.5, 0.7]))
    if kind == "matching":
        perm = list(range(n))
        rng.shuffle(perm)
        for a, b in zip(perm[::2], perm[1::2]):
            A[a, b] = A[b, a] = 1
    elif kind == "cycle":
        for a in range(n):
            A[a, (a + 1) % n] = A[(a + 1) % n, a] = 1
    elif kind == "path":
        for a in range(n - 1):
            A[a, a + 1] = A[a + 1, a] = 1
    elif kind == "complete":
        A[:] = 1
        np.fill_diagonal(A, 0)
    elif kind == "star":
        A[0, 1:] = A[1:, 0] = 1
    else:
        h = n // 2
        A[:h, :h] = 1
        A[h:, h:] = 1
        np.fill_diagonal(A, 0)
    return kind, A


def dist_matrix(rng, n):
    """symmetric zero-diagonal integer matrix (real distances = entries / 4)"""
    kind = rng.choice(["const", "line", "ring", "rand3", "rand8", "grid", "asym"])
    D = np.zeros((n, n), dtype=np.int64)
    if kind == "const":
        D[:] = rng.choice([1, 4])
    elif kind == "line":
        x = [rng.randrange(0, 6) for _ in range(n)]
        for i in range(n):
            for j in range(n):
                D[i, j] = abs(x[i] - x[j])
    elif kind == "ring":
        for i in range(n):
            for j in range(n):
                D[i, j] = min((i - j) % n, (j - i) % n)
    elif kind in ("rand3", "rand8"):
        top = 3 if kind == "rand3" else 8
        for i in range(n):
            for j in range(i):
                D[i, j] = D[j, i] = rng.randrange(1, top + 1)
    elif kind == "asym":
        # not a metric: exercises the index order inside the conditions (correspondence only)
        for i in range(n):
            for j in range(n):
                D[i, j] = rng.randrange(1, 4)
    else:
        pts = [(rng.randrange(0, 3), rng.randrange(0, 3)) for _ in range(n)]
        for i in range(n):
            for j in range(n):
                D[i, j] = abs(pts[i][0] - pts[j][0]) + abs(pts[i][1] - pts[j][1])
    np.fill_diagonal(D, 0)
    return kind, D


def edge_list(A):
    n = A.shape[0]
    return [(i, j) for i in range(n) for j in range(i + 1, n) if A[i, j]]


# --------------------------------------------------------------------------
# oracles (independent of the Lean model)
# --------------------------------------------------------------------------

def simple_undirected(A):
    A = np.asarray(A)
    return (A.shape[0] == A.shape[1] and np.array_equal(A, A.T)
            and not np.any(np.diag(A)) and set(np.unique(A)) <= {0, 1})


def match_within(old, new, eps):
    """is there a bijection old<->new with |a-b| < eps for every matched pair?
    (lists of exact numbers, tiny)"""
    if len(old) != len(new):
        return False
    for perm in itertools.permutations(range(len(new))):
        if all(abs(old[i] - new[perm[i]]) < eps for i in range(len(old))):
            return True
    return False


def geo_oracle(ctx, mode, A0, A1, edges1, D, eps, level, replay, single):
    """documented invariants of randomly_rewire_geomodel_{I,II,III} on the real
    before/after adjacency; `single`: at most one rewiring happened"""
    def bad(inv, what):
        sig = {"kind": "geo", "level": level, "mode": mode, "invariant": inv}
        ctx.fail(sig, f"geomodel_{mode} ({level}): {what}", dict(replay, invariant=inv))

    n = A0.shape[0]
    if not simple_undirected(A1):
        bad("simple", "result is not a simple undirected graph")
        return
    if not np.array_equal(A0.sum(axis=1), A1.sum(axis=1)):
        bad("degree", f"degree sequence changed {A0.sum(axis=1).tolist()} -> {A1.sum(axis=1).tolist()}")
    if edges1 is not None:
        es = sorted(tuple(sorted(map(int, e))) for e in edges1)
        if es != edge_list(A1):
            bad("edge-list", "edge array is no longer the edge list of A")
    if single:
        removed = [(i, j) for (i, j) in edge_list(A0) if not A1[i, j]]
        added = [(i, j) for (i, j) in edge_list(A1) if not A0[i, j]]
        if len(removed) not in (0, 2) or len(added) != len(removed):
            bad("two-links", f"one rewiring removed {removed} and added {added}")
            return
        if removed and np.array_equal(D, D.T):
            lo = [Fraction(int(D[i, j]), 4) for i, j in removed]
            ln = [Fraction(int(D[i, j]), 4) for i, j in added]
            if not match_within(lo, ln, Fraction(eps, 4)):
                bad("link-length", f"removed lengths {lo} cannot be matched with added {ln} within {Fraction(eps, 4)}")
            if mode in ("II", "III"):
                # per node: the link lost and the link gained differ by < eps
                for v in range(n):
                    lost = [Fraction(int(D[v, w]), 4) for w in range(n) if A0[v, w] and not A1[v, w]]
                    got = [Fraction(int(D[v, w]), 4) for w in range(n) if A1[v, w] and not A0[v, w]]
                    if not match_within(lost, got, Fraction(eps, 4)):
                        bad("node-link-length", f"node {v}: lost {lost}, gained {got}, eps {Fraction(eps, 4)}")
                        break
            if mode == "III":
                deg = A0.sum(axis=1)
                p0 = sorted(tuple(sorted((int(deg[i]), int(deg[j])))) for i, j in removed)
                p1 = sorted(tuple(sorted((int(deg[i]), int(deg[j])))) for i, j in added)
                if p0 != p1:
                    bad("degree-pairs", f"degree pairs of removed links {p0} != of added links {p1}")
    if mode == "III":
        deg = A0.sum(axis=1)
        p0 = sorted(tuple(sorted((int(deg[i]), int(deg[j])))) for i, j in edge_list(A0))
        p1 = sorted(tuple(sorted((int(deg[i]), int(deg[j])))) for i, j in edge_list(A1))
        if p0 != p1:
            bad("degree-pairs", "multiset of degree pairs over all links changed")


def cross_oracle(ctx, op, level, A0, A1, n1, n2, expect_count, replay, keep_degrees):
    def bad(inv, what):
        sig = {"kind": "cross", "op": op, "level": level, "invariant": inv}
        ctx.fail(sig, f"{op} ({level}): {what}", dict(replay, invariant=inv))

    A0, A1 = np.asarray(A0), np.asarray(A1)
    if not simple_undirected(A1):
        bad("simple", "result is not a simple undirected graph")
        return
    mask = np.zeros(A0.shape, dtype=bool)
    mask[np.ix_(n1, n2)] = True
    mask[np.ix_(n2, n1)] = True
    if not np.array_equal(A0[~mask], A1[~mask]):
        bad("untouched", "entries outside the cross block changed")
    for nl in (n1, n2):
        if not np.array_equal(A0[np.ix_(nl, nl)], A1[np.ix_(nl, nl)]):
            bad("internal", "links inside a group changed")
    C1 = A1[np.ix_(n1, n2)]
    if expect_count is not None and int(C1.sum()) != expect_count:
        bad("count", f"{int(C1.sum())} cross links, prescribed {expect_count}")
    if keep_degrees:
        C0 = A0[np.ix_(n1, n2)]
        if not (np.array_equal(C0.sum(axis=1), C1.sum(axis=1))
                and np.array_equal(C0.sum(axis=0), C1.sum(axis=0))):
            bad("cross-degree", "cross degrees changed")
        if not np.array_equal(A0.sum(axis=1), A1.sum(axis=1)):
            bad("degree", "degree sequence changed")


# --------------------------------------------------------------------------

MODES = {"I": "1", "II": "2", "III": "3"}


def run(ctx):
    from pyunicorn.core._ext import numerics as K
    from pyunicorn.core._ext.types import ADJ, FIELD, NODE, DEGREE
    from pyunicorn.core import Network, SpatialNetwork, Grid, InteractingNetworks
    import pyunicorn.core.interacting_networks as IN
    rng = ctx.rng
    quick = ctx.tier == "quick"
    scale = 4 if quick else 50
    ctx.rule = ("case = (operation, level, input network / partition / distance matrix / tolerance / "
                "parameters, recorded draw stream); distinct = distinct canonical encodings; "
                "non-trivial = at least one rewiring / link placement actually happened "
                "(generators: at least one link)")
    ctx.trusted = common.DEFAULT_TRUSTED + [
        "igraph generators and Graph.rewire (ErdosRenyi, Configuration, WattsStrogatz, BarabasiAlbert_igraph, "
        "randomly_rewire): not modelled, their documented invariants are checked on outputs only",
        "float32 arithmetic of the rewiring conditions is exact on the generated data "
        "(distances and tolerances are multiples of 1/4 below 2^10)",
    ]
    ctx.proofs()

    reqs, impl = [], []

    def geo_kernel(mode):
        return getattr(K, "_randomly_rewire_geomodel_" + mode)

    # ------------------------------------------------------------------
    # 1. geographical rewiring, kernel level
    # ------------------------------------------------------------------
    def geo_case(level):
        n = rng.choice([4, 4, 5, 5, 6, 7, 8, 9] if quick else [4, 5, 6, 7, 8, 9, 10, 12])
        gk, A = structured_graph(rng, n)
        dk, D = dist_matrix(rng, n)
        eps = rng.choice([1, 1, 2, 3, 5, 400])
        mode = rng.choice(["I", "II", "III"])
        ctx.count(f"geo:{level}:mode={mode}")
        ctx.count(f"geo:graph={gk}")
        ctx.count(f"geo:D={dk}:eps={'big' if eps == 400 else eps}")
        return n, A, D, eps, mode

    def uniform_pairs(E, budget):
        """supplier for numpy.random.random(): u with floor(u*E) = chosen edge index"""
        ps = PairStream(rng, E, E, budget)
        state = {"n": 0, "idx": []}

        def sup(kind, arg):
            assert kind == "random" and arg is None, (kind, arg)
            idx = ps.first() if state["n"] % 2 == 0 else ps.second()
            state["n"] += 1
            u = (idx + rng.choice([0.0, 0.5, 0.999])) / E
            if int(np.floor(u * E)) != idx:
                u = (idx + 0.5) / E
            state["idx"].append(int(np.floor(u * E)))
            return u
        return sup, state

    def call_geo_kernel(mode, iterations, A, D, eps, edges, deg, budget):
        """runs the compiled kernel in place; returns (completed, draws)"""
        E = len(edges)
        sup, state = uniform_pairs(E, budget)
        Df = (D / 4.0).astype(FIELD)
        args = [iterations, eps / 4.0, A, Df, E, edges]
        if mode == "III":
            args.append(deg)
        completed = True
        with Patched(K, sup):
            try:
                geo_kernel(mode)(*args)
            except Stop:
                completed = False
        idx = state["idx"]
        if len(idx) % 2:
            idx = idx[:-1]      # second index of the pair was never drawn
        return completed, list(zip(idx[::2], idx[1::2]))

    def geo_req(tag, mode, n, A0, D, eps, deg, edges0, iterations, draws):
        return (f"{tag} {MODES[mode]} {n} {enc_mat(A0)} {enc_mat(D)} {eps} {enc_vec(deg)} "
                f"{enc_mat(edges0)} {iterations} {enc_mat(draws)}")

    n_geo = (600 if quick else 8000)
    for _ in range(n_geo):
        n, A, D, eps, mode = geo_case("kernel")
        A = A.astype(ADJ)
        el = edge_list(A)
        rng.shuffle(el)
        el = [e if rng.random() < 0.5 else (e[1], e[0]) for e in el]
        edges = np.array(el, dtype=NODE).reshape(len(el), 2)
        deg = A.sum(axis=1).astype(DEGREE)
        if len(el) == 0:
            # E = 0: only iterations = 0 is defined
            A0, e0 = A.copy(), edges.copy()
            completed, draws = call_geo_kernel(mode, 0, A, D, eps, edges, deg, 4)
            reqs.append(geo_req("geo", mode, n, A0, D, eps, deg, e0, 0, draws))
            impl.append(f"{enc_mat(A)}|{enc_mat(edges)}|0")
            ctx.case(("geo", mode, n, A0.tobytes().hex(), 0), False)
            continue
        # (a) a sequence of single rewirings on the evolving state
        steps = rng.choice([1, 2, 4, 8])
        for _s in range(steps):
            A0, e0 = A.copy(), edges.copy()
            completed, draws = call_geo_kernel(mode, 1, A, D, eps, edges, deg, len(el) ** 2 + 5)
            reqs.append(geo_req("geo", mode, n, A0, D, eps, deg, e0, 1, draws))
            impl.append(f"{enc_mat(A)}|{enc_mat(edges)}|{'1' if completed else '<'}")
            rp = {"call": f"_randomly_rewire_geomodel_{mode}", "iterations": 1, "eps": eps / 4.0,
                  "A": A0.tolist(), "D": (D / 4.0).tolist(), "edges": e0.tolist(),
                  "degree": deg.tolist(), "edge_index_draws": draws, "A_after": A.tolist()}
            geo_oracle(ctx, mode, A0, A, edges, D, eps, "kernel", rp, True)
            ctx.case(("geo1", mode, A0.tobytes().hex(), e0.tobytes().hex(), D.tobytes().hex(), eps, draws),
                     not np.array_equal(A0, A),
                     {"op": f"_randomly_rewire_geomodel_{mode}", "n": n, "A": enc_mat(A0),
                      "D/4": enc_mat(D), "eps*4": eps, "draws": draws[:6]} if n <= 5 else None)
            ctx.count("geo:single-step:" + ("rewired" if completed else "budget-exhausted"))
            if not completed:
                break
        # (b) a whole run
        iters = rng.choice([0, 2, 3, 5, 10, 20])
        A0, e0 = A.copy(), edges.copy()
        completed, draws = call_geo_kernel(mode, iters, A, D, eps, edges, deg, min(2500, 5 + iters * (len(el) ** 2 + 5)))
        reqs.append(geo_req("geo", mode, n, A0, D, eps, deg, e0, iters, draws))
        impl.append(f"{enc_mat(A)}|{enc_mat(edges)}|{iters if completed else '<'}")
        rp = {"call": f"_randomly_rewire_geomodel_{mode}", "iterations": iters, "eps": eps / 4.0,
              "A": A0.tolist(), "D": (D / 4.0).tolist(), "edges": e0.tolist(),
              "degree": deg.tolist(), "edge_index_draws": draws, "A_after": A.tolist()}
        geo_oracle(ctx, mode, A0, A, edges, D, eps, "kernel", rp, False)
        ctx.case(("geoN", mode, A0.tobytes().hex(), e0.tobytes().hex(), D.tobytes().hex(), eps, iters, draws),
                 not np.array_equal(A0, A))
        ctx.count("geo:run:" + ("completed" if completed else "budget-exhausted"))
    ctx.correspond("Lean geoRun == compiled _randomly_rewire_geomodel_I/II/III "
                   "(adjacency, edge array, loop counter; recorded draws)", reqs, impl)

    # ------------------------------------------------------------------
    # 2. geographical rewiring through SpatialNetwork
    # ------------------------------------------------------------------
    reqs, impl = [], []
    for _ in range(200 if quick else 2500):
        for _try in range(12):
            n, A, D, eps, mode = geo_case("method")
            D = np.maximum(D, D.T)
            if A.sum() == 0:
                continue
            # screen with the compiled kernel itself: is any rewiring admissible?
            el = edge_list(A)
            ok, _d = call_geo_kernel(mode, 1, A.astype(ADJ), D, eps, np.array(el, dtype=NODE),
                                     A.sum(axis=1).astype(DEGREE), len(el) ** 2 + 5)
            if ok or rng.random() < 0.1:
                break
        if A.sum() == 0:
            continue
        grid = Grid(np.arange(2.0), np.array([np.arange(n) * 1.0, np.arange(n) * 2.0]), silence_level=3)
        net = SpatialNetwork(grid=grid, adjacency=A, directed=False, silence_level=3)
        A0 = net.adjacency.copy()
        e0 = np.array(net.graph.get_edgelist())
        deg = A0.sum(axis=1)
        iters = rng.choice([1, 1, 2, 5, 12])
        if sorted(map(tuple, e0.tolist())) != edge_list(A0) or net.n_links != len(e0):
            ctx.fail({"kind": "geo", "level": "method", "invariant": "edge-list-precondition"},
                     "graph.get_edgelist()/n_links disagree with adjacency before rewiring",
                     {"A": A0.tolist(), "edgelist": e0.tolist(), "n_links": int(net.n_links)})
            continue
        sup, state = uniform_pairs(len(e0), min(2500, 5 + iters * (len(e0) ** 2 + 5)))
        completed = True
        with Patched(K, sup):
            try:
                getattr(net, "randomly_rewire_geomodel_" + mode)(
                    distance_matrix=D / 4.0, iterations=iters, inaccuracy=eps / 4.0)
            except Stop:
                completed = False
        if not completed:
            ctx.count("geo:method:budget-exhausted")
            continue            # the object was not updated (exception inside the kernel)
        idx = state["idx"]
        draws = list(zip(idx[::2], idx[1::2]))
        A1 = net.adjacency
        reqs.append(geo_req("geoA", mode, n, A0, D, eps, deg, e0, iters, draws))
        impl.append(f"{enc_mat(A1)}|{iters}")
        rp = {"call": f"SpatialNetwork.randomly_rewire_geomodel_{mode}", "iterations": iters,
              "inaccuracy": eps / 4.0, "A": A0.tolist(), "distance_matrix": (D / 4.0).tolist(),
              "edge_index_draws": draws, "A_after": A1.tolist()}
        geo_oracle(ctx, mode, A0, A1, None, D, eps, "method", rp, iters == 1)
        if net.n_links != len(edge_list(A1)) or \
                sorted(map(tuple, net.graph.get_edgelist())) != edge_list(A1) or \
                not np.array_equal(net.degree(), A1.sum(axis=1)):
            ctx.fail({"kind": "geo", "level": "method", "mode": mode, "invariant": "object-state"},
                     "n_links / graph / degree() disagree with the rewired adjacency", rp)
        ctx.case(("geoM", mode, A0.tobytes().hex(), D.tobytes().hex(), eps, iters, draws),
                 not np.array_equal(A0, A1))
        ctx.count("geo:method:completed")
    ctx.correspond("Lean geoRun == SpatialNetwork.randomly_rewire_geomodel_I/II/III "
                   "(adjacency after; edge list and n_links taken from the object)", reqs, impl)

    # ------------------------------------------------------------------
    # 3. cross links
    # ------------------------------------------------------------------
    def partition(n):
        k = rng.choice(["cover", "partial", "partial", "single"])
        nodes = list(range(n))
        rng.shuffle(nodes)
        if k == "cover":
            c = rng.randrange(1, n)
            return k, nodes[:c], nodes[c:]
        if k == "single":
            return k, nodes[:1], nodes[1:rng.randrange(2, n + 1)]
        a = rng.randrange(1, n - 1)
        b = rng.randrange(a + 1, n)
        return k, nodes[:a], nodes[a:b]

    def int_supplier(b1, b2, budget):
        """supplier for randint(b1), randint(b2) / int(random()*b1), int(random()*b2)"""
        ps = PairStream(rng, b1, b2, budget)
        state = {"n": 0, "vals": []}

        def sup(kind, arg):
            first = state["n"] % 2 == 0
            idx = ps.first() if first else ps.second()
            state["n"] += 1
            if kind == "randint":
                assert int(arg) == (b1 if first else b2), (arg, b1, b2)
                state["vals"].append(idx)
                return idx
            assert kind == "random" and arg is None, (kind, arg)
            u = (idx + 0.5) / (b1 if first else b2)
            state["vals"].append(u)
            return u
        return sup, state

    reqs, impl = [], []
    for _ in range(400 if quick else 5000):
        n = rng.choice([4, 5, 6, 7, 8, 9, 10, 11])
        gk, A = structured_graph(rng, n)
        if rng.random() < 0.5:
            gk, A = "random", rand_graph(rng, n, rng.choice([0.3, 0.5]))
        ctx.count(f"cross:graph={gk}")
        pk, n1, n2 = partition(n)
        m1, m2 = len(n1), len(n2)
        A0 = A.astype(ADJ)
        nodes1, nodes2 = np.array(n1, dtype=NODE), np.array(n2, dtype=NODE)
        ctx.count(f"cross:partition={pk}")
        # ---- set, kernel level (also from a non-empty cross matrix)
        C0 = np.zeros((m1, m2), dtype=ADJ)
        if rng.random() < 0.3:
            C0 = (np.array([[rng.random() < 0.3 for _ in range(m2)] for _ in range(m1)])).astype(ADJ)
        free = int(m1 * m2 - C0.sum())
        k = rng.choice([0, free, rng.randrange(0, free + 1), rng.randrange(0, free + 1)])
        A1, C1 = A0.copy(), C0.copy()
        sup, state = int_supplier(m1, m2, 5 + k * (m1 * m2 + 2))
        completed = True
        with Patched(K, sup):
            try:
                K._randomlySetCrossLinks(A1, C1, k, nodes1, nodes2, m1, m2)
            except Stop:
                completed = False
        v = state["vals"]
        draws = list(zip(v[::2], v[1::2]))
        reqs.append(f"crossset {int(completed)} {n} {enc_mat(A0)} {m1} {m2} {enc_mat(C0)} {k} "
                    f"{enc_vec(n1)} {enc_vec(n2)} {enc_mat(draws)}")
        impl.append(f"{enc_mat(A1)}|{enc_mat(C1)}|{k if completed else '<'}")
        rp = {"call": "_randomlySetCrossLinks", "A": A0.tolist(), "cross_A": C0.tolist(),
              "number_cross_links": k, "nodes1": n1, "nodes2": n2, "randint_draws": draws,
              "A_after": A1.tolist()}
        if completed:
            cross_oracle(ctx, "set", "kernel", A0, A1, n1, n2, int(C0.sum()) + k, rp, False)
            if not np.array_equal(A1[np.ix_(n1, n2)], C1):
                ctx.fail({"kind": "cross", "op": "set", "level": "kernel", "invariant": "block"},
                         "cross block of A differs from cross_A", rp)
        ctx.case(("cset", A0.tobytes().hex(), C0.tobytes().hex(), k, tuple(n1), tuple(n2), draws), k > 0,
                 {"op": "_randomlySetCrossLinks", "A": enc_mat(A0), "nodes1": n1, "nodes2": n2,
                  "number_cross_links": k, "draws": draws[:6]} if n <= 5 else None)
        ctx.count("cross:set:kernel:" + ("completed" if completed else "budget-exhausted"))

        # ---- rewire, kernel level
        C0 = A0[np.ix_(n1, n2)].copy()
        links = np.array(C0.nonzero(), dtype=NODE).transpose().copy()
        if rng.random() < 0.5 and len(links):
            perm = list(range(len(links)))
            rng.shuffle(perm)
            links = links[perm].copy()
        L = len(links)
        swaps = 0 if L < 2 else rng.choice([0, 1, 1, 2, 5, 10])
        A1, C1, links1 = A0.copy(), C0.copy(), links.copy()
        sup, state = int_supplier(L, L, 5 + swaps * (L * L + 2))
        completed = True
        with Patched(K, sup):
            try:
                K._randomlyRewireCrossLinks(A1, C1, links1, nodes1, nodes2, L, swaps)
            except Stop:
                completed = False
        v = state["vals"]
        draws = list(zip(v[::2], v[1::2]))
        reqs.append(f"crossrewire {int(completed)} {n} {enc_mat(A0)} {m1} {m2} {enc_mat(C0)} "
                    f"{enc_mat(links)} {enc_vec(n1)} {enc_vec(n2)} {swaps} {enc_mat(draws)}")
        impl.append(f"{enc_mat(A1)}|{enc_mat(C1)}|{enc_mat(links1)}|{swaps if completed else '<'}")
        rp = {"call": "_randomlyRewireCrossLinks", "A": A0.tolist(), "cross_A": C0.tolist(),
              "cross_links": links.tolist(), "nodes1": n1, "nodes2": n2, "number_swaps": swaps,
              "randint_draws": draws, "A_after": A1.tolist()}
        if completed:
            cross_oracle(ctx, "rewire", "kernel", A0, A1, n1, n2, int(C0.sum()), rp, True)
        if sorted(map(tuple, links1.tolist())) != sorted(zip(*map(lambda x: x.tolist(), C1.nonzero()))):
            ctx.fail({"kind": "cross", "op": "rewire", "level": "kernel", "invariant": "link-list"},
                     "cross_links is no longer the list of ones of cross_A", rp)
        ctx.case(("crew", A0.tobytes().hex(), tuple(n1), tuple(n2), links.tobytes().hex(), swaps, draws),
                 not np.array_equal(C0, C1))
        ctx.count("cross:rewire:kernel:" + ("completed" if completed else "budget-exhausted"))

        # ---- public methods (the kernel arguments are observed by a spy)
        net = InteractingNetworks(adjacency=A0, directed=False, silence_level=3)
        for variant in ("number", "density", "null", "toomany", "sparse-number", "sparse-density",
                        "sparse-null", "sparse-toomany", "rewire"):
            seen = {}
            if variant == "rewire":
                Lc = int(A0[np.ix_(n1, n2)].sum())
                if Lc < 2:
                    continue
                sw = rng.choice([0.5, 1.0, 2.0, 1.5])
                orig = IN._randomlyRewireCrossLinks

                def spy(A_, C_, links_, a_, b_, ncl, nsw, orig=orig, seen=seen):
                    seen.update(C=C_.copy(), links=links_.copy(), ncl=int(ncl), nsw=int(nsw))
                    return orig(A_, C_, links_, a_, b_, ncl, nsw)
                IN._randomlyRewireCrossLinks = spy
                sup, state = int_supplier(Lc, Lc, 5 + int(sw * Lc) * (Lc * Lc + 2))
                completed, out = True, None
                try:
                    with Patched(K, sup):
                        try:
                            out = InteractingNetworks.RandomlyRewireCrossLinks(net, list(n1), list(n2), sw)
                        except Stop:
                            completed = False
                finally:
                    IN._randomlyRewireCrossLinks = orig
                if not completed:
                    ctx.count("cross:rewire:method:budget-exhausted")
                    continue
                v = state["vals"]
                draws = list(zip(v[::2], v[1::2]))
                A1 = out.adjacency
                rp = {"call": "InteractingNetworks.RandomlyRewireCrossLinks", "A": A0.tolist(),
                      "node_list1": n1, "node_list2": n2, "swaps": sw, "randint_draws": draws,
                      "A_after": A1.tolist()}
                if seen["ncl"] != Lc or seen["nsw"] != int(Fraction(sw) * Lc):
                    ctx.fail({"kind": "cross", "op": "rewire", "level": "method", "invariant": "swap-count"},
                             f"kernel called with number_cross_links={seen['ncl']}, number_swaps={seen['nsw']}", rp)
                reqs.append(f"crossrewire 1 {n} {enc_mat(A0)} {m1} {m2} {enc_mat(seen['C'])} "
                            f"{enc_mat(seen['links'])} {enc_vec(n1)} {enc_vec(n2)} {seen['nsw']} {enc_mat(draws)}")
                # cross_A / cross_links after are internal: take them from the model's answer positions
                impl.append(("A-only", enc_mat(A1), str(seen["nsw"])))
                cross_oracle(ctx, "rewire", "method", A0, A1, n1, n2, Lc, rp, True)
                ctx.case(("crewM", A0.tobytes().hex(), tuple(n1), tuple(n2), sw, draws),
                         not np.array_equal(A0, A1))
                ctx.count("cross:rewire:method:completed")
                continue
            # ---- RandomlySetCrossLinks(_sparse)
            Lc = int(A0[np.ix_(n1, n2)].sum())
            kw, expect = {}, None
            base = variant.replace("sparse-", "")
            if base == "number":
                kk = rng.randrange(0, m1 * m2 + 1)
                kw, expect = {"number_cross_links": kk}, kk
            elif base == "density":
                dens = rng.choice([0.0, 0.25, 0.5, 0.75, 1.0])
                kw, expect = {"cross_link_density": dens}, int(Fraction(dens) * m1 * m2)
            elif base == "null":
                kw, expect = {}, Lc
            else:
                kw, expect = {"number_cross_links": m1 * m2 + rng.randrange(1, 4)}, Lc
            fn = InteractingNetworks.RandomlySetCrossLinks_sparse if variant.startswith("sparse") \
                else InteractingNetworks.RandomlySetCrossLinks
            orig = IN._randomlySetCrossLinks

            def spy2(A_, C_, kk_, a_, b_, mm, nn, orig=orig, seen=seen):
                seen.update(k=int(kk_), C=C_.copy())
                return orig(A_, C_, kk_, a_, b_, mm, nn)
            IN._randomlySetCrossLinks = spy2
            sup, state = int_supplier(m1, m2, 5 + expect * (m1 * m2 + 2))
            completed, out, err = True, None, None
            try:
                with Patched(K, sup):
                    try:
                        with contextlib.redirect_stdout(io.StringIO()):
                            out = fn(net, list(n1), list(n2), **kw)
                    except Stop:
                        completed = False
                    except Exception as e:  # noqa
                        err = e
            finally:
                IN._randomlySetCrossLinks = orig
            rp = {"call": fn.__name__, "A": A0.tolist(), "node_list1": n1, "node_list2": n2, **kw}
            if err is not None:
                ctx.fail({"kind": "cross", "op": "set", "level": "method", "variant": variant,
                          "invariant": "raises", "error": type(err).__name__},
                         f"{fn.__name__}({kw}) raised {type(err).__name__}: {err}", rp)
                continue
            if not completed:
                ctx.count("cross:set:method:budget-exhausted")
                continue
            v = state["vals"]
            if variant.startswith("sparse"):
                draws = [(int(a * m1), int(b * m2)) for a, b in zip(v[::2], v[1::2])]
                kmodel = expect
            else:
                draws = list(zip(v[::2], v[1::2]))
                kmodel = seen["k"]
            A1 = np.asarray(out.adjacency)
            rp.update(draws=draws, A_after=A1.tolist())
            reqs.append(f"crossset 1 {n} {enc_mat(A0)} {m1} {m2} {enc_mat(np.zeros((m1, m2)))} {kmodel} "
                        f"{enc_vec(n1)} {enc_vec(n2)} {enc_mat(draws)}")
            impl.append(("A-only", enc_mat(A1), str(kmodel)))
            cross_oracle(ctx, "set:" + variant, "method", A0, A1, n1, n2, expect, rp, False)
            ctx.case(("csetM", variant, A0.tobytes().hex(), tuple(n1), tuple(n2), str(kw), draws), expect > 0)
            ctx.count(f"cross:set:method:{variant}")

    # answers where only the adjacency is observable: compare field 0 and the last field
    model = common.driver(ctx.pid, reqs)
    bad = []
    for i, (r, im) in enumerate(zip(reqs, impl)):
        mo = model[i]
        if isinstance(im, tuple):
            parts = mo.split("|")
            mo = parts[0] + "|" + parts[-1]
            im = im[1] + "|" + im[2]
        if mo != im:
            bad.append(f"{r[:300]} :: model={mo[:200]} impl={im[:200]}")
    ctx.obligation(f"correspondence: Lean crossSetRun/crossRun/overwrite == compiled cross-link kernels and "
                   f"InteractingNetworks.RandomlySetCrossLinks(_sparse)/RandomlyRewireCrossLinks "
                   f"({len(reqs)} requests)", "correspondence", not bad, "\n".join(bad[:5]))
    ctx.extra["requests_compared"] = ctx.extra.get("requests_compared", 0) + len(reqs)

    # ------------------------------------------------------------------
    # 4. Barabasi-Albert (own implementation)
    # ------------------------------------------------------------------
    reqs, impl = [], []
    for c in range(400 if quick else 5000):
        m = rng.choice([1, 1, 2, 2, 3, 4])
        N = m + 1 + rng.choice([0, 1, 2, 3, 5, 8, 12])
        natural = rng.random() < 0.3
        state = {"left": 60 * m * N + 50, "idx": []}
        nseed = rng.randrange(2 ** 31)
        nprs = np.random.RandomState(nseed)

        def sup(kind, arg, state=state, natural=natural, nprs=nprs):
            assert kind == "uniform", kind
            low, high, size = arg
            assert low == 0 and size is None
            if state["left"] <= 0:
                raise Stop()
            state["left"] -= 1
            u = float(nprs.uniform(low, high)) if natural else rng.randrange(int(high)) + rng.choice([0.0, 0.5, 0.25])
            state["idx"].append(int(u))
            return u
        out = None
        with Patched(K, sup):
            try:
                out = Network.BarabasiAlbert(n_nodes=N, n_links_each=m)
            except Stop:
                pass
        if out is None:
            ctx.count("ba:budget-exhausted")
            continue
        A1 = np.asarray(out.toarray())
        reqs.append(f"ba {N} {m} {enc_vec(state['idx'])}")
        impl.append(f"{enc_mat(A1)}|{N}|0")
        rp = {"call": "Network.BarabasiAlbert", "n_nodes": N, "n_links_each": m,
              "target_index_draws": state["idx"], "A": A1.tolist()}

        def badba(inv, what, rp=rp):
            ctx.fail({"kind": "model", "generator": "BarabasiAlbert", "invariant": inv},
                     f"BarabasiAlbert(n_nodes={rp['n_nodes']}, n_links_each={rp['n_links_each']}): {what}", rp)
        if not simple_undirected(A1):
            badba("simple", "not a simple undirected graph")
        elif int(A1.sum()) // 2 != m * (N - m):
            badba("link-count", f"{int(A1.sum()) // 2} links, documented {m * (N - m)}")
        else:
            for j in range(m + 1, N):
                if int(A1[j, :j].sum()) != m:
                    badba("links-each", f"node {j} got {int(A1[j, :j].sum())} links to older nodes")
                    break
        ctx.case(("ba", N, m, tuple(state["idx"])), N > m + 1,
                 {"op": "BarabasiAlbert", "N": N, "m": m, "draws": state["idx"][:10]} if N <= 6 else None)
        ctx.count("ba:" + ("numpy-stream" if natural else "driven-stream"))
    ctx.correspond("Lean baRun == Network.BarabasiAlbert (adjacency; recorded target-index draws)", reqs, impl)

    # ------------------------------------------------------------------
    # 5. igraph-backed generators / rewiring, distance-kernel model: invariants only
    # ------------------------------------------------------------------
    def quiet(f, *a, **k):
        with contextlib.redirect_stdout(io.StringIO()):
            return f(*a, **k)

    for c in range(40 * scale):
        N = rng.randrange(2, 14)
        maxl = N * (N - 1) // 2
        L = rng.choice([0, maxl, rng.randrange(0, maxl + 1)])
        A = np.asarray(quiet(Network.ErdosRenyi, n_nodes=N, n_links=L))
        ctx.case(("er", N, L, A.tobytes().hex()), L > 0)
        ctx.count("generator:ErdosRenyi(n_links)")
        if not simple_undirected(A) or int(A.sum()) // 2 != L:
            ctx.fail({"kind": "model", "generator": "ErdosRenyi", "invariant": "link-count"},
                     f"ErdosRenyi(n_nodes={N}, n_links={L}) gave {int(A.sum()) // 2} links / not simple",
                     {"n_nodes": N, "n_links": L, "A": A.tolist()})
        p = rng.choice([0.0, 0.3, 1.0])
        A = np.asarray(quiet(Network.ErdosRenyi, n_nodes=N, link_probability=p))
        ctx.count("generator:ErdosRenyi(p)")
        if not simple_undirected(A):
            ctx.fail({"kind": "model", "generator": "ErdosRenyi", "invariant": "simple"},
                     "ErdosRenyi(p) not simple", {"n_nodes": N, "p": p, "A": A.tolist()})
        # configuration model: any graphical sequence (degrees of a random graph)
        G = rand_graph(rng, N, rng.choice([0.2, 0.5, 0.8]))
        want = G.sum(axis=1).tolist()
        A = np.asarray(quiet(Network.Configuration, want))
        ctx.case(("conf", tuple(want), A.tobytes().hex()), sum(want) > 0)
        ctx.count("generator:Configuration")
        if not simple_undirected(A) or A.shape[0] != N or np.any(A.sum(axis=1) > np.array(want)):
            ctx.fail({"kind": "model", "generator": "Configuration", "invariant": "degree-bound"},
                     f"Configuration({want}) gave degrees {A.sum(axis=1).tolist()} / not simple",
                     {"degree": want, "A": A.tolist()})
        k = rng.randrange(1, 3)
        Nw = rng.randrange(2 * k + 2, 16)
        A = np.asarray(quiet(Network.WattsStrogatz, N=Nw, k=k, p=rng.choice([0.0, 0.2, 1.0])))
        ctx.count("generator:WattsStrogatz")
        if not simple_undirected(A) or int(A.sum()) // 2 != Nw * k:
            ctx.fail({"kind": "model", "generator": "WattsStrogatz", "invariant": "link-count"},
                     f"WattsStrogatz(N={Nw}, k={k}) gave {int(A.sum()) // 2} links / not simple",
                     {"N": Nw, "k": k, "A": A.tolist()})
        mm = rng.randrange(1, 4)
        NN = mm + 1 + rng.randrange(0, 8)
        net = quiet(Network.Model, "BarabasiAlbert", n_nodes=NN, n_links_each=mm)
        ctx.count("generator:Network.Model(BarabasiAlbert)")
        ctx.case(("modelBA", NN, mm, net.adjacency.tobytes().hex()), NN > mm + 1)
        if net.N != NN or net.n_links != mm * (NN - mm) or not simple_undirected(net.adjacency) or \
                not np.array_equal(net.degree(), net.adjacency.sum(axis=1)):
            ctx.fail({"kind": "model", "generator": "Model(BarabasiAlbert)", "invariant": "link-count"},
                     f"Network.Model('BarabasiAlbert', n_nodes={NN}, n_links_each={mm}): N={net.N}, "
                     f"n_links={net.n_links}, documented {mm * (NN - mm)}",
                     {"n_nodes": NN, "n_links_each": mm, "A": net.adjacency.tolist()})
        mb = rng.randrange(1, 4)
        A = np.asarray(Network.BarabasiAlbert_igraph(n_nodes=N + 2, n_links_each=mb))
        ctx.count("generator:BarabasiAlbert_igraph")
        if not simple_undirected(A):
            ctx.fail({"kind": "model", "generator": "BarabasiAlbert_igraph", "invariant": "simple"},
                     "BarabasiAlbert_igraph not simple", {"n_nodes": N + 2, "m": mb, "A": A.tolist()})
        # Network.randomly_rewire (igraph rewire + set_edge_list)
        n = rng.randrange(4, 10)
        gk, G = structured_graph(rng, n)
        if rng.random() < 0.3:
            G[n - 1, :] = G[:, n - 1] = 0      # trailing isolated node
        if G.sum() > 0:
            net = Network(adjacency=G, directed=False, silence_level=3)
            it = rng.choice([1, 3, 10, 50])
            net.randomly_rewire(it)
            A1 = net.adjacency
            ctx.case(("rr", G.tobytes().hex(), it, A1.tobytes().hex()), not np.array_equal(G, A1))
            ctx.count("randomly_rewire")
            if A1.shape != G.shape or not simple_undirected(A1) or \
                    not np.array_equal(A1.sum(axis=1), G.sum(axis=1)) or \
                    net.n_links != int(G.sum()) // 2 or \
                    sorted(map(tuple, net.graph.get_edgelist())) != edge_list(A1):
                ctx.fail({"kind": "rewire", "method": "randomly_rewire", "invariant": "degree",
                          "n_nodes_changed": A1.shape != G.shape},
                         f"randomly_rewire: {G.shape[0]} nodes, degrees {G.sum(axis=1).tolist()} -> "
                         f"{A1.shape[0]} nodes, degrees {A1.sum(axis=1).tolist()} / not simple / object incoherent",
                         {"A": G.tolist(), "iterations": it, "A_after": A1.tolist()})
        # distance-kernel model
        nn_ = rng.randrange(2, 9)
        grid = Grid(np.arange(2.0), np.array([np.arange(nn_) * 1.0, np.arange(nn_) * 2.0]), silence_level=3)
        G = rand_graph(rng, nn_, 0.4)
        net = SpatialNetwork(grid=grid, adjacency=G, directed=False, silence_level=3)
        a, b = rng.choice([0.0, -0.5, -1.0]), rng.choice([0.0, -0.1, -0.5, -4.0])
        net.set_random_links_by_distance(a=a, b=b)
        A1 = net.adjacency
        ctx.case(("dist", nn_, a, b, A1.tobytes().hex()), A1.sum() > 0)
        ctx.count("set_random_links_by_distance")
        if A1.shape != G.shape or not simple_undirected(A1) or net.n_links != int(A1.sum()) // 2 or \
                (a == 0.0 and b == 0.0 and int(A1.sum()) != nn_ * (nn_ - 1)):
            ctx.fail({"kind": "model", "generator": "set_random_links_by_distance", "invariant": "simple"},
                     "set_random_links_by_distance: result not undirected loop-free / p=1 not complete",
                     {"a": a, "b": b, "A_after": A1.tolist()})
