"""C13 — Data windows select exactly the requested samples; anomalies sum.

proof  : lean/Pyunicorn/Properties/C13.lean (window = filter, shapes, global
         restore, anomaly + phase mean = observable, zero phase means, cache
         coherence over every history)
tie    : correspondence of the Lean model (lean/Pyunicorn/Model/Window.lean)
         with `Data` / `ClimateData` objects driven through the same histories
         of window changes and queries (exact on the integer stream, 1e-9 on
         the dyadic stream)
search : oracle independent of the model: direct boolean selection on the full
         arrays in `Fraction`, shape agreement of every derived series,
         per-phase means of `anomaly()`, `anomaly + phase_mean[phase] ==
         observable`, fresh twin object, global restore, `set_window(window())`,
         objects nested on the library's own arrays, power-of-two rescaled twins,
         shuffled anomalies, selected phases / months incl. wrapping and error cases
round 5: `phase_mean()` / `anomaly()` as executed in IEEE binary64 / binary32 (`flt`, `flt32`: the
         model rounds every operation; arbitrary doubles / float32 / int64 observables, bit-for-bit
         comparison, other orders of summation accepted within the bound proved for every order);
         `set_window` with Python-float bounds that are not float32 numbers (`W32=`: comparisons
         in float32 as NumPy 2 carries them out; judged per axis, no rounding mode prescribed)
round 4: `shuffled_anomaly()` on the recorded raw draw stream (the model runs NumPy's masked
         rejection sampling and Fisher-Yates itself; matrix and number of draws compared exactly),
         proved rounding bounds instead of tolerances in the oracle, masked / packed NetCDF
         variables on the Dataset stand-in
round 3: the cache counter after every step (`cs`), `int(T / time_cycle)` against the source
         expression evaluated by CPython (`ry`), objects loaded with Data.Load /
         ClimateData.Load through an in-memory Dataset stand-in (`runreg`), huge time stamps
"""
import contextlib
import io
import math
import re
import warnings
from fractions import Fraction

import numpy as np

from . import common

TOL = 1e-9
TOL32 = 1e-5     # float32 observables: NumPy accumulates their means in float32
WKEYS = ("time_min", "time_max", "lat_min", "lat_max", "lon_min", "lon_max")


# --------------------------------------------------------------------------
# canonical encoding
# --------------------------------------------------------------------------

def fr(x):
    return Fraction(float(x))


def enc_num(x):
    f = x if isinstance(x, Fraction) else fr(x)
    return str(f.numerator) if f.denominator == 1 else f"{f.numerator}/{f.denominator}"


def enc_vec(v):
    return ",".join(enc_num(x) for x in v) or "-"


def enc_mat(m, shape=None):
    m = np.asarray(m)
    r, c = m.shape if shape is None else shape
    body = ";".join(enc_vec(row) for row in m) if r else "-"
    return f"{r}x{c}:{body}"


def enc_pm(pm, empty_from=None):
    """`empty_from`: phases from this number on have no sample; their rows are unspecified by
    the property (NaN for ndarray observables, 0 for the masked arrays netCDF4 hands out) and are
    written as `nan` like the model's"""
    pm = np.asarray(pm)
    r, c = pm.shape
    rows = []
    for i, row in enumerate(pm):
        if c and (np.all(np.isnan(row)) or (empty_from is not None and i >= empty_from)):
            rows.append("nan")
        else:
            rows.append(enc_vec(row))
    return f"{r}x{c}:" + (";".join(rows) if r else "-")


def enc_imat(m):
    m = np.asarray(m)
    r, c = m.shape
    body = ";".join(",".join(str(int(x)) for x in row) or "-" for row in m) if r else "-"
    return f"{r}x{c}:{body}"


def enc_win(w):
    return "W=" + ",".join(enc_num(w[k]) for k in WKEYS)


def win_of_token(tok):
    vals = [float(Fraction(s)) for s in tok[2:].split(",")]
    return dict(zip(WKEYS, vals))


_NUM = re.compile(r"-?\d+(?:/\d+)?")


def tol_of(case, exact):
    """(relative tolerance, scale): 0 on the exact-integer stream; on the dyadic stream 1e-9
    for float64 / int64 observables, 1e-5 relative to max |observable| for float32 ones"""
    if exact:
        return 0, 1
    if case["dtype"] == "float32":
        return TOL32, max([1.0] + [abs(x) for r in case["obs"] for x in r])
    return TOL, 1


def rounding_units(case, exact):
    """(u, ud): relative error of one + / - and of the division by the sample count in the
    arithmetic NumPy uses for this observable (0 on the exact-integer stream, where every mean
    is an integer below 2^24).  float32 observables: the sum is accumulated in float32, and the
    division by the intp count is carried out in double and rounded to float32 again."""
    if exact:
        return Fraction(0), Fraction(0)
    if case["dtype"] == "float32":
        return Fraction(1, 2 ** 24), Fraction(1, 2 ** 24) + Fraction(1, 2 ** 52)
    return Fraction(1, 2 ** 53), Fraction(1, 2 ** 53)


SHUFFLE_RELAXED = [0]


def _columns_sorted(piece):
    """`TxN:rows@k` -> shape and the sorted columns (what the property fixes of a shuffle)"""
    head = piece.rsplit("@", 1)[0]
    shape, body = head.split(":", 1)
    rows = [] if body == "-" else [[Fraction(x) for x in r.split(",")] for r in body.split(";")]
    return shape + ":" + ";".join(",".join(map(str, sorted(col))) for col in zip(*rows))


def same(model, impl, tol, scale=1):
    """structure identical, numbers equal (tol = 0) or within tol.
    `shuffled_anomaly()` (pieces `...@k`): the model runs NumPy's Fisher-Yates on the recorded raw
    stream, so normally the matrices and the number of draws agree exactly.  A library that
    shuffles in another way (other use of the draws) still satisfies the property as long as
    every column is a rearrangement: such a difference is counted
    (`shuffle:differs-from-fisher-yates-model`), not reported."""
    if model == impl:
        return True
    if "@" in model and "@" in impl:
        a, b = model.split("|"), impl.split("|")
        if len(a) == len(b):
            changed = False
            for k, (x, y) in enumerate(zip(a, b)):
                if x != y and "@" in x and "@" in y and not _same_plain(x, y, tol, scale):
                    try:
                        a[k], b[k] = _columns_sorted(x), _columns_sorted(y)
                    except (ValueError, IndexError):
                        continue
                    changed = True
            if changed:
                SHUFFLE_RELAXED[0] += 1
                return _same_plain("|".join(a), "|".join(b), tol, scale)
    return _same_plain(model, impl, tol, scale)


def _same_plain(model, impl, tol, scale=1):
    if model == impl:
        return True
    if tol == 0:
        return False
    if _NUM.sub("#", model) != _NUM.sub("#", impl):
        return False
    a = [Fraction(s) for s in _NUM.findall(model)]
    b = [Fraction(s) for s in _NUM.findall(impl)]
    return len(a) == len(b) and all(
        abs(x - y) <= tol * max(scale, abs(x)) for x, y in zip(a, b))


# --------------------------------------------------------------------------
# running a history on the real code
# --------------------------------------------------------------------------

@contextlib.contextmanager
def quiet():
    with warnings.catch_warnings():
        warnings.simplefilter("ignore")
        with contextlib.redirect_stdout(io.StringIO()):
            yield


def is_climate(case):
    return case["cls"] in ("ClimateData", "SmallClimate", "LoadClimate")


def is_load(case):
    return case["cls"] in ("LoadClimate", "LoadData")


class FakeVar:
    """stand-in for a NetCDF variable: `var[:]` is the array, `.long_name`, `len(var)`.
    Round 4: like `netCDF4.Variable` with its default `set_auto_maskandscale(True)` a variable
    may be *packed* (integer storage with `scale_factor` / `add_offset` attributes, unpacked on
    access as `raw * scale_factor + add_offset`) and is then returned as a
    `numpy.ma.MaskedArray` (entries equal to `_FillValue` masked; `masked=True` alone = the
    always-masked default of netCDF4 for a variable without missing values)"""
    def __init__(self, a, long_name="a long name", masked=False, scale_factor=None,
                 add_offset=None, fill=None):
        self._a, self.long_name = np.asarray(a), long_name
        self._masked = masked or scale_factor is not None or fill is not None
        if scale_factor is not None:
            self.scale_factor, self.add_offset = scale_factor, add_offset
        if fill is not None:
            self._FillValue = fill

    def __getitem__(self, key):
        a = self._a[key]
        if not self._masked:
            return a
        mask = np.ma.nomask
        if hasattr(self, "_FillValue"):
            mask = a == self._FillValue
        if hasattr(self, "scale_factor"):
            a = a * self.scale_factor + self.add_offset
        return np.ma.MaskedArray(a, mask=mask)

    def __len__(self):
        return len(self._a)


class FakeDataset:
    """in-memory stand-in for `netCDF4.Dataset` / `h5netcdf.legacyapi.Dataset` (no HDF5 backend
    is installed here): the *real* `Data.Load` / `ClimateData.Load` / `_load_data` /
    `_get_netcdf_data` / `GeoGrid.RegularGrid` code runs on it"""
    files = {}

    def __init__(self, file_name, mode="r"):
        self.variables = FakeDataset.files[file_name]

    def ncattrs(self):
        return []

    def close(self):
        pass


def load_obj(case, window):
    """`Data.Load` / `ClimateData.Load` of a regular ("NetCDF": 3-D or 4-D variable) or an
    irregular ("iNetCDF": 2-D or 3-D variable) file"""
    import pyunicorn.core.data as data_mod
    from pyunicorn.core import Data
    from pyunicorn.climate import ClimateData
    ld = case["load"]
    T = len(case["time"])
    obs = np.array(case["obs"], dtype="float64")
    if ld["ftype"] == "NetCDF":
        arr = obs.reshape(T, len(ld["latg"]), len(ld["long"]))
    else:
        arr = obs
    level = ld.get("level")
    if ld["nlev"]:
        # a vertical axis: the requested (default: the first) level holds the data
        shp = list(arr.shape)
        big = np.full([shp[0], ld["nlev"]] + shp[1:], 12345.0)
        big[:, 0 if level is None else level] = arr
        arr = big
    names = ld["names"]
    store = ld.get("store", "plain")
    mk = store != "plain"       # netCDF4 hands out masked arrays for every variable by default
    if store == "packed":
        # integer storage: raw * scale_factor + add_offset reproduces the values exactly
        # (scale_factor = L / 2^m, add_offset = L * k; all products exact in double)
        L, m, k = ld["pack"]
        raw = (arr / L - k) * 2 ** m
        assert np.all(raw == np.round(raw)) and np.abs(raw).max() < 32767 or ld["nlev"]
        if ld["nlev"]:
            raw = np.where(arr == 12345.0, -32768, raw)     # the filler planes are "missing"
            obsvar = FakeVar(raw.astype("int16"), scale_factor=L / 2 ** m, add_offset=float(L * k),
                             fill=-32768)
        else:
            obsvar = FakeVar(raw.astype("int16"), scale_factor=L / 2 ** m, add_offset=float(L * k))
    else:
        obsvar = FakeVar(arr, masked=mk)
    variables = {"obsvar": obsvar, names["time"]: FakeVar(np.array(case["time"]), masked=mk)}
    if ld["ftype"] == "NetCDF":
        variables[names["lat"]] = FakeVar(np.array(ld["latg"]), masked=mk)
        variables[names["lon"]] = FakeVar(np.array(ld["long"]), masked=mk)
    else:
        variables["grid_center_lat"] = FakeVar(np.array(case["lat"]), masked=mk)
        variables["grid_center_lon"] = FakeVar(np.array(case["lon"]), masked=mk)
    FakeDataset.files["mem.nc"] = variables
    old = getattr(data_mod, "Dataset", None)
    data_mod.Dataset = FakeDataset
    try:
        kw = dict(file_name="mem.nc", observable_name="obsvar", file_type=ld["ftype"],
                  window=conv_window(window, case.get("btype", "float")), silence_level=2,
                  vertical_level=level)
        if names != {"lat": "lat", "lon": "lon", "time": "time"}:
            kw["dimension_names"] = names
        if case["cls"] == "LoadClimate":
            return ClimateData.Load(time_cycle=case["c"], **kw)
        return Data.Load(**kw)
    finally:
        if old is None:
            del data_mod.Dataset
        else:
            data_mod.Dataset = old


def conv_window(w, btype):
    """the same numbers as Python floats / ints / NumPy scalars of either width"""
    if w is None or btype == "float":
        return w
    out = {}
    for n, (k, v) in enumerate(w.items()):
        bt = btype if btype != "mixed" else ("float", "np32", "int", "np64")[n % 4]
        if bt == "int":
            out[k] = int(v) if float(v).is_integer() else v
        elif bt == "np32":
            out[k] = np.float32(v)
        elif bt == "np64":
            out[k] = np.float64(v)
        else:
            out[k] = v
    return out


def lay_out(a, layout):
    """caller arrays in different memory layouts (same values)"""
    if layout == "F":
        return np.asfortranarray(a)
    if layout == "strided":
        big = np.zeros((2 * a.shape[0], 3 * a.shape[1]), dtype=a.dtype)
        big[::2, ::3] = a
        return big[::2, ::3]
    return a


def make_obj(case, window="init", base=None, plain=False, scale=None):
    """the object of a case.  `base`: other full data (nested objects); `plain`: always the
    plain constructors on fresh arrays (twins); `scale = (k, j)`: observable * 2^k,
    time axis (and time bounds) * 2^j"""
    from pyunicorn.core import Data, GeoGrid
    from pyunicorn.climate import ClimateData
    if window == "init":
        window = None if case["init"] == "G" else win_of_token(case["init"])
    if case["cls"].startswith("Small") and not plain and base is None:
        assert window is None
        return ClimateData.SmallTestData() if case["cls"] == "SmallClimate" else Data.SmallTestData()
    if is_load(case) and not plain and base is None and scale is None:
        return load_obj(case, window)
    b = base or case
    gdt = "float64" if plain else case.get("gdtype", "float64")
    time = np.array(b["time"], dtype=float)
    obs = np.array(b["obs"], dtype=case["dtype"]).reshape(len(b["time"]), len(b["lat"]))
    if scale is not None:
        k, j = scale
        obs = obs * 2.0 ** k
        time = time * 2.0 ** j
        if window is not None:
            window = dict(window, time_min=window["time_min"] * 2.0 ** j,
                          time_max=window["time_max"] * 2.0 ** j)
    grid = GeoGrid(time.astype(gdt), np.array(b["lat"], dtype=gdt), np.array(b["lon"], dtype=gdt), 2)
    if not plain:
        obs = lay_out(obs, case.get("layout", "C"))
        window = conv_window(window, case.get("btype", "float"))
    if not is_climate(case):
        return Data(obs, grid, window=window, silence_level=2)
    return ClimateData(obs, grid, case["c"], anomalies=bool(case["flag"]), window=window,
                       silence_level=2)


def nest_obj(case, obj):
    """a new object on the arrays the library holds for the current window"""
    from pyunicorn.core import Data
    from pyunicorn.climate import ClimateData
    if not is_climate(case):
        return Data(obj.observable(), obj.grid, silence_level=2)
    return ClimateData(obj.observable(), obj.grid, case["c"], anomalies=bool(case["flag"]),
                       silence_level=2)


def _mt_raw(state, L):
    """the next L raw 32-bit outputs of the legacy generator in the given state"""
    bg = np.random.MT19937()
    bg.state = {"bit_generator": "MT19937", "state": {"key": state[1], "pos": state[2]}}
    return [int(x) for x in bg.random_raw(L)]


def raw_stream(seed, L):
    """the raw 32-bit output stream of `numpy.random` after `numpy.random.seed(seed)`"""
    np.random.seed(seed)
    return _mt_raw(np.random.get_state(), L)


def draws_consumed(ds, T, N):
    """number of raw outputs N successive shuffles of arrays of length T take from the stream
    (masked rejection sampling: a draw is used up whether accepted or not).  Only used to cut
    the recorded stream to the length to send; the model decides on its own how many it takes."""
    k = 0
    for _ in range(N):
        for i in range(T - 1, 0, -1):
            mask = (1 << i.bit_length()) - 1
            while ds[k] & mask > i:
                k += 1
            k += 1
    return k


def shuffle_request(seed, T, N):
    """(token for the model, raw output the generator must produce next after the call)"""
    L = 64 + 6 * T * N
    while True:
        ds = raw_stream(seed, L)
        try:
            k = draws_consumed(ds, T, N)
            if k < L:
                break
        except IndexError:
            pass
        L *= 2
    return "shr=" + (",".join(map(str, ds[:k + 1])) or "-"), ds[k]


def ints_of(s):
    return [int(x) for x in s.split(",")] if s != "-" else []


def do_op(obj, tok, case):
    """one operation on the real object -> canonical output string"""
    try:
        with quiet():
            if tok == "G":
                obj.set_global_window()
                return "ok"
            if tok == "Wc":
                obj.set_window(obj.window())
                return "ok"
            if tok == "X":
                obj.cache_clear()
                return "ok"
            if tok == "cs":
                # the memoisation key of the derived series (the counter `_mut_window`)
                return ",".join(str(int(x)) for x in obj.__cache_state__())
            if tok == "o":
                return enc_mat(obj.observable())
            if tok == "g":
                g = obj.grid.grid()
                return "~".join(enc_vec(g[k]) for k in ("time", "lat", "lon"))
            if tok == "w":
                w = obj.window()
                return enc_vec([w[k] for k in WKEYS])
            if tok == "pm":
                if is_load(case) and case["load"].get("store", "plain") != "plain":
                    return enc_pm(obj.phase_mean(), empty_from=obj.observable().shape[0])
                return enc_pm(obj.phase_mean())
            if tok == "an":
                return enc_mat(obj.anomaly())
            if tok == "pi":
                return enc_imat(obj.phase_indices())
            if tok.startswith("W="):
                obj.set_window(conv_window(win_of_token(tok), case.get("btype", "float")))
                return "ok"
            if tok.startswith("sp="):
                return ",".join(str(int(x)) for x in obj.indices_selected_phases(ints_of(tok[3:]))) or "-"
            if tok.startswith("im="):
                return ",".join(str(int(x)) for x in obj.indices_selected_months(ints_of(tok[3:]))) or "-"
            if tok.startswith("am="):
                return enc_mat(obj.anomaly_selected_months(ints_of(tok[3:])))
            if tok.startswith("sh:"):
                np.random.seed(int(tok[3:]))
                return enc_mat(obj.shuffled_anomaly())
    except (ValueError, ZeroDivisionError, IndexError, NotImplementedError) as e:
        return "raise:" + type(e).__name__
    raise AssertionError("unknown op " + tok)


def request_of(case, ops=None):
    if is_load(case) and case["load"]["ftype"] == "NetCDF":
        # regular file: the model computes the node sequences from the two grid axes itself
        return " ".join(
            ["runreg", str(case["c"]), str(int(case["flag"])), case["init"],
             enc_vec(case["time"]), enc_vec(case["load"]["latg"]), enc_vec(case["load"]["long"]),
             ";".join(enc_vec(r) for r in case["obs"])] + (case["ops"] if ops is None else ops))
    return " ".join(
        ["run", str(case["c"]), str(int(case["flag"])), case["init"],
         enc_vec(case["time"]), enc_vec(case["lat"]), enc_vec(case["lon"]),
         ";".join(enc_vec(r) for r in case["obs"])] + (case["ops"] if ops is None else ops))


# --------------------------------------------------------------------------
# the oracle: the property evaluated on the real object, model-free
# --------------------------------------------------------------------------

def expected_view(case, w):
    """direct boolean selection on the full arrays, exact arithmetic.
    Returns None if the window selects nothing (constructor of the grid raises)."""
    t = [fr(np.float32(x)) for x in case["time"]]
    la = [fr(np.float32(x)) for x in case["lat"]]
    lo = [fr(np.float32(x)) for x in case["lon"]]
    W = {k: fr(v) for k, v in w.items()}
    if W["time_min"] == W["time_max"]:
        ti = list(range(len(t)))
    else:
        ti = [i for i, x in enumerate(t) if W["time_min"] <= x <= W["time_max"]]
    if W["lat_min"] == W["lat_max"] or W["lon_min"] == W["lon_max"]:
        si = list(range(len(la)))
    else:
        si = [j for j in range(len(la))
              if W["lat_min"] <= la[j] <= W["lat_max"] and W["lon_min"] <= lo[j] <= W["lon_max"]]
    if not ti or not si:
        return None
    obs = [[fr(case["obs"][i][j]) for j in si] for i in ti]
    return {"time": [t[i] for i in ti], "lat": [la[j] for j in si], "lon": [lo[j] for j in si],
            "obs": obs}


GLOBAL = dict.fromkeys(WKEYS, 0.0)


def frac_mat(a):
    return [[fr(x) for x in row] for row in np.asarray(a)]


def check_state(ctx, case, obj, view, upto, exact, after="window-change"):
    try:
        return _check_state(ctx, case, obj, view, upto, exact, after)
    except Exception as e:  # noqa  (an exception of the implementation, not of the harness)
        import traceback
        tb = traceback.extract_tb(e.__traceback__)
        if not any("pyunicorn" in f.filename for f in tb):
            raise
        ctx.fail({"class": case["cls"], "method": "query", "kind": "exception", "after": after,
                  "error": type(e).__name__},
                 f"a query raised {type(e).__name__}: {e}", dict(case, ops=case["ops"][:upto]))
        return False


def _check_state(ctx, case, obj, view, upto, exact, after):
    """all clauses of the property on the object's current state; `view` is
    the expected view (exact), `upto` the number of operations executed."""
    cls = case["cls"]

    def bad(method, kind, what, **extra):
        rp = dict(case, ops=case["ops"][:upto], what=what)
        rp.update(extra)
        ctx.fail({"class": cls, "method": method, "kind": kind, "after": after,
                  "anomalies_flag": bool(case["flag"])}, what, rp)
        return False

    ok = True
    with quiet():
        obs = np.asarray(obj.observable())
        g = obj.grid.grid()
        gs = obj.grid.grid_size()
    Tn, Nn = len(view["time"]), len(view["lat"])
    # --- window selects exactly the requested samples
    if obs.shape != (Tn, Nn) or frac_mat(obs) != view["obs"]:
        ok = bad("observable", "selection",
                 f"observable() is not the direct selection: shape {obs.shape}, expected {(Tn, Nn)}",
                 observed=np.asarray(obs).tolist(),
                 expected=[[float(x) for x in r] for r in view["obs"]])
    for k in ("time", "lat", "lon"):
        if [fr(x) for x in g[k]] != view[k]:
            ok = bad("grid", "selection", f"grid.grid()[{k!r}] is not the direct selection",
                     observed=[float(x) for x in g[k]], expected=[float(x) for x in view[k]])
    # --- shapes agree
    if (gs["time"], gs["space"]) != obs.shape or obj.grid.N != obs.shape[1]:
        ok = bad("grid", "shape", f"grid size {gs} does not match observable shape {obs.shape}")
    with quiet():
        w = obj.window()
    exp_w = [min(view["time"]), max(view["time"]), min(view["lat"]), max(view["lat"]),
             min(view["lon"]), max(view["lon"])]
    if [fr(w[k]) for k in WKEYS] != exp_w:
        ok = bad("window", "selection", "window() is not the bounding box of the selected samples",
                 observed=[float(w[k]) for k in WKEYS], expected=[float(x) for x in exp_w])
    if not is_climate(case):
        return ok
    c, flag = case["c"], bool(case["flag"])
    with quiet():
        pm = np.asarray(obj.phase_mean())
        an = np.asarray(obj.anomaly())
        pi = np.asarray(obj.phase_indices())
    if pm.shape != (c, Nn):
        ok = bad("phase_mean", "shape", f"phase_mean() shape {pm.shape}, expected {(c, Nn)}")
    if an.shape != (Tn, Nn):
        return bad("anomaly", "shape",
                   f"anomaly() shape {an.shape}, expected {(Tn, Nn)} "
                   f"(observable() shape {obs.shape})")
    if pi.shape != (c, Tn // c):
        ok = bad("phase_indices", "shape", f"phase_indices() shape {pi.shape}, expected {(c, Tn // c)}")
    else:
        exp_pi = [[i + y * c for y in range(Tn // c)] for i in range(c)]
        if pi.tolist() != exp_pi:
            ok = bad("phase_indices", "value", "phase_indices() are not the complete-year indices "
                     "of each phase", observed=pi.tolist(), expected=exp_pi)
    # Round 4: no chosen tolerance.  On the exact-integer stream the values must be equal; on
    # the other stream the deviations are bounded by the *theorems* float_phase_mean_error,
    # float_anomaly_phase_mean_error and float_addback_error (standard model, any order of
    # summation), evaluated here in exact arithmetic on the values the real code returned.
    u, ud = rounding_units(case, exact)

    # --- phase means are the means of the samples of each phase
    if pm.shape == (c, Nn):
        for i in range(c):
            rows = view["obs"][i::c]
            if not rows:
                # (the row of a phase without samples is NaN for ndarray observables; for the
                # masked arrays of a NetCDF file NumPy stores 0 -- the property does not say)
                if not np.all(np.isnan(pm[i])) and not np.ma.isMaskedArray(obj.observable()):
                    ok = bad("phase_mean", "value", f"phase {i} has no sample but a finite mean")
                continue
            k = len(rows)
            for j in range(Nn):
                m = sum(r[j] for r in rows) / k
                bound = ((1 + u) ** (k - 1) * (1 + ud) - 1) * sum(abs(r[j]) for r in rows) / k
                if (not exact and not math.isnan(pm[i, j]) and fr(pm[i, j]) != m and bound > 0
                        and hasattr(ctx, "extra")):
                    ctx.count("float-bound:phase_mean-entries-actually-rounded")
                    ctx.extra["max_error_over_bound_phase_mean"] = max(
                        ctx.extra.get("max_error_over_bound_phase_mean", 0.0),
                        float(abs(fr(pm[i, j]) - m) / bound))
                if math.isnan(pm[i, j]) or abs(fr(pm[i, j]) - m) > bound:
                    ok = bad("phase_mean", "value",
                             f"phase_mean()[{i},{j}] = {pm[i, j]}, mean of the phase samples is {float(m)}"
                             + ("" if exact else f" (proved rounding bound {float(bound):.3g})"))
                    break
    if flag:
        # data are declared anomalies: anomaly() is the windowed observable
        if frac_mat(an) != view["obs"]:
            ok = bad("anomaly", "value", "anomalies=True: anomaly() differs from observable()")
        return ok
    A = frac_mat(an)
    if pm.shape != (c, Nn):
        return ok
    for i in range(c):
        rows, xs = A[i::c], view["obs"][i::c]
        if not rows:
            continue
        k = len(rows)
        for j in range(Nn):
            if math.isnan(pm[i, j]):
                break       # reported above
            p = fr(pm[i, j])
            m = sum(r[j] for r in rows) / k
            bound = abs(sum(x[j] for x in xs) / k - p) + u * sum(abs(x[j] - p) for x in xs) / k
            if abs(m) > bound:
                ok = bad("anomaly", "zero-mean",
                         f"mean of anomaly() over phase {i}, node {j} is {float(m)}"
                         + ("" if exact else f" (proved rounding bound {float(bound):.3g})"))
                break
    for t in range(Tn):
        for j in range(Nn):
            p = pm[t % c, j]
            if (not exact and not math.isnan(p) and A[t][j] + fr(p) != view["obs"][t][j]
                    and view["obs"][t][j] != fr(p) and hasattr(ctx, "extra")):
                ctx.count("float-bound:add-back-entries-actually-rounded")
                ctx.extra["max_error_over_bound_add_back"] = max(
                    ctx.extra.get("max_error_over_bound_add_back", 0.0),
                    float(abs(A[t][j] + fr(p) - view["obs"][t][j]) / (u * abs(view["obs"][t][j] - fr(p)))))
            if math.isnan(p) or abs(A[t][j] + fr(p) - view["obs"][t][j]) > u * abs(view["obs"][t][j] - fr(p)):
                ok = bad("anomaly", "add-back",
                         f"anomaly()[{t},{j}] + phase_mean()[{t % c},{j}] != observable()[{t},{j}]")
                break
        else:
            continue
        break
    return ok


def expected_indices(c, Tn, tok):
    """definition of indices_selected_phases / indices_selected_months: the sorted indices,
    within the complete years, of the selected phases (negative numbers count from the end
    of the cycle); the exception the call must raise otherwise"""
    sel = ints_of(tok[3:])
    if tok[:2] in ("am", "im"):
        if c == 360:
            sel = [m * 30 + d for m in sel for d in range(30)]
        elif c != 12:
            return "raise:NotImplementedError"
    if any(p < -c or p >= c for p in sel):
        return "raise:IndexError"
    return sorted(p % c + y * c for p in sel for y in range(Tn // c))


def check_selection(ctx, case, obj, view, tok, out, upto):
    """indices_selected_phases / indices_selected_months / anomaly_selected_months
    against their definition (values and error cases)"""
    c, Tn = case["c"], len(view["time"])
    exp = expected_indices(c, Tn, tok)
    method = {"sp": "indices_selected_phases", "im": "indices_selected_months",
              "am": "anomaly_selected_months"}[tok[:2]]
    if isinstance(exp, str) or out.startswith("raise:"):
        good = out == exp
        kind = "error-case"
    elif tok[:2] in ("sp", "im"):
        good = ints_of(out) == exp
        kind = "value"
    else:
        with quiet():
            an = np.asarray(obj.anomaly())
        if an.shape[0] != Tn:
            return      # inconsistent state: reported by check_state
        good = out == enc_mat(an[exp, :] if exp else an[:0, :])
        kind = "value"
    if not good:
        ctx.fail({"class": case["cls"], "method": method, "kind": kind},
                 f"{tok}: result {out[:80]} is not the selection of the complete-year indices "
                 f"{str(exp)[:120]}",
                 dict(case, ops=case["ops"][:upto], observed=out[:300]))


def check_shuffled(ctx, case, obj, view, tok, out, upto):
    """shuffled_anomaly(): shape of anomaly(), every column a rearrangement of the column"""
    with quiet():
        an = np.asarray(obj.anomaly())
    out = out.split("@")[0]
    rows = [] if out.split(":", 1)[1] == "-" else out.split(":", 1)[1].split(";")
    shape = tuple(int(x) for x in out.split(":", 1)[0].split("x"))
    ok = shape == an.shape
    if ok and shape[0] and shape[1]:
        sh = [[Fraction(x) for x in r.split(",")] for r in rows]
        for j in range(shape[1]):
            if sorted(r[j] for r in sh) != sorted(fr(x) for x in an[:, j]):
                ok = False
    if not ok:
        ctx.fail({"class": case["cls"], "method": "shuffled_anomaly", "kind": "value"},
                 f"shuffled_anomaly() (shape {shape}) is not a column-wise rearrangement of "
                 f"anomaly() (shape {an.shape})", dict(case, ops=case["ops"][:upto]))


def twin_check(ctx, case, obj, base, w, upto):
    """a fresh object constructed directly with the current window must show
    the same derived series (detects results that did not follow a window change)"""
    try:
        with quiet():
            twin = make_obj(case, window=w, base=base, plain=True)
            pairs = [("observable", obj.observable(), twin.observable())]
            if is_climate(case):
                pairs += [("phase_mean", obj.phase_mean(), twin.phase_mean()),
                          ("anomaly", obj.anomaly(), twin.anomaly())]
    except Exception as e:  # noqa
        ctx.fail({"class": case["cls"], "method": "__init__", "kind": "twin-raise",
                  "error": type(e).__name__},
                 f"a fresh object with the object's current window raised {type(e).__name__}: {e}",
                 dict(case, ops=case["ops"][:upto], window=w))
        return False
    for nm, a, b in pairs:
        a, b = np.asarray(a), np.asarray(b)
        if nm == "phase_mean" and a.shape == b.shape and np.ma.isMaskedArray(pairs[0][1]):
            # rows of phases without samples are unspecified (0 for masked observables, NaN for
            # the twin's plain array): compare the phases that have samples
            a, b = a[:pairs[0][1].shape[0]], b[:pairs[0][1].shape[0]]
        if a.shape != b.shape or not np.array_equal(a, b, equal_nan=True):
            ctx.fail({"class": case["cls"], "method": nm, "kind": "stale",
                      "anomalies_flag": bool(case["flag"])},
                     f"{nm}() after the history differs from a fresh object with the same window "
                     f"(shapes {a.shape} / {b.shape})",
                     dict(case, ops=case["ops"][:upto], window=w))
            return False
    return True


def rescale_check(ctx, case, obj, base, w, upto):
    """observable * 2^k and time axis * 2^j are exact in floating point: a fresh object on
    the rescaled data, windowed by the rescaled window, must expose exactly the rescaled
    view, phase means and anomalies (independent of the model and of exact arithmetic)"""
    k, j = case["scale"]
    try:
        with quiet():
            twin = make_obj(case, window=w, base=base, plain=True, scale=(k, j))
            pairs = [("observable", np.asarray(obj.observable(), dtype=float) * 2.0 ** k,
                      twin.observable()),
                     ("grid", np.asarray(obj.grid.grid()["time"], dtype=float) * 2.0 ** j,
                      np.asarray(twin.grid.grid()["time"], dtype=float))]
            if is_climate(case):
                pairs += [("phase_mean", obj.phase_mean() * 2.0 ** k, twin.phase_mean()),
                          ("anomaly", obj.anomaly() * 2.0 ** k, twin.anomaly())]
    except Exception as e:  # noqa
        ctx.fail({"class": case["cls"], "method": "__init__", "kind": "rescaled-twin-raise",
                  "error": type(e).__name__},
                 f"an object on the data rescaled by 2^{k} (time 2^{j}) raised "
                 f"{type(e).__name__}: {e}", dict(case, ops=case["ops"][:upto], window=w))
        return
    for nm, a, b in pairs:
        a, b = np.asarray(a), np.asarray(b)
        if a.shape != b.shape or not np.array_equal(a, b, equal_nan=True):
            ctx.fail({"class": case["cls"], "method": nm, "kind": "rescaling",
                      "anomalies_flag": bool(case["flag"])},
                     f"{nm}() of the data rescaled by 2^{k} (time axis by 2^{j}) is not the "
                     f"rescaled {nm}() (shapes {a.shape} / {b.shape})",
                     dict(case, ops=case["ops"][:upto], window=w))
            return


def float_view(view):
    return {"time": [float(x) for x in view["time"]], "lat": [float(x) for x in view["lat"]],
            "lon": [float(x) for x in view["lon"]],
            "obs": [[float(x) for x in r] for r in view["obs"]]}


def run_case(ctx, case, exact, oracle=True):
    """execute the history on the real code; returns (canonical answer, the operations as
    sent to the model)"""
    base = {k: case[k] for k in ("time", "lat", "lon", "obs")}
    w0 = GLOBAL if case["init"] == "G" else win_of_token(case["init"])
    view = expected_view(base, w0)
    try:
        with quiet():
            obj = make_obj(case)
    except ValueError:
        if view is not None and oracle:
            ctx.fail({"class": case["cls"], "method": "__init__", "kind": "raise"},
                     "constructor raised ValueError on a non-empty window", dict(case))
        return "raise:ValueError", list(case["ops"])
    if view is None:
        if oracle:
            ctx.fail({"class": case["cls"], "method": "__init__", "kind": "no-raise"},
                     "constructor accepted an empty window", dict(case))
        return "bad", list(case["ops"])
    cur_w = None if case["init"] == "G" else w0
    outs, concrete = ["ok"], []
    if oracle:
        check_state(ctx, case, obj, view, 0, exact, after="constructor")
    for n, tok in enumerate(case["ops"]):
        if tok == "N":
            # continue with a new object built on the library's arrays of the current window
            concrete.append(tok)
            try:
                with quiet():
                    obj = nest_obj(case, obj)
                outs.append("ok")
            except ValueError:
                outs.append("raise:ValueError")
                if oracle:
                    ctx.fail({"class": case["cls"], "method": "__init__", "kind": "nested-raise"},
                             "constructor raised on observable() / grid of an existing object",
                             dict(case, ops=case["ops"][:n + 1]))
                continue
            base, cur_w = float_view(view), None
            if oracle and check_state(ctx, case, obj, view, n + 1, exact, after="nested-constructor"):
                twin_check(ctx, case, obj, base, cur_w, n + 1)
            continue
        out = do_op(obj, tok, case)
        outs.append(out)
        if tok.startswith("sh:"):
            # round 4: the model gets the raw 32-bit output stream of the generator (exactly the
            # draws the call uses up plus one) and runs the masked rejection sampling and the
            # Fisher-Yates loops itself; "@1" = the generator of the real call stands exactly
            # where the model says (its next raw output is the one draw left over)
            T, N = len(view["time"]), len(view["lat"])
            nxt = _mt_raw(np.random.get_state(), 1)[0]
            req, expect = shuffle_request(int(tok[3:]), T, N)
            concrete.append(req)
            if not out.startswith("raise:"):
                outs[-1] = out + ("@1" if nxt == expect else "@generator-elsewhere")
        else:
            concrete.append(tok)
        if not oracle:
            continue
        if tok.startswith(("sp=", "am=", "im=")):
            check_selection(ctx, case, obj, view, tok, out, n + 1)
        if tok.startswith("sh:") and not out.startswith("raise:"):
            check_shuffled(ctx, case, obj, view, tok, out, n + 1)
        changed, after = False, "cache_clear"
        if tok in ("G", "Wc") or tok.startswith("W="):
            if tok == "G":
                w = GLOBAL
            elif tok == "Wc":
                # the bounding box of the exposed samples, as window() must report it
                w = dict(zip(WKEYS, (float(f(view[k])) for k in ("time", "lat", "lon")
                                     for f in (min, max))))
            else:
                w = win_of_token(tok)
            nv = expected_view(base, w)
            method = {"G": "set_global_window", "Wc": "set_window(window())"}.get(tok, "set_window")
            if nv is None:
                if out != "raise:ValueError":
                    ctx.fail({"class": case["cls"], "method": method, "kind": "no-raise"},
                             "empty window accepted", dict(case, ops=case["ops"][:n + 1]))
                # the object must stay usable and consistent with its previous window
                after = "rejected-window"
            else:
                if out != "ok":
                    ctx.fail({"class": case["cls"], "method": method, "kind": "raise"},
                             f"non-empty window rejected: {out}", dict(case, ops=case["ops"][:n + 1]))
                    continue
                view, cur_w = nv, (None if tok == "G" else w)
                after = method
            changed = True
            if tok == "G" and nv is not None:
                # restoring the global window restores the original view
                assert expected_view(base, GLOBAL) == nv
        if changed or tok == "X":
            if check_state(ctx, case, obj, view, n + 1, exact, after=after):
                twin_check(ctx, case, obj, base, cur_w, n + 1)
    if oracle and case.get("scale") and case["dtype"] == "float64":
        rescale_check(ctx, case, obj, base, cur_w, len(case["ops"]))
    return "|".join(outs), concrete


# --------------------------------------------------------------------------
# generators
# --------------------------------------------------------------------------

def lcm_upto(n):
    out = 1
    for k in range(2, n + 1):
        out = out * k // math.gcd(out, k)
    return out


def gen_axis(rng, n, lo, hi, step, sort=False, ties=True):
    grid = [lo + step * k for k in range(int((hi - lo) / step) + 1)]
    if ties and rng.random() < 0.5:
        xs = [rng.choice(grid) for _ in range(n)]
    else:
        xs = rng.sample(grid, n) if n <= len(grid) else [rng.choice(grid) for _ in range(n)]
    return sorted(xs) if sort else xs


def gen_bounds(rng, xs, step):
    """window bounds: on samples, between samples, outside, coinciding, reversed"""
    lo, hi = min(xs), max(xs)
    r = rng.random()
    if r < 0.12:
        v = rng.choice(xs + [0.0, lo - step])
        return v, v, "degenerate"
    pool = xs + [x + step / 2 for x in xs] + [lo - step, hi + step, lo - 3 * step, hi + 2 * step]
    a, b = rng.choice(pool), rng.choice(pool)
    if r < 0.2:
        return max(a, b) + step, min(a, b), "reversed"
    if r < 0.3:
        return lo - step, hi + step, "all"
    if r < 0.45:
        a, b = rng.choice(xs), rng.choice(xs)
        kind = "on-samples"
    else:
        kind = "mixed"
    a, b = min(a, b), max(a, b)
    if a == b:
        kind = "degenerate"
    return a, b, kind


_SMALL = {}


def small_data(cls):
    """the library's own test data set, read through the public API"""
    if cls not in _SMALL:
        with quiet():
            obj = make_obj({"cls": cls, "init": "G"})
            g = obj.grid.grid()
            _SMALL[cls] = {"time": [float(x) for x in g["time"]], "lat": [float(x) for x in g["lat"]],
                           "lon": [float(x) for x in g["lon"]],
                           "obs": [[float(x) for x in r] for r in obj.observable()]}
    return _SMALL[cls]


def gen_case(ctx, rng, exact, quick):
    r0 = rng.random()
    cls = "ClimateData" if r0 < 0.85 else "Data"
    if not exact and r0 > 0.95:
        cls = rng.choice(["SmallClimate", "SmallData"])
    T = rng.choice([1, 2, 3, 4, 5, 6, 7, 8, 9, 10, 11, 12, 13, 14] if quick else list(range(1, 27)))
    N = rng.choice([1, 2, 3, 4, 5, 6, 7])
    daily = cls == "ClimateData" and rng.random() < (0.015 if quick else 0.01)
    if daily:
        # standardised daily data: the month -> day expansion of indices_selected_months
        c = 360
        T = rng.choice([359, 360, 361, 400, 719, 720, 725])
        N = rng.choice([1, 2])
    elif rng.random() < 0.12:
        c = 12
        T = max(T, rng.choice([12, 13, 24, 25, 30]))
    else:
        c = rng.choice([1, 2, 3, 4, 5, 6, 7, 8, 9, 10, 11, 12, 13])
        if c > T and rng.random() < 0.7:
            c = rng.randrange(1, T + 1)
    tstep = rng.choice([0.25, 0.5, 1.0, 1.5])
    t0 = rng.choice([0.0, 0.0, -3.0, 10.5, 1948.0])
    if rng.random() < 0.12:
        # huge (still float32-exact) time stamps, e.g. hours since a distant epoch: neighbouring
        # bounds differ by far less than 1e-5 relative -- the coinciding-bounds test must be exact
        t0, tstep = rng.choice([(2.0 ** 20, tstep), (-2.0 ** 20, tstep), (2.0 ** 22, 1.0),
                                (2.0 ** 23, 2.0)])
        ctx.count("time-axis:huge-stamps")
    time, t = [], t0
    for _ in range(T):
        time.append(t)
        t += tstep * rng.choice([1, 1, 1, 2, 3] + ([0] if rng.random() < 0.05 else []))
    lat = gen_axis(rng, N, -90.0, 90.0, rng.choice([2.5, 7.5, 22.5]))
    lon = gen_axis(rng, N, rng.choice([-180.0, 0.0]), 180.0, rng.choice([3.75, 11.25, 45.0]))
    dtype = "float64"
    if exact:
        L = lcm_upto(-(-T // c))
        amp = 20
        if L * amp * T < 2 ** 24 and rng.random() < 0.4:
            dtype = "float32"
        elif rng.random() < 0.08:
            dtype = "int64"
        obs = [[float(L * rng.randrange(-amp, amp + 1)) for _ in range(N)] for _ in range(T)]
    else:
        den = rng.choice([1, 4, 64, 1024])
        obs = [[rng.randrange(-2000, 2001) / den for _ in range(N)] for _ in range(T)]
        # caller arrays of other types whose means are NOT representable exactly
        r = rng.random()
        if den == 1 and r < 0.5:
            dtype = "int64"
        elif r < 0.25:
            dtype = "float32"
    flag = 1 if (cls == "ClimateData" and rng.random() < 0.3) else 0
    if cls.startswith("Small"):
        sd = small_data(cls)
        time, lat, lon, obs = sd["time"], sd["lat"], sd["lon"], sd["obs"]
        T, N, c, tstep, flag, dtype = len(time), len(lat), 5, 1.0, 0, "float64"
    climate = cls in ("ClimateData", "SmallClimate")

    def gen_window():
        r = rng.random()
        if r < 0.08:
            return dict(GLOBAL), ("global",) * 3
        a, b, k1 = gen_bounds(rng, time, tstep)
        c1, d1, k2 = gen_bounds(rng, lat, 1.25)
        e1, f1, k3 = gen_bounds(rng, lon, 1.25)
        if r < 0.6:
            # anchored: a box around one existing node and one time stamp
            # (mostly non-empty; bounds on / next to samples)
            j = rng.randrange(N)
            ex = [0.0, 0.0, 1.25, 2.5, 22.5, 45.0]
            c1, d1 = lat[j] - rng.choice(ex), lat[j] + rng.choice(ex)
            e1, f1 = lon[j] - rng.choice(ex), lon[j] + rng.choice(ex)
            i0, i1 = sorted((rng.randrange(T), rng.randrange(T)))
            if daily and rng.random() < 0.7:
                i0, i1 = rng.randrange(0, 3), T - 1 - rng.randrange(0, 3)
            a, b = time[i0] - rng.choice([0, 0, tstep / 2]), time[i1] + rng.choice([0, 0, tstep / 2])
            k1 = k2 = k3 = "anchored"
            if a == b:
                k1 = "degenerate"
            if c1 == d1:
                k2 = "degenerate"
            if e1 == f1:
                k3 = "degenerate"
        return dict(zip(WKEYS, (a, b, c1, d1, e1, f1))), (k1, k2, k3)

    init = "G"
    if rng.random() < 0.25 and not cls.startswith("Small"):
        w, kinds = gen_window()
        init = enc_win(w)
    ops = []
    nwin = rng.randrange(1, 5 if quick else 11)
    if daily:
        nwin = min(nwin, 3)
    queries = ["o", "g", "w"] + (["pm", "an", "pi"] if climate else [])

    def some_phases(n, lo, hi):
        """mostly valid numbers of [-n, n), sometimes just outside"""
        out = []
        for _ in range(rng.randrange(lo, hi + 1)):
            r = rng.random()
            if r < 0.7:
                out.append(rng.randrange(n))
            elif r < 0.93:
                out.append(-rng.randrange(1, n + 1))
            else:
                out.append(rng.choice([n, -n - 1, n + 3]))
        if any(p < 0 for p in out):
            ctx.count("selection:negative-numbers")
        if any(p < -n or p >= n for p in out):
            ctx.count("selection:out-of-range")
        return ",".join(map(str, out)) or "-"

    def some_queries():
        qs = [q for q in queries if rng.random() < (0.3 if daily else 0.6)]
        rng.shuffle(qs)
        if climate and rng.random() < 0.35:
            qs.append("sp=" + some_phases(c, 0, min(c, 4)))
        if climate and (c in (12, 360) or rng.random() < 0.05):
            qs.append(rng.choice(["am=", "am=", "im="]) + some_phases(12, 0, 3))
        if climate and rng.random() < 0.12:
            qs.append(f"sh:{rng.randrange(10 ** 6)}")
            ctx.count("op:shuffled_anomaly")
        if climate and rng.random() < 0.1:
            qs.append("X")
        if climate and rng.random() < 0.3:
            qs.append("cs")
        return qs

    ops += some_queries()
    for _ in range(nwin):
        r = rng.random()
        if r < 0.2:
            ops.append("G")
            ctx.count("op:set_global_window")
        elif r < 0.3:
            ops.append("Wc")
            ctx.count("op:set_window(window())")
        else:
            w, kinds = gen_window()
            ops.append(enc_win(w))
            ctx.count("op:set_window")
            for ax, k in zip(("time", "lat", "lon"), kinds):
                ctx.count(f"window:{ax}:{k}")
        ops += some_queries()
        if rng.random() < 0.06:
            ops.append("N")
            ctx.count("op:nested-constructor")
            ops += some_queries()
    if rng.random() < 0.5:
        ops += ["G", "o", "g"] + (["pm", "an"] if climate else [])
    gdtype = "float32" if rng.random() < 0.3 else "float64"
    layout = rng.choice(["C", "C", "F", "strided"])
    btype = rng.choice(["float", "float", "int", "np32", "np64", "mixed"])
    scale = None
    if dtype == "float64" and rng.random() < 0.4:
        scale = (rng.choice([-100, -40, -1, 1, 10, 40, 100]), rng.choice([-60, -7, 0, 3, 40, 80]))
        ctx.count("oracle:rescaled-twin")
    ctx.count(f"class:{cls}")
    ctx.count("cycle:" + ("divides" if T % c == 0 else "exceeds" if c > T else "not-dividing")
              + (":360" if daily else ""))
    ctx.count(f"anomalies_flag:{flag}")
    ctx.count(f"dtype:{dtype}")
    ctx.count(f"grid-dtype:{gdtype}")
    ctx.count(f"layout:{layout}")
    ctx.count(f"bounds-type:{btype}")
    return {"cls": cls, "c": c, "flag": flag, "init": init, "time": time, "lat": lat,
            "lon": lon, "obs": obs, "dtype": dtype, "ops": ops, "gdtype": gdtype,
            "layout": layout, "btype": btype, "scale": scale}


def gen_load_case(ctx, rng):
    """a file loaded through `Data.Load` / `ClimateData.Load` (in-memory Dataset stand-in):
    regular grids (3-D / 4-D variable) and irregular ones (2-D / 3-D), default and custom
    dimension names, with and without constructor window, then an ordinary history.
    The loader casts everything to float32: integer data with integer means below 2^24."""
    cls = "LoadClimate" if rng.random() < 0.8 else "LoadData"
    T = rng.randrange(1, 13)
    c = rng.choice([1, 2, 3, 4, 5, 12, 13])
    if c > T and rng.random() < 0.6:
        c = rng.randrange(1, T + 1)
    ftype = rng.choice(["NetCDF", "NetCDF", "iNetCDF"])
    if ftype == "NetCDF":
        latg = sorted(rng.sample([-45.0, -22.5, 0.0, 7.5, 22.5, 45.0, 67.5], rng.randrange(1, 4)))
        long = rng.sample([-90.0, 0.0, 11.25, 45.0, 90.0, 135.0], rng.randrange(1, 4))
        if rng.random() < 0.5:
            long.sort()
        lat = [la for la in latg for _ in long]       # definition: every latitude with all longitudes
        lon = [lo for _ in latg for lo in long]
    else:
        latg = long = None
        N = rng.randrange(1, 6)
        lat = gen_axis(rng, N, -90.0, 90.0, 22.5)
        lon = gen_axis(rng, N, 0.0, 180.0, 45.0)
    N = len(lat)
    tstep = rng.choice([0.5, 1.0, 1.5])
    time = [rng.choice([0.0, 10.5, 2.0 ** 20]) + tstep * k for k in range(T)]
    time = [time[0] + tstep * k for k in range(T)]
    L = lcm_upto(-(-T // c))
    obs = [[float(L * rng.randrange(-20, 21)) for _ in range(N)] for _ in range(T)]
    nlev = rng.choice([0, 0, 1, 3])
    level = None if (nlev == 0 or rng.random() < 0.4) else rng.randrange(nlev)
    names = {"lat": "lat", "lon": "lon", "time": "time"}
    if rng.random() < 0.3:
        names = {"lat": "latitude", "lon": "longitude", "time": "t"}
    climate = cls == "LoadClimate"
    # round 4: how the file stores the variable (what netCDF4 hands out for it)
    store = rng.choice(["plain", "masked", "packed", "packed"])
    pack = (L, rng.randrange(0, 10), rng.randrange(-5, 6))
    ctx.count(f"load:storage:{store}")

    def win():
        j, i0, i1 = rng.randrange(N), rng.randrange(T), rng.randrange(T)
        i0, i1 = min(i0, i1), max(i0, i1)
        ex = [0.0, 0.0, 7.5, 22.5, 45.0]
        return dict(zip(WKEYS, (time[i0] - rng.choice([0, tstep / 2]), time[i1] + rng.choice([0, tstep / 2]),
                                lat[j] - rng.choice(ex), lat[j] + rng.choice(ex),
                                lon[j] - rng.choice(ex), lon[j] + rng.choice(ex))))
    init = enc_win(win()) if rng.random() < 0.4 else "G"
    qs = ["o", "g", "w"] + (["pm", "an", "pi", "cs"] if climate else [])
    ops = list(qs)
    for _ in range(rng.randrange(1, 4)):
        r = rng.random()
        ops.append("G" if r < 0.2 else "Wc" if r < 0.3 else enc_win(win()))
        ops += [q for q in qs if rng.random() < 0.6]
    ctx.count(f"class:{cls}")
    ctx.count(f"load:{ftype}:{'4-D' if nlev and ftype == 'NetCDF' else '3-D' if (nlev or ftype == 'NetCDF') else '2-D'}")
    ctx.count("load:" + ("custom-dimension-names" if names["lat"] != "lat" else "default-names"))
    return {"cls": cls, "c": c, "flag": 0, "init": init, "time": time, "lat": lat, "lon": lon,
            "obs": obs, "dtype": "float32", "ops": ops, "gdtype": "float32", "layout": "C",
            "btype": rng.choice(["float", "int", "np32", "mixed"]), "scale": None,
            "load": {"ftype": ftype, "latg": latg, "long": long, "nlev": nlev, "level": level,
                     "names": names, "store": store, "pack": pack}}


def edge_cases():
    """hand-written corner histories (always run first)"""
    base = {"cls": "ClimateData", "c": 3, "flag": 0, "init": "G", "dtype": "float64",
            "time": [0.0, 1.0, 2.0, 3.0, 4.0, 5.0, 6.0],
            "lat": [0.0, 5.0, 10.0], "lon": [1.0, 2.0, 3.0],
            "obs": [[35 * x for x in r] for r in
                    [[0.0, 12.0, 24.0], [12.0, 24.0, 36.0], [24.0, 0.0, 12.0], [36.0, 12.0, 0.0],
                     [48.0, 60.0, 0.0], [12.0, 12.0, 12.0], [0.0, 0.0, 12.0]]]}
    W = "W=1,5,0,5,0,5"
    hs = [
        ["pm", "an", W, "o", "g", "w", "pm", "an", "pi", "G", "o", "pm", "an"],
        ["pm", "an", "W=10,11,0,0,0,0", "o", "g", "pm", "an", "G", "o"],        # empty time axis
        ["pm", "an", "W=0,0,20,30,0,5", "o", "g", "pm", "an"],                    # empty space
        ["W=1,5,0,0,2,3", "o", "g", "W=1,5,5,10,2,2", "o", "g", "W=3,3,0,5,1,2", "o", "g"],
        ["W=5,1,0,5,0,5", "o", "an"],                                              # reversed
        ["W=1,1,5,5,2,2", "o", "g", "w"],
        [W, "an", "X", "an", "pm", "W=2,6,0,10,1,3", "an", "pm", "sp=0,2", "sp=3", "am=1"],
    ]
    out = []
    for flag in (0, 1):
        for c in (1, 2, 3, 7, 9):
            for h in hs:
                out.append(dict(base, c=c, flag=flag, ops=list(h)))
    out.append(dict(base, init="W=1,5,0,5,0,5", ops=["o", "g", "pm", "an", "G", "o", "an"]))
    out.append(dict(base, init="W=8,9,0,5,0,5", ops=["o"]))
    out.append(dict(base, cls="Data", ops=[W, "o", "g", "w", "W=10,11,0,0,0,0", "o", "g", "G", "o"]))
    t12 = [float(i) for i in range(26)]
    out.append(dict(base, c=12, time=t12, obs=[[float(360360 * ((i * 7 + j) % 5)) for j in range(3)]
                                              for i in range(26)],
                    ops=["am=0,1", "am=11", "W=1,24,0,0,0,0", "am=0,5", "pi", "am=12", "sp=12"]))
    # round 2: wrapping / out-of-range phase numbers, set_window(window()), nested objects,
    # shuffled anomalies, caller arrays of both widths / layouts, bounds as NumPy scalars
    hs2 = [
        ["sp=-1,0", "sp=-3", "sp=3", "sp=-4", W, "sp=-1", "Wc", "o", "g", "pm", "an", "sh:7"],
        [W, "N", "o", "g", "w", "pm", "an", "W=2,4,0,5,0,5", "o", "an", "G", "o", "N", "an"],
        ["W=3,3,0,5,1,2", "Wc", "o", "g", "W=2,2,5,5,0,9", "Wc", "o", "w"],
        ["W=2,2,5,5,2,2", "Wc", "o", "g", "w", "sh:1", "X", "sh:2"],
    ]
    for n, h in enumerate(hs2):
        out.append(dict(base, ops=list(h), gdtype=("float32", "float64")[n % 2],
                        layout=("F", "strided", "C")[n % 3], btype=("np32", "mixed", "int", "np64")[n % 4],
                        scale=(40, -7)))
        out.append(dict(base, flag=1, c=2, ops=list(h), dtype="float32", btype="int"))
    out.append(dict(base, cls="Data", ops=[W, "Wc", "o", "N", "g", "w", "W=2,4,0,5,0,5", "o", "G", "o"],
                    layout="strided", btype="np32", scale=(-100, 80)))
    out.append(dict(base, c=12, time=t12, dtype="int64",
                    obs=[[float(360360 * ((i * 7 + j) % 5)) for j in range(3)] for i in range(26)],
                    ops=["am=-1,0", "im=-12,11", "im=12", "im=-13", "W=1,24,0,0,0,0", "am=-1", "im=0,0"]))
    t360 = [float(i) / 4 for i in range(725)]
    o360 = [[float(6 * ((i * 7 + 3 * j) % 11 - 5)) for j in range(2)] for i in range(725)]
    out.append(dict(base, c=360, time=t360, lat=[0.0, 5.0], lon=[1.0, 2.0], obs=o360,
                    ops=["im=0", "im=-1,1", "am=11", "im=12", "pi", "W=1/4,181,0,0,0,0", "im=0,11",
                         "am=-12", "W=1/4,90,0,0,0,0", "im=3", "am=3", "pm", "sp=359,-360", "sp=360"]))
    out.append(dict(base, c=7, time=t12, obs=[[float(i)] * 3 for i in range(26)], ops=["im=1", "am=1"]))
    # round 3: the cache counter along histories with repeated global restores (with and
    # without a constructor window), and huge time stamps with neighbouring bounds
    hs3 = [
        ["cs", "an", "pm", "G", "cs", "an", W, "cs", "an", "pm", "G", "cs", "an", "G", "cs", W, "cs", "an"],
        ["cs", "an", "W=10,11,0,0,0,0", "cs", "an", "G", "cs", "Wc", "cs", "an", "N", "cs", "an", "G", "cs"],
    ]
    for h in hs3:
        for init in ("G", W):
            for flag in (0, 1):
                out.append(dict(base, init=init, flag=flag, ops=list(h)))
    for t0, st in ((2.0 ** 20, 0.25), (2.0 ** 22, 1.0), (-2.0 ** 20, 0.5), (2.0 ** 23, 2.0)):
        tt = [t0 + st * k for k in range(7)]
        e = lambda k: enc_num(t0 + st * k)      # noqa: E731
        out.append(dict(base, time=tt, ops=[
            f"W={e(1)},{e(2)},0,0,0,0", "o", "g", "w", "an", f"W={e(3)},{e(3)},0,0,0,0", "o", "g",
            f"W={enc_num(t0 + st * 1.5)},{e(4)},0,5,0,5", "o", "g", "pm", "Wc", "o",
            f"W={e(5)},{e(6)},0,0,0,0", "o", "an", "G", "o"], gdtype="float32", btype="np64",
            scale=(10, 3)))
    return out


# --------------------------------------------------------------------------

def run(ctx):
    rng = ctx.rng
    quick = ctx.tier == "quick"
    ctx.rule = ("case = (class, cycle, anomalies flag, constructor window, irregular float32-exact "
                "grid, observable, history of set_window / set_global_window / set_window(window()) / "
                "nested constructor / cache_clear and queries); distinct = distinct canonical "
                "request; non-trivial = at least one window change that keeps some but not all samples")
    ctx.trusted = common.DEFAULT_TRUSTED + [
        "NumPy boolean-mask / strided indexing, ndarray.min/max: modelled as their mathematical "
        "operations on rationals; ndarray.mean / the subtraction of the mean: modelled exactly on "
        "the history streams and, round 5, as executed in IEEE binary64 / binary32 (every operation "
        "rounded to nearest-even, sum over axis 0 row after row; compared bit for bit with the real "
        "results on arbitrary doubles, another order of summation being accepted within the bound "
        "proved for every order); the float32 comparison of set_window: the exact comparison on "
        "float32 numbers (theorem float32_comparison_exact), modelled with the conversion of "
        "Python-float bounds to float32 (applyWindow32) on the float32-bounds stream",
        "functools.lru_cache keyed by (id, _mut_window): modelled as an association list with "
        "arbitrary eviction",
        "numpy.random.shuffle = masked rejection sampling (random_interval) + Fisher-Yates on the raw "
        "32-bit outputs of MT19937 (modelled; the harness records the raw stream after "
        "numpy.random.seed and the model's result, incl. the number of outputs used up, is compared "
        "exactly with the real call on every run); MT19937 itself is not modelled",
        "CPython's int / int true division returns the double nearest to the exact quotient "
        "(modelled by rn53; that int(T / time_cycle) then equals T // time_cycle for T < 2^53 is the "
        "theorem rangeYearsF_eq, and the model is compared with the source expression on every run)",
        "the in-memory stand-in for netCDF4.Dataset used to drive Data.Load / ClimateData.Load "
        "(variables[name][:], .long_name, close()); NumPy's C-order reshape (n_time, -1)",
    ]
    ctx.assumptions = [
        "coordinates and window bounds are float32-exact (NumPy 2 compares a float32 array with a "
        "Python float in float32)",
        "time_cycle >= 1; the 'anomalies' flag is fixed at construction",
        "degenerate latitude OR longitude bounds select the whole spatial extent (documented "
        "behaviour, DESIGN section 9)",
    ]
    ctx.proofs()
    if not quick:
        rc, out = common._run(["lake", "env", "leanchecker", "Pyunicorn.Properties.C13"],
                              cwd=common.LEAN, timeout=1800)
        ctx.obligation("leanchecker replays Pyunicorn.Properties.C13 through the kernel",
                       "lean-kernel", rc == 0, out[-600:])

    n_exact = 1200 if quick else 12000
    n_dyadic = 300 if quick else 3000
    cases = [(c, True) for c in edge_cases()]
    cases += [(gen_case(ctx, rng, True, quick), True) for _ in range(n_exact)]
    cases += [(gen_case(ctx, rng, False, quick), False) for _ in range(n_dyadic)]
    cases += [(gen_load_case(ctx, rng), True) for _ in range(150 if quick else 1500)]

    reqs, impl, exacts = [], [], []
    for case, exact in cases:
        nfail = len(ctx.failures)
        out, concrete = run_case(ctx, case, exact, oracle=True)
        impl.append(out)
        reqs.append(request_of(case, concrete))
        if len(ctx.failures) > nfail and ctx.extra.get("shrunk", 0) < 12:
            shrink_failures(ctx, case, exact, nfail)
        exacts.append(exact)
        full = len(case["time"]) * len(case["lat"])
        nontriv = False
        for tok in case["ops"]:
            if tok == "N":
                break       # the full data set changes
            if tok.startswith("W="):
                v = expected_view(case, win_of_token(tok))
                if v is None:
                    ctx.count("selection:empty(rejected)")
                elif len(v["time"]) * len(v["lat"]) < full:
                    nontriv = True
                    ctx.count("selection:proper-subset")
                else:
                    ctx.count("selection:everything")
        ctx.case(reqs[-1], nontriv,
                 {"request": reqs[-1][:400]} if len(reqs[-1]) < 400 else None)
        ctx.count("stream:" + ("exact-integer" if exact else "dyadic-tolerance"))
    for out in impl:
        for piece in out.split("|"):
            if piece.startswith("raise:"):
                ctx.count("outcome:" + piece)

    float_division(ctx, rng)
    float_execution(ctx, rng, quick)
    float32_bounds(ctx, rng, quick)

    model = common.driver(ctx.pid, reqs)
    bad = [i for i in range(len(reqs))
           if not same(model[i], impl[i], *tol_of(cases[i][0], exacts[i]))]

    def first_diff(i):
        a, b = model[i].split("|"), impl[i].split("|")
        ops = ["<init>"] + cases[i][0]["ops"]
        for k, (x, y) in enumerate(zip(a, b)):
            if not same(x, y, *tol_of(cases[i][0], exacts[i])):
                return f"op#{k} {ops[k]}: model={x[:160]} impl={y[:160]}"
        return f"lengths {len(a)}/{len(b)}"

    ctx.obligation(
        f"correspondence: Lean Window model == Data/ClimateData histories ({len(reqs)} requests)",
        "correspondence", not bad,
        "\n".join(f"{reqs[i][:300]} :: {first_diff(i)}" for i in bad[:5]))
    ctx.count("shuffle:differs-from-fisher-yates-model", 0)
    if SHUFFLE_RELAXED[0]:
        ctx.count("shuffle:differs-from-fisher-yates-model", SHUFFLE_RELAXED[0])
    ctx.extra["requests_compared"] = len(reqs)
    ctx.extra["operations_compared"] = sum(len(c["ops"]) + 1 for c, _ in cases)


def float_division(ctx, rng):
    """`range_years = int(T / time_cycle)`: the model's IEEE evaluation (`rangeYearsF`, proved
    equal to `T // c` below 2^53) against the *source expression* of `phase_indices`, compiled
    from the current tree and evaluated by CPython -- also beyond 2^53, where the two differ"""
    import ast
    import os
    import types
    path = os.path.join(common.REPO, "src/pyunicorn/climate/climate_data.py")
    expr = None
    for n in ast.walk(ast.parse(open(path).read())):
        if isinstance(n, ast.FunctionDef) and n.name == "phase_indices":
            for st in ast.walk(n):
                if isinstance(st, ast.Assign) and ast.unparse(st.targets[0]) == "range_years":
                    expr = compile(ast.Expression(st.value), path, "eval")
    if expr is None:
        ctx.obligation("float division: `range_years = ...` found in phase_indices", "correspondence",
                       False, "assignment not found")
        return
    pairs = [(7, 3), (1, 1), (0, 5), (2 ** 53 - 1, 3), (2 ** 53 + 1, 1), (2 ** 53 - 1, 1),
             (2 ** 53 + 3, 2), (3 * 2 ** 52 + 1, 3), (2 ** 54 - 1, 1), (2 ** 60 + 12345, 360),
             (2 ** 53 - 5, 360), (2 ** 53 - 5, 12)]
    for _ in range(400):
        c = rng.choice([1, 2, 3, 5, 7, 12, 13, 360, 365, rng.randrange(1, 10 ** 6)])
        r = rng.random()
        if r < 0.4:
            T = rng.randrange(0, 10 ** 6)
        elif r < 0.7:
            # just below a multiple of the cycle, close to 2^53: the quotient lies 1/c below an integer
            T = max(0, (rng.randrange(2 ** 50, 2 ** 53) // c) * c - rng.choice([0, 1, 2]))
        else:
            T = rng.randrange(2 ** 52, 2 ** 56)
        pairs.append((T, c))
    impl, beyond, differ = [], 0, 0
    for T, c in pairs:
        stub = types.SimpleNamespace(time_cycle=c, grid=types.SimpleNamespace(
            grid_size=lambda T=T: {"time": T, "space": 1}))
        v = eval(expr, {"int": int, "np": np}, {"self": stub})    # noqa: S307 (the source's expression)
        impl.append(f"{int(v)} {T // c}")
        beyond += T >= 2 ** 53
        differ += int(v) != T // c
        if T < 2 ** 53 and int(v) != T // c:
            ctx.fail({"class": "ClimateData", "method": "phase_indices", "kind": "range_years"},
                     f"int(T / c) = {int(v)} but T // c = {T // c} for T = {T} < 2^53, c = {c}",
                     {"T": T, "c": c})
    model = common.driver(ctx.pid, [f"ry {T} {c}" for T, c in pairs])
    bad = [f"T={T} c={c}: model={m} impl={i}" for (T, c), m, i in zip(pairs, model, impl) if m != i]
    ctx.obligation(f"correspondence: IEEE model of `int(T / time_cycle)` == the source expression "
                   f"evaluated by CPython ({len(pairs)} pairs, {beyond} beyond 2^53, "
                   f"{differ} where it is not T // c)", "correspondence", not bad, "\n".join(bad[:5]))
    ctx.count("float-division:pairs", len(pairs))


def float_execution(ctx, rng, quick):
    """Round 5: `phase_mean()` / `anomaly()` of float64 / float32 / int64 observables with
    *arbitrary* values (not dyadic toy values) against the Lean model of the computation as
    executed in IEEE arithmetic (`flPhaseMeanLoop`, `flAnomalyOf` with `ops64` / `ops32`: every
    + / - / division rounded to nearest-even, the sum over axis 0 row after row; float32: the
    division in double, rounded to binary32 again).  Theorems `ieee_phase_mean_error`,
    `ieee_anomaly_add_phase_mean`, `ieee32_...` are about exactly these models.  The property
    does not fix the order of summation, and NumPy uses another one (pairwise, eight
    accumulators) for phases with 8 or more samples when the reduced axis is contiguous, so an
    entry must either equal the model bit for bit or -- any other order -- lie within the bound
    proved for every order (`float_phase_mean_error`, `float_addback_error`), evaluated in exact
    arithmetic.  Shapes and NaN rows must agree exactly."""
    from pyunicorn.core import GeoGrid
    from pyunicorn.climate import ClimateData
    reqs, impl, meta = [], [], []
    for _ in range(160 if quick else 1600):
        T = rng.choice([1, 2, 3, 5, 7, 8, 9, 12, 16, 17, 24, 33, 40])
        N = rng.choice([1, 1, 2, 3, 5])
        c = rng.choice([1, 2, 3, 4, 5, 7, 12, 13])
        dtype = rng.choice(["float64", "float64", "float32", "int64"])
        kind = rng.choice(["gauss", "gauss", "wide", "cancel", "dyadic", "neg"])

        def val():
            if dtype == "int64":
                return rng.choice([rng.randrange(-1000, 1000), rng.randrange(-2 ** 40, 2 ** 40),
                                   rng.randrange(2 ** 52, 2 ** 53)])
            if kind == "gauss":
                return rng.gauss(0, 1)
            if kind == "wide":
                return rng.gauss(0, 1) * 10.0 ** rng.choice([-30, -3, 0, 3, 30])
            if kind == "cancel":
                big = 1e16 if dtype == "float64" else 1e7
                return rng.choice([big, -big, 1.0, -1.0, 3.14]) + rng.random()
            if kind == "neg":
                return -abs(rng.gauss(5, 1))
            return rng.randrange(-64, 64) / 8.0
        obs = np.array([[val() for _ in range(N)] for _ in range(T)], dtype=dtype)
        layout = rng.choice(["C", "F", "strided"])
        grid = GeoGrid(np.arange(T, dtype=float), np.arange(N, dtype=float),
                       np.arange(N, dtype=float), 2)
        w = None
        if T > 2 and rng.random() < 0.4:
            w = {"time_min": 1., "time_max": float(T - 1), "lat_min": 0.,
                 "lat_max": float(max(N - 2, 0)), "lon_min": 0., "lon_max": float(N)}
        with quiet():
            d = ClimateData(lay_out(obs, layout), grid, c, window=w, silence_level=2)
            O = np.asarray(d.observable())
            pm, an = np.asarray(d.phase_mean()), np.asarray(d.anomaly())
        if O.dtype != np.dtype(dtype) or not np.all(np.isfinite(O.astype(float))):
            ctx.count("float-execution:skipped(dtype changed or overflow)")
            continue
        # int64 observables: NumPy's mean converts the samples to double first (exact below 2^53)
        FO = [[Fraction(int(x)) if dtype == "int64" else fr(x) for x in row] for row in O]
        reqs.append(("flt32" if dtype == "float32" else "flt") + f" {c} "
                    + ";".join(enc_vec(r) for r in FO))
        impl.append((FO, O.shape, pm, an, dtype))
        meta.append(f"T={O.shape[0]} N={O.shape[1]} c={c} dtype={dtype} values={kind} "
                    f"layout={layout} window={w}")
        ctx.count("float-execution:dtype:" + dtype)
        ctx.count("float-execution:values:" + ("integers" if dtype == "int64" else kind))
    model = common.driver(ctx.pid, reqs)
    bad, n_exact, n_other, n_entries = [], 0, 0, 0
    for req, (FO, shape, pm, an, dtype), m, what in zip(reqs, impl, model, meta):
        c = int(req.split()[1])
        if dtype == "float32":
            u, ud = Fraction(1, 2 ** 24), Fraction(1, 2 ** 24) + Fraction(1, 2 ** 52)
        else:
            u = ud = Fraction(1, 2 ** 53)
        try:
            mpm, man = m.split("|")
            if (mpm.split(":")[0], man.split(":")[0]) != (f"{pm.shape[0]}x{pm.shape[1]}",
                                                          f"{an.shape[0]}x{an.shape[1]}"):
                bad.append(f"{what}: shapes model {mpm.split(':')[0]} / {man.split(':')[0]}, "
                           f"implementation {pm.shape} / {an.shape}")
                continue
            mrows = mpm.split(":", 1)[1].split(";")
            arows = [[Fraction(x) for x in r.split(",")] for r in man.split(":", 1)[1].split(";")]
        except (ValueError, IndexError):
            bad.append(f"{what}: unreadable model answer {m[:120]}")
            continue
        for i in range(c):
            nan_impl = bool(np.all(np.isnan(pm[i])))
            if (mrows[i] == "nan") != nan_impl:
                bad.append(f"{what}: NaN row {i}: model {mrows[i] == 'nan'}, implementation {nan_impl}")
                continue
            if nan_impl:
                continue
            mrow = [Fraction(x) for x in mrows[i].split(",")]
            k = len(range(i, len(FO), c))
            for j in range(shape[1]):
                n_entries += 1
                v = fr(pm[i, j])
                if v == mrow[j]:
                    n_exact += 1
                    continue
                n_other += 1
                ctx.count("float-execution:other-order:" + ("k<8" if k < 8 else "k>=8"))
                col = [FO[t][j] for t in range(i, len(FO), c)]
                bound = ((1 + u) ** (k - 1) * (1 + ud) - 1) * sum(abs(x) for x in col) / k
                if abs(v - sum(col) / k) > bound:
                    bad.append(f"{what}: phase_mean()[{i},{j}] = {float(v)!r} is neither the IEEE "
                               f"model's {float(mrow[j])!r} nor within the proved bound {float(bound):.3g} "
                               f"of the exact mean {float(sum(col) / k)!r}")
        for t in range(shape[0]):
            for j in range(shape[1]):
                n_entries += 1
                a = fr(an[t, j])
                if a == arows[t][j]:
                    n_exact += 1
                    continue
                n_other += 1
                mh = fr(pm[t % c, j])
                if abs(a + mh - FO[t][j]) > u * abs(FO[t][j] - mh):
                    bad.append(f"{what}: anomaly()[{t},{j}] = {float(a)!r} is neither the IEEE "
                               f"model's {float(arows[t][j])!r} nor within one rounding of "
                               f"observable - phase_mean")
    ctx.obligation(
        f"correspondence: phase_mean() / anomaly() of float64 / float32 / int64 observables == the "
        f"IEEE binary64 / binary32 model as executed ({len(reqs)} objects, {n_entries} entries: "
        f"{n_exact} bit for bit, {n_other} summed in another order and within the bound proved for "
        f"every order)",
        "correspondence", not bad, "\n".join(bad[:5]))
    ctx.count("float-execution:entries", n_entries)
    ctx.count("float-execution:bit-exact", n_exact)
    ctx.count("float-execution:other-order", n_other)


def float32_bounds(ctx, rng, quick):
    """Round 5: window bounds given as Python floats that are *not* float32 numbers.  NumPy 2
    converts such a bound to the grid's float32 and compares in float32; the model does the same
    (`applyWindow32`: `rn32` of the bounds, coinciding-bounds tests on the unrounded floats).
    `float32_comparison_exact` proves that on float32 numbers this is the exact comparison (all other
    streams); `float32_bound_rounding_changes_selection` shows the difference otherwise.  These
    windows are outside the stated claim (interpretation decision), so this stream is a
    correspondence only and prescribes no rounding mode: per axis, every sample on which the
    float32 model and the exact model agree must be treated that way by the implementation; a
    sample on which they differ may go either way (a library comparing one axis or one bound in
    double still passes).  What the implementation does is counted."""
    from pyunicorn.core import GeoGrid
    from pyunicorn.climate import ClimateData
    reqs32, reqsx, impl, meta = [], [], [], []
    for _ in range(120 if quick else 1200):
        T, N, c = rng.randrange(3, 10), rng.randrange(2, 6), rng.choice([1, 2, 3])
        scale = rng.choice([1, 1, 2 ** 10, 2 ** -6])
        time = sorted(rng.sample(range(-40, 80), T))
        time = [t / 8 * scale for t in time]
        lat = [rng.randrange(-80, 80) / 8 for _ in range(N)]
        lon = [rng.randrange(0, 160) / 8 for _ in range(N)]
        obs = [[float(t * N + j) for j in range(N)] for t in range(T)]   # entry = identity of (t, j)

        def near(xs):
            x = rng.choice(xs)
            r = rng.random()
            if r < 0.25:
                return x
            if r < 0.7:       # closer to the sample than half a float32 ulp: rounds onto it
                return x + rng.choice([-1, 1]) * max(abs(x), 2.0 ** -10) * 2.0 ** -rng.choice([26, 30, 40])
            if r < 0.85:      # clearly off the sample
                return x + rng.choice([-1, 1]) * max(abs(x), 1.0) * 2.0 ** -rng.choice([10, 20])
            return x + rng.choice([0.1, -0.1, 1 / 3])
        b = sorted([near(time), near(time)]) + sorted([near(lat), near(lat)]) \
            + sorted([near(lon), near(lon)])
        r = rng.random()
        if r < 0.3:
            b[2] = b[3] = 0.0           # whole spatial extent: the time axis decides
        elif r < 0.4:
            b[0] = b[1]                 # whole time axis
        w = dict(zip(WKEYS, (float(x) for x in b)))
        tok = ",".join(enc_num(w[k]) for k in WKEYS)
        head = ["run", str(c), "0", "G", enc_vec(time), enc_vec(lat), enc_vec(lon),
                ";".join(enc_vec(row) for row in obs)]
        grid = GeoGrid(np.array(time), np.array(lat), np.array(lon), 2)
        with quiet():
            d = ClimateData(np.array(obs), grid, c, silence_level=2)
            try:
                d.set_window(w)
                out = "ok|" + enc_mat(d.observable())
            except ValueError:
                out = "ok|raise:ValueError"
            else:
                g = d.grid.grid()
                out += "|" + "~".join(enc_vec(g[k]) for k in ("time", "lat", "lon"))
                out += "|" + ",".join(str(int(x)) for x in d.__cache_state__())
        reqs32.append(" ".join(head + ["W32=" + tok, "o", "g", "cs"]))
        reqsx.append(" ".join(head + ["W=" + tok, "o", "g", "cs"]))
        impl.append(out)
        meta.append((N, f"time={time} lat={lat} lon={lon} window={w}"))
    m32 = common.driver(ctx.pid, reqs32)
    mx = common.driver(ctx.pid, reqsx)

    def norm(ans):
        """model answer `ok|ok|o|g|cs` / `ok|raise:ValueError|...` -> the implementation's format"""
        p = ans.split("|")
        return "ok|raise:ValueError" if len(p) > 1 and p[1].startswith("raise") else "|".join([p[0]] + p[2:])

    def axes(ans, N):
        p = ans.split("|")
        if len(p) < 2 or p[1].startswith("raise"):
            return None
        body = p[1].split(":", 1)[1]
        ids = [[int(Fraction(x)) for x in row.split(",")] for row in body.split(";")]
        ts, ns = [row[0] // N for row in ids], [x % N for x in ids[0]]
        if ids != [[t * N + j for j in ns] for t in ts]:
            return "not-a-product"
        return set(ts), set(ns), ts, ns
    bad, cnt = [], {"both": 0, "float32": 0, "exact": 0, "mixed": 0, "not-judged": 0}
    for a, b, i, (N, what) in zip(m32, mx, impl, meta):
        a, b = norm(a), norm(b)
        if i == a or i == b:
            cnt["both" if a == b else ("float32" if i == a else "exact")] += 1
            continue
        A, B, I = axes(a, N), axes(b, N), axes(i, N)
        if I == "not-a-product":
            bad.append(f"{what[:300]} :: observable() is not rows x columns of the full data: {i[:200]}")
        elif A is None or B is None or I is None:
            if I is None and A is not None and B is not None:
                bad.append(f"{what[:300]} :: ValueError, but both models select samples")
            else:
                cnt["not-judged"] += 1
        elif all((A[k] & B[k]) <= I[k] <= (A[k] | B[k]) for k in (0, 1)) \
                and I[2] == sorted(I[2]) and I[3] == sorted(I[3]):
            cnt["mixed"] += 1
        else:
            bad.append(f"{what[:300]} :: float32 model={a[:160]} exact model={b[:160]} impl={i[:160]}")
    ctx.obligation(
        f"correspondence: set_window with Python-float bounds that are not float32 numbers "
        f"({len(impl)} windows: {cnt['both']} where rounding the bounds does not matter, {cnt['float32']} "
        f"as the float32 model, {cnt['exact']} as the exact model, {cnt['mixed']} in between)",
        "correspondence", not bad, "\n".join(bad[:5]))
    for k, v in cnt.items():
        ctx.count("float32-bounds:" + k, v)


class _Probe:
    """stand-in context used while shrinking"""
    def __init__(self):
        self.sigs = []

    def fail(self, signature, what, replay):
        self.sigs.append(common._canon(signature))
        return "new"


def shrink_failures(ctx, case, exact, nfail):
    """delta-debug the history of the first new failure (same signature must persist)"""
    target = common._canon(ctx.failures[nfail]["signature"])

    def still(ops):
        pr = _Probe()
        try:
            run_case(pr, dict(case, ops=list(ops)), exact, oracle=True)
        except Exception:  # noqa
            return False
        return target in pr.sigs

    ops = common.shrink_list(case["ops"], still)
    pr = []

    class Rec(_Probe):
        def fail(self, signature, what, replay):
            if common._canon(signature) == target:
                pr.append((signature, what, replay))
            return "new"
    run_case(Rec(), dict(case, ops=ops), exact, oracle=True)
    if pr:
        sig, what, rp = pr[0]
        for f in ctx.failures[nfail:]:
            if common._canon(f["signature"]) == target:
                f["what"], f["replay"] = what, dict(rp, shrunk_from_ops=len(case["ops"]))
                break
    ctx.extra["shrunk"] = ctx.extra.get("shrunk", 0) + 1


def replay(ctx, rp):
    case = rp["replay"]
    if "T" in case and "cls" not in case:
        T, c = case["T"], case["c"]
        if int(T / c) != T // c and T < 2 ** 53:
            ctx.fail({"class": "ClimateData", "method": "phase_indices", "kind": "range_years"},
                     f"int(T / c) != T // c for T = {T}, c = {c}", dict(case))
        return
    case = {k: case[k] for k in ("cls", "c", "flag", "init", "time", "lat", "lon", "obs",
                                 "dtype", "ops", "gdtype", "layout", "btype", "scale", "load") if k in case}
    if case.get("scale"):
        case["scale"] = tuple(case["scale"])
    run_case(ctx, case, False, oracle=True)
