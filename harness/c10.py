"""C10 — Similarity and coupling estimates equal reference statistics.

proof  : lean/Pyunicorn/Properties/C10.lean (lag bookkeeping, first-strict-|max| rule,
         symmetrize_by_absmax, histogram index walks, mirrored / unmirrored MI matrices,
         signed-square Pearson: symmetry / bound / affine invariance / relabelling, ranks and
         their sum, quantile symbols, compiled == pure-Python windows, partial covariances of
         the Gaussian estimators (|r| <= 1 through residual vectors), normalised inverse; round 3:
         the kNN kernel (growing cube, bounded insertion sort, counts, termination), only_tri /
         _calculate_mi of the pure-Python class, surrogate matrices for every draw; slice / loop
         arithmetic regenerated from the source by translate/gen_arith.py (arith_C10.json))
tie    : exact correspondence of the Lean model with the compiled kernels at the kernel
         boundary on dyadic / small-integer inputs (rationals, integers, counts), and a
         tolerance correspondence (float32) with CouplingAnalysis.cross_correlation
search : independent reference statistics (numpy / scipy / brute force) on the real code,
         relational checks (symmetry, bounds, affine images, reordered series), compiled vs.
         pure-Python CouplingAnalysis, climate similarity classes, Surrogates.test_*
"""
import contextlib
import io
import math
import os
import tempfile
import warnings
from fractions import Fraction

import numpy as np

from . import common

TOL = 1e-5          # single-precision pipelines (relative, plus TOL absolute near 0)


# --------------------------------------------------------------------------
# helpers
# --------------------------------------------------------------------------

def frac(x):
    return Fraction(x)


def enc_rat(x):
    f = Fraction(x)
    return str(f.numerator) if f.denominator == 1 else f"{f.numerator}/{f.denominator}"


def enc_rats(xs):
    xs = list(xs)
    return ",".join(enc_rat(x) for x in xs) if xs else "-"


def enc_ints(xs):
    xs = list(xs)
    return ",".join(str(int(x)) for x in xs) if xs else "-"


def dec_rats(s):
    return [] if s == "-" else [Fraction(t) for t in s.split(",")]


def dec_ints(s):
    return [] if s == "-" else [int(t) for t in s.split(",")]


def canon_q(v, maxden):
    """canonical exact form of a float that is known to be a rational with a small
    denominator rounded to float32"""
    v = float(v)
    if not math.isfinite(v):
        return "nan"
    f = Fraction(v).limit_denominator(maxden)
    if abs(float(f) - v) > 4e-7 * max(1.0, abs(v)):
        return f"float:{v!r}"
    return enc_rat(f)


def close(a, b, tol=TOL):
    a = np.asarray(a, dtype=float)
    b = np.asarray(b, dtype=float)
    if a.shape != b.shape:
        return False
    nan_a, nan_b = np.isnan(a), np.isnan(b)
    if (nan_a != nan_b).any():
        return False
    ok = ~nan_a
    with np.errstate(invalid="ignore"):
        inf_ok = (np.isinf(a) & np.isinf(b) & (np.sign(a) == np.sign(b)))
        return bool(np.all(inf_ok[ok] | (np.abs(a[ok] - b[ok]) <= tol * (1.0 + np.abs(b[ok])))))


@contextlib.contextmanager
def quiet():
    with warnings.catch_warnings():
        warnings.simplefilter("ignore")
        with np.errstate(all="ignore"):
            with contextlib.redirect_stdout(io.StringIO()):
                yield


def ssq(v):
    v = np.asarray(v, dtype=float)
    return np.sign(v) * v * v


def lst(a):
    return np.asarray(a).tolist()


# --------------------------------------------------------------------------
# reference statistics (independent of pyunicorn and of the Lean model)
# --------------------------------------------------------------------------

def ref_pearson(x, y):
    """Pearson r from the definition; 0 for a series without variance (the library's
    documented correction 'nodes with zero variance')."""
    x = np.asarray(x, dtype=float)
    y = np.asarray(y, dtype=float)
    xm, ym = x - x.mean(), y - y.mean()
    vx, vy = float(xm @ xm), float(ym @ ym)
    if vx <= 1e-24 * max(1.0, float(x @ x)) or vy <= 1e-24 * max(1.0, float(y @ y)):
        return 0.0
    return float(xm @ ym) / math.sqrt(vx * vy)


def ref_xcorr(data, tau_max):
    """[i, j, lag] = corr(x_i(t - lag), x_j(t)) over t = tau_max .. T-1 (explicit shifting)"""
    T, N = data.shape
    out = np.zeros((N, N, tau_max + 1))
    for i in range(N):
        for j in range(N):
            for lag in range(tau_max + 1):
                xi = np.array([data[t - lag, i] for t in range(tau_max, T)])
                xj = np.array([data[t, j] for t in range(tau_max, T)])
                out[i, j, lag] = ref_pearson(xi, xj)
    return out


def ref_hist_mi(sa, sb, nb):
    """MI (nats) of two symbol sequences from numpy.histogram2d"""
    n = len(sa)
    h, _, _ = np.histogram2d(sa, sb, bins=[np.arange(nb + 1) - 0.5] * 2)
    p = h / n
    px, py = p.sum(1), p.sum(0)
    mi = 0.0
    for a in range(nb):
        for b in range(nb):
            if p[a, b] > 0:
                mi += p[a, b] * math.log(p[a, b] / (px[a] * py[b]))
    return mi


def mi_from_counts(h2, ha, hb, n):
    """Σ p_lm log(p_lm / (p_l p_m)) from integer counts (the model's output)"""
    mi = 0.0
    nb = len(ha)
    for a in range(nb):
        for b in range(nb):
            c = h2[a * nb + b]
            if c > 0 and ha[a] > 0 and hb[b] > 0:
                mi += (c / n) * math.log((c / n) / (hb[b] / n) / (ha[a] / n))
    return mi


def ref_uniform_symbols(x, lo, hi, nb):
    """equal-width bins over the common range [lo, hi]; the maximum goes to the last bin"""
    x = np.asarray(x, dtype=float)
    s = np.floor((x - lo) / (hi - lo) * nb).astype(int)
    return np.clip(s, 0, nb - 1)


def ref_quantile_symbols(x, bins):
    """equal-quantile symbols: bin edges at every ceil(T/bins)-th order statistic"""
    x = np.asarray(x, dtype=float)
    T = len(x)
    step = -(-T // bins)
    edges = np.sort(x)[::step]
    return np.searchsorted(edges, x, side="right") - 1


def ref_partial_corr(x, y, Z):
    """partial correlation by regression residuals (least squares, with intercept)"""
    n = len(x)
    if Z is None or len(Z) == 0:
        return ref_pearson(x, y)
    A = np.column_stack([np.ones(n)] + [np.asarray(z, dtype=float) for z in Z])
    rx = x - A @ np.linalg.lstsq(A, x, rcond=None)[0]
    ry = y - A @ np.linalg.lstsq(A, y, rcond=None)[0]
    den = float(rx @ rx) * float(ry @ ry)
    if den <= 0.0:
        return float("nan")
    return float(rx @ ry) / math.sqrt(den)


def gauss_cmi(r):
    with np.errstate(all="ignore"):
        return float(-0.5 * np.log(1.0 - r * r))


def ref_knn_counts(arr, dim_x, dim_y, k):
    """brute-force KSG neighbour counts (max-norm, strict <, reference point included)"""
    dim, T = arr.shape
    kxz, kyz, kz = [], [], []
    for i in range(T):
        # the kernel subtracts float32 values in float32; differences that round to the same
        # float32 tie there, so the reference forms them in the precision of its input
        d = np.abs(arr - arr[:, [i]]).astype(float)
        dj = d.max(axis=0)
        eps = np.sort(dj)[k]
        dx = d[:dim_x].max(axis=0)
        dy = d[dim_x:dim_x + dim_y].max(axis=0)
        dz = d[dim_x + dim_y:].max(axis=0) if dim > dim_x + dim_y else np.zeros(T)
        inz = dz < eps
        kz.append(int(inz.sum()))
        kxz.append(int((inz & (dx < eps)).sum()))
        kyz.append(int((inz & (dy < eps)).sum()))
    return kxz, kyz, kz


def avg_ranks(x):
    x = np.asarray(x, dtype=float)
    return np.array([(x < v).sum() + ((x == v).sum() + 1) / 2.0 for v in x])


# --------------------------------------------------------------------------
# generators
# --------------------------------------------------------------------------

def gen_data(rng, nprng, T, N, kind):
    """(T, N) float64 data with the structures the statement names"""
    if kind == "int":
        d = nprng.randint(-4, 5, size=(T, N)).astype(float)
    elif kind == "ar":
        d = nprng.randn(T, N)
        for t in range(1, T):
            d[t] += 0.6 * d[t - 1]
    else:
        d = nprng.randn(T, N)
    feats = []
    if N >= 2 and rng.random() < 0.5:
        # lagged copy: x_j(t) = ± x_i(t - lag) + noise
        i, j = rng.sample(range(N), 2)
        lag = rng.randrange(0, min(4, T - 2))
        s = rng.choice([1.0, -1.0])
        nz = 0.0 if kind == "int" else 0.3
        d[lag:, j] = s * d[:T - lag, i] + nz * nprng.randn(T - lag)
        feats.append("lagged")
    r = rng.random()
    if r < 0.12:
        d[:, rng.randrange(N)] = float(rng.randrange(-2, 3))
        feats.append("constant")
    elif r < 0.24 and N >= 2:
        i, j = rng.sample(range(N), 2)
        d[:, j] = d[:, i]
        feats.append("duplicated")
    elif r < 0.36 and N >= 2:
        i, j = rng.sample(range(N), 2)
        d[:, j] = -2.0 * d[:, i] + 1.0
        feats.append("anticorrelated")
    return d, feats


def flat_series_major(d):
    return enc_rats(Fraction(float(v)) for v in d.T.reshape(-1))


# --------------------------------------------------------------------------

class Cor:
    """collects requests whose answers are compared numerically (tolerance) or exactly"""

    def __init__(self, ctx, name):
        self.ctx, self.name = ctx, name
        self.reqs, self.cmp = [], []

    def add(self, req, compare):
        """compare(model_answer) -> None | str (description of the disagreement)"""
        self.reqs.append(req)
        self.cmp.append(compare)

    def run(self):
        model = common.driver(self.ctx.pid, self.reqs)
        bad = []
        for i, (m, c) in enumerate(zip(model, self.cmp)):
            try:
                r = c(m)
            except Exception as e:  # noqa
                r = f"comparator raised {type(e).__name__}: {e}"
            if r:
                bad.append((i, r))
        self.ctx.obligation(
            f"correspondence: {self.name} ({len(self.reqs)} requests)", "correspondence",
            not bad, "\n".join(f"{self.reqs[i][:300]} :: {r[:300]}" for i, r in bad[:5]))
        self.ctx.extra["requests_compared"] = \
            self.ctx.extra.get("requests_compared", 0) + len(self.reqs)
        return bad


def exact(impl):
    return lambda m: None if m == impl else f"model={m[:200]} impl={impl[:200]}"


# --------------------------------------------------------------------------

def run(ctx):
    rng = ctx.rng
    nprng = np.random.RandomState(rng.randrange(2 ** 31))
    quick = ctx.tier == "quick"
    ctx.rule = (
        "kernel level: small-integer / dyadic arrays (exact rationals, counts, lags; many ties) "
        "for _cross_correlation_max/_all, _symmetrize_by_absmax, climate mutual_information, "
        "_test_pearson_correlation, _test_mutual_information, _quantile_bin_array, bincount_hist, "
        "rank_time_series; data level: T in 3..600, N in 2..6 (also N > T), tau_max 0..5, integer, "
        "white, AR data with lagged / constant / duplicated / anti-correlated series; round 2: pure-Python "
        "_calculate_cc on small-integer arrays, integer data T 12..30 for the Gaussian estimators (past 1..2, "
        "ity/mit), partial correlation N 2..4, tau_max up to 12, bins up to 10, float32 caller arrays, "
        "power-of-two affine images 2^(+-20), 2^(+-40), 8-call histories on one object, T up to 90000 for the "
        "binned estimator; round 3: _get_nearest_neighbors on tied small-integer / half-integer / power-of-two-scaled "
        "arrays (T 2..39, dim 2..6, every k < T), only_tri and _calculate_mi of the pure-Python class on small "
        "integer / symbol arrays, surrogate matrices on re-played numpy draws (float32/float64, C/F), 8-call "
        "histories on one pure-Python object; round 5: rational matrices N 1..6 (regular, singular, row swaps, 2^+-40 row "
        "scalings) for the elimination / numpy.linalg.inv, exactly collinear integer series N 2..6 (duplicate, affine, "
        "anti-correlated copy, sum of two, combination of three) and reordered / power-of-two affine images of "
        "well-conditioned series through PartialCorrelationClimateNetwork, ragged tie-free rows T 1..59 for "
        "_quantile_bin_array; distinct = "
        "distinct (suite, shape, data, parameters); non-trivial = at least two non-constant series")
    ctx.trusted = common.DEFAULT_TRUSTED + [
        "log, sqrt, digamma, numpy.corrcoef, numpy.linalg.inv/pinv, scipy.linalg.qr are library "
        "calls: not modelled, exercised through the reference statistics (tolerance 1e-5 relative)",
        "float32 rounding of exactly representable rationals (kernel-level canonicalisation "
        "through limit_denominator with a 4e-7 guard)",
    ]
    ctx.proofs()

    import time
    stages = ctx.extra.setdefault("stage_seconds", {"proofs": round(time.time() - ctx.t0, 1)})
    for fn in (kernel_level, data_level_model, model_round2, model_round3, model_round4, model_round5, oracle_coupling, oracle_wide, oracle_long_lags,
               oracle_periodic, oracle_knn, oracle_pure_python, oracle_climate, oracle_surrogates):
        t0 = time.time()
        try:
            fn(ctx, rng, nprng, quick)
        except Exception as e:  # noqa
            # an exception that escapes from the implementation (innermost Python frame inside the
            # pyunicorn package) on an input the stage generated is a failing input, not a machinery
            # problem; anything raised by the harness itself is re-raised (exit 2)
            import traceback
            tb = traceback.extract_tb(e.__traceback__)
            last = tb[-1].filename.replace(os.sep, "/") if tb else ""
            if "/pyunicorn/" not in last or "/harness/" in last:
                raise
            ctx.fail({"kind": "crash", "stage": fn.__name__, "exception": type(e).__name__},
                     f"the implementation raised {type(e).__name__}: {e} "
                     f"({os.path.basename(last)}:{tb[-1].lineno}) on an input of stage {fn.__name__}",
                     {"stage": fn.__name__, "seed": ctx.seed, "tier": ctx.tier,
                      "traceback": [ln.rstrip() for ln in traceback.format_exception(e)[-8:]]})
        stages[fn.__name__] = round(time.time() - t0, 1)
    print("  stages:", stages)


# --------------------------------------------------------------------------
# kernel level: exact correspondence + direct specification
# --------------------------------------------------------------------------

def kernel_level(ctx, rng, nprng, quick):
    from pyunicorn.funcnet._ext import numerics as FK
    from pyunicorn.funcnet import CouplingAnalysis
    from pyunicorn.climate._ext import numerics as CK
    from pyunicorn.timeseries._ext import numerics as TK
    from pyunicorn.climate import SpearmanClimateNetwork

    cor = Cor(ctx, "Lean Coupling model == compiled kernels (exact)")

    # ---- _cross_correlation_max / _all on small-integer arrays (ties frequent) ----
    ncc = 250 if quick else 2500
    for c in range(ncc):
        N = rng.choice([1, 2, 2, 3, 3, 4])
        tm = rng.choice([0, 1, 1, 2, 3, 5])
        cr = rng.choice([1, 2, 3, 4, 6, 9])
        hi = rng.choice([1, 1, 2, 3])
        A = nprng.randint(-hi, hi + 1, size=(tm + 1, N, cr)).astype(np.float32)
        if rng.random() < 0.25 and tm >= 1 and N >= 2:
            # exact |tie| with opposite signs between two lags
            A[0] = -A[tm]
        if c == 0:
            A[:] = 0
        flat = enc_ints(A.reshape(-1))
        vals, lags = FK._cross_correlation_max(A.copy(), N, tm, cr)
        impl = enc_q(vals.reshape(-1), cr) + ";" + enc_ints(lags.reshape(-1))
        cor.add(f"ccmax {N} {tm} {cr} {flat}", exact(impl))
        allv = FK._cross_correlation_all(A.copy(), N, tm, cr)
        cor.add(f"ccall {N} {tm} {cr} {flat}", exact(enc_q(allv.reshape(-1), cr)))
        ctx.case(("cc", N, tm, cr, A.tobytes().hex()), N >= 2 and bool(A.any()),
                 {"kernel": "_cross_correlation_max/_all", "N": N, "tau_max": tm,
                  "corr_range": cr, "array": lst(A)} if cr <= 3 and N <= 2 else None)
        ctx.count("kernel:cross_correlation")
        ctx.count(f"kernel:cc:tau_max={tm}")
        # direct specification (independent of the model)
        spec_cc(ctx, A, N, tm, cr, vals, lags, allv)

    # ---- _symmetrize_by_absmax ----
    for c in range(200 if quick else 2000):
        N = rng.choice([1, 2, 3, 4, 5])
        S = nprng.randint(-8, 9, size=(N, N)) / 8.0
        if rng.random() < 0.4:
            # ties |S_ij| = |S_ji| with either sign
            S = np.triu(S) + np.triu(S, 1).T * rng.choice([1, -1])
        L = nprng.randint(-5, 6, size=(N, N))
        if rng.random() < 0.1:
            L[nprng.rand(N, N) < 0.3] = rng.choice([127, -128, -127])
        S32, L8 = S.astype(np.float32), L.astype(np.int8)
        rs, rl = FK._symmetrize_by_absmax(S32.copy(), L8.copy(), N)
        impl = enc_q(rs.reshape(-1), 8) + ";" + enc_ints(rl.reshape(-1))
        cor.add(f"symabs {N} {enc_rats(map(Fraction, S.reshape(-1)))} {enc_ints(L.reshape(-1))}",
                exact(impl))
        ctx.case(("symabs", N, S32.tobytes().hex(), L8.tobytes().hex()), N >= 2,
                 {"kernel": "_symmetrize_by_absmax", "S": lst(S), "L": lst(L)} if N == 2 else None)
        ctx.count("kernel:symmetrize_by_absmax")
        spec_symabs(ctx, S32, L8, rs, rl)

    # ---- climate mutual_information kernel: dyadic anomalies, exact symbols ----
    mimaps = {}
    for c in range(120 if quick else 1200):
        N = rng.choice([1, 2, 3, 4])
        n = rng.choice([1, 2, 3, 5, 8, 13, 20])
        nb = rng.choice([1, 2, 3, 4, 5, 8])
        den = rng.choice([4, 8, 16])
        lo = rng.choice([0, -1, -2])
        span = rng.choice([1, 2, 4])
        K = nprng.randint(0, span * den + 1, size=(N, n))
        if rng.random() < 0.5:
            K[nprng.randint(N), nprng.randint(n)] = span * den      # the maximum: rescaled == 1
            K[nprng.randint(N), nprng.randint(n)] = 0
        an = (lo + K / den).astype(np.float32)
        scaling = 1.0 / span
        mi = CK.mutual_information(an.copy(), n, N, nb, scaling, float(lo))
        req = f"mihist {N} {n} {nb} {enc_rat(Fraction(scaling))} {lo} " \
              f"{enc_rats(map(Fraction, an.reshape(-1).tolist()))}"
        cor.add(req, cmp_mihist(mi, N, n, nb, mimaps))
        ctx.case(("mihist", N, n, nb, an.tobytes().hex(), scaling, lo), N >= 2 and n >= 2,
                 {"kernel": "climate mutual_information", "anomaly": lst(an), "n_bins": nb,
                  "scaling": scaling, "range_min": lo} if N == 2 and n <= 3 else None)
        ctx.count("kernel:climate_mutual_information")
        spec_mi(ctx, "climate.mutual_information", an, an, lo, lo + span, nb, mi, mirror=True)
    for N in range(1, 6):
        cor.add(f"mimap {N}", lambda m, N=N: mimaps.__setitem__(N, dec_ints(m)))
        cor.add(f"tmimap {N}", lambda m, N=N: tmimaps.__setitem__(N, dec_ints(m)))
    # (mimap answers are consumed by cmp_mihist on the second pass below)

    # ---- Surrogates test kernels ----
    tmimaps = {}
    for c in range(120 if quick else 1200):
        N = rng.choice([1, 2, 3, 4])
        n = rng.choice([1, 2, 3, 5, 8, 13])
        O = nprng.randint(-3, 4, size=(N, n)).astype(float)
        S = nprng.randint(-3, 4, size=(N, n)).astype(float)
        r = TK._test_pearson_correlation(O.copy(), S.copy(), N, n)
        cor.add(f"tpear {N} {n} {enc_ints(O.reshape(-1))} {enc_ints(S.reshape(-1))}",
                exact(enc_q(r.reshape(-1), n)))
        ctx.case(("tpear", N, n, O.tobytes().hex(), S.tobytes().hex()), N >= 2,
                 {"kernel": "_test_pearson_correlation", "original": lst(O), "surrogates": lst(S)}
                 if N == 2 and n <= 3 else None)
        ctx.count("kernel:test_pearson_correlation")
        exp = (O @ S.T) / n
        np.fill_diagonal(exp, 0.0)
        if not close(r, exp, 1e-6):
            ctx.fail({"kind": "kernel", "kernel": "_test_pearson_correlation"},
                     "_test_pearson_correlation differs from original @ surrogates.T / n_time",
                     {"original": lst(O), "surrogates": lst(S), "expected": lst(exp), "observed": lst(r)})
        # MI test kernel, dyadic data; the wrapper derives range and scaling itself
        nb = rng.choice([1, 2, 3, 4, 8])
        den = rng.choice([4, 8])
        span = rng.choice([1, 2, 4])
        lo = rng.choice([0, -1])
        KO = nprng.randint(0, span * den + 1, size=(N, n))
        KS = nprng.randint(0, span * den + 1, size=(N, n))
        KO[nprng.randint(N), nprng.randint(n)] = 0
        KS[nprng.randint(N), nprng.randint(n)] = span * den
        if n == 1 and N == 1:
            continue
        Od, Sd = lo + KO / den, lo + KS / den
        mi = TK._test_mutual_information(Od.copy(), Sd.copy(), N, n, nb)
        req = f"tmi {N} {n} {nb} {enc_rat(Fraction(1, span))} {lo} " \
              f"{enc_rats(map(Fraction, Od.reshape(-1).tolist()))} " \
              f"{enc_rats(map(Fraction, Sd.reshape(-1).tolist()))}"
        cor.add(req, cmp_tmi(mi, N, n, nb, tmimaps))
        ctx.case(("tmi", N, n, nb, Od.tobytes().hex(), Sd.tobytes().hex()), N >= 2 and n >= 2)
        ctx.count("kernel:test_mutual_information")
        spec_mi(ctx, "_test_mutual_information", Od, Sd, lo, lo + span, nb, mi, mirror=False)

    # ---- quantile binning, bincount histogram ----
    for c in range(150 if quick else 1500):
        T = rng.choice([1, 2, 3, 4, 6, 7, 12, 20, 30])
        bins = rng.choice([1, 2, 3, 4, 6, 8])
        if rng.random() < 0.5:
            row = nprng.permutation(T).astype(float)             # tie-free
        else:
            row = nprng.randint(0, max(2, T // 2), size=T).astype(float)   # ties
        arr = np.array([row, row[::-1].copy()])
        symb = CouplingAnalysis._quantile_bin_array(arr, bins=bins)
        cor.add(f"qbin {bins} {enc_ints(row)}", exact(enc_ints(symb[0])))
        ctx.case(("qbin", bins, row.tobytes().hex()), T >= 2)
        ctx.count("kernel:quantile_bin_array")
        ref = ref_quantile_symbols(row, bins)
        if list(map(int, symb[0])) != list(map(int, ref)):
            ctx.fail({"kind": "kernel", "kernel": "_quantile_bin_array"},
                     "_quantile_bin_array differs from searchsorted on every ceil(T/bins)-th order statistic",
                     {"row": lst(row), "bins": bins, "expected": lst(ref), "observed": lst(symb[0])})
        if symb.min() >= 0:
            base = int(symb.max() + 1)
            h = CouplingAnalysis.bincount_hist(symb.astype(np.int32))
            cor.add(f"bincount {T} {base} {enc_ints(symb[0])} {enc_ints(symb[1])}",
                    exact(enc_ints(np.asarray(h).reshape(-1))))
            ctx.count("kernel:bincount_hist")
            exp = np.zeros((base, base), dtype=int)
            for a, b in zip(symb[0], symb[1]):
                exp[a, b] += 1
            if not np.array_equal(np.asarray(h), exp):
                ctx.fail({"kind": "kernel", "kernel": "bincount_hist"},
                         "bincount_hist is not the joint histogram of the two symbol rows",
                         {"symbols": lst(symb), "expected": lst(exp), "observed": lst(h)})

    # ---- ranks ----
    for c in range(100 if quick else 1000):
        T = rng.choice([1, 2, 3, 5, 8, 20, 40])
        kind = rng.choice(["perm", "ties", "const"])
        if kind == "perm":
            col = nprng.permutation(T).astype(float) - 3
        elif kind == "ties":
            col = nprng.randint(0, max(2, T // 3), size=T).astype(float)
        else:
            col = np.full(T, 2.0)
        an = np.column_stack([col, col[::-1]])
        rk = np.asarray(SpearmanClimateNetwork.rank_time_series(an.copy()), dtype=float)
        ctx.case(("rank", col.tobytes().hex()), T >= 2)
        ctx.count("kernel:rank_time_series:" + kind)
        # canonical: twice the rank, shifted so that the smallest possible rank is 1
        two = 2 * rk[:, 0]
        off = two.sum() - T * (T + 1)        # 0 for 1-based ranks, -2T for 0-based
        canon = two - off / T if T else two
        cor.add(f"rank2 {enc_ints(col)}",
                exact(enc_ints(canon) if np.all(canon == np.round(canon)) else f"float:{lst(canon)}"))

    bad = cor.run()
    # second pass for the mirrored MI matrix layout (needs the mimap answers)
    msgs = [m for m in (f() for f in getattr(cmp_mihist, "deferred", [])) if m]
    ctx.obligation(f"correspondence: MI from the model's counts in the model's layouts (mirrored miFlat / "
                   f"unmirrored tmiFlat) == climate mutual_information, _test_mutual_information "
                   f"({len(cmp_mihist.deferred)} matrices)", "correspondence",
                   not msgs, "\n".join(msgs[:3]))
    cmp_mihist.deferred = []
    return bad


def enc_q(vals, maxden):
    return ",".join(canon_q(v, maxden) for v in vals) or "-"


def spec_cc(ctx, A, N, tm, cr, vals, lags, allv):
    """direct reading of the documented semantics in Fraction arithmetic"""
    Af = [[[Fraction(int(v)) for v in A[t, i]] for i in range(N)] for t in range(tm + 1)]
    for i in range(N):
        for j in range(N):
            f = [sum(a * b for a, b in zip(Af[tm - lag][i], Af[tm][j])) / cr for lag in range(tm + 1)]
            got = [Fraction(float(v)).limit_denominator(cr) for v in allv[i, j]]
            if got != f:
                ctx.fail({"kind": "kernel", "kernel": "_cross_correlation_all"},
                         "lagfuncs[i,j,lag] is not the product of window tau_max-lag of i with window tau_max of j",
                         {"array": lst(A), "N": N, "tau_max": tm, "corr_range": cr, "i": i, "j": j,
                          "expected": [str(x) for x in f], "observed": lst(allv[i, j])})
            if i == j:
                continue
            m = max(abs(x) for x in f)
            # largest lag attaining the absolute maximum (first tau in loop order); 0/tau_max if all zero
            best = max(l for l in range(tm + 1) if abs(f[l]) == m) if m > 0 else tm
            if int(lags[i, j]) != best or Fraction(float(vals[i, j])).limit_denominator(cr) != f[best]:
                ctx.fail({"kind": "kernel", "kernel": "_cross_correlation_max"},
                         "value/lag is not the lag function's entry at the largest lag attaining the absolute maximum",
                         {"array": lst(A), "N": N, "tau_max": tm, "corr_range": cr, "i": i, "j": j,
                          "lagfunc": [str(x) for x in f], "expected": [str(f[best]), best],
                          "observed": [float(vals[i, j]), int(lags[i, j])]})


def spec_symabs(ctx, S, L, rs, rl):
    N = S.shape[0]
    eS, eL = S.copy(), L.astype(int).copy()

    def w8(z):
        return (int(z) + 128) % 256 - 128
    for i in range(N):
        for j in range(i + 1, N):
            if abs(S[i, j]) > abs(S[j, i]):
                eS[j, i], eL[j, i] = S[i, j], w8(-int(L[i, j]))
            else:
                eS[i, j], eL[i, j] = S[j, i], w8(-int(L[j, i]))
    if not (np.array_equal(rs, eS) and np.array_equal(np.asarray(rl, dtype=int), eL)):
        ctx.fail({"kind": "kernel", "kernel": "_symmetrize_by_absmax"},
                 "a pair is not replaced by its entry of larger absolute value with negated lag",
                 {"S": lst(S), "L": lst(L), "expected_S": lst(eS), "expected_L": lst(eL),
                  "observed_S": lst(rs), "observed_L": lst(rl)})


def spec_mi(ctx, name, A, B, lo, hi, nb, mi, mirror):
    """histogram2d reference for the C histogram MI routines (entry [i,j] = MI(A_i, B_j), i != j)"""
    N = A.shape[0]
    exp = np.zeros((N, N))
    for i in range(N):
        for j in range(N):
            if i != j:
                exp[i, j] = ref_hist_mi(ref_uniform_symbols(A[i], lo, hi, nb),
                                        ref_uniform_symbols(B[j], lo, hi, nb), nb)
    if not close(mi, exp, 2e-5):
        ctx.fail({"kind": "kernel", "kernel": name},
                 f"{name} differs from the numpy.histogram2d mutual information",
                 {"A": lst(A), "B": lst(B), "range": [lo, hi], "n_bins": nb,
                  "expected": lst(exp), "observed": lst(mi)})


def cmp_mihist(mi, N, n, nb, mimaps):
    def compare(m):
        parts = m.split("|")
        hist = dec_ints(parts[0])
        if len(hist) != N * nb or any(sum(hist[i * nb:(i + 1) * nb]) != n for i in range(N)):
            return f"model 1-d histograms do not sum to n_samples: {parts[0]}"
        vals = {}
        p = 1
        for i in range(N):
            for j in range(i):
                h2 = dec_ints(parts[p])
                p += 1
                vals[(i, j)] = mi_from_counts(h2, hist[i * nb:(i + 1) * nb], hist[j * nb:(j + 1) * nb], n)

        def layout():
            mp = mimaps.get(N)
            exp = np.zeros(N * N)
            for cell, code in enumerate(mp):
                if code:
                    exp[cell] = vals[((code - 1) // N, (code - 1) % N)]
            if not close(np.asarray(mi, dtype=float).reshape(-1), exp, 2e-5):
                return (f"MI from the model's counts in the model's layout {exp.tolist()} != impl "
                        f"{np.asarray(mi).reshape(-1).tolist()} (N={N}, n={n}, n_bins={nb})")
            return None
        cmp_mihist.deferred.append(layout)
        return None
    return compare


cmp_mihist.deferred = []


def cmp_tmi(mi, N, n, nb, tmimaps):
    def compare(m):
        parts = m.split("|")
        ha, hb = dec_ints(parts[0]), dec_ints(parts[1])
        vals = {}
        p = 2
        for i in range(N):
            for j in range(N):
                if i != j:
                    vals[(i, j)] = mi_from_counts(dec_ints(parts[p]), ha[i * nb:(i + 1) * nb],
                                                  hb[j * nb:(j + 1) * nb], n)
                    p += 1

        def layout():
            mp = tmimaps.get(N)
            exp = np.zeros(N * N)
            for cell, code in enumerate(mp):
                if code:
                    exp[cell] = vals[((code - 1) // N, (code - 1) % N)]
            if not close(np.asarray(mi, dtype=float).reshape(-1), exp, 2e-5):
                return (f"MI from the model's counts in the model's (unmirrored) layout {exp.tolist()} != "
                        f"impl {np.asarray(mi).reshape(-1).tolist()} (N={N}, n={n}, n_bins={nb})")
            return None
        cmp_mihist.deferred.append(layout)
        return None
    return compare


# --------------------------------------------------------------------------
# data level: Lean xcorrSq (exact rational signed squares) vs cross_correlation
# --------------------------------------------------------------------------

def data_level_model(ctx, rng, nprng, quick):
    from pyunicorn.funcnet import CouplingAnalysis
    cor = Cor(ctx, "Lean xcorrSq / first-strict-|max| == CouplingAnalysis.cross_correlation (tol 2e-5)")
    for c in range(120 if quick else 1000):
        T = rng.choice([3, 4, 5, 6, 8, 12, 16, 24])
        N = rng.choice([2, 2, 3, 4]) if rng.random() < 0.85 else T + 1
        tm = rng.randrange(0, min(6, T - 1))
        d, feats = gen_data(rng, nprng, T, N, "int")
        with quiet():
            ca = CouplingAnalysis(d.copy(), silence_level=3)
            allv = ca.cross_correlation(tau_max=tm, lag_mode="all")
            mv, ml = ca.cross_correlation(tau_max=tm, lag_mode="max")
        ctx.case(("xcorr", T, N, tm, d.tobytes().hex()), True,
                 {"method": "cross_correlation", "data": lst(d), "tau_max": tm} if T <= 4 and N == 2 else None)
        ctx.count("data:xcorr:T=%s" % ("3-6" if T <= 6 else "8-24"))
        for f in feats:
            ctx.count("data:xcorr:" + f)
        if N > T:
            ctx.count("data:xcorr:N>T")

        def compare(m, allv=allv, mv=mv, ml=ml, N=N, tm=tm):
            sq = np.array([float(x) for x in dec_rats(m)]).reshape(N, N, tm + 1)
            if not np.all(np.abs(ssq(allv) - sq) <= 2e-5):
                k = np.unravel_index(np.argmax(np.abs(ssq(allv) - sq)), sq.shape)
                return f"lag_mode='all' entry {k}: impl {allv[k]} (signed square {ssq(allv[k])}) model {sq[k]}"
            for i in range(N):
                for j in range(N):
                    if i == j:
                        continue
                    a = np.abs(sq[i, j])
                    # model decision: largest lag attaining max |.|, only when clearly separated
                    top = a.max()
                    cands = [l for l in range(tm + 1) if a[l] >= top - 1e-4]
                    if top > 1e-4 and len(cands) == 1:
                        if int(ml[i, j]) != cands[0] or abs(ssq(mv[i, j]) - sq[i, j, cands[0]]) > 2e-5:
                            return (f"lag_mode='max' entry ({i},{j}): impl ({mv[i, j]}, {ml[i, j]}) "
                                    f"model lag {cands[0]} signed square {sq[i, j, cands[0]]}")
            return None
        cor.add(f"xcorr {T} {N} {tm} {flat_series_major(d)}", compare)
    # climate Pearson / Spearman classes against pearsonSq / spearmanSq (exact rationals)
    from pyunicorn.climate import TsonisClimateNetwork, SpearmanClimateNetwork
    with quiet():
        nets = {"pearson": make_climate(TsonisClimateNetwork, nprng.randn(8, 3))[0],
                "spearman": make_climate(SpearmanClimateNetwork, nprng.randn(8, 3))[0]}
    for c in range(80 if quick else 800):
        T = rng.choice([3, 4, 5, 8, 12, 20])
        N = rng.choice([2, 3, 4])
        if rng.random() < 0.5:
            d = nprng.randint(0, 4, size=(T, N)).astype(float)       # many ties
        else:
            d, _ = gen_data(rng, nprng, T, N, "int")
        for i in range(N):                  # the model zeroes constant series, numpy reports nan
            if np.ptp(d[:, i]) == 0:
                d[rng.randrange(T), i] += 1.0
        for kind in ("pearson", "spearman"):
            with quiet():
                got = np.asarray(nets[kind].calculate_similarity_measure(d - d.mean(axis=0)), dtype=float)
            ctx.case(("simsq", kind, T, N, d.tobytes().hex()), True)
            ctx.count("data:simsq:" + kind)

            def compare(m, got=got, N=N):
                sq = np.array([float(x) for x in dec_rats(m)]).reshape(N, N)
                if not np.all(np.abs(ssq(got) - sq) <= 2e-5):
                    return f"impl {got.tolist()} (signed squares {ssq(got).tolist()}) model {sq.tolist()}"
                return None
            cor.add(f"simsq {kind} {T} {N} {flat_series_major(d)}", compare)
    return cor.run()


# --------------------------------------------------------------------------
# round 2: pure-Python class, Gaussian estimators, partial correlation against the model
# --------------------------------------------------------------------------

def model_round2(ctx, rng, nprng, quick):
    from pyunicorn.funcnet import CouplingAnalysis
    from pyunicorn.funcnet.coupling_analysis_pure_python import CouplingAnalysisPurePython
    from pyunicorn.climate import PartialCorrelationClimateNetwork
    cor = Cor(ctx, "Lean Coupling2 model == pure-Python _calculate_cc (exact) and pure-Python / Gaussian MI / "
                   "Gaussian information transfer / partial-correlation estimators (tol 2e-5)")

    # ---- (1) CouplingAnalysisPurePython._calculate_cc at its boundary: exact -------------
    for c in range(150 if quick else 1500):
        N = rng.choice([1, 2, 2, 3])
        tm = rng.choice([0, 1, 1, 2, 3])
        cr = rng.choice([1, 2, 3, 4, 6, 8])
        hi = rng.choice([1, 1, 2, 3])
        A = nprng.randint(-hi, hi + 1, size=(2 * tm + 1, N, cr)).astype(np.float32)
        if rng.random() < 0.3 and tm >= 1:
            A[0] = -A[2 * tm] if rng.random() < 0.5 else A[2 * tm]      # exact |tie| between t = 0 and 2 tau_max
        if c == 0:
            A[:] = 0
        with quiet():
            pp = CouplingAnalysisPurePython(np.zeros((2 * tm + 3, N)), silence_level=3)
            r_all = pp._calculate_cc(A.copy(), tau_max=tm, lag_mode="all")
            r_max = pp._calculate_cc(A.copy(), tau_max=tm, lag_mode="max")
            r_sum = pp._calculate_cc(A.copy(), tau_max=tm, lag_mode="sum")
        ctx.case(("pcc", N, tm, cr, A.tobytes().hex()), N >= 2 and bool(A.any()),
                 {"kernel": "CouplingAnalysisPurePython._calculate_cc", "array": lst(A), "tau_max": tm}
                 if N == 2 and cr <= 2 and tm <= 1 else None)
        ctx.count("kernel:pure_python_calculate_cc")
        ctx.count(f"kernel:pcc:tau_max={tm}")

        def compare(m, r_all=r_all, r_max=r_max, r_sum=r_sum, cr=cr):
            parts = m.split("|")
            impl = [enc_q(r_all.reshape(-1), cr), enc_q(r_max[0].reshape(-1), cr),
                    enc_ints(np.round(r_max[1]).reshape(-1))]
            for k, nm in enumerate(("all", "max value", "max lag")):
                if parts[k] != impl[k]:
                    return f"{nm}: model={parts[k][:200]} impl={impl[k][:200]}"
            if np.any(r_max[1] != np.round(r_max[1])):
                return f"non-integral lag {r_max[1].tolist()}"
            for k, nm in ((3, 0), (4, 1)):
                mod = np.array([float(x) for x in dec_rats(parts[k])])
                if not close(r_sum[nm].reshape(-1), mod, 2e-6):
                    return f"sum[{nm}]: model={parts[k][:200]} impl={r_sum[nm].reshape(-1).tolist()}"
            return None
        cor.add(f"pcc {N} {tm} {cr} {enc_ints(A.reshape(-1))}", compare)
        # direct specification in Fraction arithmetic (independent of the model)
        for i in range(N):
            for j in range(N):
                f = [sum(Fraction(int(a)) * Fraction(int(b)) for a, b in zip(A[tm, i], A[t, j])) / cr
                     for t in range(2 * tm + 1)]
                top = max(abs(x) for x in f)
                first = min(t for t in range(2 * tm + 1) if abs(f[t]) == top) if top > 0 else 0
                exp_sum = (float(sum(abs(x) for x in f[tm:])), float(sum(abs(x) for x in f[:tm + 1])))
                if int(round(float(r_max[1][i, j]))) != first - tm \
                        or Fraction(float(r_max[0][i, j])).limit_denominator(cr) != top \
                        or abs(r_sum[0][i, j] - exp_sum[0]) > 1e-5 or abs(r_sum[1][i, j] - exp_sum[1]) > 1e-5:
                    ctx.fail({"kind": "pure_python", "method": "_calculate_cc", "check": "modes_spec"},
                             "pure-Python 'max' is not (max |c_t|, first window attaining it - tau_max) or 'sum' "
                             "is not the sums of |c_t| over t >= tau_max / t <= tau_max",
                             {"array": lst(A), "tau_max": tm, "i": i, "j": j, "lagfunc": [str(x) for x in f],
                              "expected_max": [str(top), first - tm], "expected_sum": list(exp_sum),
                              "observed_max": [float(r_max[0][i, j]), float(r_max[1][i, j])],
                              "observed_sum": [float(r_sum[0][i, j]), float(r_sum[1][i, j])]})

    # ---- (2) pure-Python cross_correlation from the data: pureXcorrSq ----------------------
    for c in range(60 if quick else 500):
        T = rng.choice([5, 6, 8, 12, 16, 24])
        N = rng.choice([2, 2, 3])
        tm = rng.randrange(0, min(4, (T - 3) // 2 + 1))
        d, feats = gen_data(rng, nprng, T, N, "int")
        with quiet():
            got = CouplingAnalysisPurePython(d.copy(), silence_level=3).cross_correlation(
                tau_max=tm, lag_mode="all")
        ctx.case(("pxcorr", T, N, tm, d.tobytes().hex()), True)
        ctx.count("data:pure_xcorr")

        def compare(m, got=got, N=N, tm=tm):
            sq = np.array([float(x) for x in dec_rats(m)]).reshape(2 * tm + 1, N, N)
            if not np.all(np.abs(ssq(got) - sq) <= 2e-5):
                k = np.unravel_index(np.argmax(np.abs(ssq(got) - sq)), sq.shape)
                return f"pure-Python [t,i,j]={k}: impl {got[k]} (signed square {ssq(got[k])}) model {sq[k]}"
            return None
        cor.add(f"pxcorr {T} {N} {tm} {flat_series_major(d)}", compare)

    # ---- (3) Gaussian MI and Gaussian information transfer ---------------------------------
    for c in range(40 if quick else 300):
        T = rng.choice([12, 16, 20, 30])
        N = rng.choice([2, 2, 3])
        tm = rng.randrange(0, 3)
        past = rng.choice([1, 1, 2])
        cond = rng.choice(["ity", "mit"])
        d = nprng.randint(-4, 5, size=(T, N)).astype(float)
        if rng.random() < 0.4:
            lag = rng.randrange(0, 3)
            d[lag:, 1] = d[:T - lag, 0] + nprng.randint(-1, 2, size=T - lag)
        ca = CouplingAnalysis(d.copy(), silence_level=3)
        try:
            with quiet():
                it_all = ca.information_transfer(tau_max=tm, estimator="gauss", past=past, cond_mode=cond,
                                                 lag_mode="all")
                it_mv, it_ml = ca.information_transfer(tau_max=tm, estimator="gauss", past=past,
                                                       cond_mode=cond, lag_mode="max")
                mi_all = ca.mutual_information(tau_max=tm, estimator="gauss", lag_mode="all")
        except ValueError:
            ctx.count("data:gauss:constant_window_rejected")
            continue
        ctx.case(("itsq", T, N, tm, past, cond, d.tobytes().hex()), True)
        ctx.count("data:it_gauss:" + cond)
        ctx.count("data:mi_gauss")

        def r2(v):
            with np.errstate(all="ignore"):
                return 1.0 - np.exp(-2.0 * np.asarray(v, dtype=float))

        def cmp_it(m, it_all=it_all, it_mv=it_mv, it_ml=it_ml, N=N, tm=tm):
            sqs, flags, lags = m.split(";")
            sq = np.abs(np.array([float(x) for x in dec_rats(sqs)])).reshape(N, N, tm + 1)
            reg = np.array(dec_ints(flags)).reshape(N, N, tm + 1) == 1
            lagm = np.array(dec_ints(lags)).reshape(N, N)
            ok = reg & (sq < 0.99) & ~np.eye(N, dtype=bool)[:, :, None]
            dif = np.where(ok, np.abs(r2(it_all) - sq), 0.0)
            if dif.max() > 2e-5:
                k = np.unravel_index(np.argmax(dif), sq.shape)
                return f"information_transfer 'all' {k}: impl {it_all[k]} (r^2 {r2(it_all[k])}) model r^2 {sq[k]}"
            for i in range(N):
                for j in range(N):
                    if i == j or not np.all(ok[i, j]):
                        continue
                    a = sq[i, j]
                    top = a.max()
                    cands = [l for l in range(tm + 1) if a[l] >= top - 1e-4]
                    if top > 1e-4 and len(cands) == 1:
                        if int(it_ml[i, j]) != int(lagm[i, j]) or abs(r2(it_mv[i, j]) - top) > 2e-5:
                            return (f"information_transfer 'max' ({i},{j}): impl ({it_mv[i, j]}, {it_ml[i, j]}) "
                                    f"model lag {lagm[i, j]} r^2 {top}")
            return None
        cor.add(f"itsq {T} {N} {tm} {past} {1 if cond == 'mit' else 0} {flat_series_major(d)}", cmp_it)

        def cmp_mi(m, mi_all=mi_all, N=N, tm=tm):
            sq = np.abs(np.array([float(x) for x in dec_rats(m)])).reshape(N, N, tm + 1)
            ok = sq < 0.99
            dif = np.where(ok, np.abs(r2(mi_all) - sq), 0.0)
            if dif.max() > 2e-5:
                k = np.unravel_index(np.argmax(dif), sq.shape)
                return f"gauss MI {k}: impl {mi_all[k]} (r^2 {r2(mi_all[k])}) model r^2 {sq[k]}"
            return None
        cor.add(f"xcorr {T} {N} {tm} {flat_series_major(d)}", cmp_mi)

    # ---- (4) PartialCorrelationClimateNetwork ------------------------------------------------
    with quiet():
        net = make_climate(PartialCorrelationClimateNetwork, nprng.randn(10, 3))[0]
    schur = []
    for c in range(60 if quick else 500):
        N = rng.choice([2, 3, 3, 4])
        T = rng.randrange(N + 3, 24)
        d = nprng.randint(-4, 5, size=(T, N)).astype(float)
        if rng.random() < 0.3:
            d[:, 1] = d[:, 0] + nprng.randint(-1, 2, size=T)
        for i in range(N):
            if np.ptp(d[:, i]) == 0:
                d[rng.randrange(T), i] += 1.0
        if np.linalg.cond(np.corrcoef(d.T)) > 1e3:
            ctx.count("data:partial:ill_conditioned_skipped")
            continue
        with quiet():
            got = np.asarray(net.calculate_similarity_measure(d - d.mean(axis=0)), dtype=float)
        ctx.case(("pcorr", T, N, d.tobytes().hex()), True)
        ctx.count("data:partial_correlation")

        def compare(m, got=got, N=N):
            if m.startswith("singular"):
                return "model: covariance matrix singular, but numpy reports a small condition number"
            cert, ninv, pc, piv = m.split("|")
            if cert != "1":
                return "Gauss-Jordan result is not the inverse (C·P != I exactly)"
            sq = np.array([float(x) for x in dec_rats(ninv)]).reshape(N, N)
            if not np.all(np.abs(ssq(got) - sq) <= 2e-5):
                return f"impl {got.tolist()} (signed squares {ssq(got).tolist()}) model {sq.tolist()}"
            a, b, f = ninv.split(","), pc.split(","), dec_ints(piv)
            for k in range(N * N):
                if k // N != k % N and f[k] == 1:
                    schur.append(a[k] == b[k])
            return None
        cor.add(f"pcorr {T} {N} {flat_series_major(d)}", compare)
    bad = cor.run()
    ctx.obligation(f"model consistency: -P_ij/sqrt(P_ii P_jj) of the exact inverse == correlation of the residuals "
                   f"after projecting out all other series (exact rationals, {len(schur)} entries)",
                   "correspondence", all(schur) and (len(schur) > 0), "normInvSq != parCorrSqG on some entry")
    return bad



# --------------------------------------------------------------------------
# round 4: equal occupancy of the quantile bins, the declared LAG type at its wrap, partial
# correlation for N up to 6 in both float widths / layouts, table-free Gaussian entries
# --------------------------------------------------------------------------

def model_round4(ctx, rng, nprng, quick):
    from pyunicorn.funcnet._ext import numerics as FK
    from pyunicorn.funcnet import CouplingAnalysis
    from pyunicorn.climate import PartialCorrelationClimateNetwork
    from pyunicorn.core._ext.types import LAG
    cor = Cor(ctx, "Lean Coupling4 model == _quantile_bin_array occupancy, LAG store (numpy cast and the Cython "
                   "cast of _cross_correlation_max at tau_max 128..220), partial correlation N 2..6 (exact / 2e-5)")

    # ---- (1) occupancy of the quantile bins -------------------------------------------------
    for c in range(120 if quick else 1200):
        bins = rng.choice([1, 2, 3, 4, 5, 6, 8, 12])
        kind = rng.choice(["equal", "equal", "ragged", "ties"])
        if kind == "equal":
            m = rng.choice([1, 2, 3, 5, 8, 20])
            T = m * bins
        else:
            T = rng.choice([1, 2, 3, 5, 7, 11, 13, 26, 50, rng.randrange(1, 60)])
        if kind == "ties":
            base = nprng.randint(0, max(2, T // 2), size=T).astype(float)
        else:
            # tie-free: a random strictly increasing map of a permutation (dyadic gaps)
            gaps = nprng.randint(1, 9, size=T) / 8.0
            base = (np.cumsum(gaps) - rng.choice([0, 3, 40]))[nprng.permutation(T)]
        k = rng.choice([0, 0, 20, -20, 40, -40])
        dt = rng.choice([np.float64, np.float32])
        row = (base * 2.0 ** k).astype(dt)
        arr = np.array([row, row[::-1].copy()])
        if rng.random() < 0.3:
            arr = np.asfortranarray(arr)
        symb = np.asarray(CouplingAnalysis._quantile_bin_array(arr, bins=bins))
        s0 = symb[0].astype(int)
        occ = [int((s0 == a).sum()) for a in range(-1, bins + 1)]
        cor.add(f"qocc {bins} {enc_rats(Fraction(float(v)) for v in row)}", exact(enc_ints(occ)))
        tiefree = len(set(row.tolist())) == T
        ctx.case(("qocc", bins, str(dt), row.tobytes().hex()), T >= 2)
        ctx.count(f"kernel:quantile_occupancy:{kind}")
        if tiefree and T % bins == 0 and T > 0:
            # model-free: "this partition results in a uniform distribution of the marginals"
            if occ != [0] + [T // bins] * bins + [0]:
                ctx.fail({"kind": "kernel", "kernel": "_quantile_bin_array", "check": "equal_occupancy"},
                         f"tie-free row of T = {T} = {T // bins}*{bins} samples: the symbols 0..bins-1 are not taken "
                         f"by T/bins samples each",
                         {"row": lst(row), "bins": bins, "occupancy(-1..bins)": occ})
        elif tiefree and T > 0:
            # round 5, model-free closed form for every T (theorem qbin_occupancy_any_length):
            # step = ceil(T/bins) samples in every full bin, the rest in the last one, none beyond
            step = -(-T // bins)
            exp = [0] + [min(step, max(0, T - step * a)) for a in range(bins + 1)]
            ctx.count("oracle:quantile_occupancy_ragged")
            if occ != exp:
                ctx.fail({"kind": "kernel", "kernel": "_quantile_bin_array", "check": "ragged_occupancy"},
                         f"tie-free row of T = {T} samples, bins = {bins}: the symbols are not taken by "
                         f"min(step, T - step*a) samples (step = ceil(T/bins) = {step})",
                         {"row": lst(row), "bins": bins, "occupancy(-1..bins)": occ, "expected": exp})
    # public method: the marginal entropy of an equally occupied partition is log(bins)
    for c in range(6 if quick else 40):
        bins = rng.choice([2, 3, 4, 6, 8])
        m = rng.choice([2, 3, 5, 10])
        T, N = m * bins, rng.choice([2, 3])
        d = np.column_stack([(nprng.permutation(T) * 2.0 ** rng.choice([0, 20, -20])
                              + rng.choice([0, 5])) for _ in range(N)])
        d = d.astype(rng.choice([np.float64, np.float32]))
        with quiet():
            mi = CouplingAnalysis(d.copy(), silence_level=3).mutual_information(
                tau_max=0, estimator="binning", bins=bins, lag_mode="all")
        mi = np.asarray(mi, dtype=float).reshape(N, N, -1)[:, :, 0]
        ctx.case(("qocc-mi", bins, T, d.tobytes().hex()), True)
        ctx.count("oracle:binning_entropy_log_bins")
        if not np.allclose(np.diag(mi), np.log(bins), atol=2e-5) or mi.max() > np.log(bins) + 2e-5:
            ctx.fail({"kind": "coupling", "method": "mutual_information", "estimator": "binning",
                      "check": "equal_occupancy"},
                     f"tie-free data, T = {m}*{bins}, tau_max = 0: the self-information is not log(bins) "
                     f"(or an entry exceeds it)",
                     {"data": lst(d), "bins": bins, "observed": lst(mi), "expected_diagonal": float(np.log(bins))})

    # ---- (2) the LAG store ------------------------------------------------------------------
    bits = np.dtype(LAG).itemsize * 8
    for c in range(6 if quick else 40):
        zs = [rng.randrange(-700, 700) for _ in range(40)] + [127, 128, -128, -129, 255, 256, 150, 0]
        got = np.array(zs, dtype=np.int64).astype(LAG)
        cor.add(f"lagstore {enc_ints(zs)}",
                exact(f"{bits};{enc_ints(got)};{enc_ints(got)}"))
        ctx.count("kernel:lag_store_numpy_cast")
    if np.dtype(LAG).kind != "i":
        ctx.obligation("LAG is a signed integer dtype", "correspondence", False, str(np.dtype(LAG)))
    # the Cython cast `<LAG_t> (tau_max - argmax)` where it wraps: tau_max 128..220
    for c in range(16 if quick else 150):
        N = rng.choice([2, 2, 3])
        tm = rng.randrange(128, 221)
        cr = rng.choice([1, 2, 3])
        A = nprng.randint(-1, 2, size=(tm + 1, N, cr)).astype(np.float32)
        if rng.random() < 0.6:
            # a single dominant window at a chosen lag (often beyond 127)
            lag = rng.randrange(0, tm + 1)
            A[tm - lag] = 3 * np.sign(A[tm] + 0.5)
        vals, lags = FK._cross_correlation_max(A.copy(), N, tm, cr)
        cor.add(f"ccmax {N} {tm} {cr} {enc_ints(A.reshape(-1))}",
                exact(enc_q(vals.reshape(-1), cr) + ";" + enc_ints(lags.reshape(-1))))
        ctx.case(("cc-long", N, tm, cr, A.tobytes().hex()), True)
        ctx.count("kernel:cross_correlation:tau_max>127")
        # model-free: largest lag attaining the absolute maximum, stored modulo 2^bits (known finding C10-lag-int8)
        for i in range(N):
            for j in range(N):
                if i == j:
                    continue
                f = [Fraction(int((A[tm - l, i] * A[tm, j]).sum()), cr) for l in range(tm + 1)]
                mx = max(abs(x) for x in f)
                best = max(l for l in range(tm + 1) if abs(f[l]) == mx) if mx > 0 else tm
                stored = (best + 2 ** (bits - 1)) % 2 ** bits - 2 ** (bits - 1)
                if int(lags[i, j]) != stored or Fraction(float(vals[i, j])).limit_denominator(cr) != f[best]:
                    ctx.fail({"kind": "kernel", "kernel": "_cross_correlation_max", "check": "long_lag_store"},
                             "value/lag is not the lag function's entry at the largest lag attaining the absolute "
                             "maximum (lag stored in the declared LAG type)",
                             {"array": lst(A), "N": N, "tau_max": tm, "corr_range": cr, "i": i, "j": j,
                              "expected": [str(f[best]), stored], "observed": [float(vals[i, j]), int(lags[i, j])]})

    # ---- (3) partial correlation, N up to 6, both float widths and layouts ------------------
    with quiet():
        net = make_climate(PartialCorrelationClimateNetwork, nprng.randn(10, 3))[0]
    schur = []
    for c in range(40 if quick else 300):
        N = rng.choice([2, 4, 5, 5, 6])
        T = rng.randrange(N + 4, 30)
        d = nprng.randint(-4, 5, size=(T, N)).astype(float)
        if rng.random() < 0.3:
            d[:, N - 1] = d[:, 0] + nprng.randint(-1, 2, size=T)
        if rng.random() < 0.2:
            d[:, 1] = -d[:, 0] + nprng.randint(-1, 2, size=T)
        for i in range(N):
            if np.ptp(d[:, i]) == 0:
                d[rng.randrange(T), i] += 1.0
        cond = np.linalg.cond(np.corrcoef(d.T))
        if cond > 1e3:
            ctx.count("data:partial:ill_conditioned_skipped")
            continue
        an = d - d.mean(axis=0)
        # single precision only where the float32 correlation matrix is inverted stably
        lay = rng.choice(["f64C", "f64F", "f32C", "f32F"] if cond < 50 else ["f64C", "f64F"])
        # centred small-integer data are multiples of 1/T: float32 keeps them to ~1e-7 relative
        an_in = an.astype(np.float32 if "f32" in lay else np.float64)
        an_in = np.asfortranarray(an_in) if lay.endswith("F") else np.ascontiguousarray(an_in)
        with quiet():
            got = np.asarray(net.calculate_similarity_measure(an_in), dtype=float)
        ctx.case(("pcorr4", T, N, lay, d.tobytes().hex()), True)
        ctx.count(f"data:partial_correlation:N={N}:{lay}")
        # model-free: regression residuals of i and j on all other series
        for i in range(N):
            for j in range(i + 1, N):
                Z = [an[:, k] for k in range(N) if k not in (i, j)]
                ref = ref_partial_corr(an[:, i], an[:, j], Z)
                tol = 2e-4 if "f32" in lay else 2e-5
                if np.isfinite(ref) and (abs(got[i, j] - ref) > tol or abs(got[j, i] - ref) > tol):
                    ctx.fail({"kind": "climate", "class": "PartialCorrelationClimateNetwork", "check": "reference",
                              "input_class": f"N={N}:{lay}"},
                             f"entry ({i},{j}) is not the correlation of the regression residuals on all other series",
                             {"data": lst(d), "layout": lay, "i": i, "j": j, "observed": [float(got[i, j]), float(got[j, i])],
                              "expected": float(ref)})

        def compare(m, got=got, N=N, lay=lay):
            if m.startswith("singular"):
                return "model: covariance matrix singular, but numpy reports a small condition number"
            cert, ninv, pc, piv = m.split("|")
            if cert != "1":
                return "Gauss-Jordan result is not the inverse (C·P != I exactly)"
            sq = np.array([float(x) for x in dec_rats(ninv)]).reshape(N, N)
            tol = 4e-4 if "f32" in lay else 2e-5
            if not np.all(np.abs(ssq(got) - sq) <= tol):
                return f"impl {got.tolist()} (signed squares {ssq(got).tolist()}) model {sq.tolist()}"
            a, b, f = ninv.split(","), pc.split(","), dec_ints(piv)
            for k in range(N * N):
                if k // N != k % N:
                    # theorem normInv_is_partial_correlation / cov_pivots_regular: no exception
                    schur.append(a[k] == b[k] and f[k] == 1)
            return None
        cor.add(f"pcorr {T} {N} {flat_series_major(d)}", compare)

    # ---- (4) the Gaussian entry read through the table == read from the Gram function -------
    pend = {}
    for c in range(4 if quick else 30):
        N = 2
        T = rng.randrange(12, 20)
        tm, past, mit = rng.choice([0, 1, 2]), rng.choice([1, 2]), rng.choice([0, 1])
        d = nprng.randint(-3, 4, size=(T, N)).astype(float)
        args = f"{T} {N} {tm} {past} {mit} {flat_series_major(d)}"
        cor.add(f"itsq {args}", lambda m, c=c: pend.__setitem__(c, m.split(";")[0]))
        cor.add(f"itsqfn {args}", lambda m, c=c: None if pend.get(c) == m else f"table {pend.get(c)} function {m}")
        ctx.count("model:itsq_table_vs_function")
    bad = cor.run()
    ctx.obligation(f"model consistency (now theorem normInv_is_partial_correlation): -P_ij/sqrt(P_ii P_jj) of the exact "
                   f"inverse == residual correlation given all other series, all pivots regular ({len(schur)} entries, N up to 6)",
                   "correspondence", all(schur) and (len(schur) > 0), "normInvSq != parCorrSqG on some entry")
    return bad

# --------------------------------------------------------------------------
# round 5: completeness of the elimination (the model of numpy.linalg.inv) — `gjker`, and exactly
# collinear series through PartialCorrelationClimateNetwork
# --------------------------------------------------------------------------

def frac_rank(rows):
    """rank of a rational matrix (list of rows of Fractions) — plain elimination, independent of the
    Lean model (no pivot-row bookkeeping is shared with it)"""
    M = [list(r) for r in rows]
    rank, ncol = 0, (len(M[0]) if M else 0)
    for c in range(ncol):
        p = next((r for r in range(rank, len(M)) if M[r][c] != 0), None)
        if p is None:
            continue
        M[rank], M[p] = M[p], M[rank]
        for r in range(len(M)):
            if r != rank and M[r][c] != 0:
                f = M[r][c] / M[rank][c]
                M[r] = [a - f * b for a, b in zip(M[r], M[rank])]
        rank += 1
    return rank


def first_dependent_column(C):
    """least c such that column c of C is a combination of the columns before it"""
    N = len(C)
    for c in range(N):
        if frac_rank([row[:c + 1] for row in C]) == c:
            return c
    return None


def check_kernel_answer(m, C, N):
    """`singular|c|w` against the matrix C (Fractions): theorem gjKernel_witness, executed"""
    parts = m.split("|")
    if len(parts) != 3 or parts[0] != "singular" or parts[1] == "none":
        return f"expected singular|c|w, got {m[:120]}"
    c, w = int(parts[1]), dec_rats(parts[2])
    if len(w) != N or not (0 <= c < N):
        return f"witness has {len(w)} entries / column {c}, N = {N}"
    if w[c] != -1 or any(w[l] != 0 for l in range(c + 1, N)):
        return f"witness {w} is not (-1 at the failing column {c}, 0 beyond)"
    if any(sum(C[k][l] * w[l] for l in range(N)) != 0 for k in range(N)):
        return f"C·w != 0 for the witness {w}"
    fd = first_dependent_column(C)
    if fd != c:
        return f"failing column {c}, but the first column depending on its predecessors is {fd}"
    return None


def model_round5(ctx, rng, nprng, quick):
    from pyunicorn.climate import PartialCorrelationClimateNetwork
    cor = Cor(ctx, "Lean Coupling5 model: gjInverse returns a matrix exactly for the regular matrices (exact inverse, "
                   "== numpy.linalg.inv to 1e-8) and a kernel vector C·w = 0 otherwise; exactly collinear series: "
                   "the witness combination vanishes at every sample")

    # ---- (1) the elimination on rational matrices: regular <-> full rank, witness, numpy.linalg.inv
    for c in range(150 if quick else 1500):
        N = rng.choice([1, 2, 2, 3, 3, 4, 5, 6])
        kind = rng.choice(["int", "int", "gram", "rowcombo", "zerocol", "perm", "rational", "pow2", "duprow",
                           "lowrank", "symsing"])
        C = [[Fraction(rng.randrange(-4, 5)) for _ in range(N)] for _ in range(N)]
        if kind == "gram":
            T = rng.choice([N - 1, N, N + 1, N + 3]) or 1
            X = [[Fraction(rng.randrange(-3, 4)) for _ in range(T)] for _ in range(N)]
            C = [[sum(a * b for a, b in zip(X[i], X[j])) for j in range(N)] for i in range(N)]
        elif kind == "rowcombo" and N >= 2:
            r = rng.randrange(N)
            co = [Fraction(rng.randrange(-2, 3)) for _ in range(N)]
            co[r] = Fraction(0)
            C[r] = [sum(co[k] * C[k][j] for k in range(N)) for j in range(N)]
        elif kind == "zerocol":
            z = rng.randrange(N)
            for k in range(N):
                C[k][z] = Fraction(0)
        elif kind == "perm":
            # zeros on the diagonal: every column needs a row swap
            perm = list(range(N))
            rng.shuffle(perm)
            C = [[Fraction(rng.choice([-3, -1, 1, 2])) if perm[i] == j else Fraction(0) for j in range(N)]
                 for i in range(N)]
            if rng.random() < 0.3 and N >= 2:
                C[rng.randrange(N)] = [Fraction(0)] * N
        elif kind == "rational":
            C = [[Fraction(rng.randrange(-6, 7), rng.choice([1, 2, 3, 4, 7])) for _ in range(N)] for _ in range(N)]
        elif kind == "pow2":
            sc = [Fraction(2) ** rng.choice([-40, -20, 0, 20, 40]) for _ in range(N)]
            C = [[C[i][j] * sc[i] for j in range(N)] for i in range(N)]
        elif kind == "duprow" and N >= 2:
            a, b = rng.sample(range(N), 2)
            mult = Fraction(rng.choice([1, -1, 2]))
            C[b] = [mult * x for x in C[a]]
        elif kind == "lowrank":
            u = [Fraction(rng.randrange(-3, 4)) for _ in range(N)]
            v = [Fraction(rng.randrange(-3, 4)) for _ in range(N)]
            C = [[u[i] * v[j] for j in range(N)] for i in range(N)]
        elif kind == "symsing" and N >= 2:
            # covariance-like: symmetric, one series an exact combination of the others
            T = N + 3
            X = [[Fraction(rng.randrange(-3, 4)) for _ in range(T)] for _ in range(N)]
            k = rng.randrange(N)
            co = [Fraction(rng.randrange(-2, 3)) for _ in range(N)]
            co[k] = Fraction(0)
            X[k] = [sum(co[a] * X[a][t] for a in range(N)) for t in range(T)]
            C = [[sum(a * b for a, b in zip(X[i], X[j])) for j in range(N)] for i in range(N)]
        rank = frac_rank(C)
        ctx.case(("gjker", N, tuple(tuple(r) for r in C)), N >= 2 and any(x != 0 for r in C for x in r))
        ctx.count(f"model:gjker:{kind}:{'regular' if rank == N else 'singular'}")
        Cf = np.array([[float(x) for x in r] for r in C], dtype=float)

        def compare(m, C=C, N=N, rank=rank, Cf=Cf, kind=kind):
            if rank < N:
                return check_kernel_answer(m, C, N)
            if not m.startswith("regular|"):
                return f"matrix of full rank {N}, model answers {m[:120]}"
            Pm = dec_rats(m.split("|")[1])
            P = [Pm[i * N:(i + 1) * N] for i in range(N)]
            I = [[Fraction(int(i == j)) for j in range(N)] for i in range(N)]
            PC = [[sum(P[i][l] * C[l][j] for l in range(N)) for j in range(N)] for i in range(N)]
            CP = [[sum(C[i][l] * P[l][j] for l in range(N)) for j in range(N)] for i in range(N)]
            if PC != I or CP != I:
                return "model inverse is not the inverse (exact)"
            # the library call of the anchored code on the same matrix
            if kind != "pow2" and np.linalg.cond(Cf) < 1e6:
                Pn = np.linalg.inv(Cf)
                Pf = np.array([[float(x) for x in r] for r in P])
                if not np.all(np.abs(Pn - Pf) <= 1e-8 * (1.0 + np.abs(Pf).max())):
                    return f"numpy.linalg.inv {Pn.tolist()} model {Pf.tolist()}"
            return None
        cor.add(f"gjker {N} {enc_rats(x for r in C for x in r)}", compare)

    # ---- (2) exactly collinear series through the implementation -----------------------------
    with quiet():
        net = make_climate(PartialCorrelationClimateNetwork, nprng.randn(10, 3))[0]
    for c in range(24 if quick else 200):
        N = rng.choice([2, 3, 4, 4, 5, 6])
        T = rng.randrange(N + 4, 26)
        d = nprng.randint(-4, 5, size=(T, N)).astype(float)
        for i in range(N):
            if np.ptp(d[:, i]) == 0:
                d[rng.randrange(T), i] += 1.0
        kind = rng.choice(["dup", "affine", "anti", "sum2", "comb3", "regular"])
        k = rng.randrange(1, N)
        if kind == "dup":
            d[:, k] = d[:, 0]
        elif kind == "affine":
            d[:, k] = 2.0 * d[:, 0] + 3.0
        elif kind == "anti":
            d[:, k] = -d[:, 0] + 1.0
        elif kind == "sum2" and N >= 3:
            a, b = [x for x in range(N) if x != k][:2]
            d[:, k] = d[:, a] + d[:, b]
        elif kind == "comb3" and N >= 4:
            a, b, e = [x for x in range(N) if x != k][:3]
            d[:, k] = d[:, a] - 2.0 * d[:, b] + d[:, e] + 1.0
        if np.ptp(d[:, k]) == 0:
            continue
        X = [[Fraction(int(v)) for v in d[:, a]] for a in range(N)]
        Xc = [[v - sum(col) / T for v in col] for col in X]
        rank = frac_rank(Xc)
        collinear = rank < N
        an = d - d.mean(axis=0)
        lay = rng.choice(["f64C", "f64F", "f32C"])
        an_in = an.astype(np.float32 if "f32" in lay else np.float64)
        an_in = np.asfortranarray(an_in) if lay.endswith("F") else np.ascontiguousarray(an_in)
        # the implementation must return a matrix (no exception) on every such input; an exception is
        # turned into a `crash` failure by run()
        with quiet():
            det = float(np.linalg.det(np.corrcoef(an_in.transpose()).astype("float64")))
            try:
                got = np.asarray(net.calculate_similarity_measure(an_in), dtype=float)
            except Exception as e:  # noqa  (numpy's LinAlgError is raised in a numpy frame)
                ctx.fail({"kind": "climate", "class": "PartialCorrelationClimateNetwork", "check": "raises",
                          "input_class": f"collinear:{kind}", "exception": type(e).__name__},
                         f"calculate_similarity_measure raised {type(e).__name__}: {e} on exactly collinear series",
                         {"data": lst(d), "layout": lay})
                got = np.full((N, N), np.nan)
        ctx.case(("collinear5", T, N, kind, lay, d.tobytes().hex()), True)
        ctx.count(f"data:collinear:{kind if collinear else 'regular'}:{'pinv' if det == 0.0 else 'inv'}-branch")
        if got.shape != (N, N):
            ctx.fail({"kind": "climate", "class": "PartialCorrelationClimateNetwork", "check": "shape",
                      "input_class": f"collinear:{kind}"},
                     f"result has shape {got.shape} for {N} series", {"data": lst(d), "layout": lay})
        elif collinear and det == 0.0 and "f64" in lay and not np.all(np.isnan(got)):
            # pseudo-inverse branch (`det(C) == 0.0`): the pseudo-inverse of a symmetric positive
            # semi-definite matrix is symmetric positive semi-definite, so the normalised matrix is
            # symmetric, bounded by 1 and has -1 on the diagonal — whatever the statistic means there
            if not (np.all(np.isfinite(got)) and np.all(np.abs(got - got.T) <= 1e-6)
                    and np.all(np.abs(got) <= 1.0 + 1e-6) and np.all(np.abs(np.diag(got) + 1.0) <= 1e-6)):
                ctx.fail({"kind": "climate", "class": "PartialCorrelationClimateNetwork", "check": "pinv-branch",
                          "input_class": f"collinear:{kind}"},
                         "pseudo-inverse branch: the normalised matrix is not symmetric / bounded by 1 / -1 on the diagonal",
                         {"data": lst(d), "layout": lay, "observed": lst(got)})

        def compare(m, X=X, Xc=Xc, N=N, T=T, collinear=collinear):
            if not collinear:
                return "model: singular, but the centred series have full rank" if m.startswith("singular") else None
            parts = m.split("|")
            if parts[0] != "singular" or len(parts) != 3 or parts[1] == "none":
                return f"exactly collinear series, model answers {m[:100]}"
            cc, w = int(parts[1]), dec_rats(parts[2])
            if len(w) != N or w[cc] != -1 or any(w[l] != 0 for l in range(cc + 1, N)):
                return f"witness {w} / column {cc}"
            # theorem partial_correlation_fails_iff_collinear: the combination vanishes at every sample
            if any(sum(w[a] * Xc[a][t] for a in range(N)) != 0 for t in range(T)):
                return f"the combination with weights {w} of the centred series does not vanish"
            # the failing column is the first series that is a combination of its predecessors
            first = next(cn for cn in range(N) if frac_rank(Xc[:cn + 1]) == cn)
            return None if first == cc else f"failing column {cc}, first dependent series {first}"
        cor.add(f"pcorr {T} {N} {flat_series_major(d)}", compare)

    # ---- (3) reordered series: the partial-correlation matrix is permuted consistently ---------
    # (theorem partial_correlation_relabel; on the implementation: model-free relation)
    pend = {}
    for c in range(16 if quick else 150):
        N = rng.choice([3, 4, 5, 6])
        T = rng.randrange(N + 6, 30)
        d = nprng.randint(-4, 5, size=(T, N)).astype(float)
        if rng.random() < 0.4:
            d[:, N - 1] = d[:, 0] + nprng.randint(-1, 2, size=T)
        for i in range(N):
            if np.ptp(d[:, i]) == 0:
                d[rng.randrange(T), i] += 1.0
        if np.linalg.cond(np.corrcoef(d.T)) > 1e3:
            ctx.count("data:partial_reorder:ill_conditioned_skipped")
            continue
        perm = list(range(N))
        while perm == list(range(N)):
            rng.shuffle(perm)
        dp = d[:, perm]
        lay = rng.choice(["f64C", "f64F"])
        mk = (lambda a: np.asfortranarray(a)) if lay.endswith("F") else (lambda a: np.ascontiguousarray(a))
        with quiet():
            g0 = np.asarray(net.calculate_similarity_measure(mk(d - d.mean(axis=0))), dtype=float)
            g1 = np.asarray(net.calculate_similarity_measure(mk(dp - dp.mean(axis=0))), dtype=float)
        ctx.case(("pcorr-reorder", T, N, tuple(perm), lay, d.tobytes().hex()), True)
        ctx.count(f"oracle:partial_correlation_reordered:N={N}")
        exp = g0[np.ix_(perm, perm)]
        if not np.all(np.abs(g1 - exp) <= 1e-7):
            ctx.fail({"kind": "climate", "class": "PartialCorrelationClimateNetwork", "check": "reordered",
                      "input_class": f"N={N}:{lay}"},
                     "reordering the series does not permute the partial-correlation matrix consistently",
                     {"data": lst(d), "perm": perm, "layout": lay, "observed": lst(g1), "expected": lst(exp)})
        # affine images a_i x_i + b_i with exact powers of two (theorem partial_correlation_affine_invariant):
        # off-diagonal entries change by sign(a_i a_j) only
        sc = np.array([rng.choice([1.0, -1.0]) * 2.0 ** rng.choice([-20, 0, 3, 20]) for _ in range(N)])
        da = d * sc + sc * np.array([float(rng.randrange(-8, 9)) for _ in range(N)])
        with quiet():
            g2 = np.asarray(net.calculate_similarity_measure(mk(da - da.mean(axis=0))), dtype=float)
        sg = np.sign(np.outer(sc, sc))
        off = ~np.eye(N, dtype=bool)
        ctx.count("oracle:partial_correlation_affine_images")
        if not np.all(np.abs(g2 - sg * g0)[off] <= 1e-7):
            ctx.fail({"kind": "climate", "class": "PartialCorrelationClimateNetwork", "check": "affine",
                      "input_class": f"N={N}:{lay}"},
                     "affine images a_i x_i + b_i change an off-diagonal entry by more than the factor sign(a_i a_j)",
                     {"data": lst(d), "scales": lst(sc), "layout": lay, "observed": lst(g2), "expected": lst(sg * g0)})
        cor.add(f"pcorr {T} {N} {flat_series_major(d)}", lambda m, c=c: pend.__setitem__(c, m))

        def cmp_perm(m, c=c, N=N, perm=perm):
            m0 = pend.get(c)
            if m0 is None or m0.startswith("singular") or m.startswith("singular"):
                return f"model: singular on well-conditioned data ({str(m0)[:40]} / {m[:40]})"
            a = m0.split("|")[1].split(",")
            b = m.split("|")[1].split(",")
            want = [a[perm[i] * N + perm[j]] for i in range(N) for j in range(N)]
            return None if b == want else f"model on reordered data {b} is not the permuted matrix {want}"
        cor.add(f"pcorr {T} {N} {flat_series_major(dp)}", cmp_perm)
    return cor.run()

# --------------------------------------------------------------------------
# oracle, wide: large samples, float32 caller arrays, power-of-two affine images, call histories
# on one object, wide tau_max / bins, non-default paths of the pure-Python class
# --------------------------------------------------------------------------

def oracle_wide(ctx, rng, nprng, quick):
    from pyunicorn.funcnet import CouplingAnalysis
    from pyunicorn.funcnet.coupling_analysis_pure_python import CouplingAnalysisPurePython

    def fin(a):
        a = np.asarray(a, dtype=float)
        return np.where(np.isfinite(a), a, 0.0)

    # ---- many samples per histogram cell (binned MI) -------------------------------------
    for c in range(1 if quick else 3):
        T = rng.randrange(66000, 90000)
        bins = 2
        d = nprng.randn(T, 2)
        d[:, 1] = d[:, 0] + rng.choice([0.1, 0.5]) * nprng.randn(T)
        with quiet():
            got = CouplingAnalysis(d.copy(), silence_level=3).mutual_information(
                tau_max=0, estimator="binning", bins=bins, lag_mode="all")[:, :, 0]
        exp = np.zeros((2, 2))
        for i in range(2):
            for j in range(2):
                exp[i, j] = ref_hist_mi(ref_quantile_symbols(d[:, i], bins), ref_quantile_symbols(d[:, j], bins), bins)
        ctx.case(("bigT", T, bins, d[:8].tobytes().hex()), True)
        ctx.count("oracle:wide:binning_T>65535")
        if not close(got, exp, 2 * TOL):
            ctx.fail({"kind": "coupling", "method": "mutual_information", "estimator": "binning",
                      "check": "reference", "input_class": "more than 32767 samples in a histogram cell"},
                     f"binned MI for T = {T}, bins = {bins}: {got.tolist()}, equal-quantile histogram MI gives {exp.tolist()}",
                     {"T": T, "bins": bins, "data": "x0 = randn(T), x1 = x0 + noise", "expected": lst(exp),
                      "observed": lst(got)})

    for c in range(40 if quick else 300):
        T = rng.randrange(8, 60)
        N = rng.choice([2, 3, 4])
        tm = rng.randrange(0, min(T - 4, 12) + 1) if rng.random() < 0.5 else rng.randrange(0, 4)
        d = nprng.randint(-6, 7, size=(T, N)).astype(float)
        if rng.random() < 0.5:
            lag = rng.randrange(0, min(tm, T - 3) + 1)
            d[lag:, 1] = rng.choice([1.0, -1.0]) * d[:T - lag, 0] + nprng.randint(-1, 2, size=T - lag)
        ctx.case(("wide", T, N, tm, d.tobytes().hex()), True)
        ctx.count("oracle:wide:tau_max=%s" % ("0-3" if tm <= 3 else "4-12"))
        P = {"T": T, "N": N, "tau_max": tm, "data": lst(d)}
        with quiet():
            ca = CouplingAnalysis(d.copy(), silence_level=3)
            allv = ca.cross_correlation(tau_max=tm, lag_mode="all")
            mv, ml = ca.cross_correlation(tau_max=tm, lag_mode="max")
        ref = ref_xcorr(d, tm)
        if not close(allv, ref):
            k = np.unravel_index(np.nanargmax(np.abs(allv - ref)), ref.shape)
            ctx.fail({"kind": "coupling", "method": "cross_correlation", "check": "reference", "lag_mode": "all"},
                     f"cross_correlation(lag_mode='all')[{k}] = {allv[k]}, shifted-series Pearson gives {ref[k]} "
                     f"(tau_max = {tm})", dict(P, index=list(map(int, k))))
        check_max_vs_all(ctx, "cross_correlation", {"T": T, "N": N, "tau_max": tm}, d, allv, mv, ml,
                         use_abs=True, diag_free=True)

        # ---- float32 caller arrays: same results as float64 arrays holding the same numbers ----
        d32 = (d / 8.0 + nprng.randn(T, N)).astype(np.float32)
        bins = rng.choice([2, 3, 5, 8, 10])
        res = {}
        for nm, arr in (("f32", d32.copy()), ("f64", d32.astype(np.float64))):
            try:
                with quiet():
                    cx = CouplingAnalysis(arr, silence_level=3)
                    res[nm] = [cx.cross_correlation(tau_max=tm, lag_mode="all"),
                               cx.cross_correlation(tau_max=tm, lag_mode="max")[0],
                               fin(cx.mutual_information(tau_max=tm, estimator="gauss", lag_mode="all")),
                               cx.mutual_information(tau_max=tm, estimator="binning", bins=bins, lag_mode="all")]
                    if T - tm - 1 >= 10:
                        res[nm].append(fin(cx.information_transfer(tau_max=tm, estimator="gauss", lag_mode="all")))
            except Exception as e:  # noqa
                ctx.fail({"kind": "coupling", "check": "float_width", "error": type(e).__name__},
                         f"CouplingAnalysis on a {nm} array raised {type(e).__name__}: {e}",
                         dict(P, data32=lst(d32), bins=bins))
        ctx.count("oracle:wide:float32_caller_array")
        if len(res) == 2:
            names = ["cross_correlation all", "cross_correlation max", "gauss MI", "binned MI", "gauss IT"]
            for nm, a, b in zip(names, res["f32"], res["f64"]):
                well = (np.abs(b) < 3.0)
                if not close(np.where(well, a, 0), np.where(well, b, 0), 1e-4 if "gauss" in nm else 2 * TOL):
                    ctx.fail({"kind": "coupling", "check": "float_width", "method": nm},
                             f"{nm}: float32 caller array gives a different result than the same numbers as float64",
                             dict(P, data32=lst(d32), bins=bins))

        # ---- exact power-of-two affine images --------------------------------------------------
        ks = [rng.choice([-40, -20, 20, 40]) for _ in range(N)]
        sg = np.array([rng.choice([1.0, -1.0]) for _ in range(N)])
        a = sg * np.array([2.0 ** k for k in ks])
        b = np.array([float(rng.randrange(-3, 4)) * 2.0 ** k for k in ks])
        d2 = d * a + b                      # exact in float64 (small integers times powers of two)
        ctx.count("oracle:wide:pow2_affine")
        with quiet():
            c2 = CouplingAnalysis(d2.copy(), silence_level=3)
            allv2 = c2.cross_correlation(tau_max=tm, lag_mode="all")
        sgn = np.sign(np.outer(a, a))[:, :, None]
        if not close(allv2, allv * sgn, 2 * TOL):
            ctx.fail({"kind": "coupling", "method": "cross_correlation", "check": "affine",
                      "input_class": "power-of-two scale"},
                     "cross correlation changes under x_i -> ±2^k_i x_i + b_i",
                     dict(P, a=lst(a), b=lst(b)))
        apos = np.abs(a)
        with quiet():
            c3 = CouplingAnalysis((d * apos + b).copy(), silence_level=3)
            bm = ca.mutual_information(tau_max=tm, estimator="binning", bins=bins, lag_mode="all")
            bm3 = c3.mutual_information(tau_max=tm, estimator="binning", bins=bins, lag_mode="all")
        if not np.array_equal(bm, bm3):
            ctx.fail({"kind": "coupling", "method": "mutual_information", "estimator": "binning",
                      "check": "affine", "input_class": "power-of-two scale"},
                     "binned MI changes under a strictly increasing affine map of each series",
                     dict(P, a=lst(apos), b=lst(b), bins=bins))
        try:
            with quiet():
                g1raw = np.asarray(ca.mutual_information(tau_max=tm, estimator="gauss", lag_mode="all"), dtype=float)
                g1 = fin(g1raw)
                g2 = fin(c2.mutual_information(tau_max=tm, estimator="gauss", lag_mode="all"))
            # an exactly collinear pair (r = +-1, estimate inf) is as ill-conditioned as r^2 >= 0.9975:
            # `fin` would turn it into 0 and make it look well-conditioned (false alarm met in round 4)
            well = np.isfinite(g1raw) & (np.abs(g1) < 3.0)
            if not close(np.where(well, g2, 0), np.where(well, g1, 0), 1e-4):
                ctx.fail({"kind": "coupling", "method": "mutual_information", "estimator": "gauss",
                          "check": "affine", "input_class": "power-of-two scale"},
                         "gauss MI changes under x_i -> ±2^k_i x_i + b_i", dict(P, a=lst(a), b=lst(b)))
        except ValueError:
            pass
        if 2 * min(tm, 3) + 3 <= T:
            tp = min(tm, 3)
            with quiet():
                p1 = CouplingAnalysisPurePython(d.copy(), silence_level=3).cross_correlation(tau_max=tp)
                p2 = CouplingAnalysisPurePython(d2.copy(), silence_level=3).cross_correlation(tau_max=tp)
            if not close(p2, p1 * np.sign(np.outer(a, a))[None, :, :], 2 * TOL):
                ctx.fail({"kind": "pure_python", "method": "cross_correlation", "check": "affine",
                          "input_class": "power-of-two scale"},
                         "pure-Python cross correlation changes under x_i -> ±2^k_i x_i + b_i",
                         dict(P, a=lst(a), b=lst(b), tau_max_pure=tp))

        # ---- call history on one object: every repeated call returns the first answer ----------
        held = d.copy()
        obj = CouplingAnalysis(held, silence_level=3)
        ops = [("cross_correlation", dict(tau_max=tm, lag_mode="all")),
               ("cross_correlation", dict(tau_max=tm, lag_mode="max")),
               ("cross_correlation", dict(tau_max=min(tm, 1), lag_mode="max")),
               ("mutual_information", dict(tau_max=tm, estimator="binning", bins=bins, lag_mode="all")),
               ("mutual_information", dict(tau_max=min(tm, 1), estimator="binning", bins=2, lag_mode="max")),
               ("mutual_information", dict(tau_max=tm, estimator="gauss", lag_mode="max")),
               ("information_transfer", dict(tau_max=min(tm, 2), estimator="gauss", lag_mode="all"))]
        first, hist = {}, []
        for step in range(8):
            k = rng.randrange(len(ops))
            nm, kw = ops[k]
            if nm == "information_transfer" and T - kw["tau_max"] - 1 < 10:
                continue
            hist.append(k)
            try:
                with quiet():
                    r = getattr(obj, nm)(**kw)
            except ValueError:
                r = "ValueError"
            r = r if isinstance(r, (tuple, str)) else (r,)
            if k not in first:
                first[k] = r
            elif isinstance(r, str) != isinstance(first[k], str) or (
                    not isinstance(r, str) and not all(np.array_equal(x, y, equal_nan=True)
                                                       for x, y in zip(r, first[k]))):
                ctx.fail({"kind": "coupling", "method": nm, "check": "history"},
                         f"{nm}({kw}) returns a different answer after other estimators ran on the same object",
                         dict(P, history=[list(ops[h]) for h in hist], bins=bins))
                break
        ctx.count("oracle:wide:history")
        if not (np.array_equal(held, d) and np.array_equal(np.asarray(obj.data, dtype=float), d)):
            ctx.fail({"kind": "coupling", "check": "history", "method": "data"},
                     "the data held by the object (or the caller's array) changed during the estimator calls",
                     dict(P, history=[list(ops[h]) for h in hist]))
        # symmetrize_by_absmax through the public wrapper with caller dtypes (float64 / int64)
        S = nprng.randint(-8, 9, size=(N, N)) / 8.0
        L = nprng.randint(-5, 6, size=(N, N)).astype(np.int64)
        with quiet():
            rs, rl = obj.symmetrize_by_absmax(S.copy(), L.copy())
        spec_symabs(ctx, S.astype(np.float32), L.astype(np.int8), np.asarray(rs), np.asarray(rl))

    # ---- pure-Python class: only_tri, 3-d input ------------------------------------------------
    for c in range(20 if quick else 150):
        T = rng.randrange(7, 30)
        na, nb_ = rng.choice([(1, 2), (2, 2), (1, 3)])
        N = na * nb_
        tm = rng.randrange(0, min(3, (T - 3) // 2) + 1)
        d = nprng.randn(T, N)
        ctx.case(("pp2", T, N, tm, d.tobytes().hex()), True)
        ctx.count("oracle:wide:pure_python_only_tri/3d")
        with quiet():
            full = CouplingAnalysisPurePython(d.copy(), silence_level=3).cross_correlation(tau_max=tm)
            tri = CouplingAnalysisPurePython(d.copy(), only_tri=True, silence_level=3).cross_correlation(tau_max=tm)
            d3 = CouplingAnalysisPurePython(d.reshape(T, na, nb_).copy(), silence_level=3).cross_correlation(tau_max=tm)
        exp = np.zeros_like(full)
        for i in range(N):
            for j in range(i + 1, N):
                exp[:, i, j] = full[:, i, j]
                exp[:, j, i] = full[::-1, i, j]
        if not close(tri, exp, 1e-6):
            ctx.fail({"kind": "pure_python", "method": "cross_correlation", "check": "only_tri"},
                     "only_tri=True: the upper triangle differs from the full computation or the lower "
                     "triangle is not its lag-reversed mirror", {"data": lst(d), "tau_max": tm})
        if not np.array_equal(d3, full):
            ctx.fail({"kind": "pure_python", "method": "cross_correlation", "check": "3d_input"},
                     "a (time, lat, lon) array gives a different result than its (time, node) reshape",
                     {"data": lst(d), "shape": [T, na, nb_], "tau_max": tm})


# --------------------------------------------------------------------------
# oracle: CouplingAnalysis against reference statistics and relations
# --------------------------------------------------------------------------

def check_max_vs_all(ctx, meth, params, d, allv, mv, ml, use_abs, diag_free):
    """value/lag summary: value = lag function at the reported lag, no lag has a larger
    (absolute) value, and (first-maximum rule) no *later-visited* lag ties it strictly."""
    N = allv.shape[0]
    for i in range(N):
        for j in range(N):
            if i == j and diag_free:
                continue
            f = allv[i, j]
            a = np.abs(f) if use_abs else f
            lag = int(ml[i, j])
            bad = None
            if not (0 <= lag < len(f)):
                bad = "reported lag outside 0..tau_max"
            elif not np.all(np.isfinite(a)):
                continue
            else:
                v = float(mv[i, j])
                ref = float(f[lag])
                if use_abs or ref > 0:
                    if abs(v - ref) > TOL * (1 + abs(ref)):
                        bad = "value differs from the lag function at the reported lag"
                elif abs(v) > TOL:
                    bad = "value differs from the lag function at the reported lag"
                if bad is None and a.max() > (a[lag] if (use_abs or ref > 0) else 0.0) + TOL * (1 + a.max()):
                    bad = "a lag with a larger value exists"
            if bad:
                sig = {"kind": "coupling", "method": meth, "check": "max_vs_all"}
                sig.update({k: params[k] for k in ("estimator", "cond_mode") if k in params})
                ctx.fail(sig, f"{meth}(lag_mode='max') entry ({i},{j}): {bad}",
                         dict(params, data=lst(d), i=i, j=j, lagfunc=lst(f),
                              observed=[float(mv[i, j]), lag]))
                return


def oracle_coupling(ctx, rng, nprng, quick):
    from pyunicorn.funcnet import CouplingAnalysis
    ncases = 300 if quick else 2000
    for c in range(ncases):
        r = rng.random()
        if r < 0.55:
            T = rng.randrange(3, 30)
        elif r < 0.9:
            T = rng.randrange(30, 120)
        else:
            T = rng.randrange(120, 300 if quick else 600)
        N = rng.choice([2, 2, 3, 4, 5])
        if rng.random() < 0.06 and T <= 8:
            N = T + rng.randrange(1, 3)
        tm = rng.randrange(0, min(6, T - 1))
        kind = rng.choice(["int", "white", "ar"])
        d, feats = gen_data(rng, nprng, T, N, kind)
        ctx.case(("oracle", T, N, tm, d.tobytes().hex()), True,
                 {"data": lst(d), "tau_max": tm} if T <= 4 and N == 2 else None)
        ctx.count("oracle:T=%s" % ("3-29" if T < 30 else "30-119" if T < 120 else ">=120"))
        ctx.count(f"oracle:tau_max={tm}")
        ctx.count("oracle:kind=" + kind)
        for f in feats:
            ctx.count("oracle:" + f)
        if N > T:
            ctx.count("oracle:N>T")
        with quiet():
            ca = CouplingAnalysis(d.copy(), silence_level=3)
        P = {"T": T, "N": N, "tau_max": tm}

        # ---------------- cross correlation -------------------------------
        try:
            with quiet():
                allv = ca.cross_correlation(tau_max=tm, lag_mode="all")
                mv, ml = ca.cross_correlation(tau_max=tm, lag_mode="max")
        except Exception as e:  # noqa
            ctx.fail({"kind": "coupling", "method": "cross_correlation", "error": type(e).__name__},
                     f"cross_correlation raised {type(e).__name__}: {e}", dict(P, data=lst(d)))
            continue
        ref = ref_xcorr(d, tm)
        sig = {"kind": "coupling", "method": "cross_correlation"}
        if not close(allv, ref):
            k = np.unravel_index(np.nanargmax(np.abs(allv - ref)), ref.shape)
            ctx.fail(dict(sig, check="reference", lag_mode="all"),
                     f"cross_correlation(lag_mode='all')[{k}] = {allv[k]}, shifted-series Pearson gives {ref[k]}",
                     dict(P, data=lst(d), index=list(map(int, k)), expected=float(ref[k]),
                          observed=float(allv[k])))
        if np.any(np.abs(allv) > 1 + TOL):
            ctx.fail(dict(sig, check="bound"), "|cross correlation| > 1", dict(P, data=lst(d)))
        if not close(allv[:, :, 0], allv[:, :, 0].T):
            ctx.fail(dict(sig, check="symmetry"), "zero-lag cross correlation is not symmetric",
                     dict(P, data=lst(d)))
        check_max_vs_all(ctx, "cross_correlation", P, d, allv, mv, ml, use_abs=True, diag_free=True)
        if not (np.all(np.diag(mv) == 1) and np.all(np.diag(ml) == 0)):
            ctx.fail(dict(sig, check="diagonal"), "diagonal of the max-mode matrices is not (1, 0)",
                     dict(P, data=lst(d)))
        # reference for the summary where the maximum is clearly separated
        for i in range(N):
            for j in range(N):
                if i != j:
                    a = np.abs(ref[i, j])
                    top = a.max()
                    cands = [l for l in range(tm + 1) if a[l] >= top - 1e-4]
                    if top > 1e-3 and len(cands) == 1 and (
                            int(ml[i, j]) != cands[0] or abs(mv[i, j] - ref[i, j, cands[0]]) > 2 * TOL):
                        ctx.fail(dict(sig, check="reference", lag_mode="max"),
                                 f"value/lag at absolute maximum ({mv[i, j]}, {ml[i, j]}) differs from the "
                                 f"reference ({ref[i, j, cands[0]]}, {cands[0]})",
                                 dict(P, data=lst(d), i=i, j=j, lagfunc=lst(ref[i, j])))
        # symmetrize_by_absmax on the library's own output
        with quiet():
            sv, sl = ca.symmetrize_by_absmax(mv.copy(), ml.copy())
        exp_v = np.where(np.abs(mv) >= np.abs(mv.T), mv, mv.T)
        if not (close(np.abs(sv), np.abs(exp_v), 1e-7) and np.array_equal(sv, sv.T)
                and np.array_equal(sl, -sl.T)):
            ctx.fail({"kind": "coupling", "method": "symmetrize_by_absmax"},
                     "result is not symmetric in value / antisymmetric in lag with the larger |value|",
                     dict(P, data=lst(d), values=lst(mv), lags=lst(ml)))
        # affine images: a_i x_i + b_i  ->  sign(a_i a_j) r
        a = np.array([rng.choice([-3.0, -0.5, 2.0, 0.25]) for _ in range(N)])
        b = np.array([rng.choice([-10.0, 0.0, 7.5]) for _ in range(N)])
        with quiet():
            allv2 = CouplingAnalysis(d * a + b, silence_level=3).cross_correlation(tau_max=tm, lag_mode="all")
        if not close(allv2, allv * np.sign(np.outer(a, a))[:, :, None], 2 * TOL):
            ctx.fail(dict(sig, check="affine"), "cross correlation is not invariant under affine images",
                     dict(P, data=lst(d), a=lst(a), b=lst(b)))
        # reordered series
        perm = list(range(N))
        rng.shuffle(perm)
        with quiet():
            cap = CouplingAnalysis(d[:, perm].copy(), silence_level=3)
            allp = cap.cross_correlation(tau_max=tm, lag_mode="all")
            pv, pl = cap.cross_correlation(tau_max=tm, lag_mode="max")
        ev, el = mv[np.ix_(perm, perm)], ml[np.ix_(perm, perm)]
        ea = allv[np.ix_(perm, perm)]
        lag_ok = all(pl[i, j] == el[i, j]
                     or abs(abs(ea[i, j, int(pl[i, j])]) - abs(ea[i, j, int(el[i, j])])) < 1e-6   # near tie
                     for i in range(N) for j in range(N))
        if not (close(allp, ea, 1e-6) and close(pv, ev, 1e-6) and lag_ok):
            ctx.fail(dict(sig, check="permutation"), "reordering the series does not permute the matrices",
                     dict(P, data=lst(d), perm=perm))

        # ---------------- gaussian MI ---------------------------------------
        for lag_mode in ("all",):
            try:
                with quiet():
                    g_all = ca.mutual_information(tau_max=tm, estimator="gauss", lag_mode="all")
                    g_mv, g_ml = ca.mutual_information(tau_max=tm, estimator="gauss", lag_mode="max")
                ok = True
            except ValueError as e:
                # documented rejection of constant windows
                ok = False
                if not any(np.ptp(d[s:s + T - tm, i]) == 0 for i in range(N) for s in range(tm + 1)):
                    ctx.fail({"kind": "coupling", "method": "mutual_information", "estimator": "gauss",
                              "error": "ValueError"}, f"gauss MI raised ValueError without a constant window: {e}",
                             dict(P, data=lst(d)))
            except Exception as e:  # noqa
                ok = False
                ctx.fail({"kind": "coupling", "method": "mutual_information", "estimator": "gauss",
                          "error": type(e).__name__}, f"gauss MI raised {type(e).__name__}: {e}",
                         dict(P, data=lst(d)))
            if ok:
                ctx.count("oracle:mi_gauss")
                refg = np.vectorize(gauss_cmi)(ref)
                # entries with |r| close to 1 are ill-conditioned: compare where r^2 < 0.999
                mask = ref ** 2 < 0.999
                sigm = {"kind": "coupling", "method": "mutual_information", "estimator": "gauss"}
                if not close(g_all[mask], refg[mask], 1e-4):
                    k = np.argmax(np.abs(np.where(mask, g_all - refg, 0)))
                    k = np.unravel_index(k, ref.shape)
                    ctx.fail(dict(sigm, check="reference"),
                             f"gauss MI [{k}] = {g_all[k]}, -0.5 log(1 - r^2) gives {refg[k]}",
                             dict(P, data=lst(d), index=list(map(int, k))))
                if np.all(mask):
                    check_max_vs_all(ctx, "mutual_information", dict(P, estimator="gauss"), d,
                                     g_all, g_mv, g_ml, use_abs=False, diag_free=False)

        # ---------------- binned MI -----------------------------------------
        bins = rng.choice([2, 3, 4, 6])
        try:
            with quiet():
                b_all = ca.mutual_information(tau_max=tm, estimator="binning", bins=bins, lag_mode="all")
                b_mv, b_ml = ca.mutual_information(tau_max=tm, estimator="binning", bins=bins, lag_mode="max")
        except Exception as e:  # noqa
            ctx.fail({"kind": "coupling", "method": "mutual_information", "estimator": "binning",
                      "error": type(e).__name__}, f"binned MI raised {type(e).__name__}: {e}",
                     dict(P, data=lst(d), bins=bins))
            b_all = None
        if b_all is not None:
            ctx.count("oracle:mi_binning")
            M = T - tm
            refb = np.zeros((N, N, tm + 1))
            for i in range(N):
                for j in range(N):
                    for lag in range(tm + 1):
                        sa = ref_quantile_symbols(d[tm - lag:T - lag, i], bins)
                        sb = ref_quantile_symbols(d[tm:T, j], bins)
                        refb[i, j, lag] = ref_hist_mi(sa, sb, int(max(sa.max(), sb.max())) + 1)
            if not close(b_all, refb, 2 * TOL):
                k = np.unravel_index(np.argmax(np.abs(b_all - refb)), refb.shape)
                scaled = close(b_all, refb * M / T, 2 * TOL)
                ctx.fail({"kind": "coupling", "method": "mutual_information", "estimator": "binning",
                          "check": "reference",
                          "input_class": ("tau_max>0: entropies normalised by T instead of T-tau_max"
                                          if tm > 0 and scaled else "other")},
                         f"binned MI [{k}] = {b_all[k]}, equal-quantile histogram MI gives {refb[k]}"
                         + (f" (all entries are scaled by (T-tau_max)/T = {M}/{T})" if scaled else ""),
                         dict(P, data=lst(d), bins=bins, index=list(map(int, k)),
                              expected=float(refb[k]), observed=float(b_all[k])))
            check_max_vs_all(ctx, "mutual_information", dict(P, estimator="binning", bins=bins), d,
                             b_all, b_mv, b_ml, use_abs=False, diag_free=False)
            if not close(b_all[:, :, 0], b_all[:, :, 0].T, 1e-6):
                ctx.fail({"kind": "coupling", "method": "mutual_information", "estimator": "binning",
                          "check": "symmetry"}, "zero-lag binned MI is not symmetric", dict(P, data=lst(d)))

        # ---------------- gaussian information transfer ------------------
        if T - tm >= 8 and "constant" not in feats and "duplicated" not in feats \
                and "anticorrelated" not in feats and kind != "int":
            past = rng.choice([1, 1, 2])
            cond = rng.choice(["ity", "mit"])
            if T - tm - past >= 2 * past + 6:
                oracle_it(ctx, ca, d, T, N, tm, past, cond, P)


def oracle_long_lags(ctx, rng, nprng, quick):
    """lags beyond the int8 range of the lag matrix"""
    from pyunicorn.funcnet import CouplingAnalysis
    for c in range(2 if quick else 8):
        lag = rng.randrange(100, 127) if c % 2 == 0 else rng.randrange(128, 200)
        tm = lag + rng.randrange(0, 30)
        T = tm + rng.randrange(120, 200)
        d = nprng.randn(T, 2)
        d[lag:, 1] = d[:T - lag, 0]
        with quiet():
            mv, ml = CouplingAnalysis(d.copy(), silence_level=3).cross_correlation(tau_max=tm, lag_mode="max")
        ctx.case(("longlag", T, tm, lag, d.tobytes().hex()), True)
        ctx.count("oracle:long_lag:" + ("tau_max<=127" if tm <= 127 else "tau_max>127"))
        if int(ml[0, 1]) != lag or abs(mv[0, 1] - 1) > TOL:
            ctx.fail({"kind": "coupling", "method": "cross_correlation", "check": "lag_int8",
                      "input_class": "tau_max>127" if tm > 127 else "tau_max<=127"},
                     f"x_1(t) = x_0(t - {lag}) exactly, tau_max = {tm}: reported (value, lag) = "
                     f"({mv[0, 1]}, {ml[0, 1]})",
                     {"T": T, "tau_max": tm, "true_lag": lag, "seed_data": "x_0 = randn, x_1 = x_0 shifted",
                      "observed": [float(mv[0, 1]), int(ml[0, 1])], "expected": [1.0, lag]})
    # the numpy stores `lag_matrix[i, j] = lag_at_max` of mutual_information / information_transfer
    # into the same LAG array (Gaussian estimator, lag_mode='max')
    for c in range(2 if quick else 8):
        lag = rng.randrange(100, 127) if c % 2 == 0 else rng.randrange(128, 160)
        tm = lag + rng.randrange(0, 12)
        T = tm + rng.randrange(150, 220)
        d = nprng.randn(T, 2)
        d[lag:, 1] = d[:T - lag, 0] + 0.3 * nprng.randn(T - lag)
        meth = rng.choice(["mutual_information", "information_transfer"])
        ca = CouplingAnalysis(d.copy(), silence_level=3)
        ctx.case(("longlag-mi", meth, T, tm, lag, d.tobytes().hex()), True)
        ctx.count(f"oracle:long_lag:{meth}:" + ("tau_max<=127" if tm <= 127 else "tau_max>127"))
        try:
            with quiet(), np.errstate(all="ignore"):
                mv, ml = getattr(ca, meth)(tau_max=tm, estimator="gauss", lag_mode="max")
            obs = int(ml[0, 1])
        except OverflowError as e:
            obs = f"OverflowError: {e}"
        if obs != lag:
            ctx.fail({"kind": "coupling", "method": meth, "check": "lag_int8",
                      "input_class": "tau_max>127" if tm > 127 else "tau_max<=127"},
                     f"x_1(t) = x_0(t - {lag}) + noise, tau_max = {tm}, estimator='gauss', lag_mode='max': "
                     f"reported lag {obs}",
                     {"T": T, "tau_max": tm, "true_lag": lag, "method": meth, "observed": obs, "expected": lag})


def oracle_periodic(ctx, rng, nprng, quick):
    """first-maximum rule on exact ties: all series have period p, so the windows at tau and
    tau + p are identical arrays and the estimates tie exactly.  cross_correlation visits
    tau = 0.. and reports lag = tau_max - tau (largest lag wins); mutual_information /
    information_transfer report lag = tau (smallest lag wins)."""
    from pyunicorn.funcnet import CouplingAnalysis
    for c in range(60 if quick else 400):
        p = rng.choice([2, 3])
        N = rng.choice([2, 3])
        tm = rng.randrange(p, p + 4)
        reps = rng.randrange(tm // p + 3, tm // p + 8)
        block = nprng.permutation(p * N).reshape(p, N).astype(float) + nprng.rand(p, N) / 4
        d = np.tile(block, (reps, 1))
        T = d.shape[0]
        ctx.case(("periodic", p, N, tm, d.tobytes().hex()), True)
        ctx.count(f"oracle:periodic:p={p}")
        with quiet():
            ca = CouplingAnalysis(d.copy(), silence_level=3)
            mv, ml = ca.cross_correlation(tau_max=tm, lag_mode="max")
        P = {"T": T, "N": N, "tau_max": tm, "period": p, "data": lst(d)}
        offd = ~np.eye(N, dtype=bool)
        if np.any(ml[offd] <= tm - p):
            ctx.fail({"kind": "coupling", "method": "cross_correlation", "check": "first_maximum"},
                     f"period-{p} data: a lag <= tau_max - period was reported although the same value "
                     "occurs at a larger lag (visited first)", dict(P, lags=lst(ml)))
        for est, kw in (("binning", {"bins": rng.choice([2, 3])}), ("gauss", {})):
            try:
                with quiet():
                    v, lg = ca.mutual_information(tau_max=tm, estimator=est, lag_mode="max", **kw)
            except ValueError:
                continue
            if np.any(lg >= p):
                ctx.fail({"kind": "coupling", "method": "mutual_information", "estimator": est,
                          "check": "first_maximum"},
                         f"period-{p} data: a lag >= period was reported although the identical window "
                         "occurs at a smaller lag (visited first)", dict(P, lags=lst(lg), **kw))
        if T - tm - 1 >= 8:
            try:
                with quiet():
                    v, lg = ca.information_transfer(tau_max=tm, estimator="gauss", past=1, lag_mode="max")
            except ValueError:
                continue
            if np.any(lg[np.isfinite(v)] >= p):
                ctx.fail({"kind": "coupling", "method": "information_transfer", "estimator": "gauss",
                          "check": "first_maximum"},
                         f"period-{p} data: a lag >= period was reported", dict(P, lags=lst(lg)))


def oracle_it(ctx, ca, d, T, N, tm, past, cond, P):
    P = dict(P, past=past, cond_mode=cond, estimator="gauss")
    ml0 = tm + past
    ref = np.zeros((N, N, tm + 1))
    for i in range(N):
        for j in range(N):
            for tau in range(tm + 1):
                x = d[ml0 - tau:T - tau, i]
                y = d[ml0:T, j]
                Z = [d[ml0 - p:T - p, j] for p in range(1, past + 1)]
                if cond == "mit":
                    Z += [d[ml0 - tau - p:T - tau - p, i] for p in range(1, past + 1)]
                with np.errstate(all="ignore"):
                    ref[i, j, tau] = gauss_cmi(ref_partial_corr(x, y, Z))
    res = {}
    for lag_mode in ("max", "all"):
        try:
            with quiet():
                res[lag_mode] = ca.information_transfer(tau_max=tm, estimator="gauss", past=past,
                                                        cond_mode=cond, lag_mode=lag_mode)
        except Exception as e:  # noqa
            ctx.fail({"kind": "coupling", "method": "information_transfer", "estimator": "gauss",
                      "lag_mode": lag_mode, "error": type(e).__name__},
                     f"information_transfer(estimator='gauss', lag_mode='{lag_mode}') raised "
                     f"{type(e).__name__}: {e}", dict(P, data=lst(d), lag_mode=lag_mode))
    ctx.count("oracle:it_gauss:" + cond)
    offd = ~np.eye(N, dtype=bool)
    well = np.isfinite(ref) & (ref < 3.0)       # partial correlation^2 < 0.9975
    well &= offd[:, :, None]
    sig = {"kind": "coupling", "method": "information_transfer", "estimator": "gauss", "cond_mode": cond}
    if "all" in res:
        a = res["all"]
        if not close(a[well], ref[well], 1e-4):
            k = np.unravel_index(np.argmax(np.abs(np.where(well, a - ref, 0))), ref.shape)
            ctx.fail(dict(sig, check="reference", lag_mode="all"),
                     f"information_transfer [{k}] = {a[k]}, regression-residual partial correlation gives {ref[k]}",
                     dict(P, data=lst(d), index=list(map(int, k)), expected=float(ref[k]), observed=float(a[k])))
        if np.any(np.diagonal(a[:, :, 0]) != 0):
            ctx.fail(dict(sig, check="diagonal"), "zero-lag self transfer is not zeroed", dict(P, data=lst(d)))
    if "max" in res:
        mv, ml = res["max"]
        for i in range(N):
            for j in range(N):
                if i == j or not np.all(well[i, j]):
                    continue
                f = ref[i, j]
                top = f.max()
                cands = [l for l in range(tm + 1) if f[l] >= top - 1e-3]
                if top > 1e-3 and len(cands) == 1 and (
                        int(ml[i, j]) != cands[0] or abs(mv[i, j] - top) > 1e-4 * (1 + top)):
                    ctx.fail(dict(sig, check="reference", lag_mode="max"),
                             f"information_transfer max entry ({i},{j}) = ({mv[i, j]}, {ml[i, j]}), reference "
                             f"({top}, {cands[0]})", dict(P, data=lst(d), i=i, j=j, lagfunc=lst(f)))
                    return


# --------------------------------------------------------------------------
# oracle: kNN estimator through its deterministic kernel
# --------------------------------------------------------------------------

def oracle_knn(ctx, rng, nprng, quick):
    from pyunicorn.funcnet._ext import numerics as FK
    from pyunicorn.funcnet import CouplingAnalysis
    from scipy import special
    for c in range(80 if quick else 400):
        T = rng.randrange(6, 40)
        dim = rng.choice([2, 2, 3, 4])
        k = rng.randrange(1, max(2, T // 2))
        # tie-free in every coordinate and in every pairwise distance with margin: distinct
        # multiples of 1/64 perturbed by distinct tiny dyadics
        arr = np.array([nprng.permutation(4 * T)[:T] / 8.0 + nprng.permutation(T) / 4096.0
                        for _ in range(dim)])
        a32 = arr.astype(np.float32)
        kx, ky, kz = FK._get_nearest_neighbors(a32.copy(), dim, T, 1, 1, k)
        ex, ey, ez = ref_knn_counts(a32.astype(float), 1, 1, k)
        ctx.case(("knn", T, dim, k, a32.tobytes().hex()), True)
        ctx.count(f"oracle:knn:dim={dim}")
        if list(map(int, kx)) != ex or list(map(int, ky)) != ey or list(map(int, kz)) != ez:
            ctx.fail({"kind": "kernel", "kernel": "_get_nearest_neighbors"},
                     "neighbour counts differ from the brute-force KSG counts",
                     {"array": lst(a32), "k": k, "expected": [ex, ey, ez],
                      "observed": [lst(kx), lst(ky), lst(kz)]})
    # the public wrapper without standardisation, multi-dimensional X / Y / Z subspaces
    # (the 1e-10 tie-breaking noise is below half an ulp of these float32 values)
    for c in range(40 if quick else 300):
        T = rng.randrange(6, 40)
        dx, dy, dz = rng.choice([1, 2]), rng.choice([1, 2]), rng.choice([0, 1, 2])
        dim = dx + dy + dz
        k = rng.randrange(1, max(2, T // 2))
        arr = np.array([nprng.permutation(4 * T)[:T] / 8.0 + nprng.permutation(T) / 4096.0
                        for _ in range(dim)])
        xyz = np.array([0] * dx + [1] * dy + [2] * dz)
        np.random.seed(rng.randrange(2 ** 31))
        kx, ky, kz = CouplingAnalysis.get_nearest_neighbors(arr.copy(), xyz, k, standardize=False)
        ex, ey, ez = ref_knn_counts(arr.astype(np.float32).astype(float), dx, dy, k)
        ctx.case(("knnpub", T, dx, dy, dz, k, arr.tobytes().hex()), True)
        ctx.count(f"oracle:knn:public:dims={dx},{dy},{dz}")
        if list(map(int, kx)) != ex or list(map(int, ky)) != ey or list(map(int, kz)) != ez:
            ctx.fail({"kind": "coupling", "method": "get_nearest_neighbors", "check": "reference"},
                     "get_nearest_neighbors(standardize=False) differs from the brute-force KSG counts",
                     {"array": lst(arr), "xyz": lst(xyz), "k": k, "expected": [ex, ey, ez],
                      "observed": [lst(kx), lst(ky), lst(kz)]})
    # the estimator on top of the kernel: psi(k) + mean(psi(k_z) - psi(k_xz) - psi(k_yz))
    for c in range(10 if quick else 60):
        T = rng.randrange(20, 60)
        N = 2
        tm = rng.choice([0, 1, 2])
        knn = rng.randrange(2, 6)
        # continuous data: exact ties between float32 distances (which the estimator's 1e-10
        # noise could break differently) have negligible probability
        d = nprng.randn(T, N)
        d[1:, 1] += 0.8 * d[:-1, 0]
        np.random.seed(rng.randrange(2 ** 31))
        with quiet():
            ca = CouplingAnalysis(d.copy(), silence_level=3)
            got = ca.mutual_information(tau_max=tm, estimator="knn", knn=knn, lag_mode="all")
        exp = np.zeros_like(got, dtype=float)
        for i in range(N):
            for j in range(N):
                for tau in range(tm + 1):
                    arr = np.array([d[tm - tau:T - tau, i], d[tm:T, j]])
                    arr = arr.astype(np.float32)
                    arr -= arr.mean(axis=1).reshape(2, 1)
                    arr /= arr.std(axis=1).reshape(2, 1)
                    kx, ky, kz = ref_knn_counts(arr, 1, 1, knn)      # float32 differences
                    exp[i, j, tau] = special.digamma(knn) + np.mean(
                        special.digamma(kz) - special.digamma(kx) - special.digamma(ky))
        ctx.case(("knnmi", T, tm, knn, d.tobytes().hex()), True)
        ctx.count("oracle:mi_knn")
        offd = ~np.eye(N, dtype=bool)
        if not close(got[offd], exp[offd], 1e-4):
            ctx.fail({"kind": "coupling", "method": "mutual_information", "estimator": "knn",
                      "check": "reference"},
                     "kNN MI differs from the KSG-1 estimate with brute-force neighbour counts",
                     {"data": lst(d), "tau_max": tm, "knn": knn, "expected": lst(exp), "observed": lst(got)})



# --------------------------------------------------------------------------
# round 3: kNN kernel, only_tri / _calculate_mi of the pure-Python class, surrogate matrices
# --------------------------------------------------------------------------

def _mi_from_hist_like_code(h, cr, bins):
    """the arithmetic of _calculate_mi in the same order (double precision)"""
    jointent = 0.0
    for m in range(bins):
        for n in range(bins):
            c = int(h[m * bins + n])
            jointent -= (c * np.log(c)) if c > 0 else 0.0
    jointent /= float(cr)
    jointent += np.log(float(cr))
    mi = 2. * np.log(bins) - jointent
    mi /= np.log(bins)
    return float(mi)


def _terminates_probe(ctx):
    """calls that must raise (k >= number of samples) instead of looping for ever; run in a child
    process because a non-terminating compiled loop cannot be interrupted in-process"""
    import subprocess
    import sys
    code = r"""
import numpy as np, warnings, io, contextlib
warnings.simplefilter('ignore')
from pyunicorn.funcnet import CouplingAnalysis
d = np.random.RandomState(3).randn(20, 2)
out = []
def probe(name, f):
    try:
        with contextlib.redirect_stdout(io.StringIO()):
            f()
        out.append(name + ':returned')
    except (ValueError, AssertionError) as e:
        out.append(name + ':raised')
    print(out[-1], flush=True)
probe('gnn_k=T', lambda: CouplingAnalysis.get_nearest_neighbors(d[:8].T.copy(), np.array([0, 1]), 8))
probe('gnn_k=T+3', lambda: CouplingAnalysis.get_nearest_neighbors(d[:8].T.copy(), np.array([0, 1]), 11, standardize=False))
probe('gnn_k=0', lambda: CouplingAnalysis.get_nearest_neighbors(d[:8].T.copy(), np.array([0, 1]), 0))
probe('mi_knn', lambda: CouplingAnalysis(d.copy(), silence_level=3).mutual_information(tau_max=12, estimator='knn', knn=10, lag_mode='all'))
probe('it_knn', lambda: CouplingAnalysis(d.copy(), silence_level=3).information_transfer(tau_max=9, estimator='knn', knn=10, past=2, lag_mode='all'))
probe('gnn_k=T-1', lambda: CouplingAnalysis.get_nearest_neighbors(d[:8].T.copy(), np.array([0, 1]), 7))
"""
    env = dict(os.environ)
    env["PYTHONPATH"] = os.pathsep.join(p for p in sys.path if p)
    try:
        r = subprocess.run([sys.executable, "-c", code], env=env, stdout=subprocess.PIPE,
                           stderr=subprocess.PIPE, text=True, timeout=60)
        lines = [ln for ln in r.stdout.split("\n") if ":" in ln]
        hung = None
    except subprocess.TimeoutExpired as e:
        so = e.stdout.decode() if isinstance(e.stdout, bytes) else (e.stdout or "")
        lines = [ln for ln in so.split("\n") if ":" in ln]
        hung = True
    ctx.count("oracle:knn:terminates_probe")
    ctx.case(("knn-terminates",), True)
    want = {"gnn_k=T": "raised", "gnn_k=T+3": "raised", "gnn_k=0": "raised", "mi_knn": "raised",
            "it_knn": "raised", "gnn_k=T-1": "returned"}
    got = dict(ln.split(":", 1) for ln in lines)
    for name, w in want.items():
        if got.get(name) != w:
            ctx.fail({"kind": "coupling", "method": "get_nearest_neighbors", "check": "terminates"},
                     f"nearest-neighbour search with k >= number of samples ({name}): expected '{w}', "
                     f"observed '{got.get(name, 'no answer within 60 s (loop does not terminate)' if hung else 'no answer')}'"
                     " — the growing-cube loop cannot find more than k samples (Lean: knn_never_terminates)",
                     {"probe": name, "data": "RandomState(3).randn(20, 2)", "observed": got, "hung": bool(hung)})
            break


def model_round3(ctx, rng, nprng, quick):
    from pyunicorn.funcnet._ext import numerics as FK
    from pyunicorn.funcnet import CouplingAnalysis
    from pyunicorn.funcnet.coupling_analysis_pure_python import CouplingAnalysisPurePython
    cor = Cor(ctx, "Lean CouplingKnn / Coupling3 model == _get_nearest_neighbors (exact counts, ties), only_tri "
                   "assembly of _calculate_cc / _calculate_mi (exact), _calculate_mi histograms / max scan, "
                   "time / shuffled surrogate matrices on the recorded draw (tol 2e-5)")

    # ---- (1) _get_nearest_neighbors at its boundary: exact, with ties ------------------------
    for c in range(120 if quick else 1200):
        dx, dy, dz = rng.choice([1, 1, 2]), rng.choice([1, 1, 2]), rng.choice([0, 0, 1, 2])
        dim = dx + dy + dz
        T = rng.randrange(2, 15) if c % 4 else rng.randrange(15, 40)
        k = rng.randrange(1, T)
        hi = rng.choice([1, 2, 4, 8, 30])
        arr = nprng.randint(0, hi + 1, size=(dim, T)).astype(np.float32)
        kind = rng.choice(["int", "half", "dup", "const", "scaled"])
        if kind == "half":
            arr = arr / np.float32(2.0)
        elif kind == "dup" and T >= 3:
            arr[:, 1] = arr[:, 0]                               # duplicated sample: zero distances
            arr[:, T - 1] = arr[:, 0]
        elif kind == "const":
            arr[rng.randrange(dim)] = 1.0                       # a coordinate without spread
        elif kind == "scaled":
            arr = arr * np.float32(2.0 ** rng.choice([-20, 20, 40]))   # exact power-of-two rescaling
        kx, ky, kz = FK._get_nearest_neighbors(arr.copy(), dim, T, dx, dy, k)
        ctx.case(("knn3", dim, dx, dy, T, k, arr.tobytes().hex()), T >= 3)
        ctx.count(f"kernel:knn:exact:{kind}")
        ctx.count(f"kernel:knn:dims={dx},{dy},{dz}")
        impl = f"{enc_ints(kx)};{enc_ints(ky)};{enc_ints(kz)}"
        eps0 = Fraction((k / T) ** (1. / dim))
        cor.add(f"knn {T} {dim} {dx} {dy} {k} {enc_rat(eps0)} {enc_rats(Fraction(float(v)) for v in arr.reshape(-1))}",
                exact(impl))
        # independent brute force (ties included: (k+1)-th smallest distance, strict counts)
        ex, ey, ez = ref_knn_counts(arr.astype(float), dx, dy, k)
        if list(map(int, kx)) != ex or list(map(int, ky)) != ey or list(map(int, kz)) != ez:
            ctx.fail({"kind": "kernel", "kernel": "_get_nearest_neighbors", "check": "ties"},
                     "neighbour counts differ from the brute-force KSG counts on data with tied distances",
                     {"array": lst(arr), "dim_x": dx, "dim_y": dy, "k": k, "expected": [ex, ey, ez],
                      "observed": [lst(kx), lst(ky), lst(kz)]})
    _terminates_probe(ctx)

    # ---- (2) only_tri assembly + (3) _calculate_mi of the pure-Python class -------------------
    for c in range(60 if quick else 500):
        N = rng.choice([2, 3, 3, 4])
        tm = rng.choice([0, 1, 1, 2])
        cr = rng.choice([2, 3, 4, 6, 8])
        hi = rng.choice([1, 2, 3])
        A = nprng.randint(-hi, hi + 1, size=(2 * tm + 1, N, cr)).astype(np.float32)
        bins = rng.choice([2, 3, 4])
        S = nprng.randint(0, bins, size=(2 * tm + 1, N, cr)).astype(np.uint8)
        if rng.random() < 0.3 and tm >= 1:
            S[0] = S[2 * tm]                                     # exact MI ties between the end windows
        if rng.random() < 0.15:
            S[:] = S[tm][0][None, None, :]                       # every series equal: MI maximal everywhere
        with quiet():
            full = CouplingAnalysisPurePython(np.zeros((2 * tm + 3, N)), silence_level=3)
            tri = CouplingAnalysisPurePython(np.zeros((2 * tm + 3, N)), only_tri=True, silence_level=3)
            res = {}
            for mode in ("all", "sum", "max"):
                res["cc", mode] = (full._calculate_cc(A.copy(), tau_max=tm, lag_mode=mode),
                                   tri._calculate_cc(A.copy(), tau_max=tm, lag_mode=mode))
                res["mi", mode] = (full._calculate_mi(S.copy(), corr_range=cr, bins=bins, tau_max=tm, lag_mode=mode),
                                   tri._calculate_mi(S.copy(), corr_range=cr, bins=bins, tau_max=tm, lag_mode=mode))
        ctx.case(("tri", N, tm, cr, bins, A.tobytes().hex(), S.tobytes().hex()), True,
                 {"kernel": "CouplingAnalysisPurePython._calculate_cc/_calculate_mi(only_tri)", "array": lst(A),
                  "symbols": lst(S), "tau_max": tm} if N == 2 and cr <= 2 else None)
        ctx.count(f"kernel:only_tri:tau_max={tm}")
        for (what, mode), (rf, rt) in res.items():
            vals = enc_rats(Fraction(float(v)) for v in np.asarray(rf).reshape(-1))
            if mode == "all":
                impl = enc_rats(Fraction(float(v)) for v in np.asarray(rt).reshape(-1))
            else:
                impl = ";".join(enc_rats(Fraction(float(v)) for v in np.asarray(rt[q]).reshape(-1)) for q in (0, 1))
            cor.add(f"tri {mode} {N} {tm} {vals}",
                    (lambda m, impl=impl, what=what, mode=mode:
                     None if m == impl else f"{what} only_tri '{mode}': model={m[:200]} impl={impl[:200]}"))
        # independent of the model: only_tri = strict upper triangle of the full computation, mirrored with
        # the lag reversed ('all'), as (positive-lag sum, negative-lag sum) exchanged ('sum'), as the same
        # value with the opposite lag ('max'); the diagonal is not computed
        for what in ("cc", "mi"):
            fa, ta = res[what, "all"]
            fs, tsu = res[what, "sum"]
            fm, tmx = res[what, "max"]
            exp_a, exp_s, exp_m = np.zeros_like(fa), np.zeros_like(fs), np.zeros_like(fm)
            for i in range(N):
                for j in range(i + 1, N):
                    exp_a[:, i, j] = fa[:, i, j]
                    exp_a[:, j, i] = fa[::-1, i, j]
                    exp_s[0, i, j], exp_s[0, j, i] = fs[0, i, j], fs[1, i, j]
                    exp_s[1, i, j], exp_s[1, j, i] = fs[1, i, j], fs[0, i, j]
                    exp_m[0, i, j] = exp_m[0, j, i] = fm[0, i, j]
                    exp_m[1, i, j], exp_m[1, j, i] = fm[1, i, j], -fm[1, i, j]
            for mode, got_t, exp_t in (("all", ta, exp_a), ("sum", tsu, exp_s), ("max", tmx, exp_m)):
                if not np.array_equal(np.asarray(got_t), exp_t):
                    ctx.fail({"kind": "pure_python", "method": f"_calculate_{what}", "check": "only_tri", "lag_mode": mode},
                             f"_calculate_{what}(only_tri=True, '{mode}') is not the upper triangle of the full computation "
                             "mirrored into the lower triangle (lag reversed / sums exchanged / lag negated)",
                             {"array": lst(A) if what == "cc" else lst(S), "tau_max": tm, "bins": bins,
                              "expected": lst(exp_t), "observed": lst(got_t)})
        # _calculate_mi: histograms -> values, max scan, sums
        r_all, r_sum, r_max = res["mi", "all"][0], res["mi", "sum"][0], res["mi", "max"][0]

        def compare(m, r_all=r_all, r_sum=r_sum, r_max=r_max, N=N, tm=tm, cr=cr, bins=bins):
            parts = m.split("|")
            if len(parts) != N * N * (2 * tm + 1) or "!dirty" in m:
                return f"bad answer / histogram not reset: {m[:200]}"
            q = 0
            for i in range(N):
                for j in range(N):
                    f = []
                    for t in range(2 * tm + 1):
                        f.append(_mi_from_hist_like_code(dec_ints(parts[q]), cr, bins))
                        q += 1
                        if abs(f[-1] - float(r_all[t, i, j])) > 2e-6 * (1 + abs(f[-1])):
                            return f"'all'[{t},{i},{j}]: from model histogram {f[-1]}, impl {float(r_all[t, i, j])}"
                    s0, s1 = sum(f[tm:]), sum(f[:tm + 1])
                    if abs(s0 - r_sum[0][i, j]) > 1e-5 * (1 + abs(s0)) or abs(s1 - r_sum[1][i, j]) > 1e-5 * (1 + abs(s1)):
                        return f"'sum'[{i},{j}]: model ({s0}, {s1}) impl ({r_sum[0][i, j]}, {r_sum[1][i, j]})"
                    mx = common.driver(ctx.pid, [f"pmimax {tm} {enc_rats(Fraction(v) for v in f)}"])[0].split(";")
                    if np.float32(float(Fraction(mx[0]))) != r_max[0][i, j] or int(mx[1]) != int(r_max[1][i, j]):
                        return (f"'max'[{i},{j}]: model scan ({float(Fraction(mx[0]))}, {mx[1]}) impl "
                                f"({r_max[0][i, j]}, {r_max[1][i, j]}) lag function {f}")
            return None
        if c < (25 if quick else 200):
            cor.add(f"pmihist {N} {tm} {cr} {bins} {enc_ints(S.reshape(-1))}", compare)
        # independent reference: joint entropy from numpy.histogram2d
        for i in range(N):
            for j in range(N):
                for t in range(2 * tm + 1):
                    h2, _, _ = np.histogram2d(S[tm, i], S[t, j], bins=[np.arange(bins + 1) - 0.5] * 2)
                    pr = h2[h2 > 0] / cr
                    exp = (2 * math.log(bins) + float((pr * np.log(pr)).sum())) / math.log(bins)
                    if abs(exp - float(r_all[t, i, j])) > 1e-5 * (1 + abs(exp)):
                        ctx.fail({"kind": "pure_python", "method": "_calculate_mi", "check": "reference"},
                                 "pure-Python _calculate_mi differs from (2 log(bins) - H_joint) / log(bins)",
                                 {"symbols": lst(S), "tau_max": tm, "bins": bins, "t": t, "i": i, "j": j,
                                  "expected": exp, "observed": float(r_all[t, i, j])})

    # ---- (4) surrogate matrices on the recorded draw --------------------------------------------
    for c in range(40 if quick else 300):
        T = rng.choice([6, 8, 9, 12, 16, 20])
        N = rng.choice([2, 2, 3])
        tm = rng.randrange(0, min(3, (T - 3) // 2 + 1))
        d, feats = gen_data(rng, nprng, T, N, "int")
        dt = rng.choice([np.float64, np.float32])
        layout = rng.choice(["C", "F"])
        data = np.asarray(d.astype(dt), order=layout)
        seed = rng.randrange(2 ** 31)
        full_sample = rng.random() < 0.4
        sr = (T - 2 * tm) if full_sample else rng.randrange(2, T - 2 * tm + 1)
        with quiet():
            pp = CouplingAnalysisPurePython(data, silence_level=3)
            keep = pp.dataarray.copy()
            ref_all = pp.cross_correlation(tau_max=tm, lag_mode="all")
            np.random.seed(seed)
            ts = pp.time_surrogate_for_cc(sample_range=sr, tau_max=tm, lag_mode="all")
            np.random.seed(seed)
            perm = np.random.permutation(range(tm, T - tm))[:sr]
            np.random.seed(seed)
            ss = pp.shuffled_surrogate_for_cc(tau_max=tm, lag_mode="all")
            np.random.seed(seed)
            shuf = []
            for i in range(N):
                idx = np.arange(T)
                np.random.shuffle(idx)
                shuf.append(idx)
            np.random.seed(seed)
            ss_sum = pp.shuffled_surrogate_for_cc(tau_max=tm, lag_mode="sum")
            np.random.seed(seed)
            ss_max = pp.shuffled_surrogate_for_cc(tau_max=tm, lag_mode="max")
            after = pp.cross_correlation(tau_max=tm, lag_mode="all")
        ctx.case(("surr", T, N, tm, sr, seed, str(dt), layout, d.tobytes().hex()), True)
        ctx.count(f"surrogate:cc:{'full' if full_sample else 'partial'}:{np.dtype(dt).name}:{layout}")
        srr = len(perm)
        cor.add(f"tsurr {T} {N} {tm} {srr} {enc_ints(perm)} {flat_series_major(d)}",
                (lambda m, ts=ts: None if close(ssq(ts.reshape(-1)), [float(x) for x in dec_rats(m)], 2e-5)
                 else f"time_surrogate_for_cc: model={m[:160]} impl={ssq(ts.reshape(-1)).tolist()[:12]}"))
        cor.add(f"ssurr {T} {N} {T - 2 * tm} {enc_ints(np.concatenate(shuf))} {flat_series_major(d)}",
                (lambda m, ss=ss: None if close(ssq(ss[0].reshape(-1)), [float(x) for x in dec_rats(m)], 2e-5)
                 else f"shuffled_surrogate_for_cc: model={m[:160]} impl={ssq(ss[0].reshape(-1)).tolist()[:12]}"))
        sig = {"kind": "pure_python", "method": "surrogate_for_cc"}
        rep = {"data": lst(d), "dtype": np.dtype(dt).name, "layout": layout, "tau_max": tm, "sample_range": sr,
               "numpy_seed": seed}
        if ts.shape != (2 * tm + 1, N, N) or ss.shape != (2 * tm + 1, N, N) or ss_sum.shape != (2, N, N) \
                or ss_max.shape != (2, N, N):
            ctx.fail(dict(sig, check="shape"), "surrogate matrix has the wrong shape",
                     dict(rep, shapes=[list(ts.shape), list(ss.shape), list(ss_sum.shape), list(ss_max.shape)]))
            continue
        if not np.array_equal(pp.dataarray, keep) or not np.array_equal(after, ref_all):
            ctx.fail(dict(sig, check="data_untouched"),
                     "drawing surrogates changed the object's time series (estimates taken afterwards differ)",
                     dict(rep, max_change=float(np.abs(pp.dataarray.astype(float) - keep.astype(float)).max())))
        if srr == T - 2 * tm and not close(ts, ref_all, 2 * TOL):
            ctx.fail(dict(sig, check="full_sample"),
                     "time_surrogate_for_cc on a draw that covers every sample time differs from cross_correlation "
                     "(Lean: time_surrogate_full)", dict(rep, surrogate=lst(ts), estimate=lst(ref_all)))
        ok = all(np.array_equal(ss[t], ss[0]) for t in range(2 * tm + 1)) \
            and close(ss_sum[0], np.abs(ss[0]) * (tm + 1.), 1e-6) and close(ss_sum[1], ss_sum[0], 0) \
            and close(ss_max[0], np.abs(ss[0]), 1e-7) \
            and np.all(ss_max[1] == np.round(ss_max[1])) and np.all(np.abs(ss_max[1]) <= tm) \
            and close(ss[0], ss[0].T, 1e-6) and np.all(np.abs(ss) <= 1 + 1e-5)
        if not ok:
            ctx.fail(dict(sig, check="shuffled_invariants"),
                     "shuffled_surrogate_for_cc: slices differ / 'sum' is not |r|(tau_max+1) / 'max' is not |r| with a "
                     "lag in [-tau_max, tau_max] / not symmetric / not bounded",
                     dict(rep, all=lst(ss), sum=lst(ss_sum), max=lst(ss_max)))
        # MI surrogates: tie-free data; a draw that covers every sample time reproduces the estimate
        bins = rng.choice([2, 3, 4])
        db = np.column_stack([nprng.permutation(T).astype(float) for _ in range(N)]).astype(dt)
        srm = T - 2 * tm
        with quiet():
            pm = CouplingAnalysisPurePython(np.asarray(db, order=layout), silence_level=3)
            keepm = pm.dataarray.copy()
            mi_ref = pm.mutual_information(bins=bins, tau_max=tm, lag_mode="all")
            np.random.seed(seed)
            tmi = pm.time_surrogate_for_mi(bins=bins, sample_range=srm, tau_max=tm, lag_mode="all")
            np.random.seed(seed)
            smi = pm.shuffled_surrogate_for_mi(bins=bins, tau_max=tm, lag_mode="all")
            smi_max = pm.shuffled_surrogate_for_mi(bins=bins, tau_max=tm, lag_mode="max")
            mi_after = pm.mutual_information(bins=bins, tau_max=tm, lag_mode="all")
        ctx.count("surrogate:mi")
        sigm = {"kind": "pure_python", "method": "surrogate_for_mi"}
        repm = {"data": lst(db), "dtype": np.dtype(dt).name, "layout": layout, "tau_max": tm, "bins": bins,
                "numpy_seed": seed}
        if tmi.shape != (2 * tm + 1, N, N) or smi.shape != (2 * tm + 1, N, N) or smi_max.shape != (2, N, N):
            ctx.fail(dict(sigm, check="shape"), "MI surrogate matrix has the wrong shape",
                     dict(repm, shapes=[list(tmi.shape), list(smi.shape), list(smi_max.shape)]))
            continue
        if not np.array_equal(pm.dataarray, keepm) or not np.array_equal(mi_after, mi_ref):
            ctx.fail(dict(sigm, check="data_untouched"),
                     "drawing MI surrogates changed the object's time series", repm)
        if not close(tmi, mi_ref, 2 * TOL):
            ctx.fail(dict(sigm, check="full_sample"),
                     "time_surrogate_for_mi on a draw that covers every sample time differs from mutual_information",
                     dict(repm, surrogate=lst(tmi), estimate=lst(mi_ref)))
        if not (all(np.array_equal(smi[t], smi[0]) for t in range(2 * tm + 1)) and close(smi[0], smi[0].T, 1e-6)
                and np.all(np.abs(smi_max[1]) <= tm) and np.all(smi_max[1] == np.round(smi_max[1]))):
            ctx.fail(dict(sigm, check="shuffled_invariants"),
                     "shuffled_surrogate_for_mi: slices differ / not symmetric / lag outside [-tau_max, tau_max]",
                     dict(repm, all=lst(smi), max=lst(smi_max)))
    cor.run()

    # ---- (5) call histories on one pure-Python object, both float widths / layouts --------------
    calls = [("cross_correlation", dict(tau_max=1, lag_mode="all")),
             ("cross_correlation", dict(tau_max=2, lag_mode="max")),
             ("cross_correlation", dict(tau_max=1, lag_mode="sum")),
             ("mutual_information", dict(bins=3, tau_max=1, lag_mode="all")),
             ("mutual_information", dict(bins=4, tau_max=0, lag_mode="max")),
             ("shuffled_surrogate_for_cc", dict(tau_max=1, lag_mode="all")),
             ("shuffled_surrogate_for_cc", dict(tau_max=1, lag_mode="max")),
             ("time_surrogate_for_cc", dict(sample_range=6, tau_max=1, lag_mode="all")),
             ("shuffled_surrogate_for_mi", dict(bins=3, tau_max=1, lag_mode="sum")),
             ("time_surrogate_for_mi", dict(bins=3, sample_range=6, tau_max=1, lag_mode="all"))]
    det = [0, 1, 2, 3, 4]
    for c in range(16 if quick else 120):
        T = rng.randrange(10, 24)
        N = rng.choice([2, 3])
        dt = [np.float32, np.float64][c % 2]
        layout = ["C", "F"][(c // 2) % 2]
        only_tri = (c % 8) >= 6
        base = (nprng.randint(-8, 9, size=(T, N)) / 2.0).astype(dt)
        data = np.asarray(base, order=layout)
        if c % 3 == 0:
            data = np.ascontiguousarray(base.T).T            # a transposed (Fortran-ordered) view
        caller_keep = data.copy()
        with quiet():
            pp = CouplingAnalysisPurePython(data, only_tri=only_tri, silence_level=3)
            fresh = CouplingAnalysisPurePython(data.copy(), only_tri=only_tri, silence_level=3)
            want = {q: getattr(fresh, calls[q][0])(**calls[q][1]) for q in det}
            held = pp.dataarray.copy()
            hist = []
            bad = None
            for step in range(8):
                q = rng.randrange(len(calls))
                np.random.seed(rng.randrange(2 ** 31))
                hist.append(f"{calls[q][0]}({calls[q][1]})")
                r = getattr(pp, calls[q][0])(**calls[q][1])
                if q in det and not np.array_equal(np.asarray(r), np.asarray(want[q]), equal_nan=True):
                    bad = f"{hist[-1]} differs from the same call on a fresh object"
                elif not np.array_equal(pp.dataarray, held):
                    bad = f"the held time series changed during {hist[-1]}"
                elif not np.array_equal(data, caller_keep):
                    bad = f"the caller's array changed during {hist[-1]}"
                if bad:
                    break
        ctx.case(("pphist", T, N, np.dtype(dt).name, layout, only_tri, base.tobytes().hex(), tuple(hist)), True)
        ctx.count(f"history:pure_python:{np.dtype(dt).name}:{layout}:only_tri={only_tri}")
        if bad:
            ctx.fail({"kind": "pure_python", "check": "history"},
                     f"CouplingAnalysisPurePython({np.dtype(dt).name},{layout}): after {hist[:-1]}: {bad}",
                     {"data": lst(base), "dtype": np.dtype(dt).name, "layout": layout, "only_tri": only_tri,
                      "history": hist})

# --------------------------------------------------------------------------
# oracle: compiled vs pure-Python CouplingAnalysis
# --------------------------------------------------------------------------

def oracle_pure_python(ctx, rng, nprng, quick):
    from pyunicorn.funcnet import CouplingAnalysis
    from pyunicorn.funcnet.coupling_analysis_pure_python import CouplingAnalysisPurePython
    for c in range(80 if quick else 400):
        T = rng.randrange(5, 40)
        N = rng.choice([2, 3, 4])
        tm = rng.randrange(0, min(4, (T - 3) // 2 + 1))
        d, feats = gen_data(rng, nprng, T, N, rng.choice(["int", "white", "ar"]))
        ctx.case(("pp", T, N, tm, d.tobytes().hex()), True)
        ctx.count(f"oracle:pure_python:tau_max={tm}")
        with quiet():
            pp = CouplingAnalysisPurePython(d.copy(), silence_level=3)
            p_all = pp.cross_correlation(tau_max=tm, lag_mode="all")     # [t, i, j], t = 0..2 tau_max
            # pure[t, i, j] (t <= tau_max) = corr(x_i[tm:], x_j[t:]) over T - 2 tm samples
            #   = compiled on data[:T - tm]: entry [j, i, lag = tm - t]
            c1 = CouplingAnalysis(d[:T - tm].copy(), silence_level=3).cross_correlation(
                tau_max=tm, lag_mode="all")
            # t >= tau_max: time reversal maps it to the compiled layout: entry [j, i, lag = t - tm]
            c2 = CouplingAnalysis(d[::-1][:T - tm].copy(), silence_level=3).cross_correlation(
                tau_max=tm, lag_mode="all")
        exp = np.zeros_like(p_all, dtype=float)
        for t in range(2 * tm + 1):
            for i in range(N):
                for j in range(N):
                    exp[t, i, j] = c1[j, i, tm - t] if t <= tm else c2[j, i, t - tm]
        if not close(p_all, exp, 2 * TOL):
            k = np.unravel_index(np.argmax(np.abs(p_all - exp)), exp.shape)
            ctx.fail({"kind": "pure_python", "method": "cross_correlation", "check": "compiled_vs_pure"},
                     f"pure-Python cross_correlation [{k}] = {p_all[k]}, compiled class on the same windows gives {exp[k]}",
                     {"data": lst(d), "tau_max": tm, "index": list(map(int, k))})
        # max / sum modes are functions of the 'all' output
        with quiet():
            p_max = pp.cross_correlation(tau_max=tm, lag_mode="max")
            p_sum = pp.cross_correlation(tau_max=tm, lag_mode="sum")
        a = np.abs(p_all)
        if not (close(p_max[0], a.max(axis=0), 1e-6)
                and close(p_sum[0], a[tm:].sum(axis=0), 1e-5) and close(p_sum[1], a[:tm + 1].sum(axis=0), 1e-5)):
            ctx.fail({"kind": "pure_python", "method": "cross_correlation", "check": "modes"},
                     "pure-Python 'max'/'sum' modes are not the max / sums of |'all'|",
                     {"data": lst(d), "tau_max": tm})
        else:
            for i in range(N):
                for j in range(N):
                    t = int(round(float(p_max[1][i, j]))) + tm
                    if not (0 <= t <= 2 * tm) or a[t, i, j] < a[:, i, j].max() - 1e-6:
                        ctx.fail({"kind": "pure_python", "method": "cross_correlation", "check": "argmax"},
                                 "pure-Python 'max' lag does not attain the maximum",
                                 {"data": lst(d), "tau_max": tm, "i": i, "j": j})
        # binned MI: zero lag, tie-free data, T divisible by bins -> uniform marginals, the
        # pure-Python value is the compiled value divided by log(bins)
        bins = rng.choice([2, 3, 4])
        Tb = bins * rng.randrange(2, 8)
        db = np.column_stack([nprng.permutation(Tb).astype(float) for _ in range(N)])
        if rng.random() < 0.5:
            db[:, 1] = db[:, 0] * 2 + 1
        with quiet():
            m_pp = CouplingAnalysisPurePython(db.copy(), silence_level=3).mutual_information(
                bins=bins, tau_max=0, lag_mode="all")[0]
            m_c = CouplingAnalysis(db.copy(), silence_level=3).mutual_information(
                tau_max=0, estimator="binning", bins=bins, lag_mode="all")[:, :, 0]
        ctx.count("oracle:pure_python:mi")
        if not close(m_pp, m_c / math.log(bins), 2 * TOL):
            ctx.fail({"kind": "pure_python", "method": "mutual_information", "check": "compiled_vs_pure"},
                     "pure-Python binned MI * log(bins) differs from the compiled binning estimator",
                     {"data": lst(db), "bins": bins, "pure": lst(m_pp), "compiled": lst(m_c)})


# --------------------------------------------------------------------------
# oracle: climate similarity classes
# --------------------------------------------------------------------------

def make_climate(cls, data, **kw):
    from pyunicorn.core import GeoGrid
    from pyunicorn.climate import ClimateData
    T, N = data.shape
    grid = GeoGrid(np.arange(T, dtype=float), np.linspace(-60, 60, N), np.linspace(0, 300, N),
                   silence_level=3)
    cd = ClimateData(observable=data.copy(), grid=grid, time_cycle=1, silence_level=3)
    return cls(cd, threshold=0.5, winter_only=False, silence_level=3, **kw), cd


def oracle_climate(ctx, rng, nprng, quick):
    import scipy.stats as st
    from pyunicorn.climate import TsonisClimateNetwork, SpearmanClimateNetwork, \
        PartialCorrelationClimateNetwork, MutualInfoClimateNetwork
    cwd = os.getcwd()
    tmp = tempfile.mkdtemp(prefix="C10-cwd-")
    os.chdir(tmp)          # MutualInfoClimateNetwork looks for *.data files in the cwd
    try:
        base = nprng.randn(12, 4)
        nets = {}
        with quiet():
            for cls in (TsonisClimateNetwork, SpearmanClimateNetwork, PartialCorrelationClimateNetwork,
                        MutualInfoClimateNetwork):
                nets[cls.__name__], _ = make_climate(cls, base)
        for c in range(200 if quick else 1200):
            T = rng.randrange(3, 60)
            N = rng.choice([2, 3, 4, 5])
            kind = rng.choice(["int", "white", "ar", "fewvalues"])
            if kind == "fewvalues":
                d = nprng.randint(0, 3, size=(T, N)).astype(float)
                feats = ["ties"]
            else:
                d, feats = gen_data(rng, nprng, T, N, kind)
            an = d - d.mean(axis=0)
            ctx.case(("climate", T, N, d.tobytes().hex()), True)
            ctx.count("oracle:climate:kind=" + kind)
            for f in feats:
                ctx.count("oracle:climate:" + f)
            const = [i for i in range(N) if np.ptp(d[:, i]) == 0]
            P = {"T": T, "N": N}

            # ---- Pearson (Tsonis) ----
            with quiet():
                got = nets["TsonisClimateNetwork"].calculate_similarity_measure(an.copy())
            exp = np.array([[st.pearsonr(d[:, i], d[:, j])[0] if i not in const and j not in const
                             else np.nan for j in range(N)] for i in range(N)]) if T >= 2 else None
            cmp_sim(ctx, "TsonisClimateNetwork", got, exp, d, P)

            # ---- Spearman ----
            with quiet():
                got = nets["SpearmanClimateNetwork"].calculate_similarity_measure(an.copy())
                exp = np.array([[st.spearmanr(d[:, i], d[:, j])[0] if i not in const and j not in const
                                 else np.nan for j in range(N)] for i in range(N)])
            has_ties = any(len(set(d[:, i])) < T for i in range(N))
            cmp_sim(ctx, "SpearmanClimateNetwork", got, exp, d, P,
                    extra={"input_class": "ties within a series" if has_ties else "tie-free"})
            # Spearman = Pearson of the (average) ranks
            rk = np.column_stack([avg_ranks(d[:, i]) for i in range(N)])

            # ---- partial correlation: regression residuals on all other series ----
            if N >= 3 and T >= N + 3 and not const and not feats:
                with quiet():
                    got = nets["PartialCorrelationClimateNetwork"].calculate_similarity_measure(an.copy())
                exp = np.full((N, N), np.nan)
                for i in range(N):
                    for j in range(N):
                        if i != j:
                            Z = [d[:, k] for k in range(N) if k not in (i, j)]
                            exp[i, j] = ref_partial_corr(d[:, i], d[:, j], Z)
                offd = ~np.eye(N, dtype=bool)
                ctx.count("oracle:climate:partial")
                if np.linalg.cond(np.corrcoef(d.T)) < 1e4 and not close(got[offd], exp[offd], 1e-4):
                    ctx.fail({"kind": "climate", "class": "PartialCorrelationClimateNetwork", "check": "reference"},
                             "partial correlation differs from the regression-residual correlation",
                             dict(P, data=lst(d), expected=lst(exp), observed=lst(got)))
                if not close(got, got.T, 1e-6) or np.any(np.abs(got[offd]) > 1 + 1e-6):
                    ctx.fail({"kind": "climate", "class": "PartialCorrelationClimateNetwork", "check": "symmetry/bound"},
                             "partial correlation matrix not symmetric or outside [-1, 1]", dict(P, data=lst(d)))

            # ---- histogram MI (32 bins over the common range of the normalised anomalies) ----
            if not const and T >= 2:
                with quiet():
                    got = nets["MutualInfoClimateNetwork"].calculate_similarity_measure(an.copy())
                z = (an / np.sqrt((an * an).mean(axis=0))).astype(np.float32).astype(float)
                lo, hi = z.min(), z.max()
                # samples within float32 rounding of a bin edge make the symbol ambiguous
                pos = (z - lo) / (hi - lo) * 32
                if np.all((np.abs(pos - np.round(pos)) > 1e-3) | (z == lo) | (z == hi)):
                    exp = np.zeros((N, N))
                    for i in range(N):
                        for j in range(N):
                            if i != j:
                                exp[i, j] = ref_hist_mi(ref_uniform_symbols(z[:, i], lo, hi, 32),
                                                        ref_uniform_symbols(z[:, j], lo, hi, 32), 32)
                    ctx.count("oracle:climate:mutual_info")
                    if not close(got, exp, 5e-5):
                        ctx.fail({"kind": "climate", "class": "MutualInfoClimateNetwork", "check": "reference"},
                                 "mutual information differs from the numpy.histogram2d estimate (32 bins)",
                                 dict(P, data=lst(d), expected=lst(exp), observed=lst(got)))
                    if not np.array_equal(got, got.T):
                        ctx.fail({"kind": "climate", "class": "MutualInfoClimateNetwork", "check": "symmetry"},
                                 "mutual information matrix is not symmetric", dict(P, data=lst(d)))

        # ---- through the constructors: similarity_measure() of freshly built networks ----
        for c in range(6 if quick else 40):
            T = rng.randrange(8, 40)
            N = rng.choice([3, 4, 5])
            d = nprng.randn(T, N)
            d[:, 1] += 0.7 * d[:, 0]
            if rng.random() < 0.5:
                d = np.round(d * 2) / 2          # ties
            for cls, reff in ((TsonisClimateNetwork, lambda a, b: st.pearsonr(a, b)[0]),
                              (SpearmanClimateNetwork, lambda a, b: st.spearmanr(a, b)[0])):
                with quiet():
                    net, cd = make_climate(cls, d)
                    got = net.similarity_measure()
                    # ClimateNetwork stores the absolute value of the similarity measure
                    exp = np.abs(np.array([[reff(d[:, i], d[:, j]) for j in range(N)] for i in range(N)]))
                ctx.count("oracle:climate:constructor")
                has_ties = any(len(set(d[:, i])) < T for i in range(N))
                cmp_sim(ctx, cls.__name__, got, exp, d, {"T": T, "N": N, "via": "constructor"},
                        extra={"input_class": "ties within a series" if has_ties else "tie-free"}
                        if cls is SpearmanClimateNetwork else None)
            with quiet():
                net, cd = make_climate(MutualInfoClimateNetwork, d)
                got = net.similarity_measure()
                again = net.calculate_similarity_measure(cd.anomaly().copy())
            if not np.array_equal(got, again):
                ctx.fail({"kind": "climate", "class": "MutualInfoClimateNetwork", "check": "constructor"},
                         "similarity_measure() differs from calculate_similarity_measure(anomaly)",
                         {"data": lst(d)})
    finally:
        os.chdir(cwd)
        for fn in os.listdir(tmp):
            os.remove(os.path.join(tmp, fn))
        os.rmdir(tmp)


def cmp_sim(ctx, cls, got, exp, d, P, extra=None):
    N = d.shape[1]
    sig = {"kind": "climate", "class": cls, "check": "reference"}
    if extra:
        sig.update(extra)
    got = np.asarray(got, dtype=float)
    # a series without variance has no correlation: the reference is nan; the library may
    # report nan (numpy.corrcoef) — anything finite and non-zero there is a wrong estimate
    m = np.isnan(exp)
    bad = None
    if not close(got[~m], exp[~m], 2 * TOL):
        bad = "differs from the scipy.stats reference"
    elif np.any(np.isfinite(got[m]) & (np.abs(got[m]) > 1e-6)):
        bad = "reports a finite non-zero correlation for a series without variance"
        sig["input_class"] = "constant series"
    elif np.any(np.abs(got[~m]) > 1 + 1e-6) or not close(got, got.T, 1e-6):
        bad = "not symmetric or outside [-1, 1]"
    if bad:
        ctx.fail(sig, f"{cls} similarity {bad}",
                 dict(P, data=lst(d), expected=lst(exp), observed=lst(got)))


# --------------------------------------------------------------------------
# oracle: Surrogates.test_* at the public entry points
# --------------------------------------------------------------------------

def oracle_surrogates(ctx, rng, nprng, quick):
    from pyunicorn.timeseries import Surrogates
    for c in range(80 if quick else 500):
        N = rng.choice([2, 3, 4, 5])
        n = rng.randrange(3, 80)
        O = nprng.randn(N, n)
        S = nprng.randn(N, n) if rng.random() < 0.7 else O[:, nprng.permutation(n)]
        for X in (O, S):
            X -= X.mean(axis=1, keepdims=True)
            X /= X.std(axis=1, keepdims=True)
        ctx.case(("surr", N, n, O.tobytes().hex(), S.tobytes().hex()), True)
        ctx.count("oracle:surrogates")
        with quiet():
            r = Surrogates.test_pearson_correlation(O.copy(), S.copy())
        exp = np.array([[np.corrcoef(O[i], S[j])[0, 1] if i != j else 0.0 for j in range(N)]
                        for i in range(N)])
        if not close(r, exp, 2 * TOL):
            ctx.fail({"kind": "surrogates", "method": "test_pearson_correlation"},
                     "test matrix differs from numpy.corrcoef(original_i, surrogate_j)",
                     {"original": lst(O), "surrogates": lst(S), "expected": lst(exp), "observed": lst(r)})
        nb = rng.choice([2, 4, 8, 32])
        with quiet():
            mi = Surrogates.test_mutual_information(O.copy(), S.copy(), n_bins=nb)
        lo, hi = min(O.min(), S.min()), max(O.max(), S.max())
        pos = np.concatenate([(O - lo).ravel(), (S - lo).ravel()]) / (hi - lo) * nb
        if np.all((np.abs(pos - np.round(pos)) > 1e-9) | (pos == 0) | (pos == nb)):
            exp = np.zeros((N, N))
            for i in range(N):
                for j in range(N):
                    if i != j:
                        exp[i, j] = ref_hist_mi(ref_uniform_symbols(O[i], lo, hi, nb),
                                                ref_uniform_symbols(S[j], lo, hi, nb), nb)
            if not close(mi, exp, 5e-5):
                ctx.fail({"kind": "surrogates", "method": "test_mutual_information"},
                         "test matrix differs from the numpy.histogram2d mutual information",
                         {"original": lst(O), "surrogates": lst(S), "n_bins": nb,
                          "expected": lst(exp), "observed": lst(mi)})
