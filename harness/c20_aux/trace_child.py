"""C20 trace child: calls the six raw-pointer C routines of the *current*
repo sources (compiled with clang trace-loads/trace-stores instrumentation,
see rt.c) on padded buffers and prints, per request, the distinct accesses to
every array as `arr:off:w:r|w`.

stdin : one JSON request per line {"id", "fn", "args", "arrays": [{"dtype","shape","data"}...]}
stdout: `BEGIN <id>` before the call, `END <id> <json>` after it (a crash is
        attributable to the last BEGIN without END).
No pyunicorn import: only numpy + ctypes."""
import ctypes as C
import json
import sys

import numpy as np

PAD = 1 << 16
libs = {pkg: C.CDLL(path) for pkg, path in
        (a.split("=", 1) for a in sys.argv[1:])}


class Rec(C.Structure):
    _fields_ = [("off", C.c_int64), ("arr", C.c_int32), ("w", C.c_int16), ("st", C.c_int16)]


for lib in libs.values():
    lib.trace_reset.argtypes = [C.c_size_t]
    lib.trace_window.argtypes = [C.c_size_t, C.c_size_t, C.c_size_t]
    lib.trace_len.restype = C.c_size_t
    lib.trace_dropped.restype = C.c_size_t
    lib.trace_buf.restype = C.POINTER(Rec)

P = C.c_void_p
SIG = {
    # name: (package, C symbol, argument kinds)   'a<k>' = pointer to array k
    "spearman": ("climate", "_spearman_corr", [C.c_int, C.c_int, "a0", "a1", "a2"]),
    "mi": ("climate", "_mutual_information",
           ["a0", C.c_int, C.c_int, C.c_int, C.c_float, C.c_float, "a1", "a2", "a3", "a4"]),
    "pearson": ("timeseries", "_test_pearson_correlation_fast",
                ["a0", "a1", "a2", C.c_int, C.c_int, C.c_double]),
    "tmi": ("timeseries", "_test_mutual_information_fast",
            [C.c_int, C.c_int, C.c_int, C.c_double, C.c_double,
             "a0", "a1", "a2", "a3", "a4", "a5", "a6", "a7"]),
    "vcfb": ("core", "_vertex_current_flow_betweenness_fast",
             [C.c_int, C.c_double, C.c_double, "a0", "a1", C.c_int]),
    "ecfb": ("core", "_edge_current_flow_betweenness_fast",
             [C.c_int, C.c_double, C.c_double, "a0", "a1", "a2"]),
}


def main():
    for line in sys.stdin:
        req = json.loads(line)
        print("BEGIN", req["id"], flush=True)
        pkg, sym, kinds = SIG[req["fn"]]
        lib = libs[pkg]
        fn = getattr(lib, sym)
        bufs, ptrs, sizes = [], [], []
        lib.trace_reset(1 << 22)
        for a in req["arrays"]:
            arr = np.array(a["data"], dtype=a["dtype"]).reshape(a["shape"])
            nb = arr.nbytes
            raw = np.zeros(PAD + nb + PAD + 16, dtype=np.uint8)
            base = raw.ctypes.data
            start = base + PAD + ((-(base + PAD)) % 16)
            C.memmove(start, arr.ctypes.data, nb) if nb else None
            lib.trace_window(start - PAD, start + nb + PAD, start)
            bufs.append(raw)
            ptrs.append(start)
            sizes.append(nb)
        args, types = [], []
        scal = iter(req["args"])
        for k in kinds:
            if isinstance(k, str):
                args.append(P(ptrs[int(k[1:])]))
                types.append(P)
            else:
                args.append(next(scal))
                types.append(k)
        fn.argtypes = types
        fn.restype = C.c_double if req["fn"] == "vcfb" else None
        fn(*args)
        n = lib.trace_len()
        dropped = lib.trace_dropped()
        buf = lib.trace_buf()
        recs = np.ctypeslib.as_array(C.cast(buf, C.POINTER(C.c_int64)), shape=(n, 2)).copy() \
            if n else np.zeros((0, 2), dtype=np.int64)
        # second int64 packs arr (int32), w (int16), st (int16) little-endian
        uniq = np.unique(recs, axis=0) if n else recs
        out = []
        for off, packed in uniq.tolist():
            arr_i = packed & 0xffffffff
            w = (packed >> 32) & 0xffff
            st = (packed >> 48) & 0xffff
            out.append((arr_i, off, w, st))
        out.sort()
        print("END", req["id"], json.dumps(
            {"n": n, "dropped": dropped, "sizes": sizes,
             "acc": ",".join(f"{a}:{o}:{w}:{'w' if s else 'r'}" for a, o, w, s in out) or "-"}),
            flush=True)


main()
