/* C20: runtime for clang's -fsanitize-coverage=trace-loads,trace-stores.
 * Compiled WITHOUT instrumentation and linked with the instrumented copy of a
 * repo src_numerics.c.  Records every load/store whose address falls into one
 * of the registered windows (array k padded on both sides) as
 * (k, byte offset relative to the array start, width, is_store). */
#include <stdint.h>
#include <stdlib.h>

typedef struct { int64_t off; int32_t arr; int16_t w; int16_t st; } rec_t;

#define MAXWIN 16
static uintptr_t win_lo[MAXWIN], win_hi[MAXWIN], win_base[MAXWIN];
static int nwin = 0;
static rec_t *buf = 0;
static size_t n = 0, cap = 0, dropped = 0;

void trace_reset(size_t capacity) {
    if (cap < capacity) { free(buf); buf = (rec_t *) malloc(capacity * sizeof(rec_t)); cap = capacity; }
    n = 0; dropped = 0; nwin = 0;
}
void trace_window(uintptr_t lo, uintptr_t hi, uintptr_t base) {
    win_lo[nwin] = lo; win_hi[nwin] = hi; win_base[nwin] = base; nwin++;
}
size_t trace_len(void) { return n; }
size_t trace_dropped(void) { return dropped; }
rec_t *trace_buf(void) { return buf; }

static inline void rec(uintptr_t a, int w, int st) {
    for (int k = 0; k < nwin; k++) {
        if (a >= win_lo[k] && a < win_hi[k]) {
            if (n < cap) {
                buf[n].off = (int64_t) a - (int64_t) win_base[k];
                buf[n].arr = k; buf[n].w = (int16_t) w; buf[n].st = (int16_t) st; n++;
            } else dropped++;
            return;
        }
    }
}
void __sanitizer_cov_load1(uint8_t *a) { rec((uintptr_t) a, 1, 0); }
void __sanitizer_cov_load2(uint16_t *a) { rec((uintptr_t) a, 2, 0); }
void __sanitizer_cov_load4(uint32_t *a) { rec((uintptr_t) a, 4, 0); }
void __sanitizer_cov_load8(uint64_t *a) { rec((uintptr_t) a, 8, 0); }
void __sanitizer_cov_load16(void *a) { rec((uintptr_t) a, 16, 0); }
void __sanitizer_cov_store1(uint8_t *a) { rec((uintptr_t) a, 1, 1); }
void __sanitizer_cov_store2(uint16_t *a) { rec((uintptr_t) a, 2, 1); }
void __sanitizer_cov_store4(uint32_t *a) { rec((uintptr_t) a, 4, 1); }
void __sanitizer_cov_store8(uint64_t *a) { rec((uintptr_t) a, 8, 1); }
void __sanitizer_cov_store16(void *a) { rec((uintptr_t) a, 16, 1); }
void __sanitizer_cov_trace_pc_guard(uint32_t *g) { (void) g; }
void __sanitizer_cov_trace_pc_guard_init(uint32_t *a, uint32_t *b) { (void) a; (void) b; }
