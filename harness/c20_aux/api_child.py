"""C20 API child: runs public pyunicorn entry points (ASan/UBSan build preloaded
by the parent) and reports per request `ok` / `raise:<Exception>`.
Markers `@@BEGIN <id>` / `@@END <id> <outcome>` go to *stderr* (the stream the
sanitizers write to), so that every report is attributable to one request."""
import io
import json
import sys
import contextlib
import warnings

import numpy as np

warnings.simplefilter("ignore")
ERR = sys.stderr


def arr(a):
    if a is None:
        return None
    x = np.array(a["data"], dtype=a.get("via", a["dtype"])).reshape(a["shape"])
    if a.get("via"):
        x = x.astype(a["dtype"])
    if a.get("order") == "F":
        x = np.asfortranarray(x)
    if a.get("stride2"):
        big = np.zeros(tuple(2 * s for s in x.shape), dtype=x.dtype)
        sl = tuple(slice(None, None, 2) for _ in x.shape)
        big[sl] = x
        x = big[sl]
    return x


def call(req):
    fn = req["fn"]
    A = [arr(a) for a in req.get("arrays", [])]
    S = req.get("args", [])
    if fn == "spearman":
        from pyunicorn.climate.rainfall import RainfallClimateNetwork
        o = object.__new__(RainfallClimateNetwork)
        return o.spearman_corr(A[0], A[1])
    if fn == "pearson":
        from pyunicorn.timeseries.surrogates import Surrogates
        return Surrogates.test_pearson_correlation(A[0], A[1])
    if fn == "tmi":
        from pyunicorn.timeseries.surrogates import Surrogates
        if S:
            return Surrogates.test_mutual_information(A[0], A[1], n_bins=S[0])
        return Surrogates.test_mutual_information(A[0], A[1])
    if fn == "mi":
        from pyunicorn.climate.mutual_info import MutualInfoClimateNetwork
        from pyunicorn.core.data import Data
        o = object.__new__(MutualInfoClimateNetwork)
        o.silence_level = 3
        o.data = Data
        return o.calculate_similarity_measure(A[0])
    if fn in ("vcfb", "ecfb"):
        from pyunicorn.core.resistive_network import ResNetwork
        net = ResNetwork(A[0], silence_level=3)
        if fn == "ecfb":
            return net.edge_current_flow_betweenness()
        return [net.vertex_current_flow_betweenness(i) for i in S]
    if fn == "adaptive_kernel":
        from pyunicorn.timeseries._ext.numerics import _set_adaptive_neighborhood_size
        _set_adaptive_neighborhood_size(S[0], S[1], A[0], A[1], A[2])
        return ("mat", A[2])
    if fn == "adaptive":
        from pyunicorn.timeseries import RecurrencePlot
        rp = RecurrencePlot(A[0], metric=req.get("metric", "supremum"),
                            adaptive_neighborhood_size=S[0], silence_level=3,
                            **req.get("kw", {}))
        if len(A) > 1:
            rp.set_adaptive_neighborhood_size(S[0], order=A[1])
        return rp.recurrence_matrix()
    if fn == "visibility":
        from pyunicorn.timeseries import VisibilityGraph
        kw = dict(req.get("kw", {}))
        vg = VisibilityGraph(A[0], timings=A[1] if len(A) > 1 else None,
                             silence_level=3, **kw)
        return vg.adjacency
    if fn == "sweep":
        from harness_c20_sweep import sweep_call
        return sweep_call(req, A, S)
    raise RuntimeError("unknown fn " + fn)


def main():
    reqs = [json.loads(l) for l in open(sys.argv[1])]
    if len(sys.argv) > 2:
        sys.path.insert(0, sys.argv[2])
    # imports first, so that import-time noise is not attributed to a request
    import pyunicorn  # noqa
    import pyunicorn.climate, pyunicorn.timeseries, pyunicorn.funcnet  # noqa
    print("@@READY", pyunicorn.__file__, file=ERR, flush=True)
    for req in reqs:
        print("@@BEGIN", req["id"], file=ERR, flush=True)
        try:
            with contextlib.redirect_stdout(io.StringIO()):
                res = call(req)
            out = "ok"
            if isinstance(res, tuple) and len(res) == 2 and res[0] == "mat":
                M = res[1]
                out = "ok:" + (";".join(",".join(str(int(v)) for v in row) or "-"
                                        for row in M) if M.shape[0] else "-")
        except BaseException as e:  # noqa
            if isinstance(e, (KeyboardInterrupt, SystemExit)):
                raise
            out = "raise:" + type(e).__name__
        print("@@END", req["id"], out, file=ERR, flush=True)


main()
