"""C20 API child: runs public pyunicorn entry points (ASan/UBSan build preloaded
by the parent) and reports per request `ok` / `raise:<Exception>`.
Markers `@@BEGIN <id>` / `@@END <id> <outcome>` go to *stderr* (the stream the
sanitizers write to), so that every report is attributable to one request."""
import faulthandler
import io
import json
import sys
import contextlib
import warnings

import numpy as np

warnings.simplefilter("ignore")
ERR = sys.stderr


def arr(a):
    if a is None:
        return None
    x = np.array(a["data"], dtype=a.get("via", a["dtype"])).reshape(a["shape"])
    if a.get("via"):
        x = x.astype(a["dtype"])
    if a.get("order") == "F":
        x = np.asfortranarray(x)
    if a.get("stride2"):
        big = np.zeros(tuple(2 * s for s in x.shape), dtype=x.dtype)
        sl = tuple(slice(None, None, 2) for _ in x.shape)
        big[sl] = x
        x = big[sl]
    return x


OBJ = {}


def climate_object(kind, objN):
    """a real climate network with `objN` grid nodes (cached per child: several requests then
    form a history on one object)"""
    if (kind, objN) not in OBJ:
        from pyunicorn.climate import ClimateData, MutualInfoClimateNetwork, \
            RainfallClimateNetwork
        from pyunicorn.core import GeoGrid
        rs = np.random.RandomState(objN)
        T = 8
        grid = GeoGrid(np.arange(T, dtype=float), np.linspace(-40, 40, objN),
                       np.linspace(0, 90, objN), silence_level=3)
        data = ClimateData(rs.randn(T, objN), grid, time_cycle=1, silence_level=3)
        if kind == "mi":
            OBJ[kind, objN] = MutualInfoClimateNetwork(data, threshold=0.2, winter_only=False,
                                                       silence_level=3)
        else:
            OBJ[kind, objN] = RainfallClimateNetwork(data, threshold=0.2, silence_level=3)
    return OBJ[kind, objN]


def call(req):
    fn = req["fn"]
    A = [arr(a) for a in req.get("arrays", [])]
    S = req.get("args", [])
    if fn == "mi_obj":
        # the public methods on a REAL network whose number of nodes differs from the number of
        # columns of the caller's anomaly array
        net = climate_object("mi", S[0])
        if S[1] == "csm":
            return net.calculate_similarity_measure(A[0])
        if S[1] == "mi":
            return net.mutual_information(anomaly=A[0], dump=False, load=False)
        if S[1] == "mi-dump":       # stores the (k, k) matrix in the (temporary) working directory
            return net.mutual_information(anomaly=A[0], dump=True, load=False)
        return net._cython_calculate_mutual_information(A[0], n_bins=S[2])
    if fn == "spearman_obj":
        net = climate_object("rain", S[0])
        return net.spearman_corr(A[0], A[1])
    if fn == "surr_obj":
        # the two test functions through an instance whose own data have another shape
        from pyunicorn.timeseries.surrogates import Surrogates
        s = Surrogates(np.random.RandomState(7).randn(S[0], S[1]), silence_level=3)
        if S[2] == "pearson":
            return s.test_pearson_correlation(A[0], A[1])
        return s.test_mutual_information(A[0], A[1], n_bins=S[3])
    if fn == "cfb_resize":
        # oracle only: resistances of another size than the network, then the raw-pointer methods
        from pyunicorn.core.resistive_network import ResNetwork
        net = ResNetwork(A[0], silence_level=3)
        c = [0, 0]
        _try(c, net.update_resistances, A[1])
        _try(c, net.vertex_current_flow_betweenness, S[0])
        _try(c, net.edge_current_flow_betweenness)
        return ("cnt", c[0], c[1])
    if fn == "spearman":
        from pyunicorn.climate.rainfall import RainfallClimateNetwork
        o = object.__new__(RainfallClimateNetwork)
        return o.spearman_corr(A[0], A[1])
    if fn == "pearson":
        from pyunicorn.timeseries.surrogates import Surrogates
        return Surrogates.test_pearson_correlation(A[0], A[1])
    if fn == "tmi":
        from pyunicorn.timeseries.surrogates import Surrogates
        if S:
            return Surrogates.test_mutual_information(A[0], A[1], n_bins=S[0])
        return Surrogates.test_mutual_information(A[0], A[1])
    if fn == "mi":
        from pyunicorn.climate.mutual_info import MutualInfoClimateNetwork
        from pyunicorn.core.data import Data
        o = object.__new__(MutualInfoClimateNetwork)
        o.silence_level = 3
        o.data = Data
        if S:       # non-default number of bins (the worker behind the public method)
            return o._cython_calculate_mutual_information(A[0], n_bins=S[0])
        return o.calculate_similarity_measure(A[0])
    if fn == "cfb_hist":
        # history on one object: the adjacency is reassigned (possibly with another
        # number of nodes) after construction; optionally the resistances are
        # refreshed afterwards; then one current-flow method is called
        from pyunicorn.core.resistive_network import ResNetwork
        net = ResNetwork(A[0], silence_level=3)
        for i in req.get("warm", []):
            net.vertex_current_flow_betweenness(i)
        net.adjacency = A[1]
        if req.get("refresh"):
            net.update_resistances(A[2])
        if S[0] == "e":
            return net.edge_current_flow_betweenness()
        return net.vertex_current_flow_betweenness(S[1])
    if fn == "surr_hist":
        # histories on one Surrogates object: the significance tests hand arrays held
        # by the library (normalised original data, generated surrogates) to the
        # raw-pointer test functions
        from pyunicorn.timeseries.surrogates import Surrogates
        s = Surrogates(A[0], silence_level=3)
        c = [0, 0]
        sf = {"white": Surrogates.white_noise_surrogates,
              "corr": Surrogates.correlated_noise_surrogates,
              "aaft": Surrogates.AAFT_surrogates,
              "raaft": lambda x: Surrogates.refined_AAFT_surrogates(x, 2)}
        tf = {"pearson": Surrogates.test_pearson_correlation,
              "mi": Surrogates.test_mutual_information}
        for step in req["steps"]:
            if step[0] == "sig":
                _try(c, s.test_threshold_significance, sf[step[1]], tf[step[2]],
                     realizations=2, n_bins=step[3])
            elif step[0] == "dist":
                _try(c, s.original_distribution, tf[step[2]], n_bins=step[3])
            elif step[0] == "direct":
                _try(c, tf[step[2]], s.original_data, sf[step[1]](s))
            elif step[0] == "self":
                _try(c, tf[step[2]], s.original_data, s.original_data)
            elif step[0] == "twins":
                _try(c, tf[step[2]], s.original_data, s.twin_surrogates(1, 1, 0.5))
        return ("cnt", c[0], c[1])
    if fn == "rp_hist":
        from pyunicorn.timeseries import RecurrencePlot
        rp = RecurrencePlot(A[0], metric=req.get("metric", "supremum"),
                            adaptive_neighborhood_size=S[0], silence_level=3)
        c = [0, 0]
        for a, order in req["steps"]:
            _try(c, rp.set_adaptive_neighborhood_size, a,
                 None if order is None else np.array(order))
            _try(c, rp.recurrence_rate)
        return ("cnt", c[0], c[1])
    if fn in ("vcfb", "ecfb"):
        from pyunicorn.core.resistive_network import ResNetwork
        net = ResNetwork(A[0], silence_level=3)
        if fn == "ecfb":
            return net.edge_current_flow_betweenness()
        return [net.vertex_current_flow_betweenness(i) for i in S]
    if fn == "nsi_kernel":
        # `_nsi_betweenness` at its own boundary (arrays of the kernel's declared dtypes)
        from pyunicorn.core._ext.numerics import _nsi_betweenness
        _nsi_betweenness(S[0], A[0], A[1], A[2], A[3], A[4])
        return None
    if fn == "nsi_public":
        # the public method on a real Network; what it hands to the kernel is captured, contents
        # included, so that the parent can test the contract of the in-bounds theorem on it
        import pyunicorn.core.network as nw
        cap = []
        real = nw._nsi_betweenness

        def rec(N, w, k, flat, is_source, targets):
            cap.append("%d|%s|%s|%d|%d|%s" % (
                int(N), ",".join(str(int(x)) for x in k) or "-",
                ",".join(str(int(x)) for x in flat) or "-", len(w), len(is_source),
                ",".join(str(int(x)) for x in targets) or "-"))
            return real(N, w, k, flat, is_source, targets)
        nw._nsi_betweenness = rec
        try:
            net = nw.Network(adjacency=A[0], directed=bool(S[0]),
                             node_weights=A[1] if len(A) > 1 else None, silence_level=3)
            kw = {}
            if S[1] is not None:
                kw["sources"] = S[1]
            if S[2] is not None:
                kw["targets"] = S[2]
            net.nsi_betweenness(nsi=bool(S[3]), **kw)
            if S[4]:            # a second call on the same object (cached measures, other targets)
                net.nsi_betweenness(targets=S[4], nsi=bool(S[3]))
        finally:
            nw._nsi_betweenness = real
        return ("str", ";".join(cap) or "-")
    if fn == "adaptive_kernel":
        from pyunicorn.timeseries._ext.numerics import _set_adaptive_neighborhood_size
        _set_adaptive_neighborhood_size(S[0], S[1], A[0], A[1], A[2])
        return ("mat", A[2])
    if fn == "adaptive":
        from pyunicorn.timeseries import RecurrencePlot
        rp = RecurrencePlot(A[0], metric=req.get("metric", "supremum"),
                            adaptive_neighborhood_size=S[0], silence_level=3,
                            **req.get("kw", {}))
        if len(A) > 1:
            rp.set_adaptive_neighborhood_size(S[0], order=A[1])
        return rp.recurrence_matrix()
    if fn == "visibility":
        from pyunicorn.timeseries import VisibilityGraph
        kw = dict(req.get("kw", {}))
        vg = VisibilityGraph(A[0], timings=A[1] if len(A) > 1 else None,
                             silence_level=3, **kw)
        return vg.adjacency
    if fn == "linedist":
        # a wrapper of `_line_dist` at its own boundary: S = [name, n_time, eps, dim]
        import pyunicorn.timeseries._ext.numerics as tsn
        f = getattr(tsn, S[0])
        hist = A[0]
        if "sequential" in S[0] and "missingvalues" in S[0]:
            f(S[1], hist, A[2], A[1], S[2], S[3])
        elif "sequential" in S[0]:
            f(S[1], hist, A[1], S[2], S[3])
        elif "missingvalues" in S[0]:
            f(S[1], hist, A[1], A[2])
        else:
            f(S[1], hist, A[1])
        return ("vec", hist)
    if fn == "pyx_kernel":
        # a typed-buffer kernel at its own boundary: arrays of the requested shapes
        # (random small contents), scalars as given
        import importlib
        pkg, name = req["key"].split(":")
        mod = importlib.import_module(f"pyunicorn.{pkg}._ext.numerics")
        rs = np.random.RandomState(req.get("seed", 0))
        args = []
        for a in req["kargs"]:
            if isinstance(a, dict):
                dt = np.dtype(a["dtype"])
                if dt.kind == "f":
                    args.append(rs.randint(0, 4, size=a["shape"]).astype(dt))
                else:
                    args.append(rs.randint(0, 2, size=a["shape"]).astype(dt))
            else:
                args.append(a)
        getattr(mod, name)(*args)
        return None
    if fn == "sweep":
        return sweep(req, A, S)
    raise RuntimeError("unknown fn " + fn)


def _try(errs, f, *a, **k):
    try:
        f(*a, **k)
        errs[0] += 1
    except Exception:  # noqa  (a Python exception is a pass)
        errs[1] += 1


def sweep(req, A, S):
    """thorough tier: many public entry points on one object; returns
    ("cnt", n_ok, n_raise)"""
    kind = req["kind"]
    kw = req.get("kw", {})
    c = [0, 0]
    if kind == "rp":
        from pyunicorn.timeseries import RecurrencePlot
        rp = RecurrencePlot(A[0], silence_level=3, **kw)
        for m in ("recurrence_rate", "determinism", "laminarity", "average_diaglength",
                  "average_vertlength", "max_diaglength", "max_vertlength", "diag_entropy",
                  "vert_entropy", "white_vert_entropy", "mean_recurrence_time", "trapping_time",
                  "recurrence_probability", "diagline_dist", "vertline_dist",
                  "white_vertline_dist", "rqa_summary"):
            _try(c, getattr(rp, m))
        _try(c, rp.resample_diagline_dist, 3)
        _try(c, rp.resample_vertline_dist, 3)
        _try(c, rp.twin_surrogates, 2)
        _try(c, rp.set_fixed_recurrence_rate, 0.3)
        _try(c, rp.set_fixed_local_recurrence_rate, 0.3)
        _try(c, rp.set_adaptive_neighborhood_size, S[0])
        _try(c, rp.permutation_entropy)
        _try(c, rp.complexity_entropy)
    elif kind == "crp":
        from pyunicorn.timeseries import CrossRecurrencePlot, JointRecurrencePlot, \
            InterSystemRecurrenceNetwork
        for cls in (CrossRecurrencePlot, JointRecurrencePlot, InterSystemRecurrenceNetwork):
            def build(cls=cls):
                o = cls(A[0], A[1], silence_level=3, **kw)
                for m in ("cross_recurrence_rate", "recurrence_rate", "determinism",
                          "laminarity", "inter_system_recurrence_matrix", "cross_global_clustering_xy",
                          "diagline_dist", "vertline_dist"):
                    if hasattr(o, m):
                        _try(c, getattr(o, m))
            _try(c, build)
    elif kind == "surr":
        from pyunicorn.timeseries import Surrogates
        s = Surrogates(A[0], silence_level=3)
        _try(c, s.correlated_noise_surrogates)
        _try(c, s.AAFT_surrogates)
        _try(c, s.refined_AAFT_surrogates, 2)
        _try(c, s.white_noise_surrogates)
        _try(c, s.twin_surrogates, kw.get("dim", 1), kw.get("delay", 1), kw.get("thr", 0.5))
        _try(c, s.embed_time_series_array, A[0], kw.get("dim", 1), kw.get("delay", 1))
        _try(c, Surrogates.recurrence_plot, A[0].T.copy(), kw.get("thr", 0.5))
    elif kind == "vg":
        from pyunicorn.timeseries import VisibilityGraph
        vg = VisibilityGraph(A[0], silence_level=3, **kw)
        for m in ("retarded_local_clustering", "advanced_local_clustering", "retarded_degree",
                  "advanced_degree", "retarded_closeness", "advanced_closeness",
                  "retarded_betweenness", "advanced_betweenness", "trans_betweenness",
                  "average_mean_degree_time_irreversibility", "boundary_corrected_degree",
                  "boundary_corrected_closeness"):
            if hasattr(vg, m):
                _try(c, getattr(vg, m))
        _try(c, vg.visibility, 0, len(A[0]) - 1)
    elif kind == "coupling":
        from pyunicorn.funcnet import CouplingAnalysis
        ca = CouplingAnalysis(A[0], silence_level=3)
        for lag_mode in ("max", "all"):
            _try(c, ca.cross_correlation, S[0], lag_mode)
            _try(c, ca.mutual_information, S[0], 3, "binning", lag_mode=lag_mode) \
                if False else None
        _try(c, ca.mutual_information, tau_max=S[0], estimator="binning", bins=S[1])
        _try(c, ca.mutual_information, tau_max=S[0], estimator="knn", knn=2)
        _try(c, ca.mutual_information, tau_max=S[0], estimator="gauss")
        _try(c, ca.information_transfer, tau_max=S[0], estimator="knn", knn=2)
        _try(c, ca.symmetrize_by_absmax, np.random.rand(A[0].shape[1], A[0].shape[1]),
             np.zeros((A[0].shape[1], A[0].shape[1]), dtype=np.int8))
    elif kind == "network":
        from pyunicorn.core import Network
        net = Network(adjacency=A[0], directed=kw.get("directed", False), silence_level=3,
                      node_weights=A[1] if len(A) > 1 else None)
        for m in ("local_clustering", "global_clustering", "transitivity", "betweenness",
                  "nsi_betweenness", "newman_betweenness", "nsi_newman_betweenness",
                  "arenas_betweenness", "nsi_arenas_betweenness", "closeness",
                  "nsi_closeness", "path_lengths", "average_path_length",
                  "nsi_average_path_length", "diameter", "matching_index", "coreness",
                  "msf_synchronizability", "nsi_degree", "nsi_local_clustering",
                  "nsi_local_soffer_clustering", "nsi_max_neighbors_degree",
                  "local_cyclemotif_clustering", "nsi_local_cyclemotif_clustering",
                  "assortativity", "edge_betweenness", "link_betweenness"):
            if hasattr(net, m):
                _try(c, getattr(net, m))
        for order in (3, 4, 5):
            _try(c, net.local_cliquishness, order)
            _try(c, net.higher_order_transitivity, order)
        _try(c, net.randomly_rewire, 3)
    elif kind == "interacting":
        from pyunicorn.core import InteractingNetworks
        net = InteractingNetworks(adjacency=A[0], directed=False, silence_level=3)
        n = A[0].shape[0]
        n1 = kw.get("n1", list(range(n // 2)))
        n2 = kw.get("n2", list(range(n // 2, n)))
        for m in ("cross_link_density", "cross_degree", "cross_closeness",
                  "cross_betweenness", "cross_local_clustering", "cross_global_clustering",
                  "cross_transitivity", "cross_average_path_length", "nsi_cross_degree",
                  "nsi_cross_closeness_centrality", "nsi_cross_betweenness",
                  "nsi_cross_local_clustering", "nsi_cross_global_clustering",
                  "nsi_cross_transitivity", "nsi_cross_average_path_length",
                  "internal_link_density", "cross_path_lengths"):
            if hasattr(net, m):
                _try(c, getattr(net, m), n1, n2)
        _try(c, InteractingNetworks.RandomlySetCrossLinks, net, n1, n2, 0.5)
        # (RandomlyRewireCrossLinks does not terminate on small networks — not driven)
    elif kind == "events":
        from pyunicorn.eventseries import EventSeries
        es = EventSeries(A[0], taumax=S[0])
        _try(c, es.event_synchronization, A[0][:, 0], A[0][:, -1], taumax=S[0])
        _try(c, es.event_coincidence_analysis, A[0][:, 0], A[0][:, -1], 1.0, taumax=S[0])
        _try(c, es.event_series_analysis, "ES")
        _try(c, es.event_series_analysis, "ECA")
        _try(c, es.event_analysis_significance, "ES", n_surr=3)
    elif kind == "grid":
        from pyunicorn.core import Grid, GeoGrid
        n = A[0].shape[0]
        _try(c, lambda: Grid(np.arange(3.), A[0].T.copy(), silence_level=3).distance())
        _try(c, lambda: GeoGrid(np.arange(3.), A[0][:, 0] * 90, A[0][:, -1] * 180,
                                silence_level=3).angular_distance())
        _try(c, lambda: GeoGrid(np.arange(3.), A[0][:, 0] * 90, A[0][:, -1] * 180,
                                silence_level=3).euclidean_distance())
    else:
        raise RuntimeError("unknown sweep kind " + kind)
    return ("cnt", c[0], c[1])


KCALLS = set()
KSEEN = set()


def install_probe(table):
    """wrap every typed-buffer kernel as the calling modules see it: record the shapes and
    integer arguments of each call made under the public API"""
    mods = [m for n, m in list(sys.modules.items()) if n.startswith("pyunicorn") and m is not None]
    for key, info in table.items():
        pkg, name = key.split(":")
        ext = sys.modules.get(f"pyunicorn.{pkg}._ext.numerics")
        orig = getattr(ext, name, None) if ext else None
        if orig is None:
            continue

        def mk(orig=orig, key=key, info=info):
            def w(*a, **k):
                rec = {}
                for (pn, kind, ty, nd), val in zip(info["params"], a):
                    if kind == "buf" and hasattr(val, "shape"):
                        for ax, d in enumerate(val.shape):
                            rec[f"{pn}_{ax}"] = int(d)
                    elif kind == "int":
                        try:
                            rec[pn] = int(val)
                        except Exception:  # noqa
                            pass
                out = "raise"
                try:
                    r = orig(*a, **k)
                    out = "ok"
                    return r
                finally:
                    KCALLS.add((key, json.dumps(rec, sort_keys=True), out))
            return w
        for m in mods:
            if m is not ext and getattr(m, name, None) is orig:
                setattr(m, name, mk())


def main():
    reqs = [json.loads(l) for l in open(sys.argv[1])]
    if len(sys.argv) > 2:
        sys.path.insert(0, sys.argv[2])
    # imports first, so that import-time noise is not attributed to a request
    import pyunicorn  # noqa
    import pyunicorn.climate, pyunicorn.timeseries, pyunicorn.funcnet  # noqa
    import pyunicorn.core, pyunicorn.eventseries  # noqa
    import os
    if os.environ.get("C20_KERNEL_TABLE"):
        install_probe(json.load(open(os.environ["C20_KERNEL_TABLE"])))
    print("@@READY", pyunicorn.__file__, file=ERR, flush=True)
    for req in reqs:
        print("@@BEGIN", req["id"], file=ERR, flush=True)
        # a kernel that does not terminate is not a memory-safety matter: give up on
        # the request (the parent records `timeout` and restarts the child)
        faulthandler.dump_traceback_later(req.get("timeout", 60), exit=True, file=ERR)
        try:
            with contextlib.redirect_stdout(io.StringIO()):
                res = call(req)
            out = "ok"
            if isinstance(res, tuple) and len(res) == 3 and res[0] == "cnt":
                out = f"ok:methods_ok={res[1]},methods_raise={res[2]}"
            if isinstance(res, tuple) and len(res) == 2 and res[0] == "str":
                out = "ok:" + res[1]
            if isinstance(res, tuple) and len(res) == 2 and res[0] == "vec":
                out = "ok:" + (",".join(str(int(v)) for v in res[1]) or "-")
            if isinstance(res, tuple) and len(res) == 2 and res[0] == "mat":
                M = res[1]
                out = "ok:" + (";".join(",".join(str(int(v)) for v in row) or "-"
                                        for row in M) if M.shape[0] else "-")
        except BaseException as e:  # noqa
            if isinstance(e, (KeyboardInterrupt, SystemExit)):
                raise
            out = "raise:" + type(e).__name__
        faulthandler.cancel_dump_traceback_later()
        for kc in sorted(KCALLS - KSEEN):
            print("@@KCALL", json.dumps(kc), file=ERR, flush=True)
        KSEEN.update(KCALLS)
        print("@@END", req["id"], out, file=ERR, flush=True)


main()
