import Pyunicorn.Model.Proto
import Pyunicorn.Model.Similarity
/-! Line-protocol driver for C09.

Requests (`S`, `damp` row-major rational matrices, `ρ` as the decimal value of the IEEE-double
bit pattern):

* `tfld <N> <S> <ρbits>`                      → threshold | `raise:IndexError`
* `index <ρbits> <len>`                       → raw quantile index `int((1-ρ)*len)`
* `hist <N> <directed> <nl> <S0> <damp> <init> <op,…>` with `init`/ops `T:<θ>`, `D:<ρbits>`,
  `L:<0|1>` → one state per op (init included) `θ|A|n_links|density`, separated by `;`
-/
open Pyunicorn Pyunicorn.Proto Pyunicorn.Similarity

def matFn (rows : List (List Rat)) : Sim := fun i j => (rows.getD i []).getD j 0

def showState (s : Net) : String :=
  let d := match s.density with
    | some r => showRat r
    | none => "raise:ZeroDivision"
  s!"{showRat s.θ}|{showBools s.A}|{s.nLinks}|{d}"

def parseOp (N : Nat) (tok : String) : Option Op :=
  match tok.splitOn ":" with
  | ["T", v] => (rat? v).map Op.thr
  | ["D", v] => v.toNat?.map fun b => Op.dens (floatIndex b.toUInt64 (N * N - N))
  | ["L", v] => v.toNat?.map fun b => Op.nl (b != 0)
  | _ => none

/-- states after each op; stops with the error name when a call raises -/
def trace (s : Net) : List Op → List String
  | [] => []
  | o :: os =>
    match s.step o with
    | none => ["raise:IndexError"]
    | some s' =>
      -- the adjacency setter raises before the object is usable
      if s'.density.isNone then ["raise:ZeroDivision"] else showState s' :: trace s' os

def answer (toks : List String) : String :=
  match toks with
  | ["tfld", n, s, r] =>
    let N := n.toNat!
    match thresholdFromIndex (matFn (ratMat s)) N (floatIndex r.toNat!.toUInt64 (N * N - N)) with
    | some θ => showRat θ
    | none => "raise:IndexError"
  | ["index", r, len] => toString (floatIndex r.toNat!.toUInt64 len.toNat!)
  | ["hist", n, d, nl, s0, dm, init, ops] =>
    let N := n.toNat!
    let b := blank N (d != "0") (matFn (ratMat s0)) (matFn (ratMat dm)) (nl != "0")
    match ((splitTok init ",") ++ (splitTok ops ",")).mapM (parseOp N) with
    | none => "bad-request"
    | some os => join (trace b os) ";"
  | _ => "bad-request"

def main : IO Unit := runDriver answer
