import Pyunicorn.Model.Proto
import Pyunicorn.Model.Similarity
import Pyunicorn.Model.SimilarityHilbert
/-! Line-protocol driver for C09.

Requests (`S`, `damp` row-major rational matrices):

* `tfld <N> <S> <ρ>`                          → threshold | `raise:IndexError`
* `index <ρ> <ρbits> <len>`                   → raw quantile index `int((1-ρ)*len)`, twice
* `rn53 <x>`                                  → `x` rounded to binary64
* `adj <N> <W> <θ>`                           → `_calculate_threshold_adjacency`
* `hist <N> <directed> <nl> <S0> <damp> <init> <op,…> [<S1>@<S2>…]` with `init`/ops `T:<θ>`,
  `D:<ρ>` (exact rational value of the double), `L:<0|1>`, `R:<k>` (regenerate with the k-th
  extra matrix) → one state per op (init included) `θ|A|n_links|density`, separated by `;`
* `hhist <N> <directed> <nl> <S0> <P0> <damp> <init> <op,…> [<M0>@<M1>…]`: the same for
  `HilbertClimateNetwork` (`P0` = phase matrix; additional op `X:<d>:<kS>:<kP>` =
  `set_directed(d)` with the coherence / phase matrices the object stores afterwards) →
  states `θ|A|n_links|density|directed`
-/
open Pyunicorn Pyunicorn.Proto Pyunicorn.Similarity

def matFn (rows : List (List Rat)) : Sim := fun i j => (rows.getD i []).getD j 0

def showState (s : Net) : String :=
  let d := match s.density with
    | some r => showRat r
    | none => "raise:ZeroDivision"
  s!"{showRat s.θ}|{showBools s.A}|{s.nLinks}|{d}"

def parseOp (N : Nat) (mats : List Sim) (tok : String) : Option Op :=
  match tok.splitOn ":" with
  | ["T", v] => (rat? v).map Op.thr
  -- the quantile index as CPython evaluates it: exact rational model of the two IEEE roundings
  | ["D", v] => (rat? v).map fun ρ => Op.dens (ieeeIndex ρ (N * N - N))
  | ["L", v] => v.toNat?.map fun b => Op.nl (b != 0)
  | ["R", v] => v.toNat?.bind fun k => (mats[k]?).map Op.resim
  | _ => none

/-- states after each op; stops with the error name when a call raises -/
def trace (s : Net) : List Op → List String
  | [] => []
  | o :: os =>
    match s.step o with
    | none => ["raise:IndexError"]
    | some s' =>
      -- the adjacency setter raises before the object is usable
      if s'.density.isNone then ["raise:ZeroDivision"] else showState s' :: trace s' os

def showHState (h : HNet) : String :=
  s!"{showState h.net}|{if h.net.directed then 1 else 0}"

def parseHOp (N : Nat) (mats : List Sim) (tok : String) : Option HOp :=
  match tok.splitOn ":" with
  | ["T", v] => (rat? v).map HOp.thr
  | ["D", v] => (rat? v).map fun ρ => HOp.dens (ieeeIndex ρ (N * N - N))
  | ["L", v] => v.toNat?.map fun b => HOp.nl (b != 0)
  | ["X", d, ks, kp] =>
    match d.toNat?, ks.toNat?.bind (mats[·]?), kp.toNat?.bind (mats[·]?) with
    | some dv, some S1, some P1 => some (HOp.dir (dv != 0) S1 P1)
    | _, _, _ => none
  | _ => none

def htrace (h : HNet) : List HOp → List String
  | [] => []
  | o :: os =>
    match h.step o with
    | none => ["raise:IndexError"]
    | some h' =>
      if h'.net.density.isNone then ["raise:ZeroDivision"] else showHState h' :: htrace h' os

/-- the constructor of `HilbertClimateNetwork` as an initial op -/
def hinit (N : Nat) (d nl : Bool) (S0 P0 damp : Sim) (tok : String) : Option (Option HNet) :=
  match tok.splitOn ":" with
  | ["T", v] => (rat? v).map fun θ => some (mkHilbert N d S0 P0 damp nl θ)
  | ["D", v] => (rat? v).map fun ρ => mkHilbertDensity N d S0 P0 damp nl (ieeeIndex ρ (N * N - N))
  | _ => none

def answer (toks : List String) : String :=
  match toks with
  | ["tfld", n, s, r] =>
    let N := n.toNat!
    match (rat? r).bind fun ρ =>
        some (thresholdFromIndex (matFn (ratMat s)) N (ieeeIndex ρ (N * N - N))) with
    | some (some θ) => showRat θ
    | some none => "raise:IndexError"
    | none => "bad-request"
  -- both evaluations of `int((1-ρ)*len)`: rational IEEE model | Lean `Float`
  | ["index", r, rbits, len] =>
    match rat? r with
    | some ρ => s!"{ieeeIndex ρ len.toNat!}|{floatIndex rbits.toNat!.toUInt64 len.toNat!}"
    | none => "bad-request"
  | ["rn53", x] => match rat? x with
    | some v => showRat (rn53 v)
    | none => "bad-request"
  -- `_calculate_threshold_adjacency(W, θ)` on an arbitrary (signed) matrix
  | ["adj", n, w, t] =>
    match rat? t with
    | some θ => showBools (thresholdAdjacency (matFn (ratMat w)) θ n.toNat!)
    | none => "bad-request"
  | "hist" :: n :: d :: nl :: s0 :: dm :: init :: ops :: rest =>
    let N := n.toNat!
    let mats := match rest with
      | [m] => (splitTok m "@").map fun t => matFn (ratMat t)
      | _ => []
    let b := blank N (d != "0") (matFn (ratMat s0)) (matFn (ratMat dm)) (nl != "0")
    match ((splitTok init ",") ++ (splitTok ops ",")).mapM (parseOp N mats) with
    | none => "bad-request"
    | some os => join (trace b os) ";"
  | "hhist" :: n :: d :: nl :: s0 :: p0 :: dm :: init :: ops :: rest =>
    let N := n.toNat!
    let mats := match rest with
      | [m] => (splitTok m "@").map fun t => matFn (ratMat t)
      | _ => []
    match hinit N (d != "0") (nl != "0") (matFn (ratMat s0)) (matFn (ratMat p0))
        (matFn (ratMat dm)) init, (splitTok ops ",").mapM (parseHOp N mats) with
    | some none, _ => "raise:IndexError"
    | some (some h), some os =>
      if h.net.density.isNone then "raise:ZeroDivision"
      else join (showHState h :: htrace h os) ";"
    | _, _ => "bad-request"
  | _ => "bad-request"

def main : IO Unit := runDriver answer
