import Pyunicorn.Model.Proto
import Pyunicorn.Model.Similarity
import Pyunicorn.Model.SimilarityHilbert
import Pyunicorn.Model.SimilarityScript
import Pyunicorn.Model.SimilarityNumeric
import Pyunicorn.Model.SimilarityCoupled
import Pyunicorn.Model.SimilarityHilbertX
/-! Line-protocol driver for C09.

Requests (`S`, `damp` row-major rational matrices):

* `tfld <N> <S> <ρ>`                          → threshold | `raise:IndexError`
* `index <ρ> <ρbits> <len>`                   → raw quantile index `int((1-ρ)*len)`, twice
* `rn53 <x>`                                  → `x` rounded to binary64
* `adj <N> <W> <θ>`                           → `_calculate_threshold_adjacency`
* `hist <N> <directed> <nl> <S0> <damp> <init> <op,…> [<S1>@<S2>…]` with `init`/ops `T:<θ>`,
  `D:<ρ>` (exact rational value of the double), `L:<0|1>`, `R:<k>` (regenerate with the k-th
  extra matrix) → one state per op (init included) `θ|A|n_links|density`, separated by `;`
* `hhist <N> <directed> <nl> <S0> <P0> <damp> <init> <op,…> [<M0>@<M1>…]`: the same for
  `HilbertClimateNetwork` (`P0` = phase matrix; additional op `X:<d>:<kS>:<kP>` =
  `set_directed(d)` with the coherence / phase matrices the object stores afterwards) →
  states `θ|A|n_links|density|directed`
* `xhist …` (round 4): the request of `hist` run through the NaN / float32 model `XNet` with
  `fl = rn24`; matrix entries and `T:` thresholds may be `nan`; reported thresholds may be `nan`
* `xhhist …` (round 5): the request of `hhist` run through the NaN / float32 Hilbert model `XHNet`
  with `fl = rn24`; coherence / phase entries and `T:` thresholds may be `nan`
* `rn24 <x>` → `x` rounded to binary32;  `xadj <N> <W> <θ>` → `thresholdAdjacencyX` (entries / θ may be `nan`)
* `coupled <N1> <N2> <directed> <S0> <init> <op,…>` → per state (constructor included)
  `cross_layer_adjacency|adjacency_1|adjacency_2|number_cross_layer_links|cross_link_density|`
  `number_internal_links|internal_link_density` (the two link-count observables `na` when directed)
* `ldf <N> <S> <edges> <n>` → `link_density_function(n)` as counts `k₀,k₁,…` over `N²`
-/
open Pyunicorn Pyunicorn.Proto Pyunicorn.Similarity

def matFn (rows : List (List Rat)) : Sim := fun i j => (rows.getD i []).getD j 0

def showState (s : Net) : String :=
  let d := match s.density with
    | some r => showRat r
    | none => "raise:ZeroDivision"
  s!"{showRat s.θ}|{showBools s.A}|{s.nLinks}|{d}"

def parseOp (N : Nat) (mats : List Sim) (tok : String) : Option Op :=
  match tok.splitOn ":" with
  | ["T", v] => (rat? v).map Op.thr
  -- the quantile index as CPython evaluates it: exact rational model of the two IEEE roundings
  | ["D", v] => (rat? v).map fun ρ => Op.dens (ieeeIndex ρ (N * N - N))
  | ["L", v] => v.toNat?.map fun b => Op.nl (b != 0)
  | ["R", v] => v.toNat?.bind fun k => (mats[k]?).map Op.resim
  | _ => none

/-- states after each op; stops with the error name when a call raises -/
def trace (s : Net) : List Op → List String
  | [] => []
  | o :: os =>
    match s.step o with
    | none => ["raise:IndexError"]
    | some s' =>
      -- the adjacency setter raises before the object is usable
      if s'.density.isNone then ["raise:ZeroDivision"] else showState s' :: trace s' os

def showHState (h : HNet) : String :=
  s!"{showState h.net}|{if h.net.directed then 1 else 0}"

def parseHOp (N : Nat) (mats : List Sim) (tok : String) : Option HOp :=
  match tok.splitOn ":" with
  | ["T", v] => (rat? v).map HOp.thr
  | ["D", v] => (rat? v).map fun ρ => HOp.dens (ieeeIndex ρ (N * N - N))
  | ["L", v] => v.toNat?.map fun b => HOp.nl (b != 0)
  | ["X", d, ks, kp] =>
    match d.toNat?, ks.toNat?.bind (mats[·]?), kp.toNat?.bind (mats[·]?) with
    | some dv, some S1, some P1 => some (HOp.dir (dv != 0) S1 P1)
    | _, _, _ => none
  | _ => none

def htrace (h : HNet) : List HOp → List String
  | [] => []
  | o :: os =>
    match h.step o with
    | none => ["raise:IndexError"]
    | some h' =>
      if h'.net.density.isNone then ["raise:ZeroDivision"] else showHState h' :: htrace h' os

/-- the constructor of `HilbertClimateNetwork` as an initial op -/
def hinit (N : Nat) (d nl : Bool) (S0 P0 damp : Sim) (tok : String) : Option (Option HNet) :=
  match tok.splitOn ":" with
  | ["T", v] => (rat? v).map fun θ => some (mkHilbert N d S0 P0 damp nl θ)
  | ["D", v] => (rat? v).map fun ρ => mkHilbertDensity N d S0 P0 damp nl (ieeeIndex ρ (N * N - N))
  | _ => none

/-! ### the same histories executed by the interpreter of the *generated* method scripts -/
section Scripts
open Pyunicorn.Similarity.Script Pyunicorn.Generated

def zeroSim : Sim := fun _ _ => 0

def frame0 (N : Nat) (damp : Sim) : Frame :=
  { h := { net := blank N false zeroSim damp false, phase := zeroSim }, hasAdj := false,
    argθ := 0, argK := 0, argNl := false, argDir := false, initθ := none, initK := none,
    initS := zeroSim, envS := zeroSim, envP := zeroSim, locθ := 0, locS := zeroSim, locA := [],
    resS := zeroSim, resP := zeroSim }

/-- one public call on a `ClimateNetwork` (`hil = false`) / `HilbertClimateNetwork` -/
def scriptStep (hil : Bool) (fr : Frame) : HOp → Option Frame
  | .thr θ => run 8 hil (setThresholdOf hil) { fr with argθ := θ }
  | .dens k => run 8 hil StructC09.setLinkDensity { fr with argK := k }
  | .nl b => run 8 hil StructC09.setNonLocal { fr with argNl := b }
  | .dir d S1 P1 =>
    if hil then run 8 true StructC09.hilbertSetDirected { fr with argDir := d, envS := S1, envP := P1 }
    -- plain ClimateNetwork: `_similarity_measure = S1; _regenerate_network()`
    else run 8 false StructC09.regenerate (setNet fr fun n => { n with S := S1 })

def showFrame (hil : Bool) (fr : Frame) : String :=
  if hil then showHState fr.h else showState fr.h.net

def strace (hil : Bool) (fr : Frame) : List HOp → List String
  | [] => []
  | o :: os =>
    match scriptStep hil fr o with
    | none => ["raise:IndexError"]
    | some fr' =>
      if fr'.h.net.density.isNone then ["raise:ZeroDivision"]
      else showFrame hil fr' :: strace hil fr' os

/-- constructor through the generated `__init__` scripts; `init` = `T:θ`, `D:ρ` or `-` (neither) -/
def sinit (hil : Bool) (N : Nat) (d nl : Bool) (S0 P0 damp : Sim) (tok : String) :
    Option (Option Frame) :=
  let fr := { frame0 N damp with argNl := nl, argDir := d, initS := S0, envS := S0, envP := P0 }
  let go (fr : Frame) := some (run 8 hil (if hil then StructC09.hilbertInit else StructC09.init) fr)
  match tok.splitOn ":" with
  | ["T", v] => (rat? v).bind fun θ => go { fr with initθ := some θ }
  | ["D", v] => (rat? v).bind fun ρ => go { fr with initK := some (ieeeIndex ρ (N * N - N)) }
  | ["-"] => go fr
  | _ => none

def sanswer (hil : Bool) (N : Nat) (d nl : Bool) (S0 P0 damp : Sim) (init ops : String)
    (mats : List Sim) : String :=
  let parse (tok : String) : Option HOp :=
    match tok.splitOn ":" with
    | ["R", v] => v.toNat?.bind fun k => (mats[k]?).map fun S1 => HOp.dir false S1 zeroSim
    | _ => parseHOp N mats tok
  match sinit hil N d nl S0 P0 damp init, (splitTok ops ",").mapM parse with
  | some none, _ => if init == "-" then "raise:AttributeError" else "raise:IndexError"
  | some (some fr), some os =>
    if fr.h.net.density.isNone then "raise:ZeroDivision"
    else join (showFrame hil fr :: strace hil fr os) ";"
  | _, _ => "bad-request"

end Scripts

/-! ### NaN / float32 model (round 4) -/

def xnum (tok : String) : Option Rat := if tok == "nan" then none else rat? tok

def xMat (s : String) : List (List (Option Rat)) :=
  (splitTok s ";").map fun row => (splitTok row ",").map xnum

def xmatFn (rows : List (List (Option Rat))) : XSim := fun i j => (rows.getD i []).getD j none

def showX (x : Option Rat) : String := match x with
  | some r => showRat r
  | none => "nan"

def showXState (s : XNet) : String :=
  let d := match s.density with
    | some r => showRat r
    | none => "raise:ZeroDivision"
  s!"{showX s.θ}|{showBools s.A}|{s.nLinks}|{d}"

def parseXOp (N : Nat) (mats : List XSim) (tok : String) : Option XOp :=
  match tok.splitOn ":" with
  | ["T", v] => if v == "nan" then some (XOp.thr none) else (rat? v).map fun t => XOp.thr (some t)
  | ["D", v] => (rat? v).map fun ρ => XOp.dens (ieeeIndex ρ (N * N - N))
  | ["L", v] => v.toNat?.map fun b => XOp.nl (b != 0)
  | ["R", v] => v.toNat?.bind fun k => (mats[k]?).map XOp.resim
  | _ => none

def xtrace (s : XNet) : List XOp → List String
  | [] => []
  | o :: os =>
    match s.step rn24 o with
    | none => ["raise:IndexError"]
    | some s' =>
      if s'.density.isNone then ["raise:ZeroDivision"] else showXState s' :: xtrace s' os

/-! ### NaN / float32 Hilbert model (round 5) -/

def showXHState (h : XHNet) : String :=
  s!"{showXState h.net}|{if h.net.directed then 1 else 0}"

def parseXHOp (N : Nat) (mats : List XSim) (tok : String) : Option XHOp :=
  match tok.splitOn ":" with
  | ["T", v] => if v == "nan" then some (XHOp.thr none) else (rat? v).map fun t => XHOp.thr (some t)
  | ["D", v] => (rat? v).map fun ρ => XHOp.dens (ieeeIndex ρ (N * N - N))
  | ["L", v] => v.toNat?.map fun b => XHOp.nl (b != 0)
  | ["X", d, ks, kp] =>
    match d.toNat?, ks.toNat?.bind (mats[·]?), kp.toNat?.bind (mats[·]?) with
    | some dv, some S1, some P1 => some (XHOp.dir (dv != 0) S1 P1)
    | _, _, _ => none
  | _ => none

def xhtrace (h : XHNet) : List XHOp → List String
  | [] => []
  | o :: os =>
    match h.step rn24 o with
    | none => ["raise:IndexError"]
    | some h' =>
      if h'.net.density.isNone then ["raise:ZeroDivision"] else showXHState h' :: xhtrace h' os

def xhinit (N : Nat) (d nl : Bool) (S0 P0 : XSim) (damp : Sim) (tok : String) :
    Option (Option XHNet) :=
  match tok.splitOn ":" with
  | ["T", v] =>
    if v == "nan" then some (some (mkHilbertX rn24 N d S0 P0 damp nl none))
    else (rat? v).map fun θ => some (mkHilbertX rn24 N d S0 P0 damp nl (some θ))
  | ["D", v] => (rat? v).map fun ρ =>
      mkHilbertDensityX rn24 N d S0 P0 damp nl (ieeeIndex ρ (N * N - N))
  | _ => none

def showOpt (x : Option Rat) : String := match x with
  | some r => showRat r
  | none => "raise:ZeroDivision"

def showCoupled (N1 N2 : Nat) (s : Net) : String :=
  let nc := if s.directed then "na" else toString (numberCrossLayerLinks N1 N2 s)
  let cd := if s.directed then "na" else showOpt (crossLinkDensityC N1 N2 s)
  let ni := numberInternalLinksC N1 N2 s
  let di := internalLinkDensityC N1 N2 s
  -- the method computes both densities before returning: it raises as soon as one layer has < 2 nodes
  let dis := match di with
    | (some a, some b) => s!"{showRat a},{showRat b}"
    | _ => "raise:ZeroDivision"
  s!"{showNatMat (crossLayerAdjacency N1 N2 s)}|{showNatMat (adjacency1 N1 s)}|{showNatMat (adjacency2 N1 N2 s)}|{nc}|{cd}|{ni.1},{ni.2}|{dis}"

def ctrace (N1 N2 : Nat) (s : Net) : List Op → List String
  | [] => []
  | o :: os =>
    match s.step o with
    | none => ["raise:IndexError"]
    | some s' =>
      if s'.density.isNone then ["raise:ZeroDivision"] else showCoupled N1 N2 s' :: ctrace N1 N2 s' os

def answer (toks : List String) : String :=
  match toks with
  | ["coupled", n1, n2, d, s0, init, ops] =>
    let N1 := n1.toNat!
    let N2 := n2.toNat!
    let b := blank (N1 + N2) (d != "0") (matFn (ratMat s0)) (fun _ _ => 1) false
    match ((splitTok init ",") ++ (splitTok ops ",")).mapM (parseOp (N1 + N2) []) with
    | none => "bad-request"
    | some os => join (ctrace N1 N2 b os) ";"
  | "xhist" :: n :: d :: nl :: s0 :: dm :: init :: ops :: rest =>
    let N := n.toNat!
    let mats := match rest with
      | [m] => (splitTok m "@").map fun t => xmatFn (xMat t)
      | _ => []
    let b := xblank rn24 N (d != "0") (xmatFn (xMat s0)) (matFn (ratMat dm)) (nl != "0")
    match ((splitTok init ",") ++ (splitTok ops ",")).mapM (parseXOp N mats) with
    | none => "bad-request"
    | some os => join (xtrace b os) ";"
  | "xhhist" :: n :: d :: nl :: s0 :: p0 :: dm :: init :: ops :: rest =>
    let N := n.toNat!
    let mats := match rest with
      | [m] => (splitTok m "@").map fun t => xmatFn (xMat t)
      | _ => []
    match xhinit N (d != "0") (nl != "0") (xmatFn (xMat s0)) (xmatFn (xMat p0))
        (matFn (ratMat dm)) init, (splitTok ops ",").mapM (parseXHOp N mats) with
    | some none, _ => "raise:IndexError"
    | some (some h), some os =>
      if h.net.density.isNone then "raise:ZeroDivision"
      else join (showXHState h :: xhtrace h os) ";"
    | _, _ => "bad-request"
  | ["rn24", x] => match rat? x with
    | some v => showRat (rn24 v)
    | none => "bad-request"
  | ["xadj", n, w, t] =>
    showBools (thresholdAdjacencyX (xmatFn (xMat w)) (xnum t) n.toNat!)
  | ["ldf", n, s, e, nb] =>
    let N := n.toNat!
    -- through the generated script of the method; the answer as counts over `hist.sum()`
    let hist := histogram (allEntries (matFn (ratMat s)) N) (rats e) nb.toNat!
    match Pyunicorn.Similarity.Script.ldfRun Pyunicorn.Generated.StructC09.linkDensityFunction
        (matFn (ratMat s)) N (rats e) nb.toNat! with
    | none => "raise:script"
    | some out =>
      showNats (out.map fun q => (q * ((hist.sum : Nat) : Rat)).floor.toNat) ++ "/" ++ toString hist.sum
  | ["tfld", n, s, r] =>
    let N := n.toNat!
    match (rat? r).bind fun ρ =>
        some (thresholdFromIndex (matFn (ratMat s)) N (ieeeIndex ρ (N * N - N))) with
    | some (some θ) => showRat θ
    | some none => "raise:IndexError"
    | none => "bad-request"
  -- both evaluations of `int((1-ρ)*len)`: rational IEEE model | Lean `Float`
  | ["index", r, rbits, len] =>
    match rat? r with
    | some ρ => s!"{ieeeIndex ρ len.toNat!}|{floatIndex rbits.toNat!.toUInt64 len.toNat!}"
    | none => "bad-request"
  | ["rn53", x] => match rat? x with
    | some v => showRat (rn53 v)
    | none => "bad-request"
  -- `_calculate_threshold_adjacency(W, θ)` on an arbitrary (signed) matrix
  | ["adj", n, w, t] =>
    match rat? t with
    | some θ => showBools (thresholdAdjacency (matFn (ratMat w)) θ n.toNat!)
    | none => "bad-request"
  | "hist" :: n :: d :: nl :: s0 :: dm :: init :: ops :: rest =>
    let N := n.toNat!
    let mats := match rest with
      | [m] => (splitTok m "@").map fun t => matFn (ratMat t)
      | _ => []
    let b := blank N (d != "0") (matFn (ratMat s0)) (matFn (ratMat dm)) (nl != "0")
    match ((splitTok init ",") ++ (splitTok ops ",")).mapM (parseOp N mats) with
    | none => "bad-request"
    | some os => join (trace b os) ";"
  -- `shist` / `shhist`: the requests of `hist` / `hhist`, run through the generated scripts
  | "shist" :: n :: d :: nl :: s0 :: dm :: init :: ops :: rest =>
    let mats := match rest with
      | [m] => (splitTok m "@").map fun t => matFn (ratMat t)
      | _ => []
    sanswer false n.toNat! (d != "0") (nl != "0") (matFn (ratMat s0)) zeroSim (matFn (ratMat dm))
      init ops mats
  | "shhist" :: n :: d :: nl :: s0 :: p0 :: dm :: init :: ops :: rest =>
    let mats := match rest with
      | [m] => (splitTok m "@").map fun t => matFn (ratMat t)
      | _ => []
    sanswer true n.toNat! (d != "0") (nl != "0") (matFn (ratMat s0)) (matFn (ratMat p0))
      (matFn (ratMat dm)) init ops mats
  | "hhist" :: n :: d :: nl :: s0 :: p0 :: dm :: init :: ops :: rest =>
    let N := n.toNat!
    let mats := match rest with
      | [m] => (splitTok m "@").map fun t => matFn (ratMat t)
      | _ => []
    match hinit N (d != "0") (nl != "0") (matFn (ratMat s0)) (matFn (ratMat p0))
        (matFn (ratMat dm)) init, (splitTok ops ",").mapM (parseHOp N mats) with
    | some none, _ => "raise:IndexError"
    | some (some h), some os =>
      if h.net.density.isNone then "raise:ZeroDivision"
      else join (showHState h :: htrace h os) ";"
    | _, _ => "bad-request"
  | _ => "bad-request"

def main : IO Unit := runDriver answer
