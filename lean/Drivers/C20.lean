import Pyunicorn.Model.Proto
import Pyunicorn.Model.Access
import Pyunicorn.Model.AccessMi
import Pyunicorn.Model.WhileKernels
import Pyunicorn.Model.LineIdx
import Pyunicorn.Model.NsiIdx
import Pyunicorn.Model.NsiCsr
import Pyunicorn.Generated.StructC20Pyx
import Pyunicorn.Generated.StructC20Py
/-! Line-protocol driver of C20: access traces / verdicts of the raw-pointer
routines and outcomes of the `while` kernels. -/
open Pyunicorn Pyunicorn.Proto Pyunicorn.Access
namespace G
export Pyunicorn.Generated.StructC20Py (pearson_pysizes pearson_pychecks tmi_pysizes tmi_pychecks
  tmi_range_min tmi_range_max tmi_scaling mi_steps normalize_steps mi_range_min mi_range_max
  mi_scaling mi_call_args nsib_public nsib_worker nsib_outdegree nsib_nz_coords)
end G

def orat (s : String) : Option Rat := if s == "nan" then none else rat? s
def orats (s : String) : List (Option Rat) := (splitTok s ",").map orat
def odata (s : String) : Data := (splitTok s ";").map orats

def xr (s : String) : XR :=
  if s == "nan" then .nan else if s == "inf" then .pinf else if s == "-inf" then .ninf
  else match rat? s with
    | some r => .fin r
    | none => .nan
def xdata (s : String) : List (List XR) := (splitTok s ";").map fun row => (splitTok row ",").map xr
def xat (d : List (List XR)) (i k : Nat) : XR := (d.getD i []).getD k .nan
def showX : XR → String
  | .nan => "nan" | .pinf => "inf" | .ninf => "-inf"
  | .fin r => if r.den == 1 then toString r.num else s!"{r.num}/{r.den}"

def accKey (a : Acc) : Nat × Int × Nat × Nat := (a.arr, a.off, a.w, if a.wr then 1 else 0)

def keyLe (a b : Nat × Int × Nat × Nat) : Bool :=
  a.1 < b.1 || (a.1 == b.1 && (a.2.1 < b.2.1 || (a.2.1 == b.2.1 &&
    (a.2.2.1 < b.2.2.1 || (a.2.2.1 == b.2.2.1 && a.2.2.2 ≤ b.2.2.2)))))

def dedupSorted : List (Nat × Int × Nat × Nat) → List (Nat × Int × Nat × Nat)
  | a :: b :: t => if a == b then dedupSorted (b :: t) else a :: dedupSorted (b :: t)
  | l => l

/-- canonical form of a trace: verdict, then the distinct accesses to the
arrays `< keep` sorted -/
def showTrace (sz : List Nat) (keep : Nat) (tr : List Acc) : String :=
  let ks := dedupSorted (((tr.filter (·.arr < keep)).map accKey).mergeSort keyLe)
  let body := ks.map fun (a, o, w, k) => s!"{a}:{o}:{w}:{if k == 1 then "w" else "r"}"
  (verdictOf sz tr).str ++ "|" ++ (if body.isEmpty then "-" else join body)

/-! ### typed-buffer kernels: outcome predicted from the generated site lists -/
open Pyunicorn.Generated.StructC20Pyx in
/-- `name=value,...` -/
def kvs (s : String) : List (String × Int) :=
  (splitTok s ",").filterMap fun t =>
    match t.splitOn "=" with
    | [k, v] => some (k, v.toInt!)
    | _ => none

def envOf (kv : List (String × Int)) : String → Int :=
  fun s => ((kv.find? (·.1 == s)).map (·.2)).getD 0

/-- all assignments of the loop variables to values in `[-1, B]` on top of `kv` -/
def allEnvs (vars : List String) (B : Int) (kv : List (String × Int)) : List (List (String × Int)) :=
  vars.foldl (fun acc x => acc.flatMap fun e =>
    (List.range (B + 2).toNat).map fun (d : Nat) => (x, (d : Int) - 1) :: e) [kv]

open Pyunicorn.Generated.StructC20Pyx in
/-- `raise`: some index that is evaluated unconditionally leaves its axis for loop-variable values
in their ranges (IndexError under `boundscheck=True`); `ok`: no listed index ever does;
`either`: only conditionally evaluated ones do -/
def predictKernel (key : String) (B : Int) (kv : List (String × Int)) : String :=
  match kernel_table.find? (·.1 == key) with
  | none => "unknown-kernel"
  | some (_, sites, lv) =>
    let es := allEnvs lv B kv
    let bad (s : PSite) : Bool := s.g && !(decide (0 ≤ s.idx) && decide (s.idx < s.dim))
    if es.any (fun e => (sites (envOf e)).any fun s => bad s && !s.cond) then "raise"
    else if es.any (fun e => (sites (envOf e)).any bad) then "either" else "ok"

/-- the square root (of the mean of squares) of the normalisation: exact, or what floating point
gives when every square underflows (`zero`) / overflows (`inf`) -/
def sqMode (m : String) : XR → XR :=
  if m == "zero" then fun x => if x.isNan then .nan else .fin 0
  else if m == "inf" then fun x => if x.isNan then .nan else .pinf
  else sqrtX

instance : BEq Verdict := ⟨fun a b => decide (a = b)⟩

def answer (toks : List String) : String :=
  match toks with
  | ["trace", "spearman", m, t] =>
      showTrace (spearmanSizes m.toNat! t.toNat!) 3 (spearmanTrace m.toNat! t.toNat!)
  | ["trace", "spearman_pinned", m, t] =>
      showTrace (spearmanSizes m.toNat! t.toNat!) 3 (spearmanPinned m.toNat! t.toNat!)
  | ["trace", "pearson", n, t, n2, t2] =>
      showTrace (pearsonSizes n.toNat! t.toNat! n2.toNat! t2.toNat!) 3
        (pearsonTrace n.toNat! t.toNat!)
  | ["trace", "mi", n, t, nb, sc, rm, d] =>
      let dd := odata d
      let nbn := nb.toNat!
      showTrace (miSizes n.toNat! t.toNat! nbn) 5
        (miTrace n.toNat! t.toNat! nbn (fun i k => symbol (orat sc) (orat rm) nbn (dd.at i k)))
  | ["trace", "tmi", n, t, nb, sc, rm, dO, dS] =>
      let o := odata dO
      let s := odata dS
      let nbn := nb.toNat!
      showTrace (tmiSizes n.toNat! t.toNat! n.toNat! t.toNat! nbn) 8
        (tmiTrace n.toNat! t.toNat! nbn (fun i k => symbol (orat sc) (orat rm) nbn (o.at i k))
          (fun i k => symbol (orat sc) (orat rm) nbn (s.at i k)))
  | ["tracex", "mi", n, t, nb, sc, rm, d] =>
      -- data / scaling / range_min with infinities (`inf`, `-inf`, `nan` tokens)
      let dd := xdata d
      let nbn := nb.toNat!
      if !convsOKX 64 n.toNat! t.toNat! (xr sc) (xr rm) nbn (XData.at dd) then "undefined-conversion" else
      showTrace (miSizes n.toNat! t.toNat! nbn) 5
        (miTrace n.toNat! t.toNat! nbn (fun i k => (symbolX (xr sc) (xr rm) nbn (xat dd i k)).getD 0))
  | ["tracex", "tmi", n, t, nb, sc, rm, dO, dS] =>
      let o := xdata dO
      let s := xdata dS
      let nbn := nb.toNat!
      if !(convsOKX 32 n.toNat! t.toNat! (xr sc) (xr rm) nbn (XData.at o)
           && convsOKX 32 n.toNat! t.toNat! (xr sc) (xr rm) nbn (XData.at s))
      then "undefined-conversion" else
      showTrace (tmiSizes n.toNat! t.toNat! n.toNat! t.toNat! nbn) 8
        (tmiTrace n.toNat! t.toNat! nbn (fun i k => (symbolX (xr sc) (xr rm) nbn (xat o i k)).getD 0)
          (fun i k => (symbolX (xr sc) (xr rm) nbn (xat s i k)).getD 0))
  | ["trace", "vcfb", n, i] => showTrace (cfbSizes n.toNat!) 3 (vcfbTrace n.toNat! i.toInt!)
  | ["trace", "ecfb", n] => showTrace (cfbSizes n.toNat!) 3 (ecfbTrace n.toNat!)
  | ["call", "spearman", mm, mt, m, t] =>
      (spearmanCall mm.toNat! mt.toNat! m.toNat! t.toNat!).str
  | ["call", "pearson", n, t, n2, t2] =>
      -- the hard-coded wrapper model and the one whose shape test / size sources are the *generated*
      -- tables must agree (`pearsonObjCall_generated`)
      let a := pearsonCall n.toNat! t.toNat! n2.toNat! t2.toNat!
      let b := pearsonObjCall G.pearson_pysizes G.pearson_pychecks n.toNat! t.toNat! n2.toNat! t2.toNat!
      if a == b then a.str else s!"models-split:{a.str}/{b.str}"
  | ["call", "tmi", n, t, n2, t2, nb, dO, dS] =>
      -- NaN | finite data: the round-1 model and the IEEE model with everything generated must agree
      -- (`tmiCallX_restricts_to_tmiCall`; arrays that are empty are rejected by both)
      let a := tmiCall n.toNat! t.toNat! n2.toNat! t2.toNat! nb.toInt! (odata dO) (odata dS)
      let b := tmiObjCallX G.tmi_pysizes G.tmi_pychecks G.tmi_range_min G.tmi_range_max G.tmi_scaling
        n.toNat! t.toNat! n2.toNat! t2.toNat! nb.toInt! (xdata dO) (xdata dS)
      if a == b then a.str else s!"models-split:{a.str}/{b.str}"
  | ["call", "tmix", n, t, n2, t2, nb, dO, dS] =>
      -- the wrapper on IEEE data (`inf`, `-inf`, `nan` tokens); shape test, size sources, range terms
      -- and scaling expression are the *generated* ones
      (tmiObjCallX G.tmi_pysizes G.tmi_pychecks G.tmi_range_min G.tmi_range_max G.tmi_scaling
        n.toNat! t.toNat! n2.toNat! t2.toNat! nb.toInt! (xdata dO) (xdata dS)).str
  | ["range", "tmix", dO, dS] =>
      -- (range_min, range_max, scaling) as the wrapper model computes them
      match rangeFromX (xdata dO) (xdata dS) G.tmi_range_min G.tmi_range_max with
      | none => "unreadable"
      | some (mn, mx) =>
          showX mn ++ " " ++ showX mx ++ " " ++
            (match XR.recip (XR.sub mx mn) with
             | none => "zerodiv"
             | some s => showX s)
  | ["call", "mix", t, n, nb, big, sqm, d] =>
      -- round 5c: the climate worker on the caller's (time, nodes) anomaly of IEEE values; statements,
      -- range terms, scaling expression and call arguments are the *generated* ones; `big`: the
      -- largest finite `float` (overflow of the conversion)
      (miCallX G.mi_steps G.normalize_steps G.mi_range_min G.mi_range_max G.mi_scaling G.mi_call_args
        (sqMode sqm) (rndBig ((rat? big).getD 0)) t.toNat! n.toNat! nb.toInt! (xdata d)).str
  | ["range", "mix", t, n, sqm, d] =>
      -- the normalised, transposed array with its range and scaling, and whether every square root
      -- taken was exact
      let T := t.toNat!
      let N := n.toNat!
      let a := xdata d
      match miRangeX G.mi_steps G.normalize_steps (sqMode sqm) T N a,
            miRangeX G.mi_steps (G.normalize_steps.take 1) sqrtX T N a with
      | some (dd, mn, mx, s), some (cc, _, _, _) =>
          let ex := sqm != "exact" || (List.range N).all fun j =>
            sqrtExact (meanX ((cc.getD j []).map fun x => XR.mul x x))
          (if ex then "exact " else "approx ") ++
          (if dd.flatten.isEmpty then "-" else
            String.intercalate ";" (dd.map fun row => String.intercalate "," (row.map showX))) ++ " " ++
          showX mn ++ " " ++ showX mx ++ " " ++
            (match s with
             | none => "zerodiv"
             | some s => showX s)
      | _, _ => "unreadable"
  | ["call", "mi", n, t, nb, zdiv, sc, rm, d] =>
      (miCall n.toNat! t.toNat! nb.toInt! (zdiv == "1") (orat sc) (orat rm) (odata d)).str
  | ["call", "miobj", objn, n, t, nb, zdiv, sc, rm, d] =>
      -- the same call on an object with `self.N = objn`: the integers handed to the kernel are
      -- taken from where the *generated* table `mi_pysizes` says
      (miObjCall Pyunicorn.Generated.StructC20Py.mi_pysizes objn.toNat! n.toNat! t.toNat! nb.toInt!
        (zdiv == "1") (orat sc) (orat rm) (odata d)).str
  | ["call", "vcfb", n, i, na] => (vcfbCall n.toNat! i.toInt! na.toNat!).str
  | ["call", "ecfb", n, na] => (ecfbCall n.toNat! na.toNat!).str
  | ["adaptive", n, a, sn, ord, rec] =>
      -- `n` is n_time; the matrix dimension is the number of rows of `rec`
      let r := intMat rec
      (if WhileKernels.tablesOK r.length n.toNat! (intMat sn) (ints ord) r then "valid|" else "any|") ++
      WhileKernels.showOutcome
        (WhileKernels.adaptive n.toNat! a.toNat! (intMat sn) (ints ord) r)
  | ["linedist", name, nt, dim, r0, r1, m0, e0, e1, h0, rm, em, eps2, mm] =>
      -- a wrapper of `_line_dist` on buffers of the given extents: IndexError or the histogram
      match Pyunicorn.Generated.StructC20Py.line_dist_wrappers.find? (·.name == name) with
      | none => "unknown-wrapper"
      | some w =>
        match Pyunicorn.LineIdx.outcome w nt.toInt! dim.toInt!
            ⟨r0.toInt!, r1.toInt!, m0.toInt!, e0.toInt!, e1.toInt!, h0.toInt!⟩
            (intMat rm) (intMat em) eps2.toInt! (ints mm) with
        | none => "raise"
        | some h => if h.isEmpty then "-" else join (h.map toString)
  | ["nsiidx", n, k, nbr, wlen, slen, targets] =>
      -- `_nsi_betweenness` at its own boundary: does the contract hold, and IndexError | returns
      let N := n.toNat!
      (if Pyunicorn.NsiIdx.csrOK N (nats k) (nats nbr) wlen.toNat! slen.toNat! (nats targets)
        then "valid|" else "any|") ++
      (match Pyunicorn.NsiIdx.nsiBetwIdx N (nats k) (nats nbr) wlen.toNat! slen.toNat! (nats targets) with
       | none => "raise"
       | some _ => "ok")
  | ["nsicsr", adj, tg] =>
      -- round 5e: the arguments `Network.nsi_betweenness` builds from the adjacency, by the
      -- construction read off the current source (generated texts); + contract and index model
      match Pyunicorn.NsiCsr.nsiArgs ⟨G.nsib_public, G.nsib_worker, G.nsib_outdegree, G.nsib_nz_coords⟩
          (natMat adj) (if tg == "none" then none else some (nats tg)) with
      | none => "cannot-evaluate"
      | some a =>
        s!"{a.N}|{showNats a.k}|{showNats a.nbr}|{a.wlen}|{a.slen}|{showNats a.targets}" ++
        (if Pyunicorn.NsiCsr.adjOK (natMat adj) then "|adj-ok" else "|adj-any") ++
        (if Pyunicorn.NsiIdx.csrOK a.N a.k a.nbr a.wlen a.slen a.targets then "|valid" else "|any")
  | ["psites", key, b, kv] => predictKernel key b.toInt! (kvs kv)
  | _ => "bad-request"

def main : IO Unit := runDriver answer
