import Pyunicorn.Model.Proto
import Pyunicorn.Model.Memo
import Pyunicorn.Generated.StructC01
/-! Line-protocol driver for C01. -/
open Pyunicorn Pyunicorn.Proto Pyunicorn.Memo Pyunicorn.Generated

def tableOf (name : String) : Option Table :=
  (StructC01.allTables.find? (·.1 == name)).map (·.2)

def parseOp (s : String) : Option Op :=
  if s.startsWith "m" then (s.drop 1).toNat?.map Op.mutate
  else if s.startsWith "e" then (s.drop 1).toNat?.map Op.evict
  else if s.startsWith "q" then
    match (s.drop 1).toString.splitOn "." with
    | [a, b] => do some (Op.query (← a.toNat?) (← b.toNat?))
    | [a] => do some (Op.query (← a.toNat?) 0)
    | _ => none
  else none

/-- outputs per op: `-` (no output), `H1`/`H0` hit coherent/stale, `M` miss -/
def runHist (t : Table) (ops : List Op) : List String :=
  let rec go (s : State) : List Op → List String
    | [] => []
    | op :: rest =>
      let r := step t s op
      let out := match op, r.2 with
        | .query mi arg, some (v, c) =>
          let hit := match t.methods[mi]? with
            | some m => (findEntry s.cache mi arg (m.keyOf s)).isSome
            | none => false
          if hit then (if v == c then "H1" else "H0") else "M"
        | _, _ => "-"
      out :: go r.1 rest
  go State.init ops

def answer (toks : List String) : String :=
  match toks with
  | ["wf", c] => match tableOf c with
      | some t => if wf t then "1" else "0"
      | none => "no-such-class"
  | ["derived", c] => match tableOf c with
      | some t => if derivedFresh StructC01.groups t then "1" else "0"
      | none => "no-such-class"
  | ["offending", c] => match tableOf c with
      | some t => let o := offending t
          if o.isEmpty then "-" else join (o.map fun (a, b) => s!"{a}:{b}") ","
      | none => "no-such-class"
  | ["hist", c, ops] => match tableOf c with
      | some t => join (runHist t ((splitTok ops ",").filterMap parseOp)) ","
      | none => "no-such-class"
  | _ => "bad-request"

def main : IO Unit := runDriver answer
