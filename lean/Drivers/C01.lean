import Pyunicorn.Model.Proto
import Pyunicorn.Model.Memo
import Pyunicorn.Model.MemoNested
import Pyunicorn.Model.MemoMode
import Pyunicorn.Model.MemoOwned
import Pyunicorn.Generated.StructC01
/-! Line-protocol driver for C01. -/
open Pyunicorn Pyunicorn.Proto Pyunicorn.Memo Pyunicorn.Generated

def tableOf (name : String) : Option Table :=
  (StructC01.allTables.find? (·.1 == name)).map (·.2)

def parseOp (s : String) : Option Op :=
  if s.startsWith "m" then (s.drop 1).toNat?.map Op.mutate
  else if s.startsWith "e" then (s.drop 1).toNat?.map Op.evict
  else if s.startsWith "q" then
    match (s.drop 1).toString.splitOn "." with
    | [a, b] => do some (Op.query (← a.toNat?) (← b.toNat?))
    | [a] => do some (Op.query (← a.toNat?) 0)
    | _ => none
  else none

/-- outputs per op: `-` (no output), `H1`/`H0` hit coherent/stale, `M` miss -/
def runHist (t : Table) (ops : List Op) : List String :=
  let rec go (s : State) : List Op → List String
    | [] => []
    | op :: rest =>
      let r := step t s op
      let out := match op, r.2 with
        | .query mi arg, some (v, c) =>
          let hit := match t.methods[mi]? with
            | some m => (findEntry s.cache mi arg (m.keyOf s)).isSome
            | none => false
          if hit then (if v == c then "H1" else "H0") else "M"
        | _, _ => "-"
      out :: go r.1 rest
  go State.init ops

def ntableOf (name : String) : Option NTable :=
  (StructC01.allNTables.find? (·.1 == name)).map (·.2)

def showNatsD (xs : List Nat) : String :=
  if xs.isEmpty then "-" else join (xs.map toString) ","

/-- nested histories: per op `-`, or the event log of the query `m.a.H|M` joined by `+`,
followed by `=1`/`=0` (returned value equals the fresh value) -/
def runNHist (t : NTable) (ops : List Op) : List String :=
  let rec go (s : State) : List Op → List String
    | [] => []
    | op :: rest =>
      let r := nstep t s op
      let out := match op, r.2 with
        | .query mi a, some (v, c) =>
          let log := (nquery t (mi + 1) s mi a).log
          join (log.map fun (m, a, h) => s!"{m}.{a}.{if h then "H" else "M"}") "+" ++
            (if v == c then "=1" else "=0")
        | _, _ => "-"
      out :: go r.1 rest
  go State.init ops

def parseXOp (s : String) : Option XOp :=
  if s.startsWith "x" then
    match (s.drop 1).toString.splitOn "." with
    | [a, b] => do some (XOp.raises (← a.toNat?) (← b.toNat?) [0])
    | _ => none
  else (parseOp s).map XOp.op

/-- as `runNHist`, with raising calls `x<m>.<a>` (output `-`) -/
def runXHist (t : NTable) (ops : List XOp) : List String :=
  let rec go (s : State) : List XOp → List String
    | [] => []
    | op :: rest =>
      let r := xstep t s op
      let out := match op, r.2 with
        | .op (.query mi a), some (v, c) =>
          let log := (nquery t (mi + 1) s mi a).log
          join (log.map fun (m, a, h) => s!"{m}.{a}.{if h then "H" else "M"}") "+" ++
            (if v == c then "=1" else "=0")
        | _, _ => "-"
      out :: go r.1 rest
  go State.init ops

def mtableOf (name : String) : Option Mode.MTable :=
  (StructC01.allMTables.find? (·.1 == name)).map (·.2)

/-- round 5: the table of the pair (owner class, owned component) and its parts -/
def pairOf (c comp : String) : Option (NTable × NTable × OLink) :=
  (StructC01.allOLinks.find? (fun p => p.1 == c && p.2.1 == comp)).map (·.2.2)

def answer (toks : List String) : String :=
  match toks with
  /- `<#owned methods>,<#owner mutators kept>,<nwf>,<apart>,<abstraction sound>` -/
  | ["opair", c, comp] => match pairOf c comp with
      | some (t, u, l) =>
        let b := fun (x : Bool) => if x then "1" else "0"
        s!"{u.methods.length},{(ownerMuts l u 0 t.mutators).length},{b (nwf (compose t u l))}," ++
          s!"{b (l.apart t)},{b (abstractionSound t u l)}"
      | none => "no-such-pair"
  | ["onoffending", c, comp] => match pairOf c comp with
      | some (t, u, l) => let o := noffending (compose t u l)
          if o.isEmpty then "-" else join (o.map fun (a, b, d) => s!"{a}:{b}:{d}") ","
      | none => "no-such-pair"
  | ["onhist", c, comp, ops] => match pairOf c comp with
      | some (t, u, l) => join (runXHist (compose t u l) ((splitTok ops ",").filterMap parseXOp)) ","
      | none => "no-such-pair"
  | ["modewf", c] => match mtableOf c with
      | some t => if Mode.modeWf t then "1" else "0"
      | none => "no-such-class"
  | ["modefields", c] => match mtableOf c with
      | some t => showNatsD (Mode.modeFields t)
      | none => "no-such-class"
  | ["modeoffending", c] => match mtableOf c with
      | some t => let o := Mode.modeOffending t
          if o.isEmpty then "-" else join (o.map fun (a, b) => s!"{a}:{b}") ","
      | none => "no-such-class"
  | ["modetaint", c, oi] => match mtableOf c, oi.toNat? with
      | some t, some oi => match t.mutators[oi]? with
          | some evs => showNatsD (Mode.taintOf (Mode.modeFields t) evs)
          | none => "bad-request"
      | _, _ => "bad-request"
  /- per mode field of the class: `f:c<k>` every assignment of f in mutator oi stores constant k,
     `f:e` f is assigned some other way, `f:-` f is not assigned by the mutator -/
  | ["modeconst", c, oi] => match mtableOf c, oi.toNat? with
      | some t, some oi => match t.mutators[oi]? with
          | some evs =>
            let fs := Mode.modeFields t
            if fs.isEmpty then "-" else join (fs.map fun f =>
              match Mode.alwaysConst evs f with
              | some k => s!"{f}:c{k}"
              | none => if (evs.any fun e => e.target == f) then s!"{f}:e" else s!"{f}:-") ","
          | none => "bad-request"
      | _, _ => "bad-request"
  | ["nwf", c] => match ntableOf c with
      | some t => if nwf t then "1" else "0"
      | none => "no-such-class"
  | ["acyclic", c] => match ntableOf c with
      | some t => if t.acyclic then "1" else "0"
      | none => "no-such-class"
  | ["flatcovers", c] => match ntableOf c, tableOf c with
      | some t, some f => if flatCovers t f then "1" else "0"
      | _, _ => "no-such-class"
  | ["noffending", c] => match ntableOf c with
      | some t => let o := noffending t
          if o.isEmpty then "-" else join (o.map fun (a, b, d) => s!"{a}:{b}:{d}") ","
      | none => "no-such-class"
  | ["closure", c, mi, a] => match ntableOf c, mi.toNat?, a.toNat? with
      | some t, some mi, some a => showNatsD (closure t (mi + 1) mi a).eraseDups
      | _, _, _ => "bad-request"
  | ["callees", c, mi, a] => match ntableOf c, mi.toNat?, a.toNat? with
      | some t, some mi, some a => showNatsD (callees t (mi + 1) mi a).eraseDups
      | _, _, _ => "bad-request"
  | ["maxsize", c] => match ntableOf c with
      | some t => match t.maxsize with | some k => toString k | none => "none"
      | none => "no-such-class"
  | ["xhist", c, ops] => match ntableOf c with
      | some t => join (runXHist t ((splitTok ops ",").filterMap parseXOp)) ","
      | none => "no-such-class"
  | ["nhist", c, ops] => match ntableOf c with
      | some t => join (runNHist t ((splitTok ops ",").filterMap parseOp)) ","
      | none => "no-such-class"
  | ["wf", c] => match tableOf c with
      | some t => if wf t then "1" else "0"
      | none => "no-such-class"
  | ["derived", c] => match tableOf c with
      | some t => if derivedFresh StructC01.groups t then "1" else "0"
      | none => "no-such-class"
  | ["offending", c] => match tableOf c with
      | some t => let o := offending t
          if o.isEmpty then "-" else join (o.map fun (a, b) => s!"{a}:{b}") ","
      | none => "no-such-class"
  | ["hist", c, ops] => match tableOf c with
      | some t => join (runHist t ((splitTok ops ",").filterMap parseOp)) ","
      | none => "no-such-class"
  | _ => "bad-request"

def main : IO Unit := runDriver answer
