import Pyunicorn.Model.Proto
import Pyunicorn.Model.Window
/-! Line-protocol driver for C13: one request = one object history.

`run <c> <anomflag> <init> <time> <lat> <lon> <obs> <op>*`

* `<init>`: `G` (constructor without window) or `W=a,b,c,d,e,f`
* `<op>`: `W=a,b,c,d,e,f` (set_window) | `G` (set_global_window) | `X` (cache_clear)
  | `o` (observable) | `g` (grid) | `w` (window) | `pm` | `an` | `pi`
  | `sp=<phases>` (indices_selected_phases, integers) | `am=<months>` (anomaly_selected_months)
  | `im=<months>` (indices_selected_months) | `Wc` (set_window(window()))
  | `N` (continue with ClimateData(obj.observable(), obj.grid, …))
  | `sh=<perms>` (shuffled_anomaly, one permutation per column, rows separated by `;`)
  | `cs` (`__cache_state__()`: the counter `_mut_window`)
  | `W32=a,b,c,d,e,f` (round 5: set_window with Python-float bounds that need not be float32
    numbers: converted to float32 and compared in float32, `Obj.setWindow32`)
  | `shr=<draws>` (round 4: shuffled_anomaly on the raw 32-bit output stream of the generator;
    answer = the matrix, `@`, the number of draws left over; `exhausted` if the stream runs out)

`runreg <c> <anomflag> <init> <time> <latgrid> <longrid> <obs> <op>*`: the same on a file
loaded from a regular grid (`Data.Load`): the node sequences are computed by the model.

`ry <T> <c>`: `int(T / c)` as evaluated in IEEE double (`rangeYearsF`), and `T // c`.

`flt <c> <obs>` (round 5): `phase_mean()` and `anomaly()` of the float64 observable `obs` (exact
rationals of the doubles) as executed in IEEE binary64 — every `+`, `/`, `-` rounded to
nearest-even, the sum over axis 0 row after row (`flPhaseMeanLoop ops64`, `flAnomalyOf ops64`); the
answer holds the exact rationals of the resulting doubles.  `flt32 <c> <obs>`: the same for a
float32 observable (`ops32`: `+`, `-` in binary32, the division in double then rounded to binary32).

Answer: the outputs of the operations joined by `|`.
-/
open Pyunicorn Pyunicorn.Proto Pyunicorn.Window

def showShape (r c : Nat) : String := s!"{r}x{c}:"

def showMatS (rows : Nat) (cols : Nat) (m : Mat) : String :=
  showShape rows cols ++ (if m.isEmpty then "-" else join (m.map showRats) ";")

def showPM (cols : Nat) (pm : List (Option Vec)) : String :=
  showShape pm.length cols ++
    (if pm.isEmpty then "-" else join (pm.map fun r => match r with
      | none => "nan"
      | some v => showRats v) ";")

def parseWin (s : String) : Option Win :=
  match rats s with
  | [a, b, c, d, e, f] => some ⟨a, b, c, d, e, f⟩
  | _ => none

def showRes {α : Type} (f : α → String) : Res α → String
  | .ok a => f a
  | .valueError => "raise:ValueError"
  | .zeroDivision => "raise:ZeroDivisionError"
  | .indexError => "raise:IndexError"
  | .notImplemented => "raise:NotImplementedError"

def doOp (o : Obj) (tok : String) : String × Obj :=
  let T := o.cur.time.length
  let N := o.ncols
  if tok == "G" then
    let (r, o') := o.setGlobal
    (if r then "raise:ValueError" else "ok", o')
  else if tok == "X" then ("ok", o.evict fun _ => false)
  else if tok == "cs" then (toString o.ver, o)
  else if tok == "o" then (showMatS T N o.cur.obs, o)
  else if tok == "g" then
    (showRats o.cur.time ++ "~" ++ showRats o.cur.lat ++ "~" ++ showRats o.cur.lon, o)
  else if tok == "w" then
    (match boundaries o.cur with
     | some b => showRats b
     | none => "raise:ValueError", o)
  else if tok == "pm" then
    let (v, o') := o.phaseMeanQ
    (showPM N v, o')
  else if tok == "an" then
    let (v, o') := o.anomalyQ
    (showMatS v.length (match v with | [] => N | r :: _ => r.length) v, o')
  else if tok == "pi" then
    (showRes (fun pi => showShape pi.length (T / o.cycle) ++ showNatMat pi)
      (phaseIndicesLoop o.cycle T), o)
  else if tok == "Wc" then
    let (r, o') := o.setWindowCurrent
    (if r then "raise:ValueError" else "ok", o')
  else if tok == "N" then
    match o.nest with
    | none => ("raise:ValueError", o)
    | some o' => ("ok", o')
  else if tok.startsWith "sh=" then
    let (A, o') := o.anomalyQ
    let S := shuffledAnomaly A N (natMat (tok.drop 3).toString)
    (showMatS S.length N S, o')
  else if tok.startsWith "shr=" then
    -- `np.empty(anomaly().shape)`: any content (zeros here; `shuffled_anomaly_raw_spec`)
    let (R, o') := o.shuffledAnomalyQ (List.replicate T (zeros N)) (nats (tok.drop 4).toString)
    (match R with
     | none => "exhausted"
     | some (S, rest) => showMatS S.length N S ++ "@" ++ toString rest.length, o')
  else if tok.startsWith "im=" then
    (showRes showNats (indicesSelectedMonthsI o.cycle T (ints (tok.drop 3).toString)), o)
  else if tok.startsWith "W=" then
    match parseWin (tok.drop 2).toString with
    | none => ("bad-window", o)
    | some w =>
      let (r, o') := o.setWindow w
      (if r then "raise:ValueError" else "ok", o')
  else if tok.startsWith "W32=" then
    -- round 5: Python-float bounds on the float32 grid, compared in float32 as NumPy 2 does
    match parseWin (tok.drop 4).toString with
    | none => ("bad-window", o)
    | some w =>
      let (r, o') := o.setWindow32 w
      (if r then "raise:ValueError" else "ok", o')
  else if tok.startsWith "sp=" then
    (showRes showNats (indicesSelectedPhasesI o.cycle T (ints (tok.drop 3).toString)), o)
  else if tok.startsWith "am=" then
    let (r, o') := o.anomalySelectedMonths (ints (tok.drop 3).toString)
    (showRes (fun m => showMatS m.length N m) r, o')
  else ("bad-op", o)

def runOps (o : Obj) (ops : List String) : List String :=
  (ops.foldl (fun (acc : List String × Obj) tok =>
    let (s, o') := doOp acc.2 tok
    (s :: acc.1, o')) ([], o)).1.reverse

def answer (toks : List String) : String :=
  match toks with
  | "run" :: c :: fl :: init :: time :: lat :: lon :: obs :: ops =>
    let full : View := ⟨rats time, rats lat, rats lon, ratMat obs⟩
    let w : Option (Option Win) :=
      if init == "G" then some none
      else if init.startsWith "W=" then (parseWin (init.drop 2).toString).map some else none
    match w with
    | none => "bad-init"
    | some w =>
      match Obj.init full c.toNat! (fl == "1") w with
      | none => "raise:ValueError"
      | some o => join ("ok" :: runOps o ops) "|"
  | "runreg" :: c :: fl :: init :: time :: latg :: long :: obs :: ops =>
    let full : View := loadRegular (rats time) (rats latg) (rats long) (ratMat obs)
    let w : Option (Option Win) :=
      if init == "G" then some none
      else if init.startsWith "W=" then (parseWin (init.drop 2).toString).map some else none
    match w with
    | none => "bad-init"
    | some w =>
      match Obj.init full c.toNat! (fl == "1") w with
      | none => "raise:ValueError"
      | some o => join ("ok" :: runOps o ops) "|"
  | ["ry", T, c] =>
    if c.toNat! = 0 then "raise:ZeroDivisionError"
    else s!"{rangeYearsF T.toNat! c.toNat!} {T.toNat! / c.toNat!}"
  | [cmd, c, obs] =>
    if cmd == "flt" || cmd == "flt32" then
      let P := if cmd == "flt" then ops64 else ops32
      let M := ratMat obs
      let N := match M with | [] => 0 | r :: _ => r.length
      showPM N (flPhaseMeanLoop P c.toNat! N M) ++ "|" ++
        (let A := flAnomalyOf P c.toNat! N M; showMatS A.length N A)
    else "bad-request"
  | _ => "bad-request"

def main : IO Unit := runDriver answer
