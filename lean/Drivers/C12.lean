import Pyunicorn.Model.Proto
import Pyunicorn.Model.Geo
import Pyunicorn.Model.GeoHist
import Pyunicorn.Model.GeoArea
import Pyunicorn.Model.GeoRegion
/-! Line-protocol driver for C12 (grid geometry).

Exact requests (`Rat`): `cosang`, `eucl2`, `gridnn`, `rect`, `convlon`, `maxld`, `ald`,
`geodist`, `geocum`, `nbawc`, `maxnbawc`, `geomdd`, `linkdd` (round 3).
Floating requests (`Float`, answers as IEEE-754 bit patterns): `angdist`,
`eucld`, `geonn`, `weights`, `awc`.
Round 5: `cosangf32` — the angular kernel in `Float32` (bit patterns compared); `gridnnf` / `gridnnf32` — `Grid.node_number` in `Float` / `Float32` (decision compared).
Round 4: `angdist` / `eucld` answer through the object-level models `gridDistance` (a `GeoGrid`
built from `lat`, `lon`) and `gridEuclideanDistance` (a `Grid` holding an array of shape
`(d, n)`); exact requests `eucobj2` (object level, squared), `cwd`, `tld`, `georect`.
Round 5e: `region` — `GeoGrid.region_indices` (exact; the mask as 0 / 1). -/
open Pyunicorn Pyunicorn.Proto Pyunicorn.Geo

def vec {α : Type} [Inhabited α] (l : List α) : Nat → α := fun i => l.getD i default
def mat {α : Type} [Inhabited α] (m : List (List α)) : Nat → Nat → α :=
  fun i j => (m.getD i []).getD j default

def toF (r : Rat) : Float := Float.ofInt r.num / Float.ofNat r.den
def floats (s : String) : List Float := (rats s).map toF
def floatMat (s : String) : List (List Float) := (ratMat s).map (·.map toF)
def showFloats (xs : List Float) : String :=
  if xs.isEmpty then "-" else join (xs.map fun x => toString x.toBits)
def showFloatMat (m : List (List Float)) : String :=
  if m.isEmpty then "-" else join (m.map showFloats) ";"

/-- single precision: every float32 value is a double, and `toFloat32` is exact on it -/
def toF32 (r : Rat) : Float32 := (toF r).toFloat32

def trigF : Trig Float where
  sin := Float.sin
  cos := Float.cos
  arccos := Float.acos
  sqrt := Float.sqrt
  rad := fun x => x * 3.141592653589793 / 180

/-- a `Trig Rat` whose transcendental fields are never used by the exact requests -/
def trigQ : Trig Rat where
  sin := id
  cos := id
  arccos := id
  sqrt := id
  rad := id

def showOptNat : Option Nat → String
  | some k => toString k
  | none => "raise:ValueError"

def showOptInts (xs : List (Option Int)) : String :=
  if xs.isEmpty then "-" else join (xs.map fun | some v => toString v | none => "none")

def showOptRats (xs : List (Option Rat)) : String :=
  if xs.isEmpty then "-" else join (xs.map fun | some v => showRat v | none => "none")

def wtype (s : String) : WType :=
  if s == "surface" then .surface else if s == "irrigation" then .irrigation else .none

def showExcRats : Except String (List Rat) → String
  | .ok v => showRats v
  | .error e => if e == "nonfinite" then e else "raise:" ++ e

def showExcOptRats : Except String (Option (List Rat)) → String
  | .ok (some v) => showRats v
  | .ok none => "nonfinite"
  | .error e => "raise:" ++ e

def answer (toks : List String) : String :=
  match toks with
  | ["cosang", n, sl, cl, sn, cn] =>
      let N := n.toNat!
      showRatMat (toLists N (cosAngKernel (vec (rats sl)) (vec (rats cl)) (vec (rats sn))
        (vec (rats cn)) N))
  -- the Euclidean kernel with the identity in place of `sqrt`: the squared distances
  | ["eucl2", d, n, x] =>
      let N := n.toNat!
      let xs := (ratMat x).toArray.map (·.toArray)
      let xm : Nat → Nat → Rat := fun k i => (xs.getD k #[]).getD i 0
      -- beyond 27 nodes through `symBlock` (theorem `euclKernel_block`: the same list)
      if N ≤ 27 then showRatMat (toLists N (euclKernel id (mat (ratMat x)) d.toNat! N))
      else showRatMat (symBlock N (fun i j => sumsq xm d.toNat! i j))
  -- `Grid.node_number`; `sqrt` replaced by the identity (theorem `gridNodeNumber_mono`)
  | ["gridnn", d, n, x, q] =>
      showOptNat (gridNodeNumber id (mat (ratMat x)) (vec (rats q)) d.toNat! n.toNat!)
  -- round 5: `Grid.node_number` evaluated in IEEE double / single arithmetic in the order of the
  -- source (`diff = space.T - x`, `diff**2`, `np.sum(axis=1)` as a left fold, `np.sqrt`, `argmin`)
  -- round 5: the angular kernel in IEEE single precision; answers are float32 bit patterns
  | ["cosangf32", n, sl, cl, sn, cn] =>
      let N := n.toNat!
      let a := ((rats sl).map toF32).toArray
      let b := ((rats cl).map toF32).toArray
      let c := ((rats sn).map toF32).toArray
      let e := ((rats cn).map toF32).toArray
      -- up to 16 nodes the block is read out of the filled matrix (the loop model itself), beyond
      -- through `symBlock` (theorem `cosAngKernel_block`: the same list)
      let m := if N ≤ 16 then
          toLists N (cosAngKernel (fun i => a.getD i 0) (fun i => b.getD i 0)
            (fun i => c.getD i 0) (fun i => e.getD i 0) N)
        else symBlock N (fun i j => clamp (cosExpr (fun i => a.getD i 0) (fun i => b.getD i 0)
            (fun i => c.getD i 0) (fun i => e.getD i 0) i j))
      if m.isEmpty then "-" else
        join (m.map fun r => join (r.map fun x => toString x.toBits)) ";"
  | ["gridnnf", d, n, x, q] =>
      showOptNat (gridNodeNumber Float.sqrt (mat (floatMat x)) (vec (floats q)) d.toNat! n.toNat!)
  | ["gridnnf32", d, n, x, q] =>
      showOptNat (gridNodeNumber Float32.sqrt (mat ((ratMat x).map (·.map toF32)))
        (vec ((rats q).map toF32)) d.toNat! n.toNat!)
  | ["rect", axes] =>
      let r := rectGrid (intMat axes)
      if r.isEmpty then "-" else join (r.map showOptInts) ";"
  | ["angdist", n, lat, lon] =>
      let N := n.toNat!
      showFloatMat (toLists N (gridDistance trigF .geo
        (geoGridData (vec (floats lat)) (vec (floats lon)) N)))
  | ["eucld", d, n, x] =>
      let N := n.toNat!
      showFloatMat (toLists N (gridDistance trigF .euclid ⟨d.toNat!, N, mat (floatMat x)⟩))
  -- round 4: `Grid.euclidean_distance()` of the object, exact squared distances
  | ["eucobj2", d, n, x] =>
      let N := n.toNat!
      showRatMat (toLists N (gridEuclideanDistance
        { trigQ with sqrt := id } ⟨d.toNat!, N, mat (ratMat x)⟩))
  -- `(in|out|)connectivity_weighted_distance`; mode in|out|dir|undir (exact)
  | ["cwd", mode, n, d, a, w] =>
      let N := n.toNat!
      let f := if mode == "in" then inCWD (α := Rat) else if mode == "out" then outCWD (α := Rat)
        else CWD (α := Rat) (mode == "dir")
      showOptRats ((List.range N).map (f (mat (ratMat d)) (mat (ratMat a)) (vec (rats w)) N))
  -- `(in|out|)total_link_distance(geometry_corrected)` (exact)
  | ["tld", mode, corr, n, d, a, w] =>
      let N := n.toNat!
      let f := if mode == "in" then inTLD (α := Rat) else if mode == "out" then outTLD (α := Rat)
        else TLD (α := Rat) (mode == "dir")
      showOptRats ((List.range N).map
        (f (mat (ratMat d)) (mat (ratMat a)) (vec (rats w)) N (N : Rat) (corr == "1")))
  -- `GeoGrid.coord_sequence_from_rect_grid(lat_grid, lon_grid)`
  | ["georect", la, lo] =>
      match geoRectGrid (ints la) (ints lo) with
      | some (a, b) => showOptInts a ++ ";" ++ showOptInts b
      | none => "raise"

  | ["geonn", n, lat, lon, latq, lonq] =>
      match floats latq, floats lonq with
      | [a], [b] => showOptNat (geoGridNodeNumber trigF (vec (floats lat)) (vec (floats lon)) a b
                      n.toNat!)
      | _, _ => "bad-request"
  | ["weights", t, n, lat] =>
      showFloats ((List.range n.toNat!).map (nodeWeights trigF (wtype t) (vec (floats lat))))
  | ["awc", dir, n, lat, a] =>
      let N := n.toNat!
      showFloats ((List.range N).map
        (AWC trigF (dir == "1") (vec (floats lat)) (mat (floatMat a)) N))
  -- `GeoGrid.convert_lon_coordinates` on a grid of `n` nodes (exact)
  | ["convlon", n, lon] =>
      match convertLon n.toNat! (rats lon) with
      | some out => showRats out
      | none => "raise:IndexError"
  -- `max_link_distance` from the distance matrix and the adjacency matrix (exact)
  | ["maxld", n, d, a] =>
      let N := n.toNat!
      showOptRats ((List.range N).map (maxLinkDistNet (mat (ratMat d)) (mat (ratMat a)) N))
  -- `(in|out|)average_link_distance(geometry_corrected)`; mode in|out|dir|undir (exact)
  | ["ald", mode, corr, n, d, a] =>
      let N := n.toNat!
      let f := if mode == "in" then inALD (α := Rat) else if mode == "out" then outALD (α := Rat)
        else avgALD (α := Rat) (mode == "dir")
      showOptRats ((List.range N).map
        (f (mat (ratMat d)) (mat (ratMat a)) N (N : Rat) (corr == "1")))
  -- round 3: `geographical_distribution(sequence, n_bins)[0]` with weights `w` (= `cos_lat()`)
  | ["geodist", nb, w, sq] =>
      showExcRats (geoDist (vec (rats w)) (rats sq) nb.toNat!)
  -- `geographical_cumulative_distribution(sequence, n_bins)[0]`
  | ["geocum", nb, w, sq] =>
      showExcRats ((geoDist (vec (rats w)) (rats sq) nb.toNat!).map cumFrom)
  -- `average_neighbor_area_weighted_connectivity` from awc, degree, undirected adjacency
  | ["nbawc", n, awc, deg, a] =>
      let N := n.toNat!
      showRats ((List.range N).map (avgNbAWC (vec (rats awc)) (vec (rats deg)) (mat (ratMat a)) N))
  -- `max_neighbor_area_weighted_connectivity` (per node; `none` = ValueError of that node)
  | ["maxnbawc", n, awc, a] =>
      let N := n.toNat!
      showOptRats ((List.range N).map (maxNbAWC (vec (rats awc)) (mat (ratMat a)) N))
  -- `geometric_distance_distribution(n_bins)[0]` from the distance matrix
  | ["geomdd", n, nb, d] =>
      showExcOptRats (geomDistDist (mat (ratMat d)) n.toNat! nb.toNat!)
  -- `link_distance_distribution(n_bins, geometry_corrected)[0]`
  | ["linkdd", corr, n, nb, d, dg, a] =>
      showExcOptRats (linkDistDist (mat (ratMat d)) (mat (ratMat dg)) (mat (ratMat a)) n.toNat!
        nb.toNat! (corr == "1"))
  -- round 5e: `GeoGrid.region_indices(region)` of the grid with these latitudes / longitudes
  | ["region", lat, lon, region] =>
      match regionIndices (rats lat) (rats lon) (rats region) with
      | some m => showBools m
      | none => "raise:ValueError"
  | _ => "bad-request"

def main : IO Unit := runDriver answer
