import Pyunicorn.Model.Proto
import Pyunicorn.Model.Events
/-! Line-protocol driver for C16: one request per line on stdin, one answer per line. -/
open Pyunicorn Pyunicorn.Proto Pyunicorn.Events

def optRat (s : String) : Option Rat := if s == "inf" || s == "none" then none else rat? s
def ratD (s : String) : Rat := (rat? s).getD 0

/-- signed square of `c / sqrt n` -/
def sq (c : Rat) (n : Nat) : String :=
  showRat ((if c < 0 then -1 else 1) * c * c / (n : Rat))

def showES : ESRes → String
  | .nan => "nan,nan"
  | .zero => "0,0"
  | .val a b n => s!"{sq a n},{sq b n}"

def showRate : Rate → String
  | .nan => "nan"
  | .val r => showRat r

def showOptRat : Option Rat → String
  | none => "nan"
  | some r => showRat r

def showESEntry : ESEntry → String
  | none => "nan"
  | some (c, n) => sq c n

def showMat {α} (f : α → String) (M : List (List α)) : String :=
  if M.isEmpty then "-" else join (M.map fun r => if r.isEmpty then "-" else join (r.map f)) ";"

def window? : String → Option Window
  | "advanced" => some .advanced
  | "retarded" => some .retarded
  | "symmetric" => some .symmetric
  | _ => none

def symm? : String → Option Symm
  | "directed" => some .directed
  | "symmetric" => some .symmetric
  | "antisym" => some .antisym
  | "mean" => some .mean
  | "max" => some .max
  | "min" => some .min
  | _ => none

def answer (toks : List String) : String :=
  match toks with
  | ["es", ts1, bx, ts2, by_, tm, lag] =>
      showES (esSeries (rats ts1) (bools bx) (rats ts2) (bools by_) (optRat tm) (ratD lag))
  | ["esformula", ts1, bx, ts2, by_, tm, lag] =>
      showES (esSpec (select (rats ts1) (bools bx)) (select (rats ts2) (bools by_)) (optRat tm)
        (ratD lag))
  | ["ecaformula", ts1, bx, ts2, by_, tm, lag] =>
      match ecaFormula (select (rats ts1) (bools bx)) (select (rats ts2) (bools by_)) (ratD tm)
          (ratD lag) with
      | none => "raise"
      | some o => join [showRate o.prec12, showRate o.trig12, showRate o.prec21, showRate o.trig21]
  | ["ecarateformula", w, ts1, bx, ts2, by_, tm, lag] =>
      match window? w with
      | none => "bad-request"
      | some w =>
        match ecaRateFormula w (select (rats ts1) (bools bx)) (select (rats ts2) (bools by_))
            (ratD tm) (ratD lag) with
        | none => "raise"
        | some (a, b) => join [showRate a, showRate b]
  | ["eca", ts1, bx, ts2, by_, tm, lag] =>
      match ecaSeries (rats ts1) (bools bx) (rats ts2) (bools by_) (ratD tm) (ratD lag) with
      | none => "raise"
      | some o => join [showRate o.prec12, showRate o.trig12, showRate o.prec21, showRate o.trig21]
  | ["ecarate", w, ts1, bx, ts2, by_, tm, lag] =>
      match window? w with
      | none => "bad-request"
      | some w =>
        match ecaRateSeries w (rats ts1) (bools bx) (rats ts2) (bools by_) (ratD tm) (ratD lag) with
        | none => "raise"
        | some (a, b) => join [showRate a, showRate b]
  | ["esmat", ts, e, n, tm, lag, s] =>
      match symm? s with
      | none => "bad-request"
      | some s => showMat showESEntry
          (esAnalysis (rats ts) (boolMat e) n.toNat! (optRat tm) (ratD lag) s)
  | ["ecamat", w, ts, e, n, tm, lag, s] =>
      match window? w, symm? s with
      | some w, some s =>
        match ecaAnalysis w (rats ts) (boolMat e) n.toNat! (ratD tm) (ratD lag) s with
        | none => "raise"
        | some M => showMat showOptRat M
      | _, _ => "bad-request"
  | ["mkev", data, nvar, ms, vs, tys] =>
      let ms := (splitTok ms ",").map fun s => if s == "v" then TMethod.value else TMethod.quantile
      let vs := (splitTok vs ",").map optRat
      let tys := (splitTok tys ",").map fun s =>
        if s == "a" then some TType.above else if s == "b" then some TType.below else none
      match makeEventMatrix (ratMat data) nvar.toNat! ms vs tys with
      | .error .valueError => "raise:ValueError"
      | .error .ioError => "raise:OSError"
      | .ok M => showBoolMat M
  -- round 3: exact float32 values of the rates
  | ["ecaf32", ts1, bx, ts2, by_, tm, lag] =>
      match ecaSeries (rats ts1) (bools bx) (rats ts2) (bools by_) (ratD tm) (ratD lag) with
      | none => "raise"
      | some o =>
        let o := o.f32
        join [showRate o.prec12, showRate o.trig12, showRate o.prec21, showRate o.trig21]
  | ["ecaratef32", w, ts1, bx, ts2, by_, tm, lag] =>
      match window? w with
      | none => "bad-request"
      | some w =>
        match ecaRateSeries w (rats ts1) (bools bx) (rats ts2) (bools by_) (ratD tm) (ratD lag) with
        | none => "raise"
        | some (a, b) => join [showRate (rateF32 a), showRate (rateF32 b)]
  | ["ecamatf32", w, ts, e, n, tm, lag, s] =>
      match window? w, symm? s with
      | some w, some s =>
        match ecaAnalysisF32 w (rats ts) (boolMat e) n.toNat! (ratD tm) (ratD lag) s with
        | none => "raise"
        | some M => showMat showOptRat M
      | _, _ => "bad-request"
  -- round 3: a history of ES requests on one object; every returned array is read at the
  -- END of the history (helper table `stdHelper`; `gen_symm_table` ties it to the source)
  | ["eshist", ts, e, n, tm, lag, hist] =>
      let n := n.toNat!
      let reqs := (splitTok hist ",").filterMap symm?
      let compute := esMatrix (rats ts) (boolMat e) n (optRat tm) (ratD lag)
      let r := runHistory compute (esApply n) stdHelper ⟨[], none⟩ reqs
      join (r.2.map fun a => match r.1.heap[a]? with
        | some M => showMat showESEntry M
        | none => "unallocated") "|"
  -- round 4: the doubles `event_synchronization` / `event_series_analysis('ES')` return, bit for
  -- bit (correctly rounded `np.sqrt`, correctly rounded division, rounded symmetrisation)
  | ["esf64", ts1, bx, ts2, by_, tm, lag] =>
      let r := esF64 (esSeries (rats ts1) (bools bx) (rats ts2) (bools by_) (optRat tm) (ratD lag))
      join [showOptRat r.1, showOptRat r.2]
  -- round 5: the same with every operation on times (`ey + lag`, `ex - ey`, `np.diff`) rounded to
  -- double: what the code computes on arbitrary (non-lattice) time stamps, bit for bit
  | ["esfl", ts1, bx, ts2, by_, tm, lag] =>
      let r := esF64 (esFl (rats ts1) (bools bx) (rats ts2) (bools by_) (optRat tm) (ratD lag))
      join [showOptRat r.1, showOptRat r.2]
  | ["esmatf64", ts, e, n, tm, lag, s] =>
      match symm? s with
      | none => "bad-request"
      | some s => showMat showOptRat
          (esAnalysisF64 (rats ts) (boolMat e) n.toNat! (optRat tm) (ratD lag) s)
  -- round 4: thresholding through NumPy's own quantile algorithm (`npQuantile`, `npMedian`) and
  -- the float64 threshold array
  | ["mkevnp", data, nvar, ms, vs, tys] =>
      let ms := (splitTok ms ",").map fun s => if s == "v" then TMethod.value else TMethod.quantile
      let vs := (splitTok vs ",").map optRat
      let tys := (splitTok tys ",").map fun s =>
        if s == "a" then some TType.above else if s == "b" then some TType.below else none
      match makeEventMatrixD .float64 (ratMat data) nvar.toNat! ms vs tys with
      | .error .valueError => "raise:ValueError"
      | .error .ioError => "raise:OSError"
      | .ok M => showBoolMat M
  | _ => "bad-request"

def main : IO Unit := runDriver answer
