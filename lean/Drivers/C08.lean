import Pyunicorn.Model.Proto
import Pyunicorn.Model.LineDist
import Pyunicorn.Model.LineDistSeq
import Pyunicorn.Model.LineDistMethods
/-! Line-protocol driver: one request per line on stdin, one answer per line.
The histogram requests are answered by the kernels *regenerated from the source*
(`Generated/StructC08.lean`); `Properties/C08.lean` proves them equal to the hand model. -/
open Pyunicorn Pyunicorn.Proto Pyunicorn.Generated Pyunicorn.LineDist

def v? (s : String) : Recurrence.V := if s == "nan" then none else rat? s
def vMat (s : String) : List (List Recurrence.V) :=
  (splitTok s ";").map fun r => (splitTok r ",").map v?
def pairs (s : String) : List (Rat × Rat) :=
  (ratMat s).filterMap fun r => match r with | [a, b] => some (a, b) | _ => none
def zeros (n : Nat) : List Nat := List.replicate n 0
/-- a double: `nan`, `inf`, `-inf` or its exact rational value -/
def x? (s : String) : X :=
  if s == "nan" then .nan else if s == "inf" then .pinf else if s == "-inf" then .ninf
  else match rat? s with | some q => .fin q | none => .nan
def xMat (s : String) : List (List X) := (splitTok s ";").map fun r => (splitTok r ",").map x?
/-- the rounding of the request: `id` (exact) or binary64 round-to-nearest-even -/
def rndOf (s : String) : Rat → Rat := if s == "b64" then rnd64 else id
/-- the float structure of the kernel requests: exact, or binary64 with overflow to `inf` -/
def opsOf (s : String) : FOps X := if s == "b64" then xOpsO rnd64 else xOps id

def answer (toks : List String) : String :=
  match toks with
  | ["vertline", n, r] =>
      showNats (StructC08._vertline_dist n.toNat! (zeros n.toNat!) (accR (boolMat r)))
  | ["whitevertline", n, r] =>
      showNats (StructC08._white_vertline_dist n.toNat! (zeros n.toNat!) (accR (boolMat r)))
  | ["diagline", n, r] =>
      showNats (StructC08._diagline_dist n.toNat! (zeros n.toNat!) (accR (boolMat r)))
  | ["vertline_mv", n, r, m] =>
      showNats (StructC08._vertline_dist_missingvalues n.toNat! (zeros n.toNat!) (accR (boolMat r))
        (accM (bools m)))
  | ["diagline_mv", n, r, m] =>
      showNats (StructC08._diagline_dist_missingvalues n.toNat! (zeros n.toNat!) (accR (boolMat r))
        (accM (bools m)))
  | ["vertline_seq", n, dim, e, eps] =>
      showNats (StructC08._vertline_dist_sequential vOps n.toNat! (zeros n.toNat!) (accE (vMat e))
        (v? eps) dim.toNat!)
  | ["diagline_seq", n, dim, e, eps] =>
      showNats (StructC08._diagline_dist_sequential vOps n.toNat! (zeros n.toNat!) (accE (vMat e))
        (v? eps) dim.toNat!)
  | ["vertline_seq_mv", n, dim, e, eps, m] =>
      showNats (StructC08._vertline_dist_sequential_missingvalues vOps n.toNat! (zeros n.toNat!)
        (accE (vMat e)) (v? eps) dim.toNat! (accM (bools m)))
  | ["diagline_seq_mv", n, dim, e, eps, m] =>
      showNats (StructC08._diagline_dist_sequential_missingvalues vOps n.toNat! (zeros n.toNat!)
        (accE (vMat e)) (v? eps) dim.toNat! (accM (bools m)))
  -- round 4: the same generated kernels on doubles (inf, nan, rounded differences)
  | ["xvertline_seq", rnd, n, dim, e, eps] =>
      showNats (StructC08._vertline_dist_sequential (opsOf rnd) n.toNat! (zeros n.toNat!)
        (accX (xMat e)) (x? eps) dim.toNat!)
  | ["xdiagline_seq", rnd, n, dim, e, eps] =>
      showNats (StructC08._diagline_dist_sequential (opsOf rnd) n.toNat! (zeros n.toNat!)
        (accX (xMat e)) (x? eps) dim.toNat!)
  | ["xvertline_seq_mv", rnd, n, dim, e, eps, m] =>
      showNats (StructC08._vertline_dist_sequential_missingvalues (opsOf rnd) n.toNat!
        (zeros n.toNat!) (accX (xMat e)) (x? eps) dim.toNat! (accM (bools m)))
  | ["xdiagline_seq_mv", rnd, n, dim, e, eps, m] =>
      showNats (StructC08._diagline_dist_sequential_missingvalues (opsOf rnd) n.toNat!
        (zeros n.toNat!) (accX (xMat e)) (x? eps) dim.toNat! (accM (bools m)))
  -- the stored matrix of `set_fixed_threshold` in double arithmetic + the NaN mask
  | ["xmatrix", rnd, dim, mv, e, eps] =>
      let emb := xMat e
      s!"{showBoolMat (fixedThresholdX (rndOf rnd) emb (x? eps) dim.toNat! (mv == "1"))} {showBools (missingMaskX emb)}"
  -- round 5: the public methods as wholes, both storage modes:
  -- `diagline_dist() vertline_dist() RR-numerator` for sparse_rqa = False, then True, then
  -- `white_vertline_dist()` of the matrix mode and of the sequential mode (`raise`)
  | ["xmethods", rnd, dim, mv, e, eps] =>
      let o (sp : Bool) : RP := ⟨xMat e, x? eps, dim.toNat!, mv == "1", sp⟩
      let r := rndOf rnd
      let one (sp : Bool) : String :=
        s!"{showNats (diaglineMethod r (o sp))} {showNats (vertlineMethod r (o sp))} {recurrenceRateNum r (o sp)}"
      let w (sp : Bool) : String := match whiteVertlineMethod r (o sp) with
        | some h => showNats h | none => "raise"
      s!"{one false} {one true} {w false} {w true}"
  -- round 5: the distance kernel of the matrix mode, THE LOOPS AS WRITTEN (`supremum_rp_loops`)
  | ["xdistloops", rnd, n, dim, e] =>
      let D := StructC08.supremum_rp_loops (opsOf rnd) n.toNat! dim.toNat! (accX (xMat e))
      let sx (x : X) : String := match x with
        | .fin q => showRat q | .pinf => "inf" | .ninf => "-inf" | .nan => "nan"
      let rows := (List.range n.toNat!).map fun (a : Nat) =>
        join ((List.range n.toNat!).map fun (b : Nat) => sx (D (a : Int) (b : Int)))
      if rows.isEmpty then "-" else join rows ";"
  -- round 5: the rounding itself, `|a - b|` of the pairs (or of `q - 0`) rounded to binary64
  | ["rnd64", d] => showRats ((pairs d).map fun (a, b) => rnd64 (if a ≤ b then b - a else a - b))
  -- the hand model (round 1), kept executable
  | ["hand", "vertline", n, r] => showNats (LineDist.vertline (boolMat r) n.toNat!)
  | ["hand", "whitevertline", n, r] => showNats (LineDist.whiteVertline (boolMat r) n.toNat!)
  | ["hand", "diagline", n, r] => showNats (LineDist.diagline (boolMat r) n.toNat!)
  | ["hand", "vertline_mv", n, r, m] =>
      showNats (LineDist.vertlineMV (boolMat r) (bools m) n.toNat!)
  | ["hand", "diagline_mv", n, r, m] =>
      showNats (LineDist.diaglineMV (boolMat r) (bools m) n.toNat!)
  | ["diagdist", n, r] => showNats (LineDist.diaglineDist (boolMat r) n.toNat!)
  | ["scalars", lmin, h] =>
      let s := LineDist.scalars lmin.toNat! (nats h)
      s!"{s.ratioNum} {s.ratioDen} {s.avgDen} {s.maxLen} {showNats s.weights}"
  -- bootstrap: `resample M hist draws` -> resampled histogram, draw pairs consumed
  | ["resample", m, h, d] =>
      let hist := nats h
      let L := maxLen hist
      let dist := hist.take L
      let used := if L == 0 then 0 else
        rejConsumed (normDist dist) dist.length m.toNat! (pairs d) ⟨0, zeros dist.length⟩
      s!"{showNats (resample hist m.toNat! (pairs d))} {used}"
  | _ => "bad-request"

def main : IO Unit := runDriver answer
