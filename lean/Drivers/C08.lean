import Pyunicorn.Model.Proto
import Pyunicorn.Model.LineDist
/-! Line-protocol driver: one request per line on stdin, one answer per line. -/
open Pyunicorn Pyunicorn.Proto

def answer (toks : List String) : String :=
  match toks with
  | ["vertline", n, r] => showNats (LineDist.vertline (boolMat r) n.toNat!)
  | ["whitevertline", n, r] => showNats (LineDist.whiteVertline (boolMat r) n.toNat!)
  | ["diagline", n, r] => showNats (LineDist.diagline (boolMat r) n.toNat!)
  | ["vertline_mv", n, r, m] => showNats (LineDist.vertlineMV (boolMat r) (bools m) n.toNat!)
  | ["diagline_mv", n, r, m] => showNats (LineDist.diaglineMV (boolMat r) (bools m) n.toNat!)
  | ["scalars", lmin, h] =>
      let s := LineDist.scalars lmin.toNat! (nats h)
      s!"{s.ratioNum} {s.ratioDen} {s.avgDen} {s.maxLen} {showNats s.weights}"
  | _ => "bad-request"

def main : IO Unit := runDriver answer
