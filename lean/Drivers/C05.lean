import Pyunicorn.Model.Proto
import Pyunicorn.Model.Repr
import Pyunicorn.Model.ReprAttrs
import Pyunicorn.Model.ReprEdges
import Pyunicorn.Model.ReprSplit
/-! Line-protocol driver for C05 (see harness/c05.py for the request grammar). -/
open Pyunicorn Pyunicorn.Proto Pyunicorn.Repr

def pairsOf (m : List (List Nat)) : List (Nat × Nat) :=
  m.filterMap fun r => match r with
    | [i, j] => some (i, j)
    | _ => none

def entriesOf (m : List (List Int)) : List Entry :=
  m.filterMap fun r => match r with
    | [i, j, v] => some (i.toNat, j.toNat, v)
    | _ => none

def matFn (m : List (List Int)) (i j : Nat) : Int :=
  match m[i]? with
  | some row => match row[j]? with
    | some v => v
    | none => 0
  | none => 0

def ratFn (m : List (List Rat)) (i j : Nat) : Rat :=
  match m[i]? with
  | some row => match row[j]? with
    | some v => v
    | none => 0
  | none => 0

def optRats (s : String) : Option (List Rat) := if s == "none" then none else some (rats s)

def showErr : Err → String
  | .networkError => "raise:NetworkError"
  | .zeroDivision => "raise:ZeroDivisionError"
  | .valueError => "raise:ValueError"
  | .indexError => "raise:IndexError"

/-- canonical listing of the embedded graph's edges (sorted, undirected edges as (min, max)) -/
def showGraph (net : Net) : String :=
  let es := (pairs net.N net.N).filter fun p =>
    net.graph.contains p || (!net.directed && net.graph.contains (swap p) && decide (p.1 < p.2))
  let es := es.filter fun p => net.directed || decide (p.1 ≤ p.2)
  if es.isEmpty then "-" else join (es.map fun p => s!"{p.1},{p.2}") ";"

/-- `link_attribute(name)`, computed by the loop over the edge ids (`Repr.linkAttrLoop`) -/
def showAttr (x : NetA) (a : String) : String :=
  match linkAttrLoopA x a with
  | none => "none"
  | some f => showRatMat ((List.range x.core.N).map fun i => (List.range x.core.N).map fun j => f i j)

/-- the three attribute names the harness uses -/
def attrName : Nat → String
  | 1 => "link_weights"
  | 2 => "corr"
  | _ => "aux_1"

/-- the edge attribute `a` as the embedded graph object holds it: `i,j,value` per edge, listed
by edge (an undirected edge as (smaller, larger)), ties by edge id -/
def showEs (x : NetA) (a : String) : String :=
  match edgeValues x a with
  | none => "none"
  | some rows =>
    let d := x.core.directed
    let out := (pairs x.core.N x.core.N).flatMap fun p =>
      (rows.filter fun q => normEdge d q.1 == p).map fun q => s!"{p.1},{p.2},{showRat q.2}"
    if out.isEmpty then "-" else join out ";"

def showAvg (x : NetA) (a : String) : String :=
  match avgLinkAttrA x a with
  | none => "none"
  | some v => showRats v

def showNet (x : NetA) : String :=
  let net := x.core
  let gvw := match net.gvw with
    | none => "none"
    | some v => showRats v
  let names := if x.names.isEmpty then "-" else join x.names ","
  join [toString net.N, toString net.nLinks, showRat net.density, showIntMat net.spA,
        showGraph net, showRats net.w, showRat net.total, showRat net.mean,
        showAttr x (attrName 1), gvw, showAttr x (attrName 2), showAttr x (attrName 3), names,
        showEs x (attrName 1), showEs x (attrName 2), showEs x (attrName 3),
        showAvg x (attrName 1), showAvg x (attrName 2)] "|"

/-! arguments of the history statements are small formulas evaluated on both sides
(harness/c05.py: `formula_w`, `formula_v`, `formula_a`) -/

def loHi (directed : Bool) (i j : Nat) : Nat × Nat :=
  if directed then (i, j) else (min i j, max i j)

def formulaW (n : Nat) (a b : Nat) (k : Int) : List Rat :=
  (List.range n).map fun i => (((a * i + b) % 13 : Nat) : Rat) / 4 * pow2 k

def formulaV (directed : Bool) (a b c : Nat) (k : Int) (i j : Nat) : Rat :=
  let p := loHi directed i j
  ((((a * p.1 + b * p.2 + c) % 17 : Nat) : Int) - 5 : Int) / 4 * pow2 k

def formulaA (directed : Bool) (a b c : Nat) (i j : Nat) : Int :=
  let p := loHi directed i j
  if i != j && decide ((a * p.1 + b * p.2 + c) % 5 < 2) then 1 else 0

def opArgs (s : String) : List Int := (s.splitOn "_").filterMap String.toInt?

/-- the statements of `Repr.OpA`, by name -/
def parseOp (net : Net) (op : String) : Option OpA :=
  match op.splitOn "=" with
  | ["copy"] => some .copy
  | ["saveload"] => some .reload
  | ["save"] => some .save
  | ["regraph"] => some .regraph
  | ["ucopy"] => some .ucopy
  | ["pcopy"] => some .pcopy
  | ["edgelist"] => some .edgelist
  | ["delattr"] => some (.delAttr (attrName 1))
  | ["delattr2"] => some (.delAttr (attrName 2))
  | ["delattr3"] => some (.delAttr (attrName 3))
  | ["setwnone"] => some (.setW none)
  | ["setw", args] => match opArgs args with
    | [a, b, k] => some (.setW (some (formulaW net.N a.toNat b.toNat k)))
    | _ => none
  | [nm, args] =>
    let k := if nm == "setattr" then 1 else if nm == "setattr2" then 2
             else if nm == "setattr3" then 3 else 0
    if k != 0 then match opArgs args with
      | [a, b, c, e] => some (.setAttr (attrName k) (formulaV net.directed a.toNat b.toNat c.toNat e))
      | _ => none
    else if nm == "setadj" then match opArgs args with
      | [a, b, c] => some (.setAdj (ofDenseMat net.N net.N
          (formulaA net.directed a.toNat b.toNat c.toNat)))
      | _ => none
    else none
  | _ => none

def applyOp (cosLat : List Rat) (_wtype : Nat) (r : Except Err NetA) (op : String) :
    Except Err NetA := do
  let x ← r
  match parseOp x.core op with
  | some o => stepL id x o       -- `set_link_attribute` through the per-edge loop
  | none =>
  let gml := gmlStoreA stripUnderscores
  -- `net = net.splitted_copy(node, proportion)`: `split=<node>_<num>_<e>`, proportion `num / 2^e`
  if op.startsWith "split=" then
    match opArgs ((op.splitOn "=").getD 1 "") with
    | [node, num, e] => splittedCopyA x node ((num : Rat) / pow2 e)
    | _ => .error .valueError
  else
  match op with
  | "saveload_gml" => stepA gml x .reload
  | "loadspatial_gml" => loadViaAdjacencyA (gml (saveA x).2) none
  | "loadgeo_gml" => loadViaAdjacencyA (gml (saveA x).2) (some (geoWeights cosLat 1))
  | "loadspatial" => loadViaAdjacencyA (saveA x).2 none
  | "loadgeo" => loadViaAdjacencyA (saveA x).2 (some (geoWeights cosLat 1))
  | _ => .error .indexError

def answer (toks : List String) : String :=
  match toks with
  | ["net", cls, wtype, coslat, directed, ctor, a, b, data, w, attr, ops] =>
    let d := directed != "0"
    let cl := rats coslat
    let wt := wtype.toNat!
    let inp? : Option Input := match ctor with
      | "dense" => some (.sparse (ofDenseMat a.toNat! b.toNat! (matFn (intMat data))))
      | "coo" => some (.sparse ⟨a.toNat!, b.toNat!, entriesOf (intMat data)⟩)
      | "edges" => some (.edges (pairsOf (natMat data)) (if a == "none" then none else some a.toNat!))
      | _ => none
    let r0 : Except Err NetA :=
      if ctor == "igraph" then
        -- an igraph object / a file igraph wrote: edge ids in the order listed
        let h := igraphNew a.toNat! d (pairsOf (natMat data)) (optRats w)
          (match optRats attr with
          | none => []
          | some vs => [(attrName 1, vs), (attrName 2, vs.map fun v => -v / 2)])
        if cls == "geo" then loadViaAdjacencyA h (some (geoWeights cl 1))   -- GeoNetwork.Load
        else if cls == "spatial" then loadViaAdjacencyA h none              -- SpatialNetwork.Load
        else fromIGraphA h                                                  -- FromIGraph / Load
      else
        -- subclass constructors: a = N, b = threshold, data = similarity / series / resistances
        let q := (rats b).headD 0
        let sub? : Option (Except Err Net) := match ctor with
          | "climate" => some (climateInit d a.toNat! (ratFn (ratMat data)) q cl wt)
          | "coupled" => some (coupledInit d a.toNat! (ratFn (ratMat data)) q cl wt)
          | "recurrence" => some (recurrenceInit (rats data) q (optRats w))
          | "res" => some (resInit a.toNat! (ratFn (ratMat data)) cl wt)
          | _ => none
        match (match sub? with
               | some r => some r
               | none => inp?.map fun inp =>
                  -- SpatialNetwork / GeoNetwork take no weights: `net.node_weights = w` afterwards
                  if cls == "geo" then geoInit d inp cl wt
                  else if cls == "spatial" then init d inp none
                  else init d inp (optRats w)) with
        | none => .error .indexError
        | some r =>
          let r := if cls == "net" then r else match optRats w with
            | none => r
            | some ws => r.bind fun net => setWeights net (some ws)
          let r := r.map NetA.fresh
          if attr == "none" then r else r.map fun x =>
            let V := ratFn (ratMat attr)
            setLinkAttrA (setLinkAttrA x (attrName 1) V) (attrName 2) fun i j => -(V i j) / 2
    let r := (splitTok ops ",").foldl (applyOp cl wt) r0
    match r with
    | .ok net => showNet net
    | .error e => showErr e
  | _ => "bad-request"

def main : IO Unit := runDriver answer
