import Pyunicorn.Model.Proto
import Pyunicorn.Model.Recurrence
import Pyunicorn.Model.RecurrenceObjects
import Pyunicorn.Model.RecurrenceRqa
import Pyunicorn.Model.RecurrenceStruct
import Pyunicorn.Model.RecurrenceAdaptiveObj
/-! Line-protocol driver for C07: one request per line on stdin, one answer per line.

values: rationals `p/q`, `nan`; matrices rows separated by `;`; empty = `-`;
a matrix with `n` rows of zero columns is sent as `0xn` (n rows, no columns).
embedding: `dim,tau` or `-` (none). -/
open Pyunicorn Pyunicorn.Proto Pyunicorn.Recurrence

def v? (s : String) : Option V :=
  if s == "nan" then some none else (rat? s).map some
def vs (s : String) : List V := (splitTok s ",").filterMap v?
def vMat (s : String) : List (List V) :=
  if s.startsWith "0x" then List.replicate (s.drop 2).toNat! [] else (splitTok s ";").map vs
def showV (v : V) : String := match v with | none => "nan" | some r => showRat r
def showVMat (m : List (List V)) : String :=
  if m.isEmpty then "-" else join (m.map fun r => if r.isEmpty then "" else join (r.map showV)) ";"
def metric? (s : String) : Metric :=
  if s == "manhattan" then .manhattan else if s == "euclidean" then .euclidean else .supremum
def emb? (s : String) : Option (Nat × Nat) :=
  match nats s with | [d, t] => some (d, t) | _ => none
def rat! (s : String) : Rat := (rat? s).getD 0
/-- `t:<eps>` threshold, `r:<rr>` global rate, `l:<rr>` local rate -/
def spec! (s : String) : Spec :=
  match s.splitOn ":" with
  | ["t", x] => .thr (rat! x)
  | ["r", x] => .rate (rat! x)
  | ["l", x] => .localRate (rat! x)
  | _ => .thr 0
def showRes {α : Type} (f : α → String) : Res α → String
  | .ok a => f a
  | .valueError => "raise:ValueError"
  | .indexError => "raise:IndexError"
def showPlot (p : Plot) : String := s!"N={p.N} M={p.M} R={showBoolMat p.R}"
def showNet (p : Net) : String := s!"N={p.N} A={showBoolMat p.A}"

/-- extended plot request: `t:`/`r:`/`l:` as `spec!`, `s:<x>` threshold_std, `a:<k>` adaptive
neighbourhood size (with processing order `ord`, `-` = default) -/
def plotX (m : Metric) (mv : Bool) (series : List (List V)) (e : Option (Nat × Nat))
    (sp ord : String) : Res Plot :=
  (stateVectors series e).bind fun emb =>
    match sp.splitOn ":" with
    | ["s", x] => .ok (recurrencePlotStd m series emb mv (rat! x))
    | ["a", k] => adaptivePlot m emb k.toNat! (if ord == "-" then none else some (nats ord))
    | _ => recurrencePlot m emb mv (spec! sp)

/-- stride used by the constructor (`init`) or by the setter of that kind -/
def rnStrideOf (setter : Bool) (sp : String) (N : Int) : Int :=
  if !setter then Generated.ArithC07.rnStride N else
  match (sp.splitOn ":").headD "" with
  | "t" => Generated.ArithC07.rnStrideThreshold N
  | "s" => Generated.ArithC07.rnStrideThresholdStd N
  | "r" => Generated.ArithC07.rnStrideRate N
  | "l" => Generated.ArithC07.rnStrideLocal N
  | _ => Generated.ArithC07.rnStrideAdaptive N

def jrnStrideOf (setter : Bool) (sp : String) (N : Int) : Int :=
  if !setter then Generated.ArithC07.jrnStrideInit N else
  match (sp.splitOn ":").headD "" with
  | "t" => Generated.ArithC07.jrnStrideThreshold N
  | "s" => Generated.ArithC07.jrnStrideThresholdStd N
  | _ => Generated.ArithC07.jrnStrideRate N

def jointX (mx my : Metric) (lag : Int) (X Y : List (List V)) (ex ey : Option (Nat × Nat))
    (sx sy : String) (nRaw nRawY : Nat) : Res Plot :=
  -- the equal-length test comes first in `__init__` (before anything is embedded)
  if !jointGuard nRaw nRawY 0 then .valueError else
  (stateVectors X ex).bind fun eX => (stateVectors Y ey).bind fun eY =>
    match sx.splitOn ":", sy.splitOn ":" with
    | ["s", a], ["s", b] => jointPlotStd mx my X Y eX eY nRaw nRawY lag (rat! a) (rat! b)
    | _, _ => jointPlot mx my eX eY nRaw nRawY lag (spec! sx) (spec! sy)

def cls? (s : String) : Cls :=
  match s with
  | "rp" => .rp | "crp" => .crp | "jrp" => .jrp | "rn" => .rn | "jrn" => .jrn | _ => .isrn
def need? (s : String) : Need :=
  match s with
  | "matrix" => .matrix | "rate" => .rate | "diagOf" => .diagOf | "blackLines" => .blackLines
  | "whiteLines" => .whiteLines | "twins" => .twins | "ordinal" => .ordinal | _ => .distance
def showOutcome : Outcome → String
  | .ok => "ok" | .notImplemented => "raise:NotImplementedError" | .valueError => "raise:ValueError"
def showOptRat : Option Rat → String
  | none => "undefined" | some q => showRat q

def showRun : Run → String
  | .ret _ => "ok" | .notImplemented => "raise:NotImplementedError"
  | .valueError => "raise:ValueError" | .crash => "undocumented"

def outside : String := "outside-model"

def answer (toks : List String) : String :=
  match toks with
  | ["embed", e, ts] =>
    showRes showVMat (stateVectors (vMat ts) (emb? e))
  | ["dist_rp", m, emb] => showVMat (distRP (metric? m) (vMat emb))
  | ["dist_crp", m, ex, ey] => showVMat (distCRP (metric? m) (vMat ex) (vMat ey))
  | ["rp", m, mv, e, sp, ts] =>
    showRes showPlot ((stateVectors (vMat ts) (emb? e)).bind fun emb =>
      recurrencePlot (metric? m) emb (mv == "1") (spec! sp))
  | ["crp", m, e, sp, x, y] =>
    showRes showPlot ((stateVectors (vMat x) (emb? e)).bind fun ex =>
      (stateVectors (vMat y) (emb? e)).bind fun ey => crossPlot (metric? m) ex ey (spec! sp))
  | ["jrp", mx, my, lag, ex, ey, sx, sy, x, y] =>
    showRes showPlot (jointX (metric? mx) (metric? my) lag.toInt! (vMat x) (vMat y) (emb? ex)
      (emb? ey) sx sy (vMat x).length (vMat y).length)
  | ["stride", which, n, r] =>
    let N := n.toInt!
    let st := match which with
      | "rn_init" => Generated.ArithC07.rnStride N
      | "rn_threshold" => Generated.ArithC07.rnStrideThreshold N
      | "rn_threshold_std" => Generated.ArithC07.rnStrideThresholdStd N
      | "rn_rate" => Generated.ArithC07.rnStrideRate N
      | "rn_local" => Generated.ArithC07.rnStrideLocal N
      | "rn_adaptive" => Generated.ArithC07.rnStrideAdaptive N
      | "jrn_init" => Generated.ArithC07.jrnStrideInit N
      | "jrn_threshold" => Generated.ArithC07.jrnStrideThreshold N
      | "jrn_threshold_std" => Generated.ArithC07.jrnStrideThresholdStd N
      | "jrn_rate" => Generated.ArithC07.jrnStrideRate N
      | _ => 0
    showBoolMat (adjacencyOf (boolMat r) st)
  | ["rn", m, mv, e, sp, ts] =>
    showRes showNet ((stateVectors (vMat ts) (emb? e)).bind fun emb =>
      recurrenceNetwork (metric? m) emb (mv == "1") (spec! sp))
  | ["isrn", m, e, taus, s1, s2, s3, x, y] =>
    let X := vMat x
    let Y := vMat y
    let (ex, ey) := match emb? e, nats taus with
      | some (d, _), [t1, t2] =>
        if (X.headD []).length == 1 then (some (d, t1), some (d, t2)) else (none, none)
      | _, _ => (none, none)
    showRes showNet ((stateVectors X ex).bind fun eX => (stateVectors Y ey).bind fun eY =>
      interSystem (metric? m) eX eY (spec! s1) (spec! s2) (spec! s3)
        (match spec! s1 with | .rate _ => true | _ => false))
  | ["rpx", m, mv, norm, e, sp, ord, ts] =>
    match storedSeries (vMat ts) (norm == "1") with
    | none => outside
    | some S => showRes showPlot (plotX (metric? m) (mv == "1") S (emb? e) sp ord)
  | ["rnx", setter, m, norm, e, sp, ord, ts] =>
    -- RecurrenceNetwork without missing-value treatment: constructor (`setter = 0`) or the
    -- setter of that kind on an existing object
    match storedSeries (vMat ts) (norm == "1") with
    | none => outside
    | some S => showRes showNet ((plotX (metric? m) false S (emb? e) sp ord).bind fun p =>
        .ok (networkOf p (rnStrideOf (setter == "1") sp p.N)))
  | ["rpx", m, mv, norm, e, sp, ord, sn, ts] =>
    -- round 5c: adaptive plot at the object level (normalize, embedding, `missing_values`)
    -- with the neighbour table NumPy produced (`Model/RecurrenceAdaptiveObj.lean`)
    match sp.splitOn ":" with
    | ["a", k] =>
      if !adaptiveTableOK (metric? m) (vMat ts) (norm == "1") (mv == "1") (emb? e) (natMat sn) then
        "not-an-argsort"
      else match adaptiveObjPlot (metric? m) (vMat ts) (norm == "1") (mv == "1") (emb? e) k.toNat!
          (if ord == "-" then none else some (nats ord)) (natMat sn) with
        | none => outside
        | some r => showRes showPlot r
    | _ => "bad-request"
  | ["rnx", setter, m, mv, norm, e, sp, ord, sn, ts] =>
    -- round 5c: the same for `RecurrenceNetwork` (constructor `0` / setter `1`)
    match sp.splitOn ":" with
    | ["a", k] =>
      if !adaptiveTableOK (metric? m) (vMat ts) (norm == "1") (mv == "1") (emb? e) (natMat sn) then
        "not-an-argsort"
      else match adaptiveObjNet (setter == "1") (metric? m) (vMat ts) (norm == "1") (mv == "1")
          (emb? e) k.toNat! (if ord == "-" then none else some (nats ord)) (natMat sn) with
        | none => outside
        | some r => showRes showNet r
    | _ => "bad-request"
  | ["crpx", m, norm, e, sp, x, y] =>
    match storedSeries (vMat x) (norm == "1"), storedSeries (vMat y) (norm == "1") with
    | some X, some Y =>
      showRes showPlot ((stateVectors X (emb? e)).bind fun ex =>
        (stateVectors Y (emb? e)).bind fun ey => crossPlot (metric? m) ex ey (spec! sp))
    | _, _ => outside
  | ["jrpx", net, mx, my, lag, norm, ex, ey, sx, sy, x, y] =>
    -- `net`: `p` plot, `n` JointRecurrenceNetwork constructor, `s` its setter
    match storedSeries (vMat x) (norm == "1"), storedSeries (vMat y) (norm == "1") with
    | some X, some Y =>
      let r := jointX (metric? mx) (metric? my) lag.toInt! X Y (emb? ex) (emb? ey) sx sy
        (vMat x).length (vMat y).length
      if net == "p" then showRes showPlot r
      else showRes showNet (r.bind fun p => .ok (networkOf p (jrnStrideOf (net == "s") sx p.N)))
    | _, _ => outside
  | ["isrnx", m, norm, e, taus, s1, s2, s3, x, y] =>
    match storedSeries (vMat x) (norm == "1"), storedSeries (vMat y) (norm == "1") with
    | some X, some Y =>
      let (ex, ey) := match emb? e, nats taus with
        | some (d, _), [t1, t2] =>
          if (X.headD []).length == 1 then (some (d, t1), some (d, t2)) else (none, none)
        | _, _ => (none, none)
      showRes showNet ((stateVectors X ex).bind fun eX => (stateVectors Y ey).bind fun eY =>
        interSystem (metric? m) eX eY (spec! s1) (spec! s2) (spec! s3)
          (match spec! s1 with | .rate _ => true | _ => false))
    | _, _ => outside
  | ["rqa", cls, sparse, supThr, embedded, need] =>
    -- which quantification methods are defined (`Model/RecurrenceRqa.lean`)
    showOutcome (outcome ⟨cls? cls, sparse == "1", supThr == "1", embedded == "1"⟩ (need? need))
  | ["rqam", cls, m, s, su, th, mv, d, t] =>
    -- round 4: the outcome of `obj.m()` derived from the regenerated method bodies
    -- (`Model/RecurrenceStruct.lean`, `Generated/StructC07.lean`)
    showRun (runPublic cls ⟨s == "1", su == "1", th == "1", mv == "1", d == "1", t == "1"⟩ m)
  | ["dline", n, mask, r] =>
    -- round 4: `diagline_dist` as the method computes it (also on asymmetric matrices)
    showNats (diaglineDist (boolMat r) n.toNat! (if mask == "none" then none else some (bools mask)))
  | ["rr", n, r] => showOptRat (recurrenceRate (boolMat r) n.toInt!)
  | ["crr", n, m, r] => showOptRat (crossRecurrenceRate (boolMat r) n.toInt! m.toInt!)
  | ["rprob", n, lag, r] => showOptRat (recurrenceProbability (boolMat r) n.toInt! lag.toNat!)
  | ["sparse", mv, e, eps, ts] =>
    -- sequential RQA: the line histograms of the matrix the sequential kernels see
    showRes (fun emb => s!"N={emb.length} V={showNats (sparseVertline emb (rat! eps) (mv == "1"))} " ++
        s!"D={showNats (sparseDiagline emb (rat! eps) (mv == "1"))}")
      (stateVectors (vMat ts) (emb? e))
  | ["normalize", ts] =>
    match normalizeSeries (vMat ts) with
    | none => outside
    | some S => showVMat S
  | ["argsort", row] => showNats (argsortV (vs row))
  | ["quantile", rr, flat] =>
    -- `RecurrencePlot.threshold_from_recurrence_rate(distance, rr)`
    let l := vs flat
    match quantileAt l (rateK (rat! rr) l.length) with
    | none => "raise:IndexError"
    | some t => showV t
  | ["adaptsn", net, m, mv, e, k, ord, sn, ts] =>
    -- round 5: adaptive plot / network with the neighbour table NumPy produced (ties in any
    -- order); the table must be an argsort of the model's (with `missing_values`: masked)
    -- distance rows.  `net`: `p` plot, `0` RecurrenceNetwork constructor, `1` its setter
    match stateVectors (vMat ts) (emb? e) with
    | .ok emb =>
      let table := natMat sn
      let missing := mv == "1"
      if !argsortOK (adaptiveDist (metric? m) emb missing) table then "not-an-argsort" else
      let r := adaptivePlotMV (metric? m) emb k.toNat! (if ord == "-" then none else some (nats ord))
        table missing
      if net == "p" then showRes showPlot r
      else showRes showNet (r.bind fun p =>
        let A := adjacencyOf p.R (rnStrideOf (net == "1") "a:" p.N)
        let A := if missing && net == "0" then deleteMasked A (missingMask emb) else A
        .ok ⟨A, p.R, A.length⟩)
    | .valueError => "raise:ValueError"
    | .indexError => "raise:IndexError"
  | ["adaptive", n, k, sn, order] =>
    match adaptive n.toNat! k.toNat! (natMat sn) (nats order) with
    | none => "raise:IndexError"
    | some R => showBoolMat (bmTab n.toNat! R)
  | _ => "bad-request"

def main : IO Unit := runDriver answer
