import Pyunicorn.Model.Proto
import Pyunicorn.Model.Visibility
/-! Line-protocol driver of C14: one request per line on stdin, one answer per line.

* `nvg_mv N x t mv`, `nvg N x t`, `hvg N x` — the three kernels: adjacency matrix or `raise:…`
* `class x t|- missing horizontal` — `VisibilityGraph(x, timings, missing_values, horizontal)`:
  `A|retarded_degree|advanced_degree|degree|retarded_clustering|advanced_clustering`
* `retclust N A norm`, `advclust N A norm` — the clustering kernels on any 0/1 matrix
-/
open Pyunicorn Pyunicorn.Proto Pyunicorn.Visibility

def val? (s : String) : Option Val :=
  if s == "nan" then some none else (rat? s).map some

def vals (s : String) : List Val := (splitTok s ",").filterMap val?

def showErr : Err → String
  | .zeroDiv => "raise:ZeroDivisionError"
  | .index => "raise:IndexError"
  | .fuel => "model:fuel"

def showLog (N : Nat) : Except Err (List (Nat × Nat)) → String
  | .ok log => showBoolMat (adjMat N log)
  | .error e => showErr e

def showClass (N : Nat) : Except Err (List (Nat × Nat)) → String
  | .error e => showErr e
  | .ok log =>
    let A := adjMat N log
    let r := List.range N
    join [showBoolMat A, showNats (r.map (retDeg A)), showNats (r.map (advDeg A)),
          showNats (r.map (deg A)), showRats (retClust A), showRats (advClust A)] "|"

def answer (toks : List String) : String :=
  match toks with
  | ["nvg_mv", n, x, t, m] => showLog n.toNat! (kernelN (vals x) (rats t) (some (bools m)) n.toNat!)
  | ["nvg", n, x, t] => showLog n.toNat! (kernelN (vals x) (rats t) none n.toNat!)
  | ["hvg", n, x] => showLog n.toNat! (kernelH (vals x) n.toNat!)
  | ["class", x, t, mis, hor] =>
      let xs := vals x
      showClass xs.length (classLog xs (if t == "-" then none else some (rats t))
        (mis == "1") (hor == "1"))
  | ["retclust", n, a, norm] => showRats (retClustKernel n.toNat! (boolMat a) (rats norm))
  | ["advclust", n, a, norm] => showRats (advClustKernel n.toNat! (boolMat a) (rats norm))
  | _ => "bad-request"

def main : IO Unit := runDriver answer
