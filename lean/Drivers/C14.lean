import Pyunicorn.Model.Proto
import Pyunicorn.Model.Visibility
import Pyunicorn.Model.VisibilityExt
import Pyunicorn.Model.VisibilityBetw
import Pyunicorn.Model.NetBetwDef
import Pyunicorn.Model.VisibilityScale
/-! Line-protocol driver of C14: one request per line on stdin, one answer per line.

* `nvg_mv N x t mv`, `nvg N x t`, `hvg N x` — the three kernels: adjacency matrix or `raise:…`
* `class x t|- missing horizontal` — `VisibilityGraph(x, timings, missing_values, horizontal)`:
  `A|retarded_degree|advanced_degree|degree|retarded_clustering|advanced_clustering`
  (the matrix is the state left by the stores of the kernels, `classMat`)
* `classp …` — the same plus `|retarded_closeness|advanced_closeness|boundary_corrected_degree|
  boundary_corrected_closeness` (NaN = `nan`)
* `mat x t|- missing horizontal` — only the adjacency matrix (`visibility_relations()` /
  `visibility_relations_horizontal()` called again on an object)
* `retclust N A norm`, `advclust N A norm` — the clustering kernels on any 0/1 matrix
* `nvgR N x t`, `nvgR_mv N x t mv` — the natural kernels in float32 arithmetic (`kernelNR rndF32`)
* `faithful N x t` — `1` iff `Faithful rndF32 x t N` (then `nvg_float32_eq_exact` applies)
* `exactdiffs N x t` — `1` iff `ExactDiffs rndF32 x t N` (hypothesis of `nvg_float_subgraph`)
* `betw x t|- missing horizontal` — round 3:
  `retarded_betweenness|advanced_betweenness|trans_betweenness` computed by C03's model of the
  kernel `_nsi_betweenness` (with the masks / index arrays the three methods build), then the same
  three from the pair-dependency definition `betwSpec`, then (round 5b) the same three as C03's
  `NetBetw.interregionalCount` over enumerated shortest paths — the right-hand side of the theorems
  `betweenness_kernel_eq_count` / `visibility_betweenness_kernel_eq_count` (round 5c: the three
  groups are equal by theorem on symmetric matrices, `betweenness_kernel_eq_spec`,
  `betwSpec_eq_interregionalCount`)
* `hvgf32 N x` — the horizontal kernel on the series converted to float32 (`rndF32` on every sample)
* `rnd32 q1,q2,…` — round 4: `rndF32` of every rational (compared with the hardware's binary32
  conversion, subtraction and division)
* `pl x t|- missing horizontal` — round 4: `path_lengths()` of the constructed graph computed by the
  breadth-first search `Net.dist` (C03's model; `pathLen_is_bfs`), rows separated by `;`, `inf`
  for unreachable, followed by `|` and the same matrix from the specification `pathLen`
* `noufl N x t a c` — round 5: `1` iff `NoUflOn x t N a c` (hypothesis of `nvg_f32_pow2_invariant`:
  then the float32 natural kernels return on `x·2^a`, `t·2^c` what they return on `x`, `t`)
* `nvgRs N x t a c`, `nvgRs_mv N x t a c mv` — round 5: `kernelNR rndF32` on the series rescaled
  *inside the model* (`scaleVals a x`, `scaleTimes c t`)
* `matR x t|- missing horizontal` — round 5: the adjacency matrix of the constructor **in FIELD
  arithmetic** (`classLogR rndF32`: conversion of series and timings to binary32, `np.arange(N,
  dtype=FIELD)`, then the float kernels)
* `faithfulc x t|-` — round 5: `1` iff `FaithfulConv rndF32 x timings` (the stored data are
  order-faithful: then `class_f32_is_exact_on_stored_data` applies)
* `nouflc x t|- a c` — round 5: `1` iff `noUflConvB x timings a c` (hypotheses of
  `class_f32_pow2_invariant_decided`)
-/
open Pyunicorn Pyunicorn.Proto Pyunicorn.Visibility

def val? (s : String) : Option Val :=
  if s == "nan" then some none else (rat? s).map some

def vals (s : String) : List Val := (splitTok s ",").filterMap val?

def showErr : Err → String
  | .zeroDiv => "raise:ZeroDivisionError"
  | .index => "raise:IndexError"
  | .fuel => "model:fuel"

def showLog (N : Nat) : Except Err (List (Nat × Nat)) → String
  | .ok log => showBoolMat (adjMat N log)
  | .error e => showErr e

def showMat : Except Err (List (List Bool)) → String
  | .ok A => showBoolMat A
  | .error e => showErr e

def showORats (xs : List (Option Rat)) : String :=
  if xs.isEmpty then "-" else join (xs.map fun v => match v with | none => "nan" | some r => showRat r)

def showClass (paths : Bool) : Except Err (List (List Bool)) → String
  | .error e => showErr e
  | .ok A =>
    let N := A.length
    let r := List.range N
    let base := [showBoolMat A, showNats (r.map (retDeg A)), showNats (r.map (advDeg A)),
          showNats (r.map (deg A)), showRats (retClust A), showRats (advClust A)]
    let ext := if paths then
        [showORats (r.map (retClose N A)), showORats (r.map (advClose N A)),
         showRats (bcDegree A), showORats (bcCloseness A)]
      else []
    join (base ++ ext) "|"

def showDist (ds : List (List (Option Nat))) : String :=
  if ds.isEmpty then "-" else
    join (ds.map fun row => join (row.map fun d => match d with | none => "inf" | some k => toString k)) ";"

def answer (toks : List String) : String :=
  match toks with
  | ["rnd32", q] => showRats ((rats q).map rndF32)
  | ["pl", x, t, mis, hor] =>
      match classMat (vals x) (if t == "-" then none else some (rats t)) (mis == "1") (hor == "1") with
      | .error e => showErr e
      | .ok A =>
        let N := A.length
        let r := List.range N
        showDist (r.map fun i => r.map fun j => Net.dist N (adjFn A) i j) ++ "|" ++
          showDist (r.map fun i => r.map fun j => pathLen N A i j)
  | ["nvg_mv", n, x, t, m] =>
      showMat (kernelNM (vals x) (rats t) (some (bools m)) n.toNat! (zeros n.toNat!))
  | ["nvg", n, x, t] => showMat (kernelNM (vals x) (rats t) none n.toNat! (zeros n.toNat!))
  | ["hvg", n, x] => showMat (kernelHM (vals x) n.toNat! (zeros n.toNat!))
  | ["nvgR_mv", n, x, t, m] =>
      showLog n.toNat! (kernelNR rndF32 (vals x) (rats t) (some (bools m)) n.toNat!)
  | ["nvgR", n, x, t] => showLog n.toNat! (kernelNR rndF32 (vals x) (rats t) none n.toNat!)
  | ["noufl", n, x, t, a, c] =>
      if decide (NoUflOn (vals x) (rats t) n.toNat! a.toInt! c.toInt!) then "1" else "0"
  | ["nvgRs", n, x, t, a, c] =>
      showLog n.toNat! (kernelNR rndF32 (scaleVals a.toInt! (vals x)) (scaleTimes c.toInt! (rats t))
        none n.toNat!)
  | ["nvgRs_mv", n, x, t, a, c, m] =>
      showLog n.toNat! (kernelNR rndF32 (scaleVals a.toInt! (vals x)) (scaleTimes c.toInt! (rats t))
        (some (bools m)) n.toNat!)
  | ["faithful", n, x, t] =>
      if decide (Faithful rndF32 (vals x) (rats t) n.toNat!) then "1" else "0"
  | ["exactdiffs", n, x, t] =>
      if decide (ExactDiffs rndF32 (vals x) (rats t) n.toNat!) then "1" else "0"
  | ["hvgf32", n, x] =>
      showMat (kernelHM ((vals x).map fun v => v.map rndF32) n.toNat! (zeros n.toNat!))
  | ["betw", x, t, mis, hor] =>
      match classMat (vals x) (if t == "-" then none else some (rats t)) (mis == "1") (hor == "1") with
      | .error e => showErr e
      | .ok A =>
        let N := A.length
        let r := List.range N
        join [showRats (r.map (retBetw N A)), showRats (r.map (advBetw N A)),
              showRats (r.map (transBetw N A)), showRats (r.map (retBetwSpec N A)),
              showRats (r.map (advBetwSpec N A)), showRats (r.map (transBetwSpec N A)),
              showRats (r.map fun i => NetBetw.interregionalCount N (adjFn A) (Net.dist N (adjFn A))
                (pastIdx i) (pastIdx i) i),
              showRats (r.map fun i => NetBetw.interregionalCount N (adjFn A) (Net.dist N (adjFn A))
                (futureIdx N i) (futureIdx N i) i),
              showRats (r.map fun i => NetBetw.interregionalCount N (adjFn A) (Net.dist N (adjFn A))
                (pastIdx i) (futureIdx N i) i)] "|"
  | ["matR", x, t, mis, hor] =>
      showLog (vals x).length (classLogR rndF32 (vals x) (if t == "-" then none else some (rats t))
        (mis == "1") (hor == "1"))
  | ["nouflc", x, t, a, c] =>
      if noUflConvB (vals x) (if t == "-" then none else some (rats t)) a.toInt! c.toInt!
        then "1" else "0"
  | ["faithfulc", x, t] =>
      if decide (FaithfulConv rndF32 (vals x) (if t == "-" then none else some (rats t)))
        then "1" else "0"
  | ["mat", x, t, mis, hor] =>
      showMat (classMat (vals x) (if t == "-" then none else some (rats t)) (mis == "1") (hor == "1"))
  | [c, x, t, mis, hor] =>
      if c == "class" || c == "classp" then
        let xs := vals x
        showClass (c == "classp") (classMat xs (if t == "-" then none else some (rats t))
          (mis == "1") (hor == "1"))
      else "bad-request"
  | ["retclust", n, a, norm] => showRats (retClustKernel n.toNat! (boolMat a) (rats norm))
  | ["advclust", n, a, norm] => showRats (advClustKernel n.toNat! (boolMat a) (rats norm))
  | _ => "bad-request"

def main : IO Unit := runDriver answer
