import Pyunicorn.Model.Proto
import Pyunicorn.Model.Equivariance
/-! Line-protocol driver for C04. -/
open Pyunicorn Pyunicorn.Proto Pyunicorn.Nsi

def matAt {α} (m : List (List α)) (d : α) (i j : Nat) : α := (m.getD i []).getD j d

def mkGr (n adj w la0 g0 g1 dist sig : String) : Gr :=
  let A := boolMat adj
  let W := rats w
  let L0 := ratMat la0
  let L1 := ratMat sig
  let G0 := bools g0
  let G1 := bools g1
  let D := intMat dist
  { n := n.toNat!
    adj := fun i j => matAt A false i j
    w := fun k => W.getD k 0
    la := fun a i j => if a = 0 then matAt L0 0 i j else matAt L1 0 i j
    grp := fun g i => if g = 0 then G0.getD i false else G1.getD i false
    dist := fun i j => let d := matAt D (-1) i j; if d < 0 then none else some d.toNat }

def evalAll (G : Gr) : String :=
  let idx := List.range G.n
  join (Equiv.M.all.map fun (name, ar, e) =>
    let vals : List Rat := match ar with
      | 0 => [Equiv.eval G [] e]
      | 1 => idx.map fun i => Equiv.eval G [i] e
      | _ => idx.flatMap fun i => idx.map fun j => Equiv.eval G [i, j] e
    name ++ "=" ++ showRats vals) "|"

def showGr (G : Gr) : String :=
  let idx := List.range G.n
  s!"{G.n} " ++ showBoolMat (idx.map fun i => idx.map fun j => G.adj i j) ++ " " ++
    showRats (idx.map G.w) ++ " " ++ showRatMat (idx.map fun i => idx.map fun j => G.la 0 i j)

def answer (toks : List String) : String :=
  match toks with
  | ["eval", n, adj, w, la0, g0, g1, dist, sig] => evalAll (mkGr n adj w la0 g0 g1 dist sig)
  | ["relabel", perm, n, adj, w, la0, g0, g1, dist, sig] =>
      let p := nats perm
      showGr (Equiv.relabel (mkGr n adj w la0 g0 g1 dist sig) (fun a => p.getD a a))
  | ["evalrelabel", perm, n, adj, w, la0, g0, g1, dist, sig] =>
      let p := nats perm
      evalAll (Equiv.relabel (mkGr n adj w la0 g0 g1 dist sig) (fun a => p.getD a a))
  | _ => "bad-request"

def main : IO Unit := runDriver answer
