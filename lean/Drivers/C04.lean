import Pyunicorn.Model.Proto
import Pyunicorn.Model.Equivariance
import Pyunicorn.Model.Relabel
import Pyunicorn.Model.Repr
import Pyunicorn.Model.NetRW
import Pyunicorn.Model.NetBetwDef
import Pyunicorn.Model.CrossBetw
/-! Line-protocol driver for C04. -/
open Pyunicorn Pyunicorn.Proto Pyunicorn.Nsi

def matAt {α} (m : List (List α)) (d : α) (i j : Nat) : α := (m.getD i []).getD j d

def mkGr (n adj w la0 g0 g1 dist sig : String) : Gr :=
  let A := boolMat adj
  let W := rats w
  let L0 := ratMat la0
  let L1 := ratMat sig
  let G0 := bools g0
  let G1 := bools g1
  let D := intMat dist
  { n := n.toNat!
    adj := fun i j => matAt A false i j
    w := fun k => W.getD k 0
    la := fun a i j => if a = 0 then matAt L0 0 i j else matAt L1 0 i j
    grp := fun g i => if g = 0 then G0.getD i false else G1.getD i false
    dist := fun i j => let d := matAt D (-1) i j; if d < 0 then none else some d.toNat }

def evalAll (G : Gr) : String :=
  let idx := List.range G.n
  join (Equiv.M.all.map fun (name, ar, e) =>
    let vals : List Rat := match ar with
      | 0 => [Equiv.eval G [] e]
      | 1 => idx.map fun i => Equiv.eval G [i] e
      | _ => idx.flatMap fun i => idx.map fun j => Equiv.eval G [i, j] e
    name ++ "=" ++ showRats vals) "|"

def showGr (G : Gr) : String :=
  let idx := List.range G.n
  s!"{G.n} " ++ showBoolMat (idx.map fun i => idx.map fun j => G.adj i j) ++ " " ++
    showRats (idx.map G.w) ++ " " ++ showRatMat (idx.map fun i => idx.map fun j => G.la 0 i j)

/-! ### round 3: the models of C03 / C11 / C18 / C12 / C07 evaluated on the renumbered input -/
section relabelled
open Pyunicorn.Relabel

def adjFn (m : List (List Bool)) : Nat → Nat → Bool := fun i j => (m.getD i []).getD j false
def ratFn (v : List Rat) : Nat → Rat := fun i => v.getD i 0
def ratMatFn (m : List (List Rat)) : Nat → Nat → Rat := fun i j => (m.getD i []).getD j 0
def permFn (p : List Nat) : Nat → Nat := fun a => p.getD a a
def showOptRat : Option Rat → String
  | none => "nan"
  | some r => showRat r
def showOptNat : Option Nat → String
  | none => "inf"
  | some d => toString d
def optRats (s : String) : List (Option Rat) :=
  (splitTok s ",").map fun t => if t == "x" then none else rat? t
def optRatMat (s : String) : List (List (Option Rat)) := (splitTok s ";").map optRats
def optMatFn (m : List (List (Option Rat))) : Nat → Nat → Option Rat :=
  fun i j => (m.getD i []).getD j none
def mrows (n : Nat) (f : Nat → Nat → String) : String :=
  if n = 0 then "-" else join ((List.range n).map fun i => join ((List.range n).map (f i))) ";"
def mvec (n : Nat) (f : Nat → String) : String :=
  if n = 0 then "-" else join ((List.range n).map f)
def showOptRats (l : List (Option Rat)) : String :=
  if l.isEmpty then "-" else join (l.map showOptRat)

/-- `Pyunicorn.Net` (C03) on `permuted_copy(perm)` -/
def netRelabelled (perm dirS adjS wS : String) : String :=
  let idx := permFn (nats perm)
  let M := boolMat adjS; let n := M.length; let dir := dirS == "1"
  let a := mat (adjFn M) idx
  let w := vec (ratFn (rats wS)) idx
  let D := (List.range n).map fun i => Net.bfs n a i
  let d : Nat → Nat → Option Nat := fun i j => (D.getD i []).getD j none
  join [
    mvec n fun i => toString (Net.indeg n a i), mvec n fun i => toString (Net.outdeg n a i),
    mvec n fun i => toString (Net.degree dir n a i), mvec n fun i => toString (Net.bildeg n a i),
    mvec n fun i => showRat (Net.cycleC n a i), mvec n fun i => showRat (Net.midC n a i),
    mvec n fun i => showRat (Net.inC n a i), mvec n fun i => showRat (Net.outC n a i),
    mvec n fun i => showRat (Net.localClustering n a i), showOptRat (Net.transitivity n a),
    mrows n fun i j => showOptRat (Net.matching n a i j),
    mrows n fun i j => showOptNat (d i j),
    showRat (Net.globalEfficiency n d), showOptRat (Net.avgPathLengthU n d),
    toString (Net.diameter n d), mvec n fun i => showOptRat (Net.closeness n d i),
    mvec n fun i => showRat (Net.nsiCloseness n d w i),
    showNats (Net.coreness n a dir),
    mvec n fun i => showRat (Net.nsiIndeg n a w i), mvec n fun i => showRat (Net.nsiOutdeg n a w i),
    mvec n fun i => showRat (Net.nsiDegree dir n a w i),
    mvec n fun i => showRat (Net.nsiLocalClustering n a w i),
    -- round 4
    showOptRat (Net.assortativity dir n a),
    -- round 5: node removal (igraph's shifting renumbering) + BFS + efficiencies; cliquishness kernels
    mvec n fun i => showOptRat (Net.localVulnerability n a i),
    showRats (Net.cliquishness 4 n a (Net.outdeg n a)),
    showRats (Net.cliquishness 5 n a (Net.outdeg n a))] "|"

/-- round 5 — link-weighted clustering of `Pyunicorn.Net` (C03) on `permuted_copy(perm)`: the four
`key=` motif clustering coefficients (`M` = cubic roots of the link attribute) and
`weighted_local_clustering` of the weight matrix `W` -/
def netWeightedRelabelled (perm adjS mS wS : String) : String :=
  let idx := permFn (nats perm)
  let A := boolMat adjS; let n := A.length
  let a := mat (adjFn A) idx
  let m := mat (ratMatFn (ratMat mS)) idx
  let w := mat (ratMatFn (ratMat wS)) idx
  join [
    mvec n fun i => showRat (Net.cycleCW n a m i), mvec n fun i => showRat (Net.midCW n a m i),
    mvec n fun i => showRat (Net.inCW n a m i), mvec n fun i => showRat (Net.outCW n a m i),
    mvec n fun i => showOptRat (Net.weightedLocalClustering n w i)] "|"

/-- round 5 — C03's kernel model of `_nsi_betweenness` and its definition on `permuted_copy(perm)`
with the node weights, the source mask and the target list renumbered with the nodes; round 5b — and
C03's model of the public wrapper with default / renumbered node-list arguments; round 5d — and
C11's wrapper models of `cross_betweenness`, `internal_betweenness`, `nsi_cross_betweenness` -/
def betwRelabelled (perm adjS wS srcS tgS : String) : String :=
  let idx := permFn (nats perm)
  let A := boolMat adjS; let n := A.length
  let a := mat (adjFn A) idx
  let w := vec (ratFn (rats wS)) idx
  let isSrc := nodeList n idx false (bools srcS)
  let targets := nodes n idx (nats tgS)
  let D := (List.range n).map fun i => Net.bfs n a i
  let d : NetBetw.DistFn := fun i j => (D.getD i []).getD j none
  -- round 5b: the wrapper `apiBetweenness` (C03) of `net_betweenness_api_relabel`: the source list
  -- (the nodes with the mask set) renumbered through the inverse permutation, default arguments
  let S := some (nodes n idx ((List.range n).filter fun v => (bools srcS).getD v false))
  let T := some targets
  join [showNats targets,
    showRats (NetBetw.nsiBetweenness n a w isSrc targets),
    showRats (NetBetw.nsiBetweennessDef n a w d isSrc targets),
    showRats (NetBetw.apiBetweenness n a w none none true),
    showRats (NetBetw.apiBetweenness n a w S none true),
    showRats (NetBetw.apiBetweenness n a w none T true),
    showRats (NetBetw.interregionalBetweenness n a w S T),
    -- round 5d: C11's wrapper models of the node-group measures of `InteractingNetworks`
    -- (`cross_betweenness_relabel`, `cross_internal_betweenness_relabel`,
    -- `cross_nsi_betweenness_relabel`): source mask by `Cross.srcMask` (a fold of stores)
    showRats (Cross.crossBetweenness n a (S.getD []) targets),
    showRats (Cross.internalBetweenness n a (S.getD [])),
    showRats (Cross.nsiCrossBetweenness n a w (S.getD []) targets)] "|"

/-- `Pyunicorn.Cross` (C11) on the renumbered network with the renumbered node lists -/
def crossRelabelled (perm dirS adjS wS l1 l2 dS : String) : String :=
  let idx := permFn (nats perm)
  let M := boolMat adjS; let n := M.length; let dir := dirS == "1"
  let A := mat (adjFn M) idx
  let w := vec (ratFn (rats wS)) idx
  let D := mat (optMatFn (optRatMat dS)) idx
  let P1 := nodes n idx (nats l1); let P2 := nodes n idx (nats l2)
  join [
    showNats P1, showNats P2,
    showNats (Cross.crossDegree dir A P1 P2), showOptRat (Cross.crossLinkDensity A P1 P2),
    toString (Cross.numberCrossLinks A P1 P2), showRat (Cross.crossTransitivity A P1 P2),
    showRats (Cross.crossLocalClustering dir A P1 P2),
    showOptRat (Cross.crossGlobalClustering dir A P1 P2),
    showOptRat (Cross.crossAPL D P1 P2), showRats (Cross.crossCloseness n D P1 P2),
    toString (Cross.numberInternalLinks dir A P1), showOptRat (Cross.internalLinkDensity dir A P1),
    showOptRat (Cross.internalAPL D P1), showRats (Cross.internalCloseness D P1),
    showOptRat (Cross.internalGlobalClustering n A P1),
    showRats (Cross.nsiCrossDegree A w P1 P2), showRats (Cross.nsiCrossLocalClustering A w P1 P2),
    showOptRat (Cross.nsiCrossTransitivity A w P1 P2), showOptRat (Cross.nsiCrossMeanDegree A w P1 P2),
    showOptRat (Cross.nsiCrossEdgeDensity A w P1 P2),
    showOptRat (Cross.nsiCrossGlobalClustering A w P1 P2),
    showOptRats (Cross.nsiCrossCloseness n D w P1 P2),
    -- round 4: the `_sparse` twins
    showRat (Cross.crossTransitivitySparse dir A P1 P2),
    showRats (Cross.clcSparse dir A P1 P2),
    showOptRat (Cross.crossGlobalClusteringSparse dir A P1 P2)] "|"

/-- `Pyunicorn.Circuit` (C18) on the renumbered resistances; the first field says whether both
certified pseudo-inverses exist and the renumbered old one is a generalised inverse of the new
Laplacian (`isGinv`, the hypothesis of `res_effRes_relabel`) -/
def resRelabelled (perm adjS resS : String) : String :=
  let idx := permFn (nats perm)
  let M := boolMat adjS; let n := M.length
  let adj := mat (adjFn M) idx
  let res := mat (ratMatFn (ratMat resS)) idx
  let adm := Circuit.admittance adj res
  let L := Circuit.laplacian n adm
  let L0 := Circuit.laplacian n (Circuit.admittance (adjFn M) (ratMatFn (ratMat resS)))
  match Circuit.pinvCert n L, Circuit.pinvCert n L0 with
  | some R, some R0 =>
    join [
      (if Circuit.isGinv n L (mat R0 idx) then "ginv" else "not-ginv"),
      mrows n fun i j => showRat (Circuit.effRes R i j),
      mvec n fun i => showRat (Circuit.ercc n R i),
      showRat (Circuit.averageOf n (Circuit.allPairs n R)),
      mvec n fun i => showRat (Circuit.admDegree n adm i),
      mvec n fun i => showRat (Circuit.anad n adj adm i),
      mvec n fun i => showRat (Circuit.localClustering n adj adm i),
      showRat (Circuit.globalClustering n adj adm),
      mrows n fun i j => showRat (Circuit.effRes R0 i j),
      mvec n fun i => showRat (Circuit.vcfbKernel n 1 1 adm R i),
      mrows n fun i j => showRat (Circuit.ecfbKernel n 1 1 adm R i j),
      -- round 4: `diameter_effective_resistance()`; the hypotheses of
      -- `res_currentflow_relabel_pinv` (all four Moore–Penrose equations, exactly, for the
      -- inverse of each numbering)
      (match Circuit.maxOf (Circuit.allPairs n R) with | some x => showRat x | none => "nan"),
      (if Circuit.isPinv n L R && Circuit.isPinv n L0 R0 then "pinv" else "not-pinv")] "|"
  | _, _ => "no-pinv"

def geoT : Geo.Trig Rat := { sin := id, cos := id, arccos := id, sqrt := id, rad := id }

/-- `Pyunicorn.Geo` (C12) over `Rat` with `sqrt = id` (squared Euclidean distances) on the
renumbered coordinate sequences; link-distance measures of a distance matrix renumbered with the
nodes -/
def geoRelabelled (perm dirS dimS xS adjS dS : String) : String :=
  let idx := permFn (nats perm)
  let X := ratMat xS                      -- rows = dimensions
  let Am := ratMat adjS; let n := Am.length; let dir := dirS == "1"
  let x := cols (ratMatFn X) idx
  let A := mat (ratMatFn Am) idx
  let D := mat (ratMatFn (ratMat dS)) idx
  let sq := Geo.euclideanDistance geoT x dimS.toNat! n
  join [
    mrows n fun i j => showRat (sq i j),
    mvec n fun i => showOptRat (Geo.avgALD dir D A n (n : Rat) false i),
    mvec n fun i => showOptRat (Geo.avgALD dir D A n (n : Rat) true i),
    mvec n fun i => showOptRat (Geo.outALD D A n (n : Rat) false i),
    mvec n fun i => showOptRat (Geo.inALD D A n (n : Rat) false i),
    mvec n fun i => showOptRat (Geo.maxLinkDistNet D A n i)] "|"

/-- round 4 — C05's model of `set_link_attribute` / `link_attribute` on an object whose embedded
graph lists the links in the order `edges` (`a-b` tokens; as the real igraph object reports them):
the attribute matrix of the renumbered values read back -/
def linkAttrRelabelled (perm dirS nS edgesS wS : String) : String :=
  let idx := permFn (nats perm)
  let n := nS.toNat!
  let es : List (Nat × Nat) := (if edgesS == "-" then [] else splitTok edgesS ",").map fun t =>
    match splitTok t "-" with
    | [a, b] => (a.toNat!, b.toNat!)
    | _ => (0, 0)
  let net : Repr.Net := { Repr.Net.blank (dirS == "1") n with graph := es }
  match Repr.linkAttr (Repr.setLinkAttr net (mat (ratMatFn (ratMat wS)) idx)) with
  | some f => mrows n fun i j => showRat (f i j)
  | none => "keyerror"

def optV (s : String) : List (List Recurrence.V) :=
  (splitTok s ";").map fun r => (splitTok r ",").map fun t => if t == "x" then none else rat? t

/-- `Pyunicorn.Recurrence` (C07): recurrence-network adjacency of the reordered state vectors -/
def recRelabelled (perm metric epsS mvS embS : String) : String :=
  let idx := permFn (nats perm)
  let emb := optV embS; let n := emb.length
  let m : Recurrence.Metric := if metric == "manhattan" then .manhattan
    else if metric == "euclidean" then .euclidean else .supremum
  let eps := (rat? epsS).getD 0
  showBoolMat (Recurrence.zeroStride
    (Recurrence.fixedThreshold m (rows n idx emb) eps (mvS == "1")) (n + 1))

def recMetric (metric : String) : Recurrence.Metric :=
  if metric == "manhattan" then .manhattan else if metric == "euclidean" then .euclidean
  else .supremum

def showAdj (R : Option (List (List Bool))) (stride : Nat) : String :=
  match R with
  | some R => showBoolMat (Recurrence.zeroStride R stride)
  | none => "indexerror"

/-- round 4: network adjacency at a fixed (global / local) recurrence rate; `k` is the index the
source computes (`int(rate * (len - 1))`) -/
def recRateRelabelled (perm metric kS localS embS : String) : String :=
  let idx := permFn (nats perm)
  let emb := optV embS; let n := emb.length
  let D := Recurrence.distRP (recMetric metric) (rows n idx emb)
  let k := kS.toNat!
  showAdj (if localS == "1" then Recurrence.fixedLocalRate D k else Recurrence.fixedRate D k) (n + 1)

/-- round 4: joint recurrence network (lag 0) of two trajectories reordered together -/
def recJointRelabelled (perm metric exS eyS embxS embyS : String) : String :=
  let idx := permFn (nats perm)
  let ex := optV embxS; let ey := optV embyS; let n := ex.length
  let m := recMetric metric
  showAdj (Recurrence.hadamard
    (Recurrence.fixedThreshold m (rows n idx ex) ((rat? exS).getD 0) false)
    (Recurrence.fixedThreshold m (rows n idx ey) ((rat? eyS).getD 0) false)) (n + 1)

/-- round 4: inter-system recurrence network of two separately reordered systems -/
def recIsrnRelabelled (permx permy metric exS eyS exyS embxS embyS : String) : String :=
  let idx := permFn (nats permx); let idy := permFn (nats permy)
  let ex := optV embxS; let ey := optV embyS; let nx := ex.length; let ny := ey.length
  let m := recMetric metric
  let ex' := rows nx idx ex; let ey' := rows ny idy ey
  showAdj (Recurrence.isrm nx ny
    (Recurrence.fixedThreshold m ex' ((rat? exS).getD 0) false)
    (Recurrence.fixedThreshold m ey' ((rat? eyS).getD 0) false)
    (Recurrence.threshold (Recurrence.distCRP m ex' ey')
      (some (Recurrence.unitThr m ((rat? exyS).getD 0))))) (nx + ny + 1)

/-- round 5: joint recurrence network (lag 0) at fixed recurrence rates; `kx`, `ky` are the
order-statistic indices the source computes -/
def recJointRateRelabelled (perm metric kxS kyS embxS embyS : String) : String :=
  let idx := permFn (nats perm)
  let ex := optV embxS; let ey := optV embyS; let n := ex.length
  let m := recMetric metric
  showAdj ((Recurrence.fixedRate (Recurrence.distRP m (rows n idx ex)) kxS.toNat!).bind fun Rx =>
    (Recurrence.fixedRate (Recurrence.distRP m (rows n idx ey)) kyS.toNat!).bind fun Ry =>
      Recurrence.hadamard Rx Ry) (n + 1)

/-- round 5: inter-system recurrence network at fixed recurrence rates -/
def recIsrnRateRelabelled (permx permy metric kxS kyS kxyS embxS embyS : String) : String :=
  let idx := permFn (nats permx); let idy := permFn (nats permy)
  let ex := optV embxS; let ey := optV embyS; let nx := ex.length; let ny := ey.length
  let m := recMetric metric
  let ex' := rows nx idx ex; let ey' := rows ny idy ey
  showAdj ((Recurrence.fixedRate (Recurrence.distRP m ex') kxS.toNat!).bind fun Rx =>
    (Recurrence.fixedRate (Recurrence.distRP m ey') kyS.toNat!).bind fun Ry =>
      (Recurrence.fixedRate (Recurrence.distCRP m ex' ey') kxyS.toNat!).bind fun CR =>
        Recurrence.isrm nx ny Rx Ry CR) (nx + ny + 1)

end relabelled

def answer (toks : List String) : String :=
  match toks with
  | ["net", perm, dir, adj, w] => netRelabelled perm dir adj w
  | ["betw", perm, adj, w, src, tg] => betwRelabelled perm adj w src tg
  | ["netw", perm, adj, m, w] => netWeightedRelabelled perm adj m w
  | ["cross", perm, dir, adj, w, l1, l2, d] => crossRelabelled perm dir adj w l1 l2 d
  | ["res", perm, adj, res] => resRelabelled perm adj res
  | ["geo", perm, dir, dim, x, adj, d] => geoRelabelled perm dir dim x adj d
  | ["rec", perm, metric, eps, mv, emb] => recRelabelled perm metric eps mv emb
  | ["lattr", perm, dir, n, edges, w] => linkAttrRelabelled perm dir n edges w
  | ["recrate", perm, metric, k, loc, emb] => recRateRelabelled perm metric k loc emb
  | ["recjoint", perm, metric, ex, ey, embx, emby] => recJointRelabelled perm metric ex ey embx emby
  | ["recisrn", px, py, metric, ex, ey, exy, embx, emby] =>
      recIsrnRelabelled px py metric ex ey exy embx emby
  | ["recjointrate", perm, metric, kx, ky, embx, emby] =>
      recJointRateRelabelled perm metric kx ky embx emby
  | ["recisrnrate", px, py, metric, kx, ky, kxy, embx, emby] =>
      recIsrnRateRelabelled px py metric kx ky kxy embx emby
  | ["eval", n, adj, w, la0, g0, g1, dist, sig] => evalAll (mkGr n adj w la0 g0 g1 dist sig)
  | ["relabel", perm, n, adj, w, la0, g0, g1, dist, sig] =>
      let p := nats perm
      showGr (Equiv.relabel (mkGr n adj w la0 g0 g1 dist sig) (fun a => p.getD a a))
  | ["evalrelabel", perm, n, adj, w, la0, g0, g1, dist, sig] =>
      let p := nats perm
      evalAll (Equiv.relabel (mkGr n adj w la0 g0 g1 dist sig) (fun a => p.getD a a))
  | _ => "bad-request"

def main : IO Unit := runDriver answer
