import Pyunicorn.Model.Proto
import Pyunicorn.Model.Coupling
import Pyunicorn.Model.Coupling2
import Pyunicorn.Model.CouplingKnn
import Pyunicorn.Model.Coupling3
import Pyunicorn.Model.Coupling4
import Pyunicorn.Model.Coupling5
import Pyunicorn.Generated.StructC10
/-! Line-protocol driver for C10: one request per line on stdin, one answer per line. -/
open Pyunicorn Pyunicorn.Proto Pyunicorn.Coupling

def ratFn (l : List Rat) : Nat → Rat := let a := l.toArray; fun k => a.getD k 0
def natFn (l : List Nat) : Nat → Nat := let a := l.toArray; fun k => a.getD k 0
def intFn (l : List Int) : Nat → Int := let a := l.toArray; fun k => a.getD k 0
def ratD (s : String) : Rat := (rat? s).getD 0

def rng (n : Nat) : List Nat := List.range n

/-- 3-d view `(t, i, k)` of a flat C-ordered array of shape `(tauMax+1, N, cr)` -/
def view3 (f : Nat → Rat) (N cr : Nat) : Nat → Nat → Nat → Rat := fun t i k => f ((t * N + i) * cr + k)

def sect (xs : List String) : String := join xs "|"

def answer (toks : List String) : String :=
  match toks with
  | ["ccmax", n, tm, cr, flat] =>
      let N := n.toNat!; let tm := tm.toNat!; let cr := cr.toNat!
      let A := view3 (ratFn (rats flat)) N cr
      let es := (rng N).flatMap fun i => (rng N).map fun j => ccMaxEntry A tm cr i j
      showRats (es.map (·.1)) ++ ";" ++ showInts (es.map (·.2))
  | ["ccall", n, tm, cr, flat] =>
      let N := n.toNat!; let tm := tm.toNat!; let cr := cr.toNat!
      let A := view3 (ratFn (rats flat)) N cr
      showRats ((rng N).flatMap fun i => (rng N).flatMap fun j =>
        (rng (tm + 1)).map fun lag => ccAllEntry A tm cr i j lag)
  | ["symabs", n, sim, lag] =>
      let N := n.toNat!
      let s := ratFn (rats sim); let l := intFn (ints lag)
      let st := symmetrize N (fun i j => s (i * N + j), fun i j => l (i * N + j))
      let cells := (rng N).flatMap fun i => (rng N).map fun j => (i, j)
      showRats (cells.map fun c => st.1 c.1 c.2) ++ ";" ++ showInts (cells.map fun c => st.2 c.1 c.2)
  | ["mihist", n, ns, nb, s, rmin, flat] =>
      let N := n.toNat!; let ns := ns.toNat!; let nb := nb.toNat!
      let symb := symbolicFlat (ratD s) (ratD rmin) nb (ratFn (rats flat))
      let h := histFlat symb ns nb N
      let hs := showNats ((rng (N * nb)).map h)
      let pairs := (rng N).flatMap fun i => (rng i).map fun j =>
        let h2 := hist2dFlat symb symb ns nb i j
        showNats ((rng (nb * nb)).map h2)
      sect (hs :: pairs)
  | ["mimap", n] =>
      let N := n.toNat!
      let M := miFlat 0 (fun i j => i * N + j + 1) N N
      showNats ((rng (N * N)).map M)
  | ["tmi", n, ns, nb, s, rmin, oflat, sflat] =>
      let N := n.toNat!; let ns := ns.toNat!; let nb := nb.toNat!
      let sa := symbolicFlat (ratD s) (ratD rmin) nb (ratFn (rats oflat))
      let sb := symbolicFlat (ratD s) (ratD rmin) nb (ratFn (rats sflat))
      let ha := showNats ((rng (N * nb)).map (histFlat sa ns nb N))
      let hb := showNats ((rng (N * nb)).map (histFlat sb ns nb N))
      let pairs := (rng N).flatMap fun i => ((rng N).filter (· != i)).map fun j =>
        showNats ((rng (nb * nb)).map (hist2dFlat sa sb ns nb i j))
      sect (ha :: hb :: pairs)
  | ["tpear", n, ns, oflat, sflat] =>
      let N := n.toNat!; let ns := ns.toNat!
      let o := ratFn (rats oflat); let s := ratFn (rats sflat)
      showRats ((rng N).flatMap fun i => (rng N).map fun j => testPearsonEntry o s ns i j)
  | ["xcorr", t, n, tm, flat] =>
      let T := t.toNat!; let N := n.toNat!; let tm := tm.toNat!
      let d := ratFn (rats flat)
      let x : Nat → Nat → Rat := fun i k => d (i * T + k)
      showRats ((rng N).flatMap fun i => (rng N).flatMap fun j =>
        (rng (tm + 1)).map fun lag => xcorrSq x T tm i j lag)
  | ["simsq", kind, t, n, flat] =>
      let T := t.toNat!; let N := n.toNat!
      let d := ratFn (rats flat)
      let x : Nat → Nat → Rat := fun i k => d (i * T + k)
      showRats ((rng N).flatMap fun i => (rng N).map fun j =>
        if kind == "spearman" then spearmanSq T (x i) (x j) else pearsonSq T (x i) (x j))
  | ["maxscan", vals] =>
      let l := rats vals
      let st := maxScan (ratFn l) l.length
      showRat st.1 ++ ";" ++ toString st.2
  | ["qbin", bins, row] => showInts (quantileBinRow (rats row) bins.toNat!)
  | ["bincount", t, base, s0, s1] =>
      let T := t.toNat!; let base := base.toNat!
      let a := natFn (nats s0); let b := natFn (nats s1)
      showNats ((rng base).flatMap fun x => (rng base).map fun y => bincountHistEntry a b T base x y)
  | ["rank2", row] =>
      let l := rats row
      showNats ((rng l.length).map (rank2 l.length (ratFn l)))
  | ["tmimap", n] =>
      let N := n.toNat!
      let M := tmiFlat 0 (fun i j => i * N + j + 1) N N
      showNats ((rng (N * N)).map M)
  | ["pxcorr", t, n, tm, flat] =>
      let T := t.toNat!; let N := n.toNat!; let tm := tm.toNat!
      let d := ratFn (rats flat)
      let x : Nat → Nat → Rat := fun i k => d (i * T + k)
      showRats ((rng (2 * tm + 1)).flatMap fun t => (rng N).flatMap fun i =>
        (rng N).map fun j => pureXcorrSq x T tm t i j)
  | ["pmodes", tm, vals] =>
      let tm := tm.toNat!
      let c := ratFn (rats vals)
      let m := pureMaxEntry c tm
      let sm := pureSumScan c tm (2 * tm + 1)
      showRat m.1 ++ ";" ++ toString m.2 ++ ";" ++ showRat sm.1 ++ ";" ++ showRat sm.2
  | ["pcc", n, tm, cr, flat] =>
      let N := n.toNat!; let tm := tm.toNat!; let cr := cr.toNat!
      let A := view3 (ratFn (rats flat)) N cr
      let cells := (rng N).flatMap fun i => (rng N).map fun j => (i, j)
      let mx := cells.map fun c => pureMaxEntry (pureCrossAt A tm cr c.1 c.2) tm
      let sm := cells.map fun c => pureSumScan (pureCrossAt A tm cr c.1 c.2) tm (2 * tm + 1)
      sect [showRats ((rng (2 * tm + 1)).flatMap fun t => cells.map fun c => pureCrossAt A tm cr c.1 c.2 t),
            showRats (mx.map (·.1)), showInts (mx.map (·.2)),
            showRats (sm.map (·.1)), showRats (sm.map (·.2))]
  | ["itsq", t, n, tm, past, mit, flat] =>
      let T := t.toNat!; let N := n.toNat!; let tm := tm.toNat!; let past := past.toNat!
      let mit := mit == "1"
      let d := ratFn (rats flat)
      let x : Nat → Nat → Rat := fun i k => d (i * T + k)
      let cells := (rng N).flatMap fun i => (rng N).flatMap fun j => (rng (tm + 1)).map fun tau => (i, j, tau)
      showRats (cells.map fun c => itSq x T tm past mit c.1 c.2.1 c.2.2) ++ ";" ++
        showNats (cells.map fun c => if itRegular x T tm past mit c.1 c.2.1 c.2.2 then 1 else 0) ++ ";" ++
        showNats (((rng N).flatMap fun i => (rng N).map fun j => (i, j)).map fun c =>
          (maxScan (fun tau => rabs (itSq x T tm past mit c.1 c.2 tau)) (tm + 1)).2)
  | ["pcorr", t, n, flat] =>
      let T := t.toNat!; let N := n.toNat!
      let d := ratFn (rats flat)
      let x : Nat → Nat → Rat := fun i k => d (i * T + k)
      let Gl := (rng N).map fun i => ((rng N).map fun j => covTo T (x i) (x j)).toArray
      let Ga := Gl.toArray
      let G : Nat → Nat → Rat := fun a b => (Ga.getD a #[]).getD b 0
      match gjInverse G N with
      | none =>
        -- round 5: the failing column and the kernel vector read off the augmented matrix
        match gjKernel G N with
        | some (c, w) => "singular|" ++ toString c ++ "|" ++ showRats w
        | none => "singular|none|-"
      | some P =>
        let cells := (rng N).flatMap fun i => (rng N).map fun j => (i, j)
        let others := othersOf N
        (if isInverse G P N then "1" else "0") ++ "|" ++
          showRats (cells.map fun c => normInvSq P c.1 c.2) ++ "|" ++
          showRats (cells.map fun c => parCorrSqG G (others c.1 c.2) c.1 c.2) ++ "|" ++
          showNats (cells.map fun c => if pivotsOk G (others c.1 c.2) then 1 else 0)
  | ["knn", t, dim, dimx, dimy, k, eps0, flat] =>
      let T := t.toNat!; let dim := dim.toNat!; let dimx := dimx.toNat!; let dimy := dimy.toNat!
      let k := k.toNat!
      let f := ratFn (rats flat)
      let arr : Nat → Nat → Rat := fun d s => f (d * T + s)
      match knnAll arr T dim dimx dimy k 200 (ratD eps0) T with
      | none => "loop"
      | some st => showNats (st.out.map (·.1)) ++ ";" ++ showNats (st.out.map (·.2.1)) ++ ";" ++
          showNats (st.out.map (·.2.2))
  | ["tri", mode, n, tm, vals] =>
      let N := n.toNat!; let tm := tm.toNat!
      let f := ratFn (rats vals)
      let cells := (rng N).flatMap fun i => (rng N).map fun j => (i, j)
      if mode == "all" then
        let val : Nat → Nat → Nat → Rat := fun t i j => f ((t * N + i) * N + j)
        showRats ((rng (2 * tm + 1)).flatMap fun t => cells.map fun c => triAll val true N tm t c.1 c.2)
      else
        let v0 : Nat → Nat → Rat := fun i j => f (i * N + j)
        let v1 : Nat → Nat → Rat := fun i j => f (N * N + i * N + j)
        let r := if mode == "sum" then triSum v0 v1 true N else triMax v0 v1 true N
        showRats (cells.map fun c => r.1 c.1 c.2) ++ ";" ++ showRats (cells.map fun c => r.2 c.1 c.2)
  | ["pmihist", n, tm, cr, bins, flat] =>
      let N := n.toNat!; let tm := tm.toNat!; let cr := cr.toNat!; let bins := bins.toNat!
      let f := natFn (nats flat)
      let S : Nat → Nat → Nat → Nat := fun t i k => f ((t * N + i) * cr + k)
      sect ((rng N).flatMap fun i => (rng N).flatMap fun j => (rng (2 * tm + 1)).map fun t =>
        let H := pureMiHist S tm cr bins i j t (fun _ => 0)
        let clean := (rng (bins * bins + 2)).all fun c => pureMiReset bins H c == 0
        showNats ((rng (bins * bins)).map H) ++ (if clean then "" else "!dirty"))
  | ["pmimax", tm, vals] =>
      let tm := tm.toNat!
      let st := pureMiMaxScan (ratFn (rats vals)) tm (2 * tm + 1)
      showRat st.1 ++ ";" ++ toString st.2
  | ["tsurr", t, n, tm, sr, perm, flat] =>
      let T := t.toNat!; let N := n.toNat!; let tm := tm.toNat!; let sr := sr.toNat!
      let d := ratFn (rats flat); let p := natFn (nats perm)
      let x : Nat → Nat → Rat := fun i k => d (i * T + k)
      showRats ((rng (2 * tm + 1)).flatMap fun t => (rng N).flatMap fun i =>
        (rng N).map fun j => timeSurrSq x p sr tm t i j)
  | ["ssurr", t, n, cr, shuf, flat] =>
      let T := t.toNat!; let N := n.toNat!; let cr := cr.toNat!
      let d := ratFn (rats flat); let p := natFn (nats shuf)
      let x : Nat → Nat → Rat := fun i k => d (i * T + k)
      let sh : Nat → Nat → Nat := fun i s => p (i * T + s)
      showRats ((rng N).flatMap fun i => (rng N).map fun j => shufSurrSq x sh cr 0 i j)
  | ["qocc", bins, row] =>
      let b := bins.toNat!
      let r := rats row
      showNats ((List.range (b + 2)).map fun (a : Nat) => qbinOccupancy r b (Int.ofNat a - 1))
  | ["lagstore", zs] =>
      toString Pyunicorn.Generated.StructC10.lagBitsC ++ ";" ++
        showInts ((ints zs).map (wrapBits Pyunicorn.Generated.StructC10.lagBitsC)) ++ ";" ++
        showInts ((ints zs).map wrap8)
  | ["itsqfn", t, n, tm, past, mit, flat] =>
      let T := t.toNat!; let N := n.toNat!; let tm := tm.toNat!; let past := past.toNat!
      let mit := mit == "1"
      let d := ratFn (rats flat)
      let x : Nat → Nat → Rat := fun i k => d (i * T + k)
      let cells := (rng N).flatMap fun i => (rng N).flatMap fun j => (rng (tm + 1)).map fun tau => (i, j, tau)
      showRats (cells.map fun c => itSqFn x T tm past mit c.1 c.2.1 c.2.2)
  | ["gjker", n, flat] =>
      let N := n.toNat!
      let f := ratFn (rats flat)
      let C : Nat → Nat → Rat := fun a b => if a < N ∧ b < N then f (a * N + b) else 0
      match gjKernel C N, gjInverse C N with
      | some (c, w), none => "singular|" ++ toString c ++ "|" ++ showRats w
      | none, some P => "regular|" ++ showRats ((rng N).flatMap fun i => (rng N).map fun j => P i j)
      | _, _ => "inconsistent"
  | _ => "bad-request"

def main : IO Unit := runDriver answer
