import Pyunicorn.Model.Proto
import Pyunicorn.Model.Mpi
import Pyunicorn.Model.MpiProto
import Pyunicorn.Generated.ArithC19
import Pyunicorn.Model.MpiKernels
/-! Line-protocol driver for C19. -/
open Pyunicorn Pyunicorn.Proto Pyunicorn.Generated

/-- run the master's chunk loop (with its `break`) using the generated arithmetic -/
def chunkLoop (start : Int → Int → Int) (endF : Int → Int → Int → Int)
    (step N : Int) (parts : Nat) : List (Int × Int) :=
  let rec go (idx : Nat) (fuel : Nat) (acc : List (Int × Int)) : List (Int × Int) :=
    match fuel with
    | 0 => acc.reverse
    | fuel + 1 =>
      let s := start idx step
      let e := endF idx step N
      if s ≥ e then acc.reverse else go (idx + 1) fuel ((s, e) :: acc)
  go 0 parts []

def chunksAnswer (mpF : Int → Int → Int) (stepF partsF : Int → Int → Int)
    (start : Int → Int → Int) (endF : Int → Int → Int → Int) (size N : Int) : String :=
  let mp := mpF size N
  let step := stepF N mp
  let parts := partsF N step
  let cs := chunkLoop start endF step N parts.toNat
  s!"{mp} {step} {parts} " ++ (if cs.isEmpty then "-" else
    join (cs.map fun (a, b) => s!"{a}:{b}") ",")

/-! whole-protocol model: `proto <size> <ops> <schedule>` -/

/-- the job the harness registers for the real `serve()` loop: `tag ↦ tag² + 1` -/
def jobF (p : Nat) : Nat := p * p + 1

def parseOp (s : String) : Option (MpiProto.Op Nat) :=
  match s.splitOn "." with
  | ["s", id, p, e, sl] => some (.submit id.toNat! p.toNat! e.toInt! (if sl == "x" then none else some sl.toNat!))
  | ["g", id] => some (.get id.toNat!)
  | ["n"] => some .getNext
  | _ => none

def showErr : Option MpiProto.Err → String
  | none => "none" | some .alreadyQueued => "alreadyQueued" | some .keyError => "keyError"
  | some .outOfOrder => "outOfOrder"

def dash (xs : List String) : String := if xs.isEmpty then "-" else join xs ","

def protoAnswer (size : Nat) (ops sched : String) : String :=
  let prog := (splitTok ops ",").filterMap parseOp
  let r := MpiProto.runSched jobF (MpiProto.init (β := Nat) size prog) (nats sched)
  let st := r.1
  let ranks := (List.range size).drop 1
  s!"err={showErr st.err} fin={if st.finished then 1 else 0} " ++
  s!"got={dash (st.got.map fun (i, v) => s!"{i}:{v}")} " ++
  s!"sent={dash (st.sentLog.map fun (s, p) => s!"{s}:{p}")} " ++
  s!"exec={dash (st.execLog.map fun (s, p) => s!"{s}:{p}")} " ++
  s!"nproc={showNats (ranks.map st.mnproc)} snproc={showNats (ranks.map st.nproc)} " ++
  s!"est={showInts (ranks.map st.est)} " ++
  s!"left={showNats (st.queue.map (·.1))} assigned={dash (st.assigned.map fun (i, s) => s!"{i}:{s}")} " ++
  s!"alive={showBools (ranks.map st.alive)} todo={st.prog.length} skipped={r.2} " ++
  s!"inbox={showNats (ranks.map fun s => (st.inbox s).length)} " ++
  s!"outbox={showNats (ranks.map fun s => (st.outbox s).length)} " ++
  s!"steps={MpiProto.executed jobF (MpiProto.init (β := Nat) size prog) (nats sched)} " ++
  s!"measure={MpiProto.measure st} measure0={MpiProto.measure (MpiProto.init (β := Nat) size prog)} " ++
  s!"stepsleft={MpiProto.stepsLeft st} exact={MpiProto.exactSteps size prog}"

def answer (toks : List String) : String :=
  match toks with
  | ["chunks", "newman", size, n] =>
      chunksAnswer ArithC19.newman_max_parts ArithC19.newman_step ArithC19.newman_parts
        ArithC19.newman_start ArithC19.newman_end size.toInt! n.toInt!
  | ["chunks", "nsinewman", size, n] =>
      chunksAnswer ArithC19.nsinewman_max_parts ArithC19.nsinewman_step ArithC19.nsinewman_parts
        ArithC19.nsinewman_start ArithC19.nsinewman_end size.toInt! n.toInt!
  | ["chunks", "arenas", size, n] =>
      chunksAnswer ArithC19.arenas_max_parts ArithC19.arenas_step ArithC19.arenas_parts
        ArithC19.arenas_start ArithC19.arenas_end size.toInt! n.toInt!
  | ["master", parts, slaves, guard] =>
      let sl := nats slaves
      match Mpi.masterRun parts.toNat! (fun i => sl.getD i 0) (guard == "1") with
      | .ok ids => "ok " ++ showNats ids
      | .error e => "err " ++ (match e with
          | .alreadyQueued => "alreadyQueued" | .keyError => "KeyError" | .outOfOrder => "outOfOrder")
  | ["proto", size, ops, sched] => protoAnswer size.toNat! ops sched
  | ["split", n, xs] =>
      let parts := MpiProto.arraySplit (nats xs) n.toNat!
      if parts.isEmpty then "-" else join (parts.map showNats) ";"
  | ["modes", m, which, conds] =>
      let tc := splitTok conds ";"
      let tbl := match m, which with
        | "arenas", "dist" => StructC19.arenas_dist_args
        | "arenas", "serial" => StructC19.arenas_serial_args
        | "newman", "dist" => StructC19.newman_dist_args
        | "newman", "serial" => StructC19.newman_serial_args
        | "nsinewman", "dist" => StructC19.nsinewman_dist_args
        | "nsinewman", "serial" => StructC19.nsinewman_serial_args
        | _, _ => []
      join (MpiChunk.modesOf tbl tc)
  | ["kern", "newman", n, s, e, a, v] =>
      showInts (MpiChunk.newmanChunk n.toNat! (intMat a) (intMat v) s.toNat! e.toNat!)
  | ["kern", "nsinewman", n, s, e, a, v, w, nae] =>
      showInts (MpiChunk.nsinewmanChunk n.toNat! (intMat a) (intMat v) (ints w) (intMat nae)
        s.toNat! e.toNat!)
  | _ => "bad-request"

def main : IO Unit := runDriver answer
