import Pyunicorn.Model.Proto
import Pyunicorn.Model.Circuit
import Pyunicorn.Model.CircuitK
import Pyunicorn.Model.CircuitPyRun
/-! Line-protocol driver for C18: one request per line on stdin, one answer per line. -/
open Pyunicorn Pyunicorn.Proto Pyunicorn.Circuit

def adjOf (s : String) : Adj :=
  let m := boolMat s
  fun i j => (m.getD i []).getD j false

def matOf (s : String) : Mat := toFun (ratMat s)

def showVec (n : Nat) (f : Nat → Rat) : String := showRats ((List.range n).map f)
def showMatF (n : Nat) (f : Mat) : String := showRatMat (ofFun n f)
def showOpt : Option Rat → String
  | none => "none"
  | some r => showRat r

def ratD (s : String) : Rat := (rat? s).getD 0

/-- every observable of a freshly constructed `ResNetwork(res, adjacency=adj)` -/
def netAnswer (n : Nat) (adj : Adj) (res : Mat) : String :=
  if !resistancesOk n adj res then "undefined:zero-resistance" else
  let adm := toFun (ofFun n (admittance adj res))
  let L := toFun (ofFun n (laplacian n adm))
  match pinvCert n L with
  | none => "undefined:no-certified-pinv|conn=" ++ (if connected n adj then "1" else "0")
  | some R =>
    let pairs := allPairs n R
    let erpot := (List.range n).map fun a => (List.range n).map fun b => effResPotential n L a b
    let erpotS := join (erpot.map fun r => join (r.map showOpt)) ";"
    join [
      "conn=" ++ (if connected n adj then "1" else "0"),
      "adm=" ++ showMatF n adm,
      "lap=" ++ showMatF n L,
      "R=" ++ showMatF n R,
      "er=" ++ showMatF n (effRes R),
      "erpot=" ++ erpotS,
      "avg=" ++ showRat (averageOf n pairs),
      "diam=" ++ showOpt (maxOf pairs),
      "ercc=" ++ showVec n (ercc n R),
      "vcfb=" ++ showVec n (vcfbKernel n 1 1 adm R),
      "ecfb=" ++ showMatF n (ecfbKernel n 1 1 adm R),
      "ad=" ++ showVec n (admDegree n adm),
      "anad=" ++ showVec n (anad n adj adm),
      "lc=" ++ showVec n (localClustering n adj adm),
      "gc=" ++ showRat (globalClustering n adj adm)] "|"

/-! complex impedances: the field model of `Model/CircuitK.lean` at the Gaussian rationals -/
def cmatOf (re im : String) : CircuitK.MatK CircuitK.GRat :=
  let a := ratMat re
  let b := ratMat im
  fun i j => ⟨(a.getD i []).getD j 0, (b.getD i []).getD j 0⟩

def showCMat (n : Nat) (f : CircuitK.MatK CircuitK.GRat) : String :=
  showRatMat (ofFun n fun i j => (f i j).re) ++ "&" ++ showRatMat (ofFun n fun i j => (f i j).im)
def showCVec (n : Nat) (f : Nat → CircuitK.GRat) : String :=
  showRats ((List.range n).map fun i => (f i).re) ++ "&" ++ showRats ((List.range n).map fun i => (f i).im)
def showC (z : CircuitK.GRat) : String := showRat z.re ++ "&" ++ showRat z.im

/-- observables of a freshly constructed complex `ResNetwork(Z, adjacency=adj)` -/
def cnetAnswer (n : Nat) (adj : Adj) (res : CircuitK.MatK CircuitK.GRat) : String :=
  let ok := (List.range n).all fun i => (List.range n).all fun j => !adj i j || decide (res i j ≠ 0)
  if !ok then "undefined:zero-impedance" else
  let adm := CircuitK.toFun (CircuitK.ofFun n (CircuitK.admittance adj res))
  let L := CircuitK.toFun (CircuitK.ofFun n (CircuitK.laplacian n adm))
  match CircuitK.pinvCert n L with
  | none => "undefined:no-certified-pinv"
  | some R =>
    join [
      "adm=" ++ showCMat n adm,
      "lap=" ++ showCMat n L,
      "R=" ++ showCMat n R,
      "er=" ++ showCMat n (CircuitK.effRes R),
      "avg=" ++ showC (CircuitK.averageOf n (CircuitK.allPairs n R)),
      "ercc=" ++ showCVec n (CircuitK.ercc n R),
      "ad=" ++ showCVec n (CircuitK.admDegree n adm),
      "lc=" ++ showCVec n (CircuitK.localClustering n adj adm),
      "gc=" ++ showC (CircuitK.globalClustering n adj adm)] "|"

def op? (s : String) : Option Op :=
  match s.splitOn "=" with
  | ["A"] => some .average
  | ["D"] => some .diameter
  | ["U", m] => some (.update (matOf m))
  | ["E", ab] => match nats ab with
      | [a, b] => some (.effRes a b)
      | _ => none
  | ["C", a] => a.toNat?.map .ercc
  | ["V", i] => i.toNat?.map .vcfb
  | ["B", ij] => match nats ij with
      | [i, j] => some (.ecfb i j)
      | _ => none
  | ["G", i] => i.toNat?.map .admDeg
  | ["N", i] => i.toNat?.map .anad
  | ["L", i] => i.toNat?.map .lclust
  | ["K"] => some .gclust
  | ["R", ij] => match nats ij with
      | [i, j] => some (.getR i j)
      | _ => none
  | ["M", ij] => match nats ij with
      | [i, j] => some (.getAdm i j)
      | _ => none
  | ["P", ij] => match nats ij with
      | [i, j] => some (.lap i j)
      | _ => none
  | ["S"] => some .meanRes
  | ["UA"] => some .updAdm
  | ["UR"] => some .updR
  | _ => none

def answer (toks : List String) : String :=
  match toks with
  | ["net", n, adj, res] => netAnswer n.toNat! (adjOf adj) (matOf res)
  | ["netd", n, res] =>      -- `ResNetwork(res)`: links derived from the resistances
      let r := matOf res
      netAnswer n.toNat! (defaultAdj r) r
  | ["cnet", n, adj, re, im] => cnetAnswer n.toNat! (adjOf adj) (cmatOf re im)
  | "hist" :: n :: adj :: res :: ops =>
      match ops.mapM op? with
      | none => "bad-request"
      | some ops =>
        let s0 := State.init pinvList n.toNat! (adjOf adj) (matOf res)
        join ((run pinvList s0 ops).2.map showOpt)
  | "histd" :: n :: res :: ops =>
      match ops.mapM op? with
      | none => "bad-request"
      | some ops =>
        let r := matOf res
        let s0 := State.initDefault pinvList n.toNat! r
        join ((run pinvList s0 ops).2.map showOpt)
  -- the same histories on the object whose `__init__` / update methods / matrix getters are the
  -- bodies regenerated from the current source (`Generated/StructC18.lean`)
  | "histp" :: n :: adj :: res :: ops =>
      match ops.mapM op? with
      | none => "bad-request"
      | some ops =>
        let p0 := pyInit pinvList n.toNat! (adjOf adj) (matOf res)
        join ((pyRun pinvList p0 ops).2.map showOpt)
  | "histpd" :: n :: res :: ops =>
      match ops.mapM op? with
      | none => "bad-request"
      | some ops =>
        let r := matOf res
        let p0 := pyInit pinvList n.toNat! (defaultAdj r) r
        join ((pyRun pinvList p0 ops).2.map showOpt)
  | ["vcfb", n, is_, it, adm, r] =>
      let n := n.toNat!
      showVec n (vcfbKernel n (ratD is_) (ratD it) (matOf adm) (matOf r))
  | ["ecfb", n, is_, it, adm, r] =>
      let n := n.toNat!
      showMatF n (ecfbKernel n (ratD is_) (ratD it) (matOf adm) (matOf r))
  | _ => "bad-request"

def main : IO Unit := runDriver answer
