import Pyunicorn.Model.Proto
import Pyunicorn.Model.Nsi
import Pyunicorn.Model.NsiMeasures
import Pyunicorn.Model.NsiBetw
import Pyunicorn.Model.NetBetw
import Pyunicorn.Model.NsiRw
import Pyunicorn.Model.NsiEig
import Pyunicorn.Model.NsiComp
/-! Line-protocol driver for C02. -/
open Pyunicorn Pyunicorn.Proto Pyunicorn.Nsi

def matAt {α} (m : List (List α)) (d : α) (i j : Nat) : α := (m.getD i []).getD j d

/-- graph from protocol tokens: n, adjacency, weights, attribute W, attribute M (= cube root of
W), group 0, group 1, distance matrix (-1 = unreachable) -/
def mkGr (n adj w la0 la1 g0 g1 dist : String) : Gr :=
  let A := boolMat adj
  let W := rats w
  let L0 := ratMat la0
  let L1 := ratMat la1
  let G0 := bools g0
  let G1 := bools g1
  let D := intMat dist
  { n := n.toNat!
    adj := fun i j => matAt A false i j
    w := fun k => W.getD k 0
    la := fun a i j => if a = 0 then matAt L0 0 i j else matAt L1 0 i j
    grp := fun g i => if g = 0 then G0.getD i false else G1.getD i false
    dist := fun i j => let d := matAt D (-1) i j; if d < 0 then none else some d.toNat }

def evalAll (G : Gr) (tw : Rat) : String :=
  let idx := List.range G.n
  join ((M.all tw).map fun (name, ar, e) =>
    let vals : List Rat := match ar with
      | 0 => [eval G [] e]
      | 1 => idx.map fun i => eval G [i] e
      | _ => idx.flatMap fun i => idx.map fun j => eval G [i, j] e
    name ++ "=" ++ showRats vals) "|"

def showSplit (G : Gr) : String :=
  let idx := List.range G.n
  s!"{G.n} " ++ showBoolMat (idx.map fun i => idx.map fun j => G.adj i j) ++ " " ++
    showRats (idx.map G.w) ++ " " ++ showRatMat (idx.map fun i => idx.map fun j => G.la 0 i j) ++ " " ++
    showBools (idx.map fun i => G.grp 0 i) ++ " " ++ showBools (idx.map fun i => G.grp 1 i)


/-- n.s.i. betweenness three ways on one graph: (1) the definition `nsiBetw` with the
distances sent by the harness, (2) the same with the model's own breadth-first distances,
(3) the model of the Cython kernel (`NetBetw.nsiBetweenness`, Newman's algorithm); plus a
flag saying whether the harness' distances equal the breadth-first ones.
sources = group 0, targets = group 1. -/
def betwAll (G : Gr) : String :=
  let idx := List.range G.n
  let S := fun i => G.grp 0 i
  let T := fun i => G.grp 1 i
  let Gb : Gr := withBfs G
  let d1 := idx.map fun i => nsiBetw G S T i
  let d2 := idx.map fun i => nsiBetw Gb S T i
  let k := Pyunicorn.NetBetw.nsiBetweenness G.n G.adj G.w (idx.map S) (idx.filter T)
  let dok := idx.all fun i => idx.all fun j => G.dist i j == Gb.dist i j
  "def=" ++ showRats d1 ++ "|defbfs=" ++ showRats d2 ++ "|kernel=" ++ showRats k ++
    "|distok=" ++ (if dok then "1" else "0")

/-- round 4: the linear-algebraic measures (`Model/NsiRw.lean`) in exact rationals: Newman-type
betweenness (both values of `add_local_ends`) with the code's grounded inverse and the flag
"the hypotheses SolvesL / SolvesR of `nsi_newman_betweenness_split` hold for it"; Arenas-type
betweenness in all four argument patterns with the flag "every V_i solves its system";
`nsi_laplacian`; the moments of `nsi_spreading` and its default `alpha`; the bin layout of the
n.s.i. degree histograms. -/
def rwAll (G : Gr) (K : Nat) : String :=
  let idx := List.range G.n
  let opt (o : Option (List Rat)) : String := match o with | some l => showRats l | none => "singular"
  let one : Nat → Nat → Rat := fun _ _ => 1
  let tw : Nat → Nat → Rat := fun a b => eval G [a, b] M.nsiTwinness
  let ar (sg : Nat → Nat → Rat) (excl : Bool) : String × Bool :=
    match arenasAll G sg excl with
    | some (l, ok) => (showRats l, ok)
    | none => ("singular", false)
  let a1 := ar one true
  let a2 := ar one false
  let a3 := ar tw true
  let a4 := ar tw false
  "newman=" ++ opt (newmanAll G false) ++ "|newman_ends=" ++ opt (newmanAll G true) ++
    "|solves=" ++ (if newmanSolves G then "1" else "0") ++
    "|arenas=" ++ a1.1 ++ "|arenas_incl=" ++ a2.1 ++ "|arenas_twin=" ++ a3.1 ++
    "|arenas_incl_twin=" ++ a4.1 ++
    "|arenas_ok=" ++ (if a1.2 && a2.2 && a3.2 && a4.2 then "1" else "0") ++
    "|lap=" ++ showRats (idx.flatMap fun i => idx.map fun j => nsiLap G i j) ++
    "|alpha=" ++ showRats [spreadAlpha G] ++
    "|moments=" ++ showRatMat (spreadMoments G K) ++
    "|nbins=" ++ toString (histNBins G) ++
    "|lbb=" ++ showRats (histLowerBounds G)

/-- round 5: `nsi_eigenvector_centrality`.  For the vector `x` the implementation returned (its
floats as exact rationals): the n.s.i. adjacency matrix applied to it, the cross-multiplied
eigen-residual, the code's normalisation applied to it again, and the flags "all entries positive"
/ "the network is connected" (the hypotheses `PosVec` / `Connected` of
`nsi_eigenvector_centrality_split`). -/
def eigAll (G : Gr) (x : Nat → Rat) : String :=
  let idx := List.range G.n
  "ax=" ++ showRats (idx.map fun i => nsiAdjApply G x i) ++
    "|resid=" ++ showRats (eigResid G x) ++
    "|norm=" ++ showRats (idx.map fun i => ecNorm G.n x i) ++
    "|pos=" ++ (if idx.all fun i => decide (0 < x i) then "1" else "0") ++
    "|conn=" ++ (if isConnected G then "1" else "0")

/-- round 5: the per-component wrapper of the two random-walk betweennesses
(`Model/NsiComp.lean`) on any undirected network: the component lists, the six argument patterns
through the component loop with copy-back, and the flag "the loop stores at every node the value
of its own component's sub-network at its position there" (`perNode`; round 5c: proved for every
undirected network, `per_component_loop_eq_per_node` — the flag is a cross-check only).
Round 5d: the flag `csolves` — the Gauss–Jordan grounded inverse of every component with at least
two nodes satisfies `SolvesL` / `SolvesR` exactly (the only hypotheses of
`nsi_newman_wrapped_split_checked`; the Arenas wrapper needs none, its solves are verified inside
`arenasAll`).  Round 5e: the flag is true by theorem wherever the loop returns an array
(`newman_tof_solves`, `Lemmas/NsiGJ.lean`: C18's Gauss–Jordan returns a two-sided inverse whenever
it returns); `nsi_newman_wrapped_split_unconditional` does not use it — a cross-check only. -/
def compAll (G : Gr) : String :=
  let idx := List.range G.n
  let opt (o : Option (List Rat)) : String := match o with | some l => showRats l | none => "singular"
  let sgl (ends : Bool) : Nat → Rat := fun a => if ends then G.w a * G.w a else 0
  let fN (ends : Bool) : Gr → Option (List Rat) := fun H => newmanAll H ends
  let fA (twin excl : Bool) : Gr → Option (List Rat) := fun H =>
    let sg : Nat → Nat → Rat := if twin then fun a b => eval H [a, b] M.nsiTwinness else fun _ _ => 1
    match arenasAll H sg excl with
    | some (l, true) => some l
    | _ => none
  let agree (whole : Option (List Rat)) (single : Nat → Rat) (f : Gr → Option (List Rat)) : Bool :=
    match whole with
    | none => false
    | some l => idx.all fun a => perNode G single f a == some (l.getD a 0)
  let n0 := newmanWrapped G false
  let n1 := newmanWrapped G true
  let a1 := arenasWrapped G false true
  let a2 := arenasWrapped G false false
  let a3 := arenasWrapped G true true
  let a4 := arenasWrapped G true false
  let ok := agree n0 (sgl false) (fN false) && agree n1 (sgl true) (fN true) &&
    agree a1 (fun _ => 0) (fA false true) && agree a2 (fun _ => 0) (fA false false) &&
    agree a3 (fun _ => 0) (fA true true) && agree a4 (fun _ => 0) (fA true false)
  -- round 5d: the hypotheses of `nsi_newman_wrapped_split_checked` (exact check of SolvesL /
  -- SolvesR for the Gauss–Jordan inverse of every component with at least two nodes)
  let csolves := (compList G).all fun nodes =>
    decide (nodes.length < 2) || newmanSolves (subGr G nodes)
  "comps=" ++ join ((compList G).map showNats) ";" ++
    "|newman=" ++ opt n0 ++ "|newman_ends=" ++ opt n1 ++
    "|arenas=" ++ opt a1 ++ "|arenas_incl=" ++ opt a2 ++ "|arenas_twin=" ++ opt a3 ++
    "|arenas_incl_twin=" ++ opt a4 ++ "|pernode=" ++ (if ok then "1" else "0") ++
    "|csolves=" ++ (if csolves then "1" else "0")

def answer (toks : List String) : String :=
  match toks with
  | ["eval", tw, n, adj, w, la0, la1, g0, g1, dist] =>
      (match rat? tw with
       | some t => evalAll (mkGr n adj w la0 la1 g0 g1 dist) t
       | none => "bad-tw")
  | ["split", v, p, n, adj, w, la0, la1, g0, g1, dist] =>
      (match rat? p with
       | some pp => showSplit (split (mkGr n adj w la0 la1 g0 g1 dist) v.toNat! pp)
       | none => "bad-p")
  | ["evalsplit", tw, v, p, n, adj, w, la0, la1, g0, g1, dist] =>
      (match rat? tw, rat? p with
       | some t, some pp => evalAll (split (mkGr n adj w la0 la1 g0 g1 dist) v.toNat! pp) t
       | _, _ => "bad-args")
  | ["betw", n, adj, w, la0, la1, g0, g1, dist] =>
      betwAll (mkGr n adj w la0 la1 g0 g1 dist)
  | ["betwsplit", v, p, n, adj, w, la0, la1, g0, g1, dist] =>
      (match rat? p with
       | some pp => betwAll (split (mkGr n adj w la0 la1 g0 g1 dist) v.toNat! pp)
       | none => "bad-p")
  | ["split2", v1, p1, v2, p2, n, adj, w, la0, la1, g0, g1, dist] =>
      (match rat? p1, rat? p2 with
       | some a, some b =>
          showSplit (split (split (mkGr n adj w la0 la1 g0 g1 dist) v1.toNat! a) v2.toNat! b)
       | _, _ => "bad-p")
  | ["evalsplit2", tw, v1, p1, v2, p2, n, adj, w, la0, la1, g0, g1, dist] =>
      (match rat? tw, rat? p1, rat? p2 with
       | some t, some a, some b =>
          evalAll (split (split (mkGr n adj w la0 la1 g0 g1 dist) v1.toNat! a) v2.toNat! b) t
       | _, _, _ => "bad-args")
  | ["betwsplit2", v1, p1, v2, p2, n, adj, w, la0, la1, g0, g1, dist] =>
      (match rat? p1, rat? p2 with
       | some a, some b =>
          betwAll (split (split (mkGr n adj w la0 la1 g0 g1 dist) v1.toNat! a) v2.toNat! b)
       | _, _ => "bad-p")
  | ["rw", k, n, adj, w, la0, la1, g0, g1, dist] =>
      rwAll (mkGr n adj w la0 la1 g0 g1 dist) k.toNat!
  | ["rwsplit", k, v, p, n, adj, w, la0, la1, g0, g1, dist] =>
      (match rat? p with
       | some pp => rwAll (split (mkGr n adj w la0 la1 g0 g1 dist) v.toNat! pp) k.toNat!
       | none => "bad-p")
  | ["eig", x, n, adj, w, la0, la1, g0, g1, dist] =>
      let X := rats x
      eigAll (mkGr n adj w la0 la1 g0 g1 dist) (fun k => X.getD k 0)
  | ["eigsplit", v, p, x, n, adj, w, la0, la1, g0, g1, dist] =>
      (match rat? p with
       | some pp =>
          let X := rats x
          let G := mkGr n adj w la0 la1 g0 g1 dist
          eigAll (split G v.toNat! pp) (fun k => X.getD (collapse G.n v.toNat! k) 0)
       | none => "bad-p")
  | ["comp", n, adj, w, la0, la1, g0, g1, dist] =>
      compAll (mkGr n adj w la0 la1 g0 g1 dist)
  | ["compsplit", v, p, n, adj, w, la0, la1, g0, g1, dist] =>
      (match rat? p with
       | some pp => compAll (split (mkGr n adj w la0 la1 g0 g1 dist) v.toNat! pp)
       | none => "bad-p")
  | _ => "bad-request"

def main : IO Unit := runDriver answer
