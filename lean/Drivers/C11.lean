import Pyunicorn.Model.Proto
import Pyunicorn.Model.Cross
import Pyunicorn.Model.CrossBetw
import Pyunicorn.Model.CrossCCN
import Pyunicorn.Model.CrossISRN
/-! Line-protocol driver for C11.

Request: `<measure> <directed 0/1> <N> <A> <w> <D> <LA> <L1> <L2> [<norm>]`
(`A` 0/1 matrix, `w` node weights, `D` path-length matrix with `inf` entries, `LA` link-attribute
matrix, unused ones `-`).  Answer: rationals separated by `,`, matrix rows by `;`,
`nan`, or `raise:<Error>`. -/
open Pyunicorn Pyunicorn.Proto Pyunicorn.Cross

def optRats (s : String) : List (Option Rat) :=
  (splitTok s ",").map fun t => if t == "inf" then none else rat? t
def optRatMat (s : String) : List (List (Option Rat)) := (splitTok s ";").map optRats

def matFn {α : Type} (rows : List (List α)) (d : α) : Nat → Nat → α :=
  let arr := rows.toArray.map List.toArray
  fun a b => (arr.getD a #[]).getD b d
def vecFn (v : List Rat) : Nat → Rat := let arr := v.toArray; fun a => arr.getD a 0

def showOpt (e : String) : Option Rat → String
  | none => e
  | some r => showRat r
def showOptRats (xs : List (Option Rat)) (e : String := "inf") : String :=
  if xs.isEmpty then "-" else join (xs.map (showOpt e))
def showOptL (e : String) : Option (List Rat) → String
  | none => e
  | some l => showRats l
def natsR (l : List Nat) : String := showNats l

def allNames : List String := [
  "cross_adjacency", "cross_adjacency_sparse", "internal_global_clustering", "internal_adjacency", "cross_link_attribute", "internal_link_attribute",
  "cross_path_lengths", "internal_path_lengths", "number_cross_links", "cross_link_density",
  "number_internal_links", "internal_link_density", "cross_degree", "cross_indegree",
  "cross_outdegree", "cross_strength", "cross_instrength", "cross_outstrength",
  "internal_degree", "internal_indegree", "internal_outdegree", "internal_strength", "internal_instrength", "internal_outstrength",
  "total_cross_degree", "cross_degree_density", "cross_transitivity",
  "cross_transitivity_sparse", "cross_local_clustering", "cross_local_clustering_sparse",
  "cross_global_clustering", "cross_global_clustering_sparse", "cross_average_path_length",
  "internal_average_path_length", "cross_closeness", "internal_closeness",
  "average_cross_closeness", "local_efficiency", "global_efficiency", "nsi_cross_degree",
  "nsi_internal_degree", "nsi_cross_mean_degree", "nsi_cross_edge_density",
  "nsi_cross_local_clustering", "nsi_internal_local_clustering", "nsi_cross_global_clustering",
  "nsi_cross_transitivity", "nsi_cross_closeness_centrality",
  "nsi_internal_closeness_centrality", "nsi_cross_average_path_length",
  "cross_betweenness", "internal_betweenness", "nsi_cross_betweenness"]

/-- the definition layer of the betweenness delegates (exponential-time enumeration of shortest
paths: requested for a sample of the cases only, request `betwdef …`) -/
def defNames : List String :=
  ["cross_betweenness", "cross_betweenness_def", "internal_betweenness", "internal_betweenness_def",
   "nsi_cross_betweenness", "nsi_cross_betweenness_def"]

/-- the BFS distances of `Pyunicorn.Net.dist`, tabulated once per request -/
def distTable (N : Nat) (A : Adj) : Pyunicorn.NetBetw.DistFn :=
  let arr := ((List.range N).map fun i => (Pyunicorn.Net.bfs N A i).toArray).toArray
  fun i j => (arr.getD i #[]).getD j none

/-- the three betweenness delegates: `AssertionError` of `Network._nsi_betweenness` on directed
networks with a link -/
def betwAnswer (directed : Bool) (N : Nat) (A : Adj) (r : Unit → List Rat) : String :=
  if !betwAssertHolds directed N A then "raise:AssertionError" else showRats (r ())

def measureOf (toks : List String) : String :=
  match toks with
  | name :: dir :: n :: a :: w :: d :: la :: l1 :: l2 :: rest =>
    let directed := dir != "0"
    let N := n.toNat!
    let A : Adj := matFn (boolMat a) false
    let W := vecFn (rats w)
    let D : Dist := matFn (optRatMat d) none
    let LA : Nat → Nat → Rat := matFn (ratMat la) 0
    let L1 := nats l1
    let L2 := nats l2
    if !(L1.all (· < N) && L2.all (· < N)) then "raise:IndexError" else
    match name with
    | "cross_adjacency" => showNatMat (blockN A L1 L2)
    | "internal_adjacency" => showNatMat (internalAdjacency A L1)
    | "cross_link_attribute" => showRatMat (block LA L1 L2)
    | "internal_link_attribute" => showRatMat (block LA L1 L1)
    | "cross_path_lengths" => join ((block D L1 L2).map (showOptRats ·)) ";"
    | "internal_path_lengths" => join ((block D L1 L1).map (showOptRats ·)) ";"
    | "number_cross_links" =>
        if directed then "raise:NetworkError" else toString (numberCrossLinks A L1 L2)
    | "cross_link_density" =>
        if directed then "raise:NetworkError"
        else showOpt "raise:ZeroDivisionError" (crossLinkDensity A L1 L2)
    | "number_internal_links" => toString (numberInternalLinks directed A L1)
    | "internal_link_density" =>
        showOpt "raise:ZeroDivisionError" (internalLinkDensity directed A L1)
    | "cross_degree" => natsR (crossDegree directed A L1 L2)
    | "cross_indegree" => natsR (crossInDegree A L1 L2)
    | "cross_outdegree" => natsR (crossOutDegree A L1 L2)
    | "cross_strength" => showRats (crossStrength directed LA L1 L2)
    | "cross_instrength" => showRats (crossInStrength LA L1 L2)
    | "cross_outstrength" => showRats (crossOutStrength LA L1 L2)
    | "internal_degree" => natsR (crossDegree directed A L1 L1)
    | "internal_indegree" => natsR (crossInDegree A L1 L1)
    | "internal_outdegree" => natsR (crossOutDegree A L1 L1)
    | "internal_strength" => showRats (crossStrength directed LA L1 L1)
    | "internal_instrength" => showRats (crossInStrength LA L1 L1)
    | "internal_outstrength" => showRats (crossOutStrength LA L1 L1)
    | "total_cross_degree" => showOpt "nan" (totalCrossDegree directed A L1 L2)
    | "cross_degree_density" => showOptL "nan" (crossDegreeDensity directed A L1 L2)
    | "k_cross_transitivity" => showRat (crossTransitivity A L1 L2)
    | "cross_transitivity" => showRat (crossTransitivity A L1 L2)
    | "cross_transitivity_sparse" => showRat (crossTransitivitySparse directed A L1 L2)
    | "k_cross_local_clustering" =>
        match rest with
        | [nm] => showRats (clcKernel A (rats nm) L1 L2)
        | _ => "bad-request"
    | "cross_local_clustering" => showRats (crossLocalClustering directed A L1 L2)
    | "cross_local_clustering_sparse" => showRats (clcSparse directed A L1 L2)
    | "cross_global_clustering" => showOpt "nan" (crossGlobalClustering directed A L1 L2)
    | "cross_global_clustering_sparse" => showOpt "nan" (crossGlobalClusteringSparse directed A L1 L2)
    | "cross_average_path_length" => showOpt "nan" (crossAPL D L1 L2)
    | "internal_average_path_length" => showOpt "nan" (internalAPL D L1)
    | "cross_closeness" => showRats (crossCloseness N D L1 L2)
    | "internal_closeness" => showRats (internalCloseness D L1)
    | "average_cross_closeness" => showOpt "nan" (averageCrossCloseness N D L1 L2)
    | "local_efficiency" => showOptL "inf" (localEfficiency D L1 L2)
    | "global_efficiency" =>
        match globalEfficiency D L1 L2 with
        | .val r => showRat r
        | .inf => "inf"
        | .nan => "nan"
    | "cross_adjacency_sparse" => showNatMat (blockN A L1 L2)
    | "internal_global_clustering" => showOpt "nan" (internalGlobalClustering N A L1)
    | "nsi_cross_degree" => showRats (nsiCrossDegree A W L1 L2)
    | "nsi_internal_degree" => showRats (nsiCrossDegree A W L1 L1)
    | "nsi_cross_mean_degree" => showOpt "nan" (nsiCrossMeanDegree A W L1 L2)
    | "nsi_cross_edge_density" => showOpt "nan" (nsiCrossEdgeDensity A W L1 L2)
    | "k_nsi_cross_local_clustering" => showRats (nsiClcKernel A W L1 L2)
    | "nsi_cross_local_clustering" => showRats (nsiCrossLocalClustering A W L1 L2)
    | "nsi_internal_local_clustering" => showRats (nsiCrossLocalClustering A W L1 L1)
    | "nsi_cross_global_clustering" => showOpt "nan" (nsiCrossGlobalClustering A W L1 L2)
    | "k_nsi_cross_transitivity" =>
        let t := nsiCtSums A W L1 L2
        if t.2 = 0 then "raise:ZeroDivisionError" else showRat (t.1 / t.2)
    | "nsi_cross_transitivity" => showOpt "raise:ZeroDivisionError" (nsiCrossTransitivity A W L1 L2)
    | "nsi_cross_closeness_centrality" => showOptRats (nsiCrossCloseness N D W L1 L2) "inf"
    | "nsi_internal_closeness_centrality" => showOptRats (nsiCrossCloseness N D W L1 L1) "inf"
    | "nsi_cross_average_path_length" =>
        let p := nsiCrossAPLParts N D W L1 L2
        if p.2 = 0 then (if p.1 = 0 then "nan" else if p.1 > 0 then "inf" else "-inf")
        else showOpt "nan" (nsiCrossAPL N D W L1 L2)
    | "cross_betweenness" => betwAnswer directed N A fun _ => crossBetweenness N A L1 L2
    | "internal_betweenness" => betwAnswer directed N A fun _ => internalBetweenness N A L1
    | "nsi_cross_betweenness" => betwAnswer directed N A fun _ => nsiCrossBetweenness N A W L1 L2
    | "cross_betweenness_def" => betwAnswer directed N A fun _ =>
        Pyunicorn.NetBetw.nsiBetweennessDef N A (fun _ => 1) (distTable N A) (srcMask N L1) L2
    | "internal_betweenness_def" => betwAnswer directed N A fun _ =>
        Pyunicorn.NetBetw.nsiBetweennessDef N A (fun _ => 1) (distTable N A) (srcMask N L1) L1
    | "nsi_cross_betweenness_def" => betwAnswer directed N A fun _ =>
        Pyunicorn.NetBetw.nsiBetweennessDef N A W (distTable N A) (srcMask N L1) L2
    | _ => "bad-request"
  | _ => "bad-request"

/-- `net <directed> <N> <A> <w> <D>`: the single-network methods of `Network` the whole-network
limits refer to (`n_links`, `link_density`, `nsi_degree`, `nsi_local_clustering`,
`nsi_global_clustering`, `nsi_transitivity`, `nsi_closeness`, `nsi_average_path_length`) -/
def showXR : Option XR → String
  | none => "raise:ZeroDivisionError"
  | some (.val r) => showRat r
  | some .inf => "inf"
  | some .nan => "nan"

def netAnswer (dir n a w d : String) (dw : String := "-") : String :=
  let directed := dir != "0"
  let N := n.toNat!
  let A : Adj := matFn (boolMat a) false
  let W := vecFn (rats w)
  let D : Dist := matFn (optRatMat d) none
  let Dw : Dist := matFn (optRatMat dw) none
  let R := List.range N
  let ni := "raise:NotImplementedError"
  join [
    "n_links=" ++ toString (netNLinks directed N A),
    "link_density=" ++ showOpt "raise:ZeroDivisionError" (netLinkDensity N A),
    "nsi_degree=" ++ showRats (R.map (Pyunicorn.Net.nsiDegree directed N A W)),
    "nsi_local_clustering=" ++
      (if directed then ni else showRats (R.map (Pyunicorn.Net.nsiLocalClustering N A W))),
    "nsi_global_clustering=" ++
      (if directed then ni else showOpt "nan" (netNsiGlobalClustering N A W)),
    "nsi_transitivity=" ++ (if directed then ni else showOpt "nan" (netNsiTransitivity N A W)),
    "nsi_closeness=" ++ showOptRats (R.map (netNsiCloseness N D W)) "inf",
    "nsi_average_path_length=" ++ showOpt "nan" (netNsiAPL N D W),
    "global_efficiency=" ++ showXR (netGlobalEfficiency N D),
    "global_efficiency_w=" ++ showXR (netGlobalEfficiency N Dw),
    "closeness_w=" ++ showRats (R.map (Pyunicorn.Net.closenessW N Dw)),
    "closeness_conv=" ++ showRats (R.map (closenessConv ((N : Rat) - 1) N Dw)),
    "interregional_betweenness=" ++ betwAnswer directed N A (fun _ => netInterregionalBetweenness N A),
    "nsi_betweenness=" ++ betwAnswer directed N A (fun _ => netNsiBetweenness N A W),
    "path_lengths=" ++ join (R.map fun i => showOptRats (R.map fun j => distQ N A i j)) ";"] "|"

/-- `normprod <m> <k,k,…>`: `k·(k−1)` evaluated in the signed integer type of range `[-m, m)` -/
def normProdAnswer (m ks : String) : String :=
  let mi : Int := m.toInt!
  join ((splitTok ks ",").map fun t => toString (normProdW mi t.toInt!))

/-- round 5: `ccn <directed> <N1> <N> <A> <D> <Dw> <G> <S>`: every layer wrapper of
`CoupledClimateNetwork` (model `Pyunicorn.CrossCCN`) at once; pairs are `first&second` -/
def pairS (x y : String) : String := x ++ "&" ++ y
def showOptMat (B : List (List (Option Rat))) : String :=
  if B.isEmpty then "-" else join (B.map (showOptRats ·)) ";"
def pairOpt (e : String) (p : Option Rat × Option Rat) : String :=
  pairS (showOpt e p.1) (showOpt e p.2)
def pairOptRaise (e : String) (p : Option Rat × Option Rat) : String :=
  match p with
  | (some x, some y) => pairS (showRat x) (showRat y)
  | _ => e
def pairRats (p : List Rat × List Rat) : String := pairS (showRats p.1) (showRats p.2)

def ccnAnswer (dir n1 n a d dw g s : String) : String :=
  let directed := dir != "0"
  let N1 := n1.toNat!
  let N := n.toNat!
  let A : Adj := matFn (boolMat a) false
  let D : Dist := matFn (optRatMat d) none
  let Dw : Dist := matFn (optRatMat dw) none
  let G : Nat → Nat → Rat := matFn (ratMat g) 0
  let S : Nat → Nat → Rat := matFn (ratMat s) 0
  let ne := "raise:NetworkError"
  join [
    "nodes_1=" ++ showNats (CrossCCN.nodes1 N1),
    "nodes_2=" ++ showNats (CrossCCN.nodes2 N1 N),
    "adjacency_1=" ++ showNatMat (CrossCCN.adjacency1 A N1),
    "adjacency_2=" ++ showNatMat (CrossCCN.adjacency2 A N1 N),
    "cross_layer_adjacency=" ++ showNatMat (CrossCCN.crossLayerAdjacency A N1 N),
    "similarity_measure_1=" ++ showRatMat (CrossCCN.similarityMeasure1 S N1 N),
    "similarity_measure_2=" ++ showRatMat (CrossCCN.similarityMeasure2 S N1 N),
    "cross_similarity_measure=" ++ showRatMat (CrossCCN.crossSimilarityMeasure S N1 N),
    "path_lengths_1=" ++ showOptMat (CrossCCN.pathLengths1 D N1),
    "path_lengths_2=" ++ showOptMat (CrossCCN.pathLengths2 D N1 N),
    "cross_path_lengths=" ++ showOptMat (CrossCCN.crossPathLengths D N1 N),
    "path_lengths_1(la)=" ++ showOptMat (CrossCCN.pathLengths1 Dw N1),
    "path_lengths_2(la)=" ++ showOptMat (CrossCCN.pathLengths2 Dw N1 N),
    "cross_path_lengths(la)=" ++ showOptMat (CrossCCN.crossPathLengths Dw N1 N),
    "cross_link_distance=" ++ showRatMat (CrossCCN.crossLinkDistance G N1 N),
    "cross_average_link_distance=" ++
      showOptRats (CrossCCN.crossAverageLinkDistance false A G N1 N) "nan",
    "cross_average_link_distance(reverse)=" ++
      showOptRats (CrossCCN.crossAverageLinkDistance true A G N1 N) "nan",
    "number_cross_layer_links=" ++
      (if directed then ne else toString (CrossCCN.numberCrossLayerLinks A N1 N)),
    "number_internal_links=" ++
      (let p := CrossCCN.numberInternalLinks directed A N1 N; pairS (toString p.1) (toString p.2)),
    "cross_link_density=" ++
      (if directed then ne else showOpt "raise:ZeroDivisionError" (CrossCCN.crossLinkDensity A N1 N)),
    "internal_link_density=" ++
      pairOptRaise "raise:ZeroDivisionError" (CrossCCN.internalLinkDensity directed A N1 N),
    "internal_global_clustering=" ++ pairOpt "nan" (CrossCCN.internalGlobalClustering A N1 N),
    "cross_global_clustering=" ++ pairOpt "nan" (CrossCCN.crossGlobalClustering directed A N1 N),
    "cross_transitivity=" ++
      (let p := CrossCCN.crossTransitivity A N1 N; pairS (showRat p.1) (showRat p.2)),
    "cross_average_path_length=" ++ showOpt "nan" (CrossCCN.crossAPL D N1 N),
    "cross_average_path_length(la)=" ++ showOpt "nan" (CrossCCN.crossAPL Dw N1 N),
    "internal_average_path_length=" ++ pairOpt "nan" (CrossCCN.internalAPL D N1 N),
    "internal_average_path_length(la)=" ++ pairOpt "nan" (CrossCCN.internalAPL Dw N1 N),
    "cross_degree=" ++
      (let p := CrossCCN.crossDegree directed A N1 N; pairS (showNats p.1) (showNats p.2)),
    "internal_degree=" ++
      (let p := CrossCCN.internalDegree directed A N1 N; pairS (showNats p.1) (showNats p.2)),
    "cross_local_clustering=" ++ pairRats (CrossCCN.crossLocalClustering directed A N1 N),
    "cross_closeness=" ++ pairRats (CrossCCN.crossCloseness D N1 N),
    "cross_closeness(la)=" ++ pairRats (CrossCCN.crossCloseness Dw N1 N),
    "internal_closeness=" ++ pairRats (CrossCCN.internalCloseness D N1 N),
    "internal_closeness(la)=" ++ pairRats (CrossCCN.internalCloseness Dw N1 N),
    "cross_betweenness=" ++
      (if !betwAssertHolds directed N A then "raise:AssertionError"
       else pairRats (CrossCCN.crossBetweenness A N1 N)),
    "internal_betweenness_1=" ++
      (if !betwAssertHolds directed N A then "raise:AssertionError"
       else pairRats (CrossCCN.internalBetweenness1 A N1 N)),
    "internal_betweenness_2=" ++
      (if !betwAssertHolds directed N A then "raise:AssertionError"
       else pairRats (CrossCCN.internalBetweenness2 A N1 N))] "|"

/-- round 5: `isrn <N_x> <N> <R_x> <CR_xy> <R_y>`: the adjacency matrix of an
`InterSystemRecurrenceNetwork` assembled from its three recurrence matrices
(model `Pyunicorn.CrossISRN`), its four wrappers, the cross recurrence rate -/
def isrnAnswer (nx n rx cxy ry : String) : String :=
  let Nx := nx.toNat!
  let N := n.toNat!
  let Rx : Nat → Nat → Bool := matFn (boolMat rx) false
  let Cxy : Nat → Nat → Bool := matFn (boolMat cxy) false
  let Ry : Nat → Nat → Bool := matFn (boolMat ry) false
  let A0 := CrossISRN.adjacency Rx Cxy Ry Nx N
  let tab := blockN A0 (List.range N) (List.range N)
  let A : Adj := matFn (tab.map fun r => r.map (· != 0)) false
  join [
    "adjacency=" ++ showNatMat tab,
    "cross_global_clustering_xy=" ++ showOpt "nan" (CrossISRN.crossGlobalClusteringXY A Nx N),
    "cross_global_clustering_yx=" ++ showOpt "nan" (CrossISRN.crossGlobalClusteringYX A Nx N),
    "cross_transitivity_xy=" ++ showRat (CrossISRN.crossTransitivityXY A Nx N),
    "cross_transitivity_yx=" ++ showRat (CrossISRN.crossTransitivityYX A Nx N),
    "cross_recurrence_rate=" ++
      showOpt "raise:ZeroDivisionError" (CrossISRN.crossRecurrenceRate Cxy Nx (N - Nx)),
    "cross_link_density_xy=" ++ showOpt "raise:ZeroDivisionError"
      (crossLinkDensity A (CrossCCN.nodes1 Nx) (CrossCCN.nodes2 Nx N)),
    "n_links=" ++ toString (netNLinks false N A)] "|"

/-- `all …` answers every measure at once: `name=value|name=value|…` -/
def answer (toks : List String) : String :=
  match toks with
  | "all" :: args => join (allNames.map fun nm => nm ++ "=" ++ measureOf (nm :: args)) "|"
  | "betwdef" :: args => join (defNames.map fun nm => nm ++ "=" ++ measureOf (nm :: args)) "|"
  | ["net", dir, n, a, w, d] => netAnswer dir n a w d
  | ["net", dir, n, a, w, d, dw] => netAnswer dir n a w d dw
  | ["ccn", dir, n1, n, a, d, dw, g, s] => ccnAnswer dir n1 n a d dw g s
  | ["isrn", nx, n, rx, cxy, ry] => isrnAnswer nx n rx cxy ry
  | ["normprod", m, ks] => normProdAnswer m ks
  | ["sumw", m, xs] => toString (sumW m.toInt! ((splitTok xs ",").map fun t => t.toInt!))
  | _ => measureOf toks

def main : IO Unit := runDriver answer
