import Pyunicorn.Model.Proto
import Pyunicorn.Model.Net
import Pyunicorn.Model.NetBetw
import Pyunicorn.Model.NetBetwDef
import Pyunicorn.Model.NetRW
/-! Line-protocol driver for C03: one request per line on stdin, one answer per line. -/
open Pyunicorn Pyunicorn.Proto Pyunicorn.Net

def adjOf (m : List (List Bool)) : Adj := fun i j => (m.getD i []).getD j false
def ratFn (v : List Rat) : Nat → Rat := fun i => v.getD i 0
def natFn (v : List Nat) : Nat → Nat := fun i => v.getD i 0
def ratMatFn (m : List (List Rat)) : Nat → Nat → Rat := fun i j => (m.getD i []).getD j 0

def showOptRat : Option Rat → String
  | none => "nan"
  | some r => showRat r
def showOptNat : Option Nat → String
  | none => "inf"
  | some d => toString d

/-- matrices with `x` for `inf` -/
def optRats (s : String) : List (Option Rat) := (splitTok s ",").map fun t => if t == "x" then none else rat? t
def optRatMat (s : String) : List (List (Option Rat)) := (splitTok s ";").map optRats
def optMatFn (m : List (List (Option Rat))) : Nat → Nat → Option Rat :=
  fun i j => (m.getD i []).getD j none

def rows (n : Nat) (f : Nat → Nat → String) : String :=
  if n = 0 then "-" else join ((List.range n).map fun i => join ((List.range n).map (f i))) ";"
def vec (n : Nat) (f : Nat → String) : String :=
  if n = 0 then "-" else join ((List.range n).map f)

def answer (toks : List String) : String :=
  match toks with
  | ["deg", d, m] =>
    let M := boolMat m; let n := M.length; let a := adjOf M; let dir := d == "1"
    join [vec n fun i => toString (indeg n a i), vec n fun i => toString (outdeg n a i),
          vec n fun i => toString (degree dir n a i), vec n fun i => toString (bildeg n a i)] ";"
  | ["strength", w] =>
    let W := ratMat w; let n := W.length; let f := ratMatFn W
    join [vec n fun i => showRat (instrength n f i), vec n fun i => showRat (outstrength n f i),
          vec n fun i => showRat (bilstrength n f i)] ";"
  | ["lap", d, dirn, m] =>
    let M := boolMat m; let n := M.length; let a := adjOf M
    let dg : Nat → Nat := if d == "1" then (if dirn == "in" then indeg n a else outdeg n a)
                          else degree false n a
    rows n fun i j => toString (laplacian a dg i j)
  | ["motif", m] =>
    let M := boolMat m; let n := M.length; let a := adjOf M
    join [vec n fun i => showRat (cycleC n a i), vec n fun i => showRat (midC n a i),
          vec n fun i => showRat (inC n a i), vec n fun i => showRat (outC n a i)] ";"
  | ["clust", m] =>
    let M := boolMat m; let n := M.length; let a := adjOf M
    join [vec n fun i => showRat (localClustering n a i), showOptRat (transitivity n a)] ";"
  | ["matching", m] =>
    let M := boolMat m; let n := M.length; let a := adjOf M
    rows n fun i j => showOptRat (matching n a i j)
  | ["cliq", o, m, dg] =>
    let M := boolMat m; let n := M.length; let a := adjOf M
    showRats (cliquishness o.toNat! n a (natFn (nats dg)))
  | ["cliqdef", m] =>
    let M := boolMat m; let n := M.length; let a := adjOf M
    join [vec n fun i => toString (k3InNbhd n a i), vec n fun i => toString (k4InNbhd n a i)] ";"
  | ["paths", m] =>
    let M := boolMat m; let n := M.length; let a := adjOf M
    rows n fun i j => showOptNat (dist n a i j)
  | ["pathmeas", m] =>
    let M := boolMat m; let n := M.length; let a := adjOf M
    let D := (List.range n).map fun i => bfs n a i
    let d : Nat → Nat → Option Nat := fun i j => (D.getD i []).getD j none
    join [showRat (globalEfficiency n d), vec n fun i => showOptRat (closeness n d i),
          vec n fun i => showRat (nsiCloseness n d (fun _ => 1) i)] ";"
  | ["vuln", m] =>
    let M := boolMat m; let n := M.length; let a := adjOf M
    vec n fun i => showOptRat (localVulnerability n a i)
  | ["upath", m] =>
    let M := boolMat m; let n := M.length; let a := adjOf M
    let D := (List.range n).map fun i => bfs n a i
    let d : Nat → Nat → Option Nat := fun i j => (D.getD i []).getD j none
    join [showOptRat (avgPathLengthU n d), toString (diameter n d)] ";"
  | ["wpath", dm] =>
    let D := optRatMat dm; let n := D.length; let d := optMatFn D
    join [showOptRat (avgPathLength n d), vec n fun i => showRat (closenessW n d i)] ";"
  | ["core", d, m] =>
    let M := boolMat m; let n := M.length; let a := adjOf M
    showNats (coreness n a (d == "1"))
  | ["assort", d, m] =>
    let M := boolMat m; let n := M.length; let a := adjOf M
    match assortativity (d == "1") n a with
    | none => "raise:ZeroDivision"
    | some r => showRat r
  | ["nsiunit", d, m] =>
    let M := boolMat m; let n := M.length; let a := adjOf M; let dir := d == "1"
    let w : Nat → Rat := fun _ => 1
    join [vec n fun i => showRat (nsiIndeg n a w i), vec n fun i => showRat (nsiOutdeg n a w i),
          vec n fun i => showRat (nsiDegree dir n a w i)] ";"
  | ["nsiclust", m, w] =>
    let M := boolMat m; let n := M.length; let a := adjOf M
    vec n fun i => showRat (nsiLocalClustering n a (ratFn (rats w)) i)
  | ["linkwrites", al, vals] =>
    let w := linkWrites (natMat' al) (rats vals)
    if w.isEmpty then "-" else join (w.map fun (i, j, v) => s!"{i}:{j}:{showRat v}")
  | ["betw", m, w, src, tg] =>
    let M := boolMat m; let n := M.length; let a := adjOf M
    showRats (NetBetw.nsiBetweenness n a (ratFn (rats w)) (bools src) (nats tg))
  | ["betwdef", m, w, src, tg] =>
    let M := boolMat m; let n := M.length; let a := adjOf M
    let D := (List.range n).map fun i => bfs n a i
    let d : NetBetw.DistFn := fun i j => (D.getD i []).getD j none
    showRats (NetBetw.nsiBetweennessDef n a (ratFn (rats w)) d (bools src) (nats tg))
  | ["betwenum", m, w, src, tg] =>
    -- round 5: the published double sum over the explicitly enumerated shortest paths
    let M := boolMat m; let n := M.length; let a := adjOf M
    let D := (List.range n).map fun i => bfs n a i
    let d : NetBetw.DistFn := fun i j => (D.getD i []).getD j none
    let wf := ratFn (rats w); let sm := bools src; let tl := nats tg
    showRats ((List.range n).map fun v => NetBetw.nsiBetweennessEnum n a wf d sm tl v)
  | ["betwapi", m, w, src, tg, nsi] =>
    -- round 5: the public method `nsi_betweenness(sources, targets, nsi)`; `none` = default argument
    let M := boolMat m; let n := M.length; let a := adjOf M
    let so := if src == "none" then none else some (nats src)
    let to := if tg == "none" then none else some (nats tg)
    showRats (NetBetw.apiBetweenness n a (ratFn (rats w)) so to (nsi == "1"))
  | ["betwcount", m, src, tg] =>
    -- round 5: interregional betweenness by counting enumerated shortest paths
    let M := boolMat m; let n := M.length; let a := adjOf M
    let D := (List.range n).map fun i => bfs n a i
    let d : NetBetw.DistFn := fun i j => (D.getD i []).getD j none
    let S := nats src; let T := nats tg
    showRats ((List.range n).map fun v => NetBetw.interregionalCount n a d S T v)
  | ["sigma", m, w, j] =>
    -- weighted numbers of shortest paths from `j`: by enumeration of all paths, and by recursion
    let M := boolMat m; let n := M.length; let a := adjOf M
    let D := (List.range n).map fun i => bfs n a i
    let d : NetBetw.DistFn := fun i j => (D.getD i []).getD j none
    let wf := ratFn (rats w); let jj := j.toNat!
    join [vec n fun l => showRat (NetBetw.sigmaPaths n a wf d jj l),
          vec n fun l => showRat (NetBetw.sigma n a wf d jj l)] ";"
  | ["wlc", w] =>
    let W := ratMat w; let n := W.length; let f := ratMatFn W
    vec n fun i => showOptRat (weightedLocalClustering n f i)
  | ["motifw", m, cm] =>
    -- link-weighted motif clustering: adjacency matrix and the matrix of cubic roots of the link weights
    let M := boolMat m; let n := M.length; let a := adjOf M; let c := ratMatFn (ratMat cm)
    join [vec n fun i => showRat (cycleCW n a c i), vec n fun i => showRat (midCW n a c i),
          vec n fun i => showRat (inCW n a c i), vec n fun i => showRat (outCW n a c i)] ";"
  | ["newman", m] =>
    let M := boolMat m; let n := M.length; let a := adjOf M
    match newmanBetweenness n a with
    | none => "singular"
    | some r => showRats r
  | ["newmankernel", am, vm, N, st, en] =>
    -- the Cython kernel at its own boundary: rows `this_A`, full `V`
    let M := boolMat am; let V := ratMatFn (ratMat vm)
    showRats (newmanKernel (fun i j => (M.getD i []).getD j false) V N.toNat! st.toNat! en.toNat!)
  | ["newmandef", m] =>
    -- per component of size >= 2: reduced Kirchhoff matrix times the computed inverse is the identity,
    -- and kernel + normalisation equals the definition `Σ_{t<s} I_i^{st} / ((N-1)/2)`
    -- (round 5e: both are theorems now — `ratInv_correct`, `newmanComponent_eq_def` in Properties/C03.lean;
    -- the evaluation stays as a cross-check of the compiled model)
    let M := boolMat m; let n := M.length; let a := adjOf M
    let ok := (components n a).all fun comp =>
      let N := comp.length
      if N < 2 then true else
      let b := subAdj a comp
      match ratInv (reducedKirchhoff N b) with
      | none => false
      | some inv =>
        let K := matFn (reducedKirchhoff N b); let V := matFn inv
        ((List.range (N - 1)).all fun i => (List.range (N - 1)).all fun j =>
            sumToQ (N - 1) (fun k => K i k * V k j) == (if i = j then 1 else 0)) &&
        ((List.range N).all fun i =>
            newmanNormalise N (newmanRow N (b i) V i) == newmanDef N b V i)
    if ok then "1" else "0"
  | _ => "bad-request"
where
  /-- adjacency lists: rows separated by `;`, an empty row is `-` -/
  natMat' (s : String) : List (List Nat) := (s.splitOn ";").map nats

def main : IO Unit := runDriver answer
