import Pyunicorn.Model.Proto
import Pyunicorn.Model.Pure
import Pyunicorn.Model.PureWindow
import Pyunicorn.Generated.StructC06
/-! Line-protocol driver for C06. -/
open Pyunicorn Pyunicorn.Proto Pyunicorn.Pure Pyunicorn.Generated

/-- abstract table of a class: `n` cached methods; method `i` has an unrestored edit on the
result of method `j` for every pair `i:j` listed (taken from the effect summaries) -/
def mkTable (n : Nat) (pairs : List (Nat × Nat)) : List Method :=
  (List.range n).map fun i =>
    ⟨[], [], (pairs.filter (·.1 == i)).map fun p => Target.result p.2⟩

def parsePairs (s : String) : List (Nat × Nat) :=
  (splitTok s ",").filterMap fun t =>
    match t.splitOn ":" with
    | [a, b] => do some ((← a.toNat?), (← b.toNat?))
    | _ => none

def stepLetter : WStep → String
  | .mask => "m" | .edit => "e" | .restore => "r" | .comp => "c"
  | .call _ => "k" | .exit _ => "x" | .other _ => "o"
  | .tryB => "t" | .fin => "f" | .tryE => "y"

def findWindow (site : String) : Option Window :=
  StructC06.windows.find? (·.site == site)

/-- contents of the shared array before every step of the block and at the end, on the real
content (integers, `inf` coded as `-1`), `c` = the temporary constant -/
def windowTrace (w : Window) (c : Int) (x : List (List Int)) : List (List Int) :=
  match w.form with
  | .maskInf => wtrace (maskOps (· == (-1 : Int)) c (-1)) (WState.start x.flatten []) w.steps
  | .diagInfZero => (wtrace (diagOps c (0 : Int)) (WState.start x ()) w.steps).map List.flatten

/-- the block is run with step `k` raising: final content of the shared array and whether
control has left the block -/
def windowRaise (w : Window) (c : Int) (k : Nat) (x : List (List Int)) : List Int × Bool :=
  let ch := (List.replicate k false) ++ [true]
  match w.form with
  | .maskInf =>
      let r := wexec (maskOps (· == (-1 : Int)) c (-1)) (WState.start x.flatten []) w.steps ch
      (r.cur, r.left)
  | .diagInfZero =>
      let r := wexec (diagOps c (0 : Int)) (WState.start x ()) w.steps ch
      (r.cur.flatten, r.left)

def answer (toks : List String) : String :=
  match toks with
  | ["wraise", site, c, k, content] => match findWindow site with
      | none => "no-window"
      | some w =>
        let r := windowRaise w (c.toInt?.getD 0) k.toNat! (intMat content)
        showInts r.1 ++ "|" ++ (if r.2 then "1" else "0")
  | ["wok"] => if windowsOK StructC06.windows then "1" else "0"
  | ["woffenders"] => let o := windowOffenders StructC06.windows
      if o.isEmpty then "-" else join o ","
  | ["wsteps", site] => match findWindow site with
      | none => "no-window"
      | some w => join (w.steps.map stepLetter) ""
  | ["wtrace", site, c, content] => match findWindow site with
      | none => "no-window"
      | some w => join ((windowTrace w (c.toInt?.getD 0) (intMat content)).map showInts) "|"
  | ["clean"] => if effectsClean StructC06.effects then "1" else "0"
  | ["offenders"] => let o := offenders StructC06.effects
      if o.isEmpty then "-" else join o ","
  | ["count"] => toString StructC06.effects.length
  | ["kclean"] => if kernelCallsClean StructC06.kernels StructC06.kernelCalls then "1" else "0"
  | ["koffenders"] => let o := kernelOffenders StructC06.kernels StructC06.kernelCalls
      if o.isEmpty then "-" else join o ","
  | ["kwritten", k, p] => if paramWritten StructC06.kernels k p then "1" else "0"
  | ["ctorclean"] =>
      if ctorAliasesUnedited StructC06.ctorAliases StructC06.fieldEdits then "1" else "0"
  | ["ctoroffenders"] => let o := ctorOffenders StructC06.ctorAliases StructC06.fieldEdits
      if o.isEmpty then "-" else join o ","
  | ["aok"] => if StructC06.attrTables.all (fun c => attrTableOK c.2) then "1" else "0"
  | ["aoffenders"] =>
      let o := StructC06.attrTables.flatMap fun c => (attrOffenders c.2).map fun m => c.1 ++ "." ++ m
      if o.isEmpty then "-" else join o ","
  | ["arun", cls, qs, reps, links] =>
      -- a query chain on one object: per query whether it observes something else than on a
      -- fresh object, then the attribute store left behind (slots in order of first appearance).
      -- Generating expressions are compared through `reps` (expressions with equal values on
      -- this object share a representative; 999 = not evaluable)
      match StructC06.attrTables.lookup cls with
      | none => "no-table"
      | some tbl0 =>
        -- links = 0: the object has no links, nothing is ever stored (`linkless`)
        let tbl := if links == "0" then linkless tbl0 else tbl0
        let names := splitTok qs ","
        let rl := nats reps
        let rep (g : Nat) : Nat := rl.getD g g
        let obs := arun tbl AState.init names
        let fin := showSlots (afinal tbl AState.init names)
        let flags := (names.zip obs).map fun p =>
          if p.2.map (Option.map rep) == (afresh tbl p.1).map (Option.map rep) then "0" else "1"
        join flags "," ++ " | " ++
          (if fin.isEmpty then "-" else join (fin.map fun p => p.1 ++ "=" ++ toString (rep p.2)) ";")
  | ["run", n, pairs, qs] =>
      showBools (run (mkTable n.toNat! (parsePairs pairs)) 4 State.init (nats qs))
  | _ => "bad-request"

def main : IO Unit := runDriver answer
