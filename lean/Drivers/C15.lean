import Pyunicorn.Model.Proto
import Pyunicorn.Model.Surrogates
import Pyunicorn.Model.SurrogatesKernel
import Pyunicorn.Model.SurrogatesKernelW
import Pyunicorn.Model.SurrogatesObject
import Pyunicorn.Model.SurrogatesMethod
import Pyunicorn.Model.SurrogatesArgsort
import Pyunicorn.Model.SurrogatesCoupling
import Pyunicorn.Model.SurrogatesWalkK
import Pyunicorn.Generated.StructC15
/-! Line-protocol driver for C15 (surrogates).  Matrices: rows separated by `;`,
an empty row is `-`, the empty matrix is `E`; lists of matrices separated by `|`
(`E` alone = no matrix ... see `mats`). -/
open Pyunicorn Pyunicorn.Proto Pyunicorn.Surrogates

def matOf (f : String → List α) (s : String) : List (List α) :=
  if s == "E" then [] else (s.splitOn ";").map f

def matsOf (f : String → List α) (s : String) : List (List (List α)) :=
  if s == "N" then [] else (s.splitOn "|").map (matOf f)

def showMat (f : List α → String) (m : List (List α)) : String :=
  if m.isEmpty then "E" else join (m.map f) ";"

def showOpt (f : α → String) : Option α → String
  | some a => f a
  | none => "raise:IndexError"

def ratToFloat (r : Rat) : Float := Float.ofInt r.num / Float.ofNat r.den

def showFloat (x : Float) : String :=
  if x.isNaN || x.isInf then "nan" else
  let (m, e) := x.frExp
  s!"{(m.scaleB 53).toInt64.toInt}:{e - 53}"

def floatTrig : Trig Float := ⟨Float.cos, Float.sin⟩

def floatPolar : Polar Float :=
  { floatTrig with sqrt := Float.sqrt, angle := fun re im => Float.atan2 im re }

def showPairs (o : List (Float × Float)) : String :=
  join (o.map fun z => showFloat z.1 ++ "_" ++ showFloat z.2)

def floatPairs (re im : String) : List (Float × Float) :=
  ((rats re).map ratToFloat).zip ((rats im).map ratToFloat)

/-- deterministic "garbage" for the work arrays `np.empty` returns -/
def garbageR (seed : Nat) (j k : Nat) : Bool := (j * 7 + k * 3 + seed) % 3 == 0
def garbageN (seed : Nat) (j : Nat) : Int := (seed : Int) - 2 * (j : Int)

def pickOf (draws : List Rat) : Nat → Nat → Nat := floorPick (fun c => draws.getD c 0)

/-- exact unit phases: `φ` counts quarter turns, `exp(iφπ/2) ∈ {1, i, -1, -i}` -/
def quarterTrig : Trig Int :=
  ⟨fun q => [1, 0, -1, 0].getD (q % 4).toNat 0, fun q => [0, 1, 0, -1].getD (q % 4).toNat 0⟩

def showIntPairs (o : List (Int × Int)) : String :=
  join (o.map fun z => toString z.1 ++ "_" ++ toString z.2)

def modeOf (s : String) : Mode := if s == "inplace" then .inplace else .copy

def policyOf (re km : String) : Policy :=
  ⟨if re == "always" then .always else .ifStale, km == "1"⟩

/-- one call of a history: fields separated by `@` -/
def opOf (s : String) : Option Op :=
  match s.splitOn "@" with
  | ["n", d] => some (.normalize (matOf rats d))
  | ["e", e] => some (.setEmbedding (matsOf rats e))
  | ["w", thr, md] => some (.twins ((rat? thr).getD 0) md.toNat!)
  | ["t", dim, delay, thr, md, dr] =>
      some (.twinSurr dim.toNat! delay.toNat! ((rat? thr).getD 0) md.toNat! (pickOf (rats dr)))
  | _ => none

def floatNormOps : NormOps Float := ⟨(· - ·), (· / ·), (· == 0)⟩

def f32 (r : Rat) : Float32 := Float32.ofInt r.num / Float32.ofNat r.den

def float32NormOps : NormOps Float32 := ⟨(· - ·), (· / ·), (· == 0)⟩

def showRes : Res → String
  | .unit => "u"
  | .twins none => "raise"
  | .twins (some tw) => if tw.isEmpty then "N" else join (tw.map (showMat showNats)) "|"
  | .surr none => "raise"
  | .surr (some m) => showMat showRats m

def answer (toks : List String) : String :=
  match toks with
  | ["twins_kw", bits, thr, md, embs, r0, nr0] =>
      let (tw, w) := twinsKernelW bits.toNat! ((rat? thr).getD 0) md.toNat! (matsOf rats embs)
        ⟨matOf bools r0, ints nr0⟩
      join (tw.map (showMat showNats)) "|" ++ "#" ++ showMat showBools w.R ++ "#" ++ showInts w.nR
  | ["twinsurr_kw", bits, dim, delay, thr, md, seed, dr, d] =>
      showOpt (showMat showRats)
        (twinSurrogatesKW bits.toNat! (matOf rats d) dim.toNat! delay.toNat! ((rat? thr).getD 0)
          md.toNat! (pickOf (rats dr)) (garbageR seed.toNat!) (garbageN seed.toNat!))
  | ["twinsurr_src", bits, dim, delay, thr, md, seed, dr, d] =>
      showOpt (showMat showRats)
        (twinSurrogatesSrc bits.toNat! (matOf rats d) dim.toNat! delay.toNat! ((rat? thr).getD 0)
          md.toNat! (fun c => (rats dr).getD c 0) (garbageR seed.toNat!) (garbageN seed.toNat!))
  | ["rp_twinsurr_src", md, ns, dr, r, emb] =>
      match rpTwinSurrogatesSrc md.toNat! ns.toNat! (matOf bools r) (matOf rats emb)
          (fun c => (rats dr).getD c 0) with
      | some out => if out.isEmpty then "N" else join (out.map (showMat showRats)) "|"
      | none => "raise:IndexError"
  | ["rp_twins_kw", md, r] => showMat showNats (rpTwinsKW md.toNat! (matOf bools r))
  | ["twins_rkw", md, n, r, nr] =>
      showMat showNats (twinsRKW md.toNat! n.toNat! (matOf bools r) (ints nr))
  | ["rp_twinsurr", md, ns, dr, r, emb] =>
      match rpTwinSurrogates md.toNat! ns.toNat! (matOf bools r) (matOf rats emb) (pickOf (rats dr)) with
      | some out => if out.isEmpty then "N" else join (out.map (showMat showRats)) "|"
      | none => "raise:IndexError"
  | ["sobj", re, km, d, ops] =>
      match (ops.splitOn "~").mapM opOf with
      | none => "bad-request"
      | some os => join ((SObj.run (policyOf re km) (SObj.fresh (matOf rats d)) os).1.map showRes) "~"
  | ["fmethod", re, im, ph] =>
      -- the body of correlated_noise_surrogates as regenerated from the source, IEEE double
      match fourierMethodCalls floatTrig Pyunicorn.Generated.StructC15.fourierBody (floatPairs re im)
          ((matOf rats ph).map (·.map ratToFloat)) with
      | some outs => join (outs.map showPairs) ";"
      | none => "raise"
  | ["cns", re, im, ph] =>
      match cnsCalls floatTrig (floatPairs re im) ((matOf rats ph).map (·.map ratToFloat)) with
      | some outs => join (outs.map showPairs) ";"
      | none => "raise"
  | ["cns_exact", re, im, ph] =>
      match cnsCalls quarterTrig ((ints re).zip (ints im)) (matOf ints ph) with
      | some outs => join (outs.map showIntPairs) ";"
      | none => "raise"
  | ["cnslen", n] => toString (cnsLen ((ints n).headD 0))
  | ["normalize64", ms, ss, d] =>
      match normalizeRows floatNormOps ((rats ms).map ratToFloat) ((rats ss).map ratToFloat)
          ((matOf rats d).map (·.map ratToFloat)) with
      | some out => showMat (fun r => join (r.map showFloat)) out
      | none => "raise:IndexError"
  | ["normalize32", ms, ss, d] =>
      match normalizeRows float32NormOps ((rats ms).map f32) ((rats ss).map f32)
          ((matOf rats d).map (·.map f32)) with
      | some out => showMat (fun r => join (r.map fun x => showFloat x.toFloat)) out
      | none => "raise:IndexError"
  | ["cnsfacts"] =>
      s!"{Pyunicorn.Generated.StructC15.cnsMirrorAxis} {Pyunicorn.Generated.StructC15.cnsInPlace}"
  | ["rankof_model", s] => if decide (RankOf (rats s) (ranks (rats s))) then "1" else "0"
  | ["isargsort", s, p] => if decide (IsArgsort (rats s) (nats p)) then "1" else "0"
  | ["isargsortnat", p, q] => if decide (IsArgsortNat (nats p) (nats q)) then "1" else "0"
  | ["rankof", s, idx] => if decide (RankOf (rats s) (nats idx)) then "1" else "0"
  | ["wrap", bits, x] => toString (wrapInt bits.toNat! ((ints x).headD 0))
  | ["white", d, p] => showOpt (showMat showRats) (whiteNoise (matOf rats d) (matOf nats p))
  | ["aaft", d, s] => showOpt (showMat showRats) (aaft (matOf rats d) (matOf rats s))
  | ["refined", d, s0, ss] =>
      showOpt (showMat showRats) (refinedAaft (matOf rats d) (matOf rats s0) (matsOf rats ss))
  | ["rescaled", d, g] => showOpt (showMat showRats) (aaftRescaled (matOf rats d) (matOf rats g))
  | ["specin", zre, zim, rre, rim] =>
      showPairs (specInRow floatPolar (floatPairs zre zim) (floatPairs rre rim))
  | ["embed_k", dim, delay, row] =>
      match embedK (rats row) dim.toNat! delay.toNat! with
      | some e => showMat showRats e
      | none => "raise:ValueError"
  | ["twins_k", thr, md, embs, r0, nr0] =>
      let (tw, w) := twinsKernel ((rat? thr).getD 0) md.toNat! (matsOf rats embs)
        ⟨matOf bools r0, ints nr0⟩
      join (tw.map (showMat showNats)) "|" ++ "#" ++ showMat showBools w.R ++ "#" ++ showInts w.nR
  | ["rp_twins_k", md, r] => showMat showNats (rpTwinsK md.toNat! (matOf bools r))
  | ["twinsurr_k", dim, delay, thr, md, seed, dr, d] =>
      showOpt (showMat showRats)
        (twinSurrogatesK (matOf rats d) dim.toNat! delay.toNat! ((rat? thr).getD 0) md.toNat!
          (pickOf (rats dr)) (garbageR seed.toNat!) (garbageN seed.toNat!))
  | ["ranks", s] => showNats (ranks (rats s))
  | ["fy", xs, dr] => showNats (fisherYates (nats xs).toArray (nats dr)).toList
  | ["fourier", mode, re, im, ph] =>
      let cache := ((rats re).map ratToFloat).zip ((rats im).map ratToFloat)
      let outs := fourierCalls floatTrig (modeOf mode) cache ((matOf rats ph).map (·.map ratToFloat))
      join (outs.map showPairs) ";"
  | ["embed", dim, delay, row] =>
      match embed (rats row) dim.toNat! delay.toNat! with
      | some e => showMat showRats e
      | none => "raise:ValueError"
  | ["twins_s", thr, md, emb] =>
      showMat showNats (twinsS ((rat? thr).getD 0) md.toNat! (matOf rats emb))
  | ["twins_r", md, n, r, nr] =>
      showMat showNats (twinsR md.toNat! n.toNat! (matOf bools r) (nats nr))
  | ["rp_twins", md, r] => showMat showNats (rpTwins md.toNat! (matOf bools r))
  | ["walk_s", n, dr, tws] =>
      match walkRows n.toNat! (pickOf (rats dr)) (matsOf nats tws) 0 with
      | some (idx, c) => showMat showNats idx ++ "#" ++ toString c
      | none => "raise:IndexError"
  | ["walk_sk", n, dr, tws] =>
      match walkKernelS n.toNat! (fun c => (rats dr).getD c 0) (matsOf nats tws) 0 with
      | some (idx, c) => showMat showInts idx ++ "#" ++ toString c
      | none => "raise:IndexError"
  | ["walk_rk", n, ns, dr, tw] =>
      match walkKernelR n.toNat! (matOf nats tw) (fun c => (rats dr).getD c 0) ns.toNat! 0 with
      | some (idx, c) => showMat showInts idx ++ "#" ++ toString c
      | none => "raise:IndexError"
  | ["walk_r", n, ns, dr, tw] =>
      match walkRep n.toNat! (matOf nats tw) (pickOf (rats dr)) ns.toNat! 0 with
      | some (idx, c) => showMat showNats idx ++ "#" ++ toString c
      | none => "raise:IndexError"
  | ["twinsurr", dim, delay, thr, md, dr, d] =>
      showOpt (showMat showRats)
        (twinSurrogates (matOf rats d) dim.toNat! delay.toNat! ((rat? thr).getD 0) md.toNat!
          (pickOf (rats dr)))
  | _ => "bad-request"

def main : IO Unit := runDriver answer
