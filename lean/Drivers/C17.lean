import Pyunicorn.Model.Proto
import Pyunicorn.Model.Random
/-! Line-protocol driver for C17 (random models / rewirings). -/
open Pyunicorn Pyunicorn.Proto Pyunicorn.Random

def pairs (s : String) : List (Nat × Nat) :=
  (natMat s).filterMap fun r => match r with | [a, b] => some (a, b) | _ => none

def showPairs (ps : List (Nat × Nat)) : String :=
  showNatMat (ps.map fun p => [p.1, p.2])

def ofIntMat (M : List (List Int)) : Nat → Nat → Int := fun i j => (M.getD i []).getD j 0
def ofInts (v : List Int) : Nat → Int := fun i => v.getD i 0

def showDone (done target : Nat) : String := if done < target then "<" else toString done

def geoReq (full : Bool) (mode n a d eps degree edges iters draws : String) : String :=
  let c : GeoCfg :=
    { mode := if mode == "1" then .I else if mode == "2" then .II else .III
      D := ofIntMat (intMat d), eps := eps.toInt!, degree := ofInts (ints degree) }
  match geoRun c iters.toNat! (pairs draws) ⟨ofMat (boolMat a), pairs edges, 0⟩ with
  | none => "raise:IndexError"
  | some st =>
    let sa := showBoolMat (toMat st.A n.toNat! n.toNat!)
    if full then s!"{sa}|{showPairs st.edges}|{showDone st.i iters.toNat!}"
    else s!"{sa}|{showDone st.i iters.toNat!}"

/-- round 4: the compiled kernel with the conditions in binary32 (`D`, `eps` integers in units of a
power of two, any binary32 data) -/
def geoReqFl (mode n a d eps degree edges iters draws : String) : String :=
  let c : GeoCfg :=
    { mode := if mode == "1" then .I else if mode == "2" then .II else .III
      D := ofIntMat (intMat d), eps := eps.toInt!, degree := ofInts (ints degree) }
  match geoRunFl rnd32 c iters.toNat! (pairs draws) ⟨ofMat (boolMat a), pairs edges, 0⟩ with
  | none => "raise:IndexError"
  | some st =>
    s!"{showBoolMat (toMat st.A n.toNat! n.toNat!)}|{showPairs st.edges}|{showDone st.i iters.toNat!}"

def ofRatMat (M : List (List Rat)) : Nat → Nat → Rat := fun i j => (M.getD i []).getD j 0

def optRat (s : String) : Option Rat := if s == "-" then none else rat? s
def optInt (s : String) : Option Int := if s == "-" then none else s.toInt?

def answer (toks : List String) : String :=
  match toks with
  -- whole method: edge list, E and degree array are derived by the model itself
  | ["geoM", mode, n, a, d, eps, iters, draws] =>
    let N := n.toNat!
    let A := ofMat (boolMat a)
    let md : GeoMode := if mode == "1" then .I else if mode == "2" then .II else .III
    match geoMethod md (ofIntMat (intMat d)) eps.toInt! N A iters.toNat! (pairs draws) with
    | none => "raise:IndexError"
    | some st =>
      s!"{showBoolMat (toMat st.A N N)}|{showPairs (edgeList N A)}|{(edgeList N A).length}|{showDone st.i iters.toNat!}"
  | ["crossrewireM", nn, a, nodes1, nodes2, swaps, draws] =>
    let A := ofMat (boolMat a)
    let n1 := nats nodes1
    let n2 := nats nodes2
    let C := crossBlock A n1 n2
    let L := onesList n1.length n2.length C
    let nsw := swapCount ((rat? swaps).getD 0) L.length
    match randomlyRewireCrossLinks A n1 n2 nsw (pairs draws) with
    | none => "raise:IndexError"
    | some (A', st) =>
      s!"{showBoolMat (toMat A' nn.toNat! nn.toNat!)}|{showBoolMat (toMat C n1.length n2.length)}|{showPairs L}|{nsw}|{showDone st.done nsw}"
  | ["crosssetM", variant, nn, a, nodes1, nodes2, dens, number, draws] =>
    let A := ofMat (boolMat a)
    let n1 := nats nodes1
    let n2 := nats nodes2
    let cur := total (crossBlock A n1 n2) n1.length n2.length
    let k := (if variant == "sparse" then setCountSparse else setCount)
      (optRat dens) (optInt number) n1.length n2.length cur
    let R := randomlySetCrossLinks A n1 n2 k (pairs draws)
    s!"{showBoolMat (toMat R.1 nn.toNat! nn.toNat!)}|{k}|{showDone R.2.2 k.toNat}"
  -- whole method with the RNG *values*: u = k / 2^20, the draw is the generated `geoDraw u E`
  | ["geoMU", mode, n, a, d, eps, iters, ks] =>
    let N := n.toNat!
    let A := ofMat (boolMat a)
    let md : GeoMode := if mode == "1" then .I else if mode == "2" then .II else .III
    let E : Int := (edgeList N A).length
    let dr (k : Nat) : Nat := (Pyunicorn.Generated.StructC17.geoDraw ((k : Rat) / 1048576) E).toNat
    let draws := (pairs ks).map fun kk => (dr kk.1, dr kk.2)
    match geoMethod md (ofIntMat (intMat d)) eps.toInt! N A iters.toNat! draws with
    | none => "raise:IndexError"
    | some st =>
      s!"{showBoolMat (toMat st.A N N)}|{showPairs (edgeList N A)}|{(edgeList N A).length}|{showDone st.i iters.toNat!}"
  -- round 4: binary32 conditions / binary64 draws
  | ["geoF", mode, n, a, d, eps, degree, edges, iters, draws] =>
    geoReqFl mode n a d eps degree edges iters draws
  | ["geoFM", mode, n, a, d, eps, iters, draws] =>
    let N := n.toNat!
    let A := ofMat (boolMat a)
    let md : GeoMode := if mode == "1" then .I else if mode == "2" then .II else .III
    match geoMethodFl rnd32 md (ofIntMat (intMat d)) eps.toInt! N A iters.toNat! (pairs draws) with
    | none => "raise:IndexError"
    | some st =>
      s!"{showBoolMat (toMat st.A N N)}|{showPairs (edgeList N A)}|{(edgeList N A).length}|{showDone st.i iters.toNat!}"
  | ["geoMD", mode, n, a, d, eps, iters, ks] =>
    -- u = k / 2^53 (what numpy's generators return); the draw is `floor(fl64(u * E))`
    let N := n.toNat!
    let A := ofMat (boolMat a)
    let md : GeoMode := if mode == "1" then .I else if mode == "2" then .II else .III
    let E : Int := (edgeList N A).length
    let dr (k : Nat) : Nat :=
      (Pyunicorn.Generated.StructC17.geoDrawR rnd64 ((k : Rat) / 9007199254740992) E).toNat
    let draws := (pairs ks).map fun kk => (dr kk.1, dr kk.2)
    match geoMethod md (ofIntMat (intMat d)) eps.toInt! N A iters.toNat! draws with
    | none => "raise:IndexError"
    | some st =>
      s!"{showBoolMat (toMat st.A N N)}|{showPairs (edgeList N A)}|{(edgeList N A).length}|{showDone st.i iters.toNat!}"
  | ["rnd32", xs] => showInts ((ints xs).map rnd32)
  | ["rnd32ovf", xs] =>
    -- units of 2^-149: largest finite binary32 number = (2^24-1)·2^253
    showBools ((ints xs).map fun (d : Int) => decide ((16777215 * 2 ^ 253 : Int) < ((rnd32 d).natAbs : Int)))
  | ["rnd64", xs] => showRats ((rats xs).map rnd64)
  | ["rnd32q", xs] =>
    -- binary32 rounding of arbitrary rationals: `rndQ 24` in units of `2^-149`, sign restored
    showRats ((rats xs).map fun (x : Rat) =>
      let u : Rat := ((2 ^ 149 : Nat) : Rat)
      if x < 0 then -((rndQ 24 (-x * u) : Nat) : Rat) / u else ((rndQ 24 (x * u) : Nat) : Rat) / u)
  | ["drawD", ks, e] =>
    showInts ((nats ks).map fun (k : Nat) =>
      Pyunicorn.Generated.StructC17.geoDrawR rnd64 ((k : Rat) / 9007199254740992) e.toInt!)
  | ["geoadm", mode, a, d, eps, degree, edges] =>
    let c : GeoCfg :=
      { mode := if mode == "1" then .I else if mode == "2" then .II else .III
        D := ofIntMat (intMat d), eps := eps.toInt!, degree := ofInts (ints degree) }
    if geoAdmissible c (ofMat (boolMat a)) (pairs edges) then "1" else "0"
  | ["crossadm", c, links] =>
    if crossAdmissible (ofMat (boolMat c)) (pairs links) then "1" else "0"
  | ["simplify", nn, es] =>
    showBoolMat (toMat (simplified (pairs es)) nn.toNat! nn.toNat!)
  | ["ercall", hp, hm] =>
    match erdosRenyiCall (hp == "1") (hm == "1") with
    | none => "raise:ValueError"
    | some .byProbability => "p"
    | some .byLinkCount => "m"
  | ["edges", nn, es] =>
    match fromEdges nn.toNat! (pairs es) with
    | none => "raise:ValueError"
    | some F => showBoolMat (toMat F nn.toNat! nn.toNat!)
  | ["dist", nn, p, pp] =>
    showBoolMat (toMat (distKernel (ofRatMat (ratMat p)) (ofRatMat (ratMat pp))) nn.toNat! nn.toNat!)
  | ["geo", mode, n, a, d, eps, degree, edges, iters, draws] =>
    geoReq true mode n a d eps degree edges iters draws
  | ["geoA", mode, n, a, d, eps, degree, edges, iters, draws] =>
    geoReq false mode n a d eps degree edges iters draws
  | ["overwrite", nn, a, c, nodes1, nodes2] =>
    let A' := overwrite (ofMat (boolMat a)) (ofMat (boolMat c)) (nats nodes1) (nats nodes2)
    showBoolMat (toMat A' nn.toNat! nn.toNat!)
  | ["crossset", ow, nn, a, m, n, c, k, nodes1, nodes2, draws] =>
    let (C', done) := crossSetRun k.toNat! (pairs draws) (ofMat (boolMat c)) 0
    let A0 := ofMat (boolMat a)
    let A' := if ow == "1" then overwrite A0 C' (nats nodes1) (nats nodes2) else A0
    s!"{showBoolMat (toMat A' nn.toNat! nn.toNat!)}|{showBoolMat (toMat C' m.toNat! n.toNat!)}|{showDone done k.toNat!}"
  | ["crossrewire", ow, nn, a, m, n, c, links, nodes1, nodes2, swaps, draws] =>
    match crossRun swaps.toNat! (pairs draws) ⟨ofMat (boolMat c), pairs links, 0⟩ with
    | none => "raise:IndexError"
    | some st =>
      let A0 := ofMat (boolMat a)
      let A' := if ow == "1" then overwrite A0 st.C (nats nodes1) (nats nodes2) else A0
      s!"{showBoolMat (toMat A' nn.toNat! nn.toNat!)}|{showBoolMat (toMat st.C m.toNat! n.toNat!)}|{showPairs st.links}|{showDone st.done swaps.toNat!}"
  | ["ba", nn, m, draws] =>
    match baRun nn.toNat! m.toNat! (nats draws) (baInit nn.toNat! m.toNat!) with
    | none => "raise:IndexError"
    | some st => s!"{showBoolMat (toMat st.A nn.toNat! nn.toNat!)}|{st.j}|{st.it}"
  | ["baT", nn, m, draws] =>
    match baRun nn.toNat! m.toNat! (nats draws) (baInit nn.toNat! m.toNat!) with
    | none => "raise:IndexError"
    | some st =>
      s!"{showBoolMat (toMat st.A nn.toNat! nn.toNat!)}|{st.j}|{st.it}|{showNats st.targets}|{showNats ((List.range nn.toNat!).map st.lastChild)}"
  | _ => "bad-request"

def main : IO Unit := runDriver answer
