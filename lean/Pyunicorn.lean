import Pyunicorn.Model.Proto
import Pyunicorn.Model.LineDist
import Pyunicorn.Properties.C08
