import Pyunicorn.Lemmas.Repr
import Pyunicorn.Lemmas.ReprHist
import Pyunicorn.Lemmas.ReprAttrs
import Pyunicorn.Lemmas.ReprEdges
import Pyunicorn.Lemmas.ReprSplit
import Pyunicorn.Generated.ArithC05
import Mathlib.Tactic.FieldSimp
import Mathlib.Tactic.Ring
import Mathlib.Tactic.Linarith
import Mathlib.Algebra.Order.Field.Rat
import Mathlib.Algebra.Order.Field.Basic
/-!
# C05 — all representations of a network agree, and survive save/load

Statements about the model `Pyunicorn.Repr` (`Model/Repr.lean`) of the
constructor paths of `Network`, and about the definitions that
`translate/gen_arith.py` regenerates on every run from the adjacency setter
(`Pyunicorn.Generated.ArithC05`).
-/
namespace Pyunicorn.Repr
open Pyunicorn.Generated

/-! ## the derived quantities of the adjacency setter (generated definitions) -/

/-- the model's density is the expression found in the source -/
theorem gen_link_density_eq_model (n N : Int) :
    ArithC05.link_density n N = linkDensity n N := rfl

/-- the model's guards and halving are the ones found in the source -/
theorem gen_guards_eq_model (directed : Bool) (nz : Nat) (M N : Nat) (k : Nat) :
    ((if ArithC05.halve_guard directed then ArithC05.n_links_undirected nz else (nz : Int))
        = ((if directed then nz else nz / 2 : Nat) : Int))
    ∧ (ArithC05.not_square M N = (M != N))
    ∧ (ArithC05.wrong_weight_count k N = (k != N)) := by
  refine ⟨?_, ?_, ?_⟩
  · cases directed <;> simp [ArithC05.halve_guard, ArithC05.n_links_undirected]
  · by_cases h : M = N <;> simp [ArithC05.not_square, h]
  · by_cases h : k = N <;> simp [ArithC05.wrong_weight_count, h]

/-- undirected: the `2m` non-zero cells of a symmetric matrix are halved to `m` links … -/
theorem gen_n_links_undirected (m : Nat) : ArithC05.n_links_undirected (2 * m) = m := by
  simp [ArithC05.n_links_undirected]

/-- … and the density computed *before* halving is `m / C(N, 2)` -/
theorem gen_link_density_undirected (m N : Nat) (hN : 2 ≤ N) :
    ArithC05.link_density ((2 * m : Nat) : Int) N = (m : Rat) / ((N : Rat) * ((N : Rat) - 1) / 2) := by
  have h1 : (N : Rat) ≠ 0 := by
    have : (0 : Rat) < N := by exact_mod_cast (by omega : 0 < N)
    exact ne_of_gt this
  have h2 : (N : Rat) - 1 ≠ 0 := by
    have : (1 : Rat) < N := by exact_mod_cast (by omega : 1 < N)
    intro h; linarith
  simp only [ArithC05.link_density]
  push_cast
  field_simp

/-- directed: density is `m / (N (N - 1))` -/
theorem gen_link_density_directed (m N : Nat) :
    ArithC05.link_density (m : Int) N = (m : Rat) / ((N : Rat) * ((N : Rat) - 1)) := by
  simp only [ArithC05.link_density]
  push_cast
  rw [div_div]

/-- the density of a simple graph lies in `[0, 1]` -/
theorem gen_link_density_range (nz N : Nat) (hN : 2 ≤ N) (h : nz ≤ N * (N - 1)) :
    0 ≤ ArithC05.link_density (nz : Int) N ∧ ArithC05.link_density (nz : Int) N ≤ 1 := by
  rw [gen_link_density_directed]
  have h1 : (1 : Rat) < N := by exact_mod_cast (by omega : 1 < N)
  have hpos : (0 : Rat) < (N : Rat) * ((N : Rat) - 1) := by
    apply mul_pos <;> linarith
  have hle : (nz : Rat) ≤ (N : Rat) * ((N : Rat) - 1) := by
    have : ((N * (N - 1) : Nat) : Rat) = (N : Rat) * ((N : Rat) - 1) := by
      rw [Nat.cast_mul, Nat.cast_sub (by omega)]; simp
    rw [← this]; exact_mod_cast h
  constructor
  · apply div_nonneg; exact_mod_cast Nat.zero_le nz; exact le_of_lt hpos
  · rw [div_le_one hpos]; exact hle

/-- the source divides by `N` and by `N - 1`: exactly the sizes 0 and 1 make a
divisor vanish (and the model raises `ZeroDivisionError` there, see
`setAdjacency_small`) -/
theorem gen_link_density_divisors (N : Nat) :
    ((N : Rat) = 0 ∨ (((N : Int) - 1 : Int) : Rat) = 0) ↔ (N = 0 ∨ N = 1) := by
  constructor
  · rintro (h | h)
    · left; exact_mod_cast h
    · right
      have : ((N : Int) - 1) = 0 := by exact_mod_cast h
      omega
  · rintro (h | h) <;> subst h <;> simp


/-! ## every constructor path yields the canonical network `ofGraph` of the graph

`ofGraph d N a w ea` (Lemmas/Repr.lean) is written down directly from the graph:
adjacency `table N (ind a)`, `n_links` / `link_density` from the number of cells
of `a`, embedded graph `graphEdges d N (cells N a)`, weights `w` with
`total = w.sum`, `mean = w.sum / N`.  The theorems below say that the model of
each construction path returns exactly this record. -/

/-- **dense / sparse-canonical matrix path** (`Network(adjacency=A)`), for every
relation `a`, every weight vector and every `N ≥ 2`. -/
theorem dense_path (d : Bool) (N : Nat) (hN : 2 ≤ N) (a : Nat → Nat → Bool) (w : List Rat)
    (hw : w.length = N) :
    init d (.sparse (ofDenseMat N N (ind a))) (some w) = .ok (ofGraph d N a w none) :=
  init_dense d N hN a w hw

/-- **edge-list path** (`Network(edge_list=E, n_nodes=N)`), for *every* in-range
edge list — one orientation, both orientations, repeated entries, empty:
the network of the relation `rel d E` the list describes. -/
theorem edge_list_path (d : Bool) (N : Nat) (hN : 2 ≤ N) (E : List (Nat × Nat))
    (hE : ∀ p ∈ E, p.1 < N ∧ p.2 < N) (w : List Rat) (hw : w.length = N) :
    init d (.edges E (some N)) (some w) = .ok (ofGraph d N (rel d E) w none) :=
  init_edges d N hN E hE w hw

/-- **dense and edge-list representations agree**: any edge list describing the
relation `a` builds the same network as the matrix of `a`. -/
theorem dense_eq_edge_list (d : Bool) (N : Nat) (hN : 2 ≤ N) (a : Nat → Nat → Bool)
    (E : List (Nat × Nat)) (hE : ∀ p ∈ E, p.1 < N ∧ p.2 < N)
    (hrep : ∀ i j, i < N → j < N → a i j = rel d E i j) (w : List Rat) (hw : w.length = N) :
    init d (.sparse (ofDenseMat N N (ind a))) (some w) = init d (.edges E (some N)) (some w) := by
  rw [init_dense d N hN a w hw, init_edges d N hN E hE w hw, ofGraph_congr w none hrep]

/-- two edge lists describing the same relation (e.g. one orientation / both
orientations / with repetitions) build the same network -/
theorem edge_lists_agree (d : Bool) (N : Nat) (hN : 2 ≤ N) (E E' : List (Nat × Nat))
    (hE : ∀ p ∈ E, p.1 < N ∧ p.2 < N) (hE' : ∀ p ∈ E', p.1 < N ∧ p.2 < N)
    (hrep : ∀ i j, i < N → j < N → rel d E i j = rel d E' i j) (w : List Rat) (hw : w.length = N) :
    init d (.edges E (some N)) (some w) = init d (.edges E' (some N)) (some w) := by
  rw [init_edges d N hN E hE w hw, init_edges d N hN E' hE' w hw, ofGraph_congr w none hrep]

/-- **igraph path** (`Network.FromIGraph(g)`) for a simple igraph object: the
network of the relation its edge list describes, carrying `g` itself as
embedded graph and `g`'s edge attribute. -/
theorem igraph_path (g : IGraph) (hN : 2 ≤ g.n) (hs : SimpleEdges g.directed g.edges)
    (hr : ∀ p ∈ g.edges, p.1 < g.n ∧ p.2 < g.n) (hw : ∀ w, g.vw = some w → w.length = g.n) :
    fromIGraph g = .ok { ofGraph g.directed g.n (rel g.directed g.edges) (weightsOf g.n g.vw) none
      with graph := g.edges, eattr := g.ea, gvw := g.vw } :=
  fromIGraph_simple g hN hs hr hw

/-- **save → Load** through a file format that returns what was written: the
loaded network is the saved one (its embedded graph object now carries the node
weights as vertex attribute, as the saved object's does after `save`) -/
theorem saveLoad_ofGraph (store : IGraph → IGraph) (d : Bool) (N : Nat) (hN : 2 ≤ N)
    (a : Nat → Nat → Bool) (hs : Simple d N a) (w : List Rat) (hw : w.length = N)
    (ea : Option (List Rat))
    (hstore : store (toIGraph (ofGraph d N a w ea)) = toIGraph (ofGraph d N a w ea)) :
    saveLoad store (ofGraph d N a w ea) = .ok { ofGraph d N a w ea with gvw := some w } := by
  unfold saveLoad
  rw [hstore]
  have hg : toIGraph (ofGraph d N a w ea)
      = ⟨N, d, graphEdges d N (cells N a), some w, ea⟩ := rfl
  rw [hg, fromIGraph_simple _ hN (simpleEdges_graphEdges d N a)]
  · simp only [weightsOf]
    rw [ofGraph_congr w none (rel_graphEdges d N a hs)]
    rfl
  · intro p hp
    rw [mem_graphEdges_cells] at hp
    exact ⟨hp.1, hp.2.1⟩
  · intro w' h
    simp only [Option.some.injEq] at h
    subst h; exact hw

/-- **`FromIGraph`** of the embedded graph object (with node weights attached) is the identity -/
theorem fromIGraph_toIGraph (d : Bool) (N : Nat) (hN : 2 ≤ N)
    (a : Nat → Nat → Bool) (hs : Simple d N a) (w : List Rat) (hw : w.length = N)
    (ea : Option (List Rat)) :
    fromIGraph (toIGraph (ofGraph d N a w ea)) = .ok { ofGraph d N a w ea with gvw := some w } :=
  saveLoad_ofGraph id d N hN a hs w hw ea rfl


/-- **copy** of a network without link attributes -/
theorem copy_ofGraph (d : Bool) (N : Nat) (hN : 2 ≤ N) (a : Nat → Nat → Bool) (w : List Rat)
    (hw : w.length = N) :
    copy (ofGraph d N a w none) = .ok (ofGraph d N a w none) := by
  unfold copy
  rw [sparse_ofGraph]
  have h1 : (ofGraph d N a w none).directed = d := rfl
  have h2 : (ofGraph d N a w none).w = w := rfl
  have h3 : (ofGraph d N a w none).eattr = none := rfl
  rw [h1, h2, h3, init_dense d N hN a w hw]
  rfl

/-- **undirected copy** -/
theorem undirectedCopy_ofGraph (d : Bool) (N : Nat) (hN : 2 ≤ N) (a : Nat → Nat → Bool)
    (w : List Rat) (hw : w.length = N) (ea) :
    undirectedCopy (ofGraph d N a w ea) = .ok (ofGraph false N (fun i j => a i j || a j i) w none) := by
  unfold undirectedCopy
  have h2 : (ofGraph d N a w ea).w = w := rfl
  have h3 : (ofGraph d N a w ea).N = N := rfl
  rw [h2, h3]
  have : ofDenseMat N N (fun i j => max ((ofGraph d N a w ea).at i j) ((ofGraph d N a w ea).at j i))
      = ofDenseMat N N (ind fun i j => a i j || a j i) := by
    apply ofDenseMat_congr
    intro i j hi hj
    rw [ofGraph_at, ofGraph_at]
    simp only [hi, hj, and_self, if_true, ind]
    by_cases h1 : a i j = true <;> by_cases h2 : a j i = true <;> simp [h1, h2]
  rw [this, init_dense false N hN _ w hw]


/-! ## node weights: total and mean are those of the current vector after *every* path

(for every input whatsoever — no assumption on the matrix, edge list or graph) -/

theorem init_fresh (d : Bool) (inp : Input) (w : Option (List Rat)) (net : Net)
    (h : init d inp w = .ok net) : Fresh net := by
  unfold init at h
  obtain ⟨n1, _, h2⟩ := bind_ok h
  exact (setWeights_fresh _ _ _ h2).1

theorem geoInit_fresh (d : Bool) (inp : Input) (cl : List Rat) (t : Nat) (net : Net)
    (h : geoInit d inp cl t = .ok net) : Fresh net := by
  unfold geoInit at h
  obtain ⟨n1, _, h2⟩ := bind_ok h
  exact (setWeights_fresh _ _ _ h2).1

theorem fromIGraph_fresh (g : IGraph) (net : Net) (h : fromIGraph g = .ok net) : Fresh net := by
  unfold fromIGraph at h
  obtain ⟨n1, h1, h2⟩ := bind_ok h
  simp only [pure, Except.pure, Except.ok.injEq] at h2
  subst h2
  exact fresh_update _ _ _ _ (init_fresh _ _ _ _ h1)

theorem saveLoad_fresh (store : IGraph → IGraph) (net net' : Net)
    (h : saveLoad store net = .ok net') : Fresh net' :=
  fromIGraph_fresh _ _ h

theorem copy_fresh (net net' : Net) (h : copy net = .ok net') : Fresh net' := by
  unfold copy at h
  obtain ⟨n1, h1, h2⟩ := bind_ok h
  have := init_fresh _ _ _ _ h1
  split at h2 <;> (simp only [pure, Except.pure, Except.ok.injEq] at h2; subst h2; exact this)

theorem undirectedCopy_fresh (net net' : Net) (h : undirectedCopy net = .ok net') : Fresh net' :=
  init_fresh _ _ _ _ h

theorem loadViaAdjacency_fresh (g : IGraph) (gw : Option (Option (List Rat))) (net : Net)
    (h : loadViaAdjacency g gw = .ok net) : Fresh net := by
  unfold loadViaAdjacency at h
  obtain ⟨n0, h0, h⟩ := bind_ok h
  obtain ⟨n1, h1, h⟩ := bind_ok h
  obtain ⟨n2, h2, h⟩ := bind_ok h
  simp only [pure, Except.pure, Except.ok.injEq] at h
  subst h
  apply fresh_update
  exact assignWeights_fresh _ _ _ (assignWeights_fresh _ _ _ (init_fresh _ _ _ _ h0) h1) h2


/-! ## what the canonical network looks like -/

/-- adjacency entries are the 0/1 indicator of the graph (and 0 outside the index range) -/
theorem canonical_adjacency (d : Bool) (N : Nat) (a : Nat → Nat → Bool) (w ea) (i j : Nat) :
    (ofGraph d N a w ea).at i j = if i < N ∧ j < N then (if a i j then 1 else 0) else 0 :=
  ofGraph_at d N a w ea i j

/-- **symmetric with empty diagonal** when the graph is simple and undirected
(empty diagonal also when directed) -/
theorem canonical_symmetric_empty_diagonal (d : Bool) (N : Nat) (a : Nat → Nat → Bool)
    (hs : Simple d N a) (w ea) (i j : Nat) :
    (ofGraph d N a w ea).at i i = 0 ∧
      (d = false → (ofGraph d N a w ea).at i j = (ofGraph d N a w ea).at j i) := by
  constructor
  · rw [ofGraph_at]
    by_cases hi : i < N
    · simp [hi, ind, hs.irr i hi]
    · simp [hi]
  · intro hd
    rw [ofGraph_at, ofGraph_at]
    by_cases hi : i < N <;> by_cases hj : j < N <;> simp [hi, hj, ind]
    rw [hs.sym hd i j hi hj]

/-- **link count, undirected**: `n_links` is the number of edges of the embedded
graph, and the matrix has exactly twice as many non-zero cells -/
theorem n_links_undirected (N : Nat) (a : Nat → Nat → Bool) (hs : Simple false N a) (w ea) :
    (ofGraph false N a w ea).nLinks = (ofGraph false N a w ea).graph.length
      ∧ (cells N a).length = 2 * (ofGraph false N a w ea).graph.length := by
  have h := cells_length_undirected N a (hs.sym rfl) hs.irr
  refine ⟨?_, h⟩
  show (if false = true then (cells N a).length else (cells N a).length / 2) = _
  simp only [Bool.false_eq_true, if_false]
  show (cells N a).length / 2 = (graphEdges false N (cells N a)).length
  omega

/-- **link count, directed**: `n_links` is the number of edges of the embedded
graph, which are exactly the non-zero cells -/
theorem n_links_directed (N : Nat) (a : Nat → Nat → Bool) (hs : Simple true N a) (w ea) :
    (ofGraph true N a w ea).nLinks = (ofGraph true N a w ea).graph.length
      ∧ (ofGraph true N a w ea).graph = cells N a := by
  have h := cells_eq_graph_directed N a hs.irr
  refine ⟨?_, h⟩
  show (cells N a).length = (graphEdges true N (cells N a)).length
  rw [h]

/-- **link density, undirected** (stated with the generated definition):
`n_links / C(N, 2)` -/
theorem link_density_undirected (N : Nat) (hN : 2 ≤ N) (a : Nat → Nat → Bool)
    (hs : Simple false N a) (w ea) :
    (ofGraph false N a w ea).density
        = ArithC05.link_density ((cells N a).length : Int) N
      ∧ (ofGraph false N a w ea).density
        = ((ofGraph false N a w ea).nLinks : Rat) / ((N : Rat) * ((N : Rat) - 1) / 2) := by
  refine ⟨rfl, ?_⟩
  obtain ⟨h1, h2⟩ := n_links_undirected N a hs w ea
  rw [h1]
  show linkDensity ((cells N a).length : Int) N = _
  rw [h2, ← gen_link_density_eq_model, gen_link_density_undirected _ N hN]

/-- **link density, directed**: `n_links / (N (N - 1))`, within `[0, 1]` -/
theorem link_density_directed (N : Nat) (a : Nat → Nat → Bool) (w ea) :
    (ofGraph true N a w ea).density
      = ((ofGraph true N a w ea).nLinks : Rat) / ((N : Rat) * ((N : Rat) - 1)) := by
  show linkDensity ((cells N a).length : Int) N = _
  rw [← gen_link_density_eq_model, gen_link_density_directed]
  rfl

/-- the embedded graph of the canonical network is a simple graph on the same
nodes whose edges are exactly the links of `a` -/
theorem canonical_graph (d : Bool) (N : Nat) (a : Nat → Nat → Bool) (hs : Simple d N a) (w ea) :
    SimpleEdges d (ofGraph d N a w ea).graph
      ∧ (∀ p ∈ (ofGraph d N a w ea).graph, p.1 < N ∧ p.2 < N)
      ∧ ∀ i j, i < N → j < N → rel d (ofGraph d N a w ea).graph i j = a i j := by
  refine ⟨simpleEdges_graphEdges d N a, ?_, rel_graphEdges d N a hs⟩
  intro p hp
  have := (mem_graphEdges_cells (d := d) (N := N) (a := a) (p := p)).1 hp
  exact ⟨this.1, this.2.1⟩

/-! ## the error branches the code has -/

/-- fewer than two nodes: the setter divides by `N (N - 1) = 0`
(`ZeroDivisionError`; known finding C05-K1) -/
theorem setAdjacency_small (net : Net) (s : Sparse) (hsq : s.rows = s.cols) (hN : s.cols ≤ 1) :
    setAdjacency net s = .error .zeroDivision := by
  unfold setAdjacency
  have h0 : (s.cols == 0 || s.cols == 1) = true := by
    simp; omega
  simp [hsq, h0]

theorem setAdjacency_not_square (net : Net) (s : Sparse) (h : s.rows ≠ s.cols) :
    setAdjacency net s = .error .networkError := by
  unfold setAdjacency
  simp [h]

/-- a weight vector of the wrong length is rejected -/
theorem setWeights_wrong_length (net : Net) (w : List Rat) (h : w.length ≠ net.N) :
    setWeights net (some w) = .error .networkError := by
  unfold setWeights
  simp [h]

/-- an empty edge list without `n_nodes` has no node count (`ValueError`), an
edge naming a node `≥ n_nodes` is rejected (`ValueError`) -/
theorem setEdgeList_errors (net : Net) :
    setEdgeList net [] none = .error .valueError
    ∧ ∀ (E : List (Nat × Nat)) (N : Nat) (p : Nat × Nat), p ∈ E → (N ≤ p.1 ∨ N ≤ p.2) →
        setEdgeList net E (some N) = .error .valueError := by
  constructor
  · rfl
  · intro E N p hp hbad
    unfold setEdgeList
    have : (List.any (if net.directed = true then E else E ++ E.map swap)
        fun p => decide (N ≤ p.1) || decide (N ≤ p.2)) = true := by
      rw [List.any_eq_true]
      refine ⟨p, ?_, by simpa using hbad⟩
      cases net.directed <;> simp [hp]
    simp [this]

/-! ## SpatialNetwork / GeoNetwork -/

/-- **GeoNetwork constructor**: the canonical network with the weights of the
requested `node_weight_type` (cos lat, cos² lat or ones) — assigned through the
node-weight setter, so total and mean are theirs -/
theorem geo_path (d : Bool) (N : Nat) (hN : 2 ≤ N) (a : Nat → Nat → Bool) (cl : List Rat)
    (hcl : cl.length = N) (t : Nat) :
    geoInit d (.sparse (ofDenseMat N N (ind a))) cl t
      = .ok (ofGraph d N a (weightsOf N (geoWeights cl t)) none) := by
  unfold geoInit
  rw [init_dense_none d N hN a]
  show setWeights (ofGraph d N a (List.replicate N 1) none) (geoWeights cl t) = _
  apply setWeights_ofGraph
  intro x hx
  unfold geoWeights at hx
  split at hx
  · simp only [Option.some.injEq] at hx; subst hx; exact hcl
  · split at hx
    · simp only [Option.some.injEq] at hx; subst hx; simpa using hcl
    · cases hx

/-- **`SpatialNetwork.Load` / `GeoNetwork.Load`** (rebuild from the dense adjacency
of the stored graph, assign the stored weights, attach the stored graph): the
identity on the canonical network, whatever weights the constructor put first -/
theorem load_via_adjacency (d : Bool) (N : Nat) (hN : 2 ≤ N) (a : Nat → Nat → Bool)
    (hs : Simple d N a) (w : List Rat) (hw : w.length = N) (ea : Option (List Rat))
    (gw : Option (Option (List Rat))) (hgw : ∀ x, gw = some (some x) → x.length = N) :
    loadViaAdjacency (toIGraph (ofGraph d N a w ea)) gw
      = .ok { ofGraph d N a w ea with gvw := some w } := by
  have hg : toIGraph (ofGraph d N a w ea)
      = ⟨N, d, graphEdges d N (cells N a), some w, ea⟩ := rfl
  rw [hg]
  unfold loadViaAdjacency
  simp only
  have hadj : ofDenseMat N N (igAdj ⟨N, d, graphEdges d N (cells N a), some w, ea⟩)
      = ofDenseMat N N (ind a) := by
    apply ofDenseMat_congr
    intro i j hi hj
    rw [igAdj_simple _ (simpleEdges_graphEdges d N a)]
    unfold ind
    rw [rel_graphEdges d N a hs i j hi hj]
  rw [hadj, init_dense_none d N hN a]
  simp only [bind, Except.bind]
  have h1 : ∃ w1, assignWeights (ofGraph d N a (List.replicate N 1) none) gw
      = .ok (ofGraph d N a w1 none) := by
    cases gw with
    | none => exact ⟨_, rfl⟩
    | some x =>
      refine ⟨weightsOf N x, ?_⟩
      show setWeights _ x = _
      apply setWeights_ofGraph
      intro y hy; subst hy; exact hgw y rfl
  obtain ⟨w1, h1⟩ := h1
  rw [h1]
  simp only [Option.map_some]
  unfold assignWeights
  simp only
  rw [setWeights_ofGraph d N a w1 none (some w) (fun x hx => by
    simp only [Option.some.injEq] at hx; subst hx; exact hw)]
  rfl

/-! ## link attributes -/

/-- **`link_attribute(set_link_attribute(V))`** is `V` on the linked pairs and 0
elsewhere (for undirected networks `V` symmetric, as documented) -/
theorem linkAttr_setLinkAttr (net : Net) (V : Nat → Nat → Rat)
    (hV : net.directed = false → ∀ i j, V j i = V i j) :
    ∃ f, linkAttr (setLinkAttr net V) = some f ∧
      ∀ i j, f i j = if rel net.directed net.graph i j then V i j else 0 := by
  unfold linkAttr setLinkAttr
  simp only
  by_cases hE : net.graph.isEmpty = true
  · refine ⟨fun _ _ => 0, by simp [hE], ?_⟩
    intro i j
    have : net.graph = [] := List.isEmpty_iff.1 hE
    simp [rel, this]
  · simp only [hE, Bool.false_eq_true, if_false, Option.map_some]
    refine ⟨_, rfl, ?_⟩
    intro i j
    exact lastVal_map net.directed net.graph (fun e => V e.1 e.2) i j (fun hd => hV hd i j)


/-- **copy of a network with a link attribute**: the copy is the same canonical
network and `link_attribute(name)` returns the same matrix -/
theorem copy_link_attribute (d : Bool) (N : Nat) (hN : 2 ≤ N) (a : Nat → Nat → Bool)
    (w : List Rat) (hw : w.length = N) (vs : List Rat) :
    ∃ c, copy (ofGraph d N a w (some vs)) = .ok c
      ∧ { c with eattr := none } = ofGraph d N a w none
      ∧ ∀ f, linkAttr (ofGraph d N a w (some vs)) = some f →
          ∃ f', linkAttr c = some f' ∧ ∀ i j, f' i j = f i j := by
  have hsome : ∃ f, linkAttr (ofGraph d N a w (some vs)) = some f := by
    unfold linkAttr
    split
    · exact ⟨_, rfl⟩
    · exact ⟨_, rfl⟩
  obtain ⟨f, hf⟩ := hsome
  refine ⟨setLinkAttr (ofGraph d N a w none) f, ?_, rfl, ?_⟩
  · unfold copy
    rw [sparse_ofGraph]
    have h1 : (ofGraph d N a w (some vs)).directed = d := rfl
    have h2 : (ofGraph d N a w (some vs)).w = w := rfl
    have h3 : (ofGraph d N a w (some vs)).eattr = some vs := rfl
    rw [h1, h2, h3, init_dense d N hN a w hw, hf]
    rfl
  · intro f0 hf0
    rw [hf] at hf0
    simp only [Option.some.injEq] at hf0
    subst hf0
    obtain ⟨f', h1, h2⟩ := linkAttr_setLinkAttr (ofGraph d N a w none) f
      (fun hd i j => linkAttr_symm (ofGraph d N a w (some vs)) hd f hf i j)
    refine ⟨f', h1, ?_⟩
    intro i j
    rw [h2]
    split
    · rfl
    · rename_i hr
      have hr' : rel (ofGraph d N a w (some vs)).directed (ofGraph d N a w (some vs)).graph i j
          = false := by
        have : rel (ofGraph d N a w none).directed (ofGraph d N a w none).graph i j = false := by
          simpa using hr
        exact this
      exact (linkAttr_zero _ f hf i j hr').symm

/-! ## any sparse storage; edge list without `n_nodes` -/

/-- **sparse path, any storage**: a square sparse matrix that stores each cell at
most once with value 0 or 1 — in any order (csc / csr / coo / lil / dok), with or
without explicitly stored zeros — builds the canonical network of the relation
"the entry is non-zero". -/
theorem sparse_path (d : Bool) (N : Nat) (hN : 2 ≤ N) (s : Sparse) (hs : SimpleSparse N s)
    (w : List Rat) (hw : w.length = N) :
    init d (.sparse s) (some w) = .ok (ofGraph d N (relOf s) w none) :=
  init_simpleSparse d N hN s hs w hw

/-- the matrix `csc_matrix(np.array(dense))` of a dense 0/1 matrix and the COO matrix
of a duplicate-free edge list are such matrices (so `dense_path` and the matrix
`FromIGraph` builds are instances of `sparse_path`), and the relation read off the
former is the dense matrix's -/
theorem sparse_path_instances (N : Nat) (a : Nat → Nat → Bool) (E : List (Nat × Nat))
    (hnd : E.Nodup) (hr : ∀ p ∈ E, p.1 < N ∧ p.2 < N) :
    SimpleSparse N (ofDenseMat N N (ind a)) ∧ SimpleSparse N (cooOnes N E)
    ∧ ∀ i j, i < N → j < N → relOf (ofDenseMat N N (ind a)) i j = a i j :=
  ⟨simpleSparse_dense N a, simpleSparse_cooOnes N E hnd hr, relOf_dense N a⟩

/-- two sparse matrices with the same non-zero cells (whatever their storage order
and explicit zeros) build the same network -/
theorem sparse_storage_irrelevant (d : Bool) (N : Nat) (hN : 2 ≤ N) (s s' : Sparse)
    (hs : SimpleSparse N s) (hs' : SimpleSparse N s')
    (h : ∀ i j, i < N → j < N → relOf s i j = relOf s' i j) (w : List Rat) (hw : w.length = N) :
    init d (.sparse s) (some w) = init d (.sparse s') (some w) := by
  rw [sparse_path d N hN s hs w hw, sparse_path d N hN s' hs' w hw, ofGraph_congr w none h]

/-- **edge list without `n_nodes`**: `N = edges.max() + 1` (the expression found in
the source, `ArithC05.edge_list_N`), every entry is then in range, and the
network is the one built with `n_nodes = N` -/
theorem edge_list_path_inferred (d : Bool) (E : List (Nat × Nat)) (hE : E ≠ [])
    (hN : 2 ≤ maxNode E + 1) (w : List Rat) (hw : w.length = maxNode E + 1) :
    ((maxNode E + 1 : Nat) : Int) = ArithC05.edge_list_N (maxNode E)
    ∧ init d (.edges E none) (some w) = .ok (ofGraph d (maxNode E + 1) (rel d E) w none) := by
  refine ⟨by simp [ArithC05.edge_list_N], ?_⟩
  have h := edge_list_path d (maxNode E + 1) hN E (lt_maxNode E) w hw
  unfold init construct at h ⊢
  simp only at h ⊢
  rw [setEdgeList_inferred _ E hE]
  exact h

/-! ## live objects: the invariant, and histories of statements

`Coherent net` (Lemmas/ReprHist.lean): at least two nodes, the embedded graph
object is a simple graph on the network's nodes, one weight per node, one
attribute value per edge, and `n_links`, `link_density`, `sp_A`, total and mean
node weight are those of the canonical network of the relation the embedded graph
describes.  `Reprs net σ`: `net` is coherent and shows the relation, weights,
link-attribute matrix and stored vertex weights of the abstract state `σ`. -/

/-- every constructor path (they all return `ofGraph`, see above) starts a history:
the canonical network of a simple graph is a coherent live object representing
that graph, its weights, no attribute, nothing stored on the graph object -/
theorem constructed_reprs (d : Bool) (N : Nat) (hN : 2 ≤ N) (a : Nat → Nat → Bool)
    (hs : Simple d N a) (w : List Rat) (hw : w.length = N) :
    Reprs (ofGraph d N a w none) ⟨a, w, none, none⟩ := by
  rw [ofGraph_eq_form d N a hs w none]
  exact ⟨coherent_form (good_graphEdges d N hN a w hw none (fun _ h => by cases h)),
    fun i j hi hj => rel_graphEdges d N a hs i j hi hj, rfl, rfl, rfl⟩

/-- … and so does `FromIGraph` / `Load` of any simple igraph object (edges in the
object's own order, its edge attribute, its stored vertex weights) -/
theorem fromIGraph_coherent (g : IGraph) (hN : 2 ≤ g.n) (hs : SimpleEdges g.directed g.edges)
    (hl : NoLoops g.edges) (hr : ∀ p ∈ g.edges, p.1 < g.n ∧ p.2 < g.n)
    (hw : ∀ w, g.vw = some w → w.length = g.n)
    (ha : ∀ vs, g.ea = some vs → vs.length = g.edges.length) :
    ∃ net, fromIGraph g = .ok net ∧ Coherent net ∧ net.graph = g.edges ∧ net.eattr = g.ea
      ∧ net.w = weightsOf g.n g.vw ∧ net.N = g.n ∧ net.directed = g.directed := by
  refine ⟨_, fromIGraph_simple g hN hs hr hw, ?_, rfl, rfl, rfl, rfl, rfl⟩
  have hwl : (weightsOf g.n g.vw).length = g.n := by
    cases hv : g.vw with
    | none => simp [weightsOf]
    | some x => exact hw x hv
  exact coherent_form (d := g.directed) (N := g.n) (g := g.edges) (ea := g.ea) (vw := g.vw)
    ⟨hN, hs, hl, hr, hwl, ha, hw⟩

/-- every coherent object represents an abstract state (its own) -/
theorem coherent_reprs (net : Net) (h : Coherent net) : ∃ σ : Abs, Reprs net σ ∧
    σ.a = rel net.directed net.graph ∧ σ.w = net.w ∧ σ.gvw = net.gvw :=
  h.reprs

/-- **what a represented state determines**: every derived observable of the
object is the one of the canonical network of `σ` -/
theorem reprs_observables (net : Net) (σ : Abs) (h : Reprs net σ) :
    net = { ofGraph net.directed net.N σ.a σ.w none with
            graph := net.graph, eattr := net.eattr, gvw := σ.gvw }
    ∧ SimpleEdges net.directed net.graph ∧ NoLoops net.graph
    ∧ (∀ i j, i < net.N → j < net.N → rel net.directed net.graph i j = σ.a i j)
    ∧ AttrIs net σ.V :=
  ⟨h.eq_ofGraph, h.coh.good.simple, h.coh.good.noloop, h.adj, h.attr⟩

/-- **one statement** on a live object — `node_weights = w`, `set_link_attribute`,
`del_link_attribute`, `adjacency = A`, `save`, `save` + `Load`, `copy()`,
`FromIGraph(net.graph)` — succeeds and leaves an object representing the
specified state `specStep` -/
theorem statement_spec (store : IGraph → IGraph) (hstore : ∀ g, store g = g) (net : Net) (σ : Abs)
    (h : Reprs net σ) (op : Op) (hv : ValidOp net.directed net.N op) :
    ∃ net', step store net op = .ok net' ∧ Reprs net' (specStep net.N σ op)
      ∧ net'.N = net.N ∧ net'.directed = net.directed :=
  step_reprs store hstore net σ h op hv

/-- **every history** of such statements, of any length and in any order, on one
object (continuing with the loaded / copied object after `reload` / `copy` /
`regraph`) succeeds and ends in an object representing the specified state: in
particular the current weights, total, mean, adjacency, link count, density and
link attribute survive any number of saves, loads, copies and reassignments. -/
theorem history_spec (store : IGraph → IGraph) (hstore : ∀ g, store g = g) (net : Net) (σ : Abs)
    (h : Reprs net σ) (ops : List Op) (hv : ∀ op ∈ ops, ValidOp net.directed net.N op) :
    ∃ net', run store net ops = .ok net' ∧ Reprs net' (spec net.N σ ops)
      ∧ net'.N = net.N ∧ net'.directed = net.directed :=
  run_reprs store hstore ops net σ h hv

/-- **save → Load of any coherent object** (whatever path and history produced it):
the loaded object *is* the saved object as `save` left it -/
theorem saveLoad_coherent (store : IGraph → IGraph) (hstore : ∀ g, store g = g) (net : Net)
    (h : Coherent net) :
    fromIGraph (store (save net).2) = .ok (save net).1
    ∧ (save net).1 = { net with gvw := some net.w }
    ∧ saveLoad store net = fromIGraph (store (save net).2) := by
  obtain ⟨d, N, g, ea, vw, w, rfl, hg⟩ := h.exists_form
  refine ⟨?_, rfl, rfl⟩
  rw [hstore, save_form]
  exact fromIGraph_form hg (some w)
    (fun v hv => by simp only [Option.some.injEq] at hv; subst hv; exact hg.wlen)

/-- **`SpatialNetwork.Load` / `GeoNetwork.Load` of any coherent object** (rebuilt from
the dense adjacency matrix of the stored graph, then the stored weights and the
stored graph are attached): the loaded object is the saved one, whatever weights
the constructor assigned first -/
theorem loadViaAdjacency_coherent (net : Net) (h : Coherent net)
    (gw : Option (Option (List Rat))) (hgw : ∀ x, gw = some (some x) → x.length = net.N) :
    loadViaAdjacency (save net).2 gw = .ok (save net).1 := by
  obtain ⟨d, N, g, ea, vw, w, rfl, hg⟩ := h.exists_form
  have hgw' : ∀ x, gw = some (some x) → x.length = N := hgw
  rw [save_form]
  unfold loadViaAdjacency
  simp only
  have hadj : ofDenseMat N N (igAdj ⟨N, d, g, some w, ea⟩) = ofDenseMat N N (ind (rel d g)) := by
    apply ofDenseMat_congr
    intro i j _ _
    exact igAdj_simple ⟨N, d, g, some w, ea⟩ hg.simple i j
  rw [hadj, init_dense_none d N hg.size (rel d g)]
  simp only [bind, Except.bind]
  have h1 : ∃ w1, assignWeights (ofGraph d N (rel d g) (List.replicate N 1) none) gw
      = .ok (ofGraph d N (rel d g) w1 none) := by
    cases gw with
    | none => exact ⟨_, rfl⟩
    | some x =>
      refine ⟨weightsOf N x, ?_⟩
      show setWeights _ x = _
      apply setWeights_ofGraph
      intro y hy; subst hy; exact hgw' y rfl
  obtain ⟨w1, h1⟩ := h1
  rw [h1]
  simp only [Option.map_some]
  unfold assignWeights
  simp only
  rw [setWeights_ofGraph d N (rel d g) w1 none (some w) (fun x hx => by
    simp only [Option.some.injEq] at hx; subst hx; exact hg.wlen)]
  rfl

/-- what is written always holds the *current* weights, whatever the graph object
carried before (a file written earlier, the object the network was loaded from) -/
theorem save_writes_current_weights (net : Net) :
    (save net).2.vw = some net.w ∧ (save net).2.ea = net.eattr
    ∧ (save net).2.edges = net.graph ∧ (save net).2 = toIGraph net :=
  ⟨rfl, rfl, rfl, rfl⟩

/-- **copy of any coherent object**: same relation, weights, total, mean, `sp_A`,
link count, density and link-attribute matrix; a fresh graph object -/
theorem copy_coherent (net : Net) (σ : Abs) (h : Reprs net σ) :
    ∃ c, copy net = .ok c ∧ Reprs c { σ with gvw := none } ∧ c.N = net.N
      ∧ c.directed = net.directed :=
  step_reprs id (fun _ => rfl) net σ h .copy trivial

/-! ## non-vacuity: the hypotheses are satisfiable by non-trivial states -/

/-- the path 0 - 1 - 2 plus the isolated node 3 -/
def exA (i j : Nat) : Bool :=
  (i == 0 && j == 1) || (i == 1 && j == 0) || (i == 1 && j == 2) || (i == 2 && j == 1)

/-- a directed graph with a reciprocated link, a single link and an isolated node -/
def exD (i j : Nat) : Bool := (i == 0 && j == 1) || (i == 1 && j == 0) || (i == 2 && j == 0)

def exE : List (Nat × Nat) := [(1, 0), (0, 1), (2, 1), (2, 1)]
def exW : List Rat := [1, 2, 3 / 2, 0]

example : Simple false 4 exA := ⟨by decide, fun _ => forall_lt_lt (by decide)⟩
example : Simple true 4 exD := ⟨by decide, fun h => by cases h⟩
example : ∀ p ∈ exE, p.1 < 4 ∧ p.2 < 4 := by decide
/-- `exE` (both orientations, a repeated entry) describes `exA` -/
example : ∀ i j, i < 4 → j < 4 → exA i j = rel false exE i j := forall_lt_lt (by decide)
example : exW.length = 4 := rfl
/-- so `dense_eq_edge_list` applies, and the common value is a network with 2 links, whose
embedded graph has the 2 edges (0,1), (1,2) -/
example : init false (.sparse (ofDenseMat 4 4 (ind exA))) (some exW)
    = init false (.edges exE (some 4)) (some exW) :=
  dense_eq_edge_list false 4 (by decide) exA exE (by decide) (forall_lt_lt (by decide)) exW rfl
example : (ofGraph false 4 exA exW none).nLinks = 2
    ∧ (ofGraph false 4 exA exW none).graph = [(0, 1), (1, 2)] := by decide
example : (ofGraph true 4 exD exW none).nLinks = 3
    ∧ (ofGraph true 4 exD exW none).graph = [(0, 1), (1, 0), (2, 0)] := by decide
/-- a simple igraph object (hypotheses of `igraph_path`) -/
example : SimpleEdges false [(0, 1), (1, 2)] ∧ SimpleEdges true [(0, 1), (1, 0), (2, 0)] :=
  ⟨⟨by decide, fun _ => by decide⟩, ⟨by decide, fun h => by cases h⟩⟩
/-- an edgeless network and a single-link network are instances, too -/
example : Simple false 3 (fun _ _ => false) ∧ Simple false 2 (fun i j => i != j) :=
  ⟨⟨by decide, fun _ => forall_lt_lt (by decide)⟩, ⟨by decide, fun _ => forall_lt_lt (by decide)⟩⟩
/-- the error branches are reachable -/
example : setAdjacency (Net.blank false 0) (ofDenseMat 1 1 fun _ _ => 0) = .error .zeroDivision :=
  setAdjacency_small _ _ rfl (by decide)

/-- a sparse matrix in arbitrary order with an explicitly stored zero (hypotheses of `sparse_path`) -/
example : SimpleSparse 3 ⟨3, 3, [(2, 1, 1), (0, 1, 1), (0, 2, 0), (1, 0, 1), (1, 2, 1)]⟩ :=
  ⟨rfl, rfl, by decide, by decide, by decide⟩
/-- an edge list whose node count is inferred -/
example : exE ≠ [] ∧ 2 ≤ maxNode exE + 1 := by decide
/-- a history on the path-plus-isolated-node network: reassign weights, set an
attribute, save, load, reassign again, copy, save, load — the hypotheses of
`history_spec` hold, and the specified final state carries the last weights -/
def exOps : List Op :=
  [.setW (some [2, 2, 1, 1]), .setAttr (fun i j => (i + j : Nat)), .save, .reload,
   .setW (some [0, 1 / 2, 1, 4]), .copy, .reload, .regraph]
example : ∀ op ∈ exOps, ValidOp false 4 op := by
  intro op hop
  simp only [exOps, List.mem_cons, List.not_mem_nil, or_false] at hop
  rcases hop with rfl | rfl | rfl | rfl | rfl | rfl | rfl | rfl <;>
    first
    | trivial
    | rfl
    | (intro _ i j; simp [Nat.add_comm])
/-- assigning a new adjacency matrix (sparse, unordered, with a stored zero) is a valid statement -/
example : ValidOp false 4 (.setAdj ⟨4, 4, [(2, 3, 1), (3, 2, 1), (0, 1, 0)]⟩) :=
  ⟨⟨rfl, rfl, by decide, by decide, by decide⟩, ⟨by decide, fun _ => forall_lt_lt (by decide)⟩⟩
example : (spec 4 ⟨exA, exW, none, none⟩ exOps).w = [0, 1 / 2, 1, 4]
    ∧ (spec 4 ⟨exA, exW, none, none⟩ exOps).gvw = some [0, 1 / 2, 1, 4] := ⟨rfl, rfl⟩
example : Reprs (ofGraph false 4 exA exW none) ⟨exA, exW, none, none⟩ :=
  constructed_reprs false 4 (by decide) exA ⟨by decide, fun _ => forall_lt_lt (by decide)⟩ exW rfl

/-! ## Round 3: named link attributes (several at once), and `undirected_copy`, the
`edge_list()` round trip and `permuted_copy(identity)` as statements of a history

`NetA` (`Model/ReprAttrs.lean`) is the live object with the whole dictionary
`graph.es.attributes()`; `AbsA` specifies a history on: directedness, relation, node
weights, **one matrix per attribute name**, weights stored on the graph object. -/

/-- the result of every constructor path (the canonical network of a simple graph,
whose graph object the adjacency setter has just created) represents
`(d, a, w, no attribute of any name, nothing stored on the graph)` -/
theorem constructed_reprsA (d : Bool) (N : Nat) (hN : 2 ≤ N) (a : Nat → Nat → Bool)
    (hs : Simple d N a) (w : List Rat) (hw : w.length = N) :
    ReprsA (NetA.fresh (ofGraph d N a w none)) ⟨d, a, w, fun _ => none, none⟩ := by
  unfold NetA.fresh
  rw [ofGraph_eq_form d N a hs w none]
  exact reprsA_form (good_graphEdges d N hN a w hw none (fun _ h => by cases h)) rfl
    (fun i j hi hj => rel_graphEdges d N a hs i j hi hj) rfl rfl (fun a => attrOK_none_nil _ _ a)

/-- an object representing `σ` shows `σ`: every field of the `Network` object is the one
of the canonical network of `(σ.d, σ.a, σ.w)`; `link_attribute(name)` is, for **every
name**, the specified matrix on the links and 0 elsewhere, and a name the
specification does not know is not found (`find_link_attribute` is `False`, and
`link_attribute` raises `KeyError` as soon as there is a link) -/
theorem reprsA_observables {x : NetA} {σ : AbsA} (h : ReprsA x σ) :
    x.core = { ofGraph σ.d x.core.N σ.a σ.w none with graph := x.core.graph, gvw := σ.gvw }
    ∧ (∀ i j, i < x.core.N → j < x.core.N → rel σ.d x.core.graph i j = σ.a i j)
    ∧ ∀ a, match σ.V a with
        | none => findLinkAttrA x a = false ∧ (x.core.graph ≠ [] → linkAttrA x a = none)
        | some V => ∃ f, linkAttrA x a = some f ∧
            ∀ i j, i < x.core.N → j < x.core.N → f i j = if σ.a i j then V i j else 0 := by
  have hR : Reprs x.core ⟨σ.a, σ.w, none, σ.gvw⟩ := ⟨h.coh, h.adj, h.w, h.gvw, h.noattr⟩
  refine ⟨?_, ?_, ?_⟩
  · have := hR.eq_ofGraph
    rw [h.noattr, h.dir] at this
    exact this
  · intro i j hi hj; rw [← h.dir]; exact h.adj i j hi hj
  · intro a
    have ha := h.attr a
    cases hV : σ.V a with
    | none =>
      rw [hV] at ha
      have ha' : x.attrs.get a = none := ha
      refine ⟨by simp [findLinkAttrA, ha'], ?_⟩
      intro hne
      rw [linkAttrA_eq, ha']
      have : x.core.graph.isEmpty = false := by simpa using hne
      simp [linkAttr, netOf, this]
    | some V =>
      rw [hV] at ha
      obtain ⟨_, f, hf, hfV⟩ := ha
      refine ⟨f, by rw [linkAttrA_eq]; exact hf, ?_⟩
      intro i j hi hj
      rw [hfV i j, h.adj i j hi hj]

/-- **frame property of the attribute statements** (any object, no hypothesis): setting or
deleting the attribute `b` changes nothing but `b` — every field of the object and
`link_attribute(a)` for every other name `a` stay what they were -/
theorem named_attr_frame (x : NetA) (b : String) (v : Nat → Nat → Rat) :
    (setLinkAttrA x b v).core = x.core ∧ (delLinkAttrA x b).core = x.core
    ∧ ∀ a, a ≠ b → linkAttrA (setLinkAttrA x b v) a = linkAttrA x a
        ∧ linkAttrA (delLinkAttrA x b) a = linkAttrA x a
        ∧ findLinkAttrA (setLinkAttrA x b v) a = findLinkAttrA x a
        ∧ findLinkAttrA (delLinkAttrA x b) a = findLinkAttrA x a := by
  refine ⟨setLinkAttrA_core x b v, rfl, ?_⟩
  intro a hab
  have hdel : (delLinkAttrA x b).attrs.get a = x.attrs.get a := by
    show (x.attrs.del b).get a = _
    rw [get_del, if_neg hab]
  have hset : (setLinkAttrA x b v).attrs.get a = x.attrs.get a := by
    unfold setLinkAttrA
    split
    · rfl
    · show (x.attrs.put b _).get a = _
      rw [get_put, if_neg hab]
  refine ⟨?_, ?_, ?_, ?_⟩
  · rw [linkAttrA_eq, linkAttrA_eq, setLinkAttrA_core, hset]
  · rw [linkAttrA_eq, linkAttrA_eq, hdel]; rfl
  · unfold findLinkAttrA; rw [hset]
  · unfold findLinkAttrA; rw [hdel]

/-- `link_attribute(b)` after `set_link_attribute(b, V)` is `V` on the links and 0
elsewhere, for every name, whatever other attributes exist (any graph object; `V`
symmetric when undirected, as documented) — also on a network without links, where the
attribute is never created; afterwards `del_link_attribute(b)` makes `b` unknown -/
theorem named_attr_get_set (x : NetA) (b : String) (V : Nat → Nat → Rat)
    (hV : x.core.directed = false → ∀ i j, V j i = V i j) :
    (∃ f, linkAttrA (setLinkAttrA x b V) b = some f ∧
      ∀ i j, f i j = if rel x.core.directed x.core.graph i j then V i j else 0)
    ∧ (x.core.graph ≠ [] → findLinkAttrA (setLinkAttrA x b V) b = true)
    ∧ (x.core.graph = [] → setLinkAttrA x b V = x)
    ∧ findLinkAttrA (delLinkAttrA (setLinkAttrA x b V) b) b = false := by
  have hdel : findLinkAttrA (delLinkAttrA (setLinkAttrA x b V) b) b = false := by
    unfold findLinkAttrA
    show ((Attrs.del _ b).get b).isSome = false
    rw [get_del, if_pos rfl]; rfl
  by_cases hE : x.core.graph.isEmpty = true
  · have hg0 : x.core.graph = [] := List.isEmpty_iff.1 hE
    have hrun : setLinkAttrA x b V = x := by unfold setLinkAttrA; exact if_pos hE
    refine ⟨?_, fun h => absurd hg0 h, fun _ => hrun, hdel⟩
    rw [hrun, linkAttrA_eq, hg0]
    obtain ⟨_, f, hf, hfV⟩ := attrOK_nil x.core.directed x.attrs b V
    exact ⟨f, hf, hfV⟩
  · have hrun : setLinkAttrA x b V
        = { x with attrs := x.attrs.put b (x.core.graph.map fun e => V e.1 e.2) } := by
      unfold setLinkAttrA; exact if_neg hE
    obtain ⟨h1, f, hf, hfV⟩ := attrOK_put (d := x.core.directed) (g := x.core.graph) x.attrs b V hV
    refine ⟨⟨f, ?_, hfV⟩, ?_, fun h0 => absurd (by rw [h0]; rfl) hE, hdel⟩
    · rw [hrun, linkAttrA_eq]; exact hf
    · intro hne
      obtain ⟨vs, hvs⟩ := h1 hne
      rw [hrun]
      unfold findLinkAttrA
      show (Attrs.get _ b).isSome = true
      rw [hvs]; rfl

/-- **one statement** of the extended statement set — weights, `set_link_attribute(name, V)`,
`del_link_attribute(name)`, `adjacency = A`, `save`, `save` + `Load`, `copy()`,
`FromIGraph(net.graph)`, **`undirected_copy()`**, **`Network(edge_list=net.edge_list(), …)`**,
**`permuted_copy(identity)`** — on an object representing `σ` succeeds and leaves an object
representing `specStepA σ` (all attribute names at once; directedness as specified) -/
theorem named_statement_spec (store : IGraphA → IGraphA) (hstore : ∀ g, store g = g) (x : NetA)
    (σ : AbsA) (h : ReprsA x σ) (op : OpA) (hv : ValidOpA x.core.directed x.core.N op) :
    ∃ x', stepA store x op = .ok x' ∧ ReprsA x' (specStepA x.core.N σ op)
      ∧ x'.core.N = x.core.N ∧ x'.core.directed = dirAfter x.core.directed op :=
  stepA_reprs store hstore x σ h op hv

/-- **every history** over the extended statement set, of any length and order, with any
number of attribute names in play, ends in an object representing the specified state -/
theorem named_history_spec (store : IGraphA → IGraphA) (hstore : ∀ g, store g = g) (x : NetA)
    (σ : AbsA) (h : ReprsA x σ) (ops : List OpA) (hv : ValidRun x.core.N x.core.directed ops) :
    ∃ x', runA store x ops = .ok x' ∧ ReprsA x' (specA x.core.N σ ops) ∧ x'.core.N = x.core.N :=
  runA_reprs store hstore ops x σ h hv

/-- `copy()` carries **all** link attributes, each under its name (the loop over
`graph.es.attributes()`), together with relation, weights, total, mean, `sp_A`, link
count and density; the copy's graph object is fresh (nothing stored on it) -/
theorem copy_all_attributes (x : NetA) (σ : AbsA) (h : ReprsA x σ) :
    ∃ x', copyA x = .ok x' ∧ ReprsA x' { σ with gvw := none } ∧ x'.core.N = x.core.N := by
  obtain ⟨x', h1, h2, h3, _⟩ := stepA_reprs id (fun _ => rfl) x σ h .copy trivial
  exact ⟨x', h1, h2, h3⟩

/-- `undirected_copy()`, the `edge_list()` round trip and `permuted_copy(identity)` of any
object representing `σ`: the undirected closure resp. the same relation, the same weights
(hence total and mean), no link attribute, a fresh graph object -/
theorem derived_constructors (x : NetA) (σ : AbsA) (h : ReprsA x σ) :
    (∃ x', undirectedCopyA x = .ok x' ∧ ReprsA x'
        ⟨false, fun i j => σ.a i j || σ.a j i, σ.w, fun _ => none, none⟩)
    ∧ (∃ x', edgeListCopyA x = .ok x' ∧ ReprsA x' { σ with V := fun _ => none, gvw := none })
    ∧ (∃ x', permutedCopyIdA x = .ok x' ∧ ReprsA x' { σ with V := fun _ => none, gvw := none }) := by
  obtain ⟨x1, h1, r1, _⟩ := stepA_reprs id (fun _ => rfl) x σ h .ucopy trivial
  obtain ⟨x2, h2, r2, _⟩ := stepA_reprs id (fun _ => rfl) x σ h .edgelist trivial
  obtain ⟨x3, h3, r3, _⟩ := stepA_reprs id (fun _ => rfl) x σ h .pcopy trivial
  exact ⟨⟨x1, h1, r1⟩, ⟨x2, h2, r2⟩, ⟨x3, h3, r3⟩⟩

/-- **a file format that renames attributes** (GML: igraph's writer removes underscores;
`ren` is any renaming that does not keep `node_weight_nsi`): `save` + `Load` returns the
same graph with **unit weights** and nothing found under `node_weight_nsi`; a link
attribute whose name is kept and not clashed with comes back cell for cell; a name that
is renamed away is not found any more.  (This is known findings C05-K2 / K2b / K3 as a
statement about the code: the loss is exactly the renaming.) -/
theorem gml_reload_named (ren : String → String)
    (hren : ren "node_weight_nsi" ≠ "node_weight_nsi") (x : NetA) (σ : AbsA) (h : ReprsA x σ) :
    ∃ x', stepA (gmlStoreA ren) x .reload = .ok x'
      ∧ ReprsA ⟨x'.core, []⟩
          { σ with w := List.replicate x.core.N 1, gvw := none, V := fun _ => none }
      ∧ (∀ a, ren a = a → (∀ p ∈ x.attrs, ren p.1 = a → p.1 = a) →
          linkAttrA x' a = linkAttrA x a)
      ∧ (∀ a, (∀ p ∈ x.attrs, ren p.1 ≠ a) → findLinkAttrA x' a = false) := by
  obtain ⟨core, as⟩ := x
  obtain ⟨hc, hna, hdir, hadj, hw, hgvw, hattr⟩ := h
  have hc' : Coherent core := hc
  obtain ⟨d, N, g, ea, vw, w, rfl, hg⟩ := hc'.exists_form
  have hea : ea = none := hna
  subst hea
  have hwl : (List.replicate N (1 : Rat)).length = N := by simp
  have hgood : Good d N g none none (List.replicate N 1) :=
    ⟨hg.size, hg.simple, hg.noloop, hg.range, hwl, hg.alen, fun _ h => by cases h⟩
  have hvw : (ren "node_weight_nsi" == "node_weight_nsi") = false := by simpa using hren
  by_cases hE : g.isEmpty = true
  · have hg0 : g = [] := List.isEmpty_iff.1 hE
    refine ⟨⟨form d N g none none (List.replicate N 1), []⟩, ?_,
      reprsA_form hgood hdir hadj rfl rfl (fun a => attrOK_none_nil _ _ a), ?_, ?_⟩
    · show fromIGraphA (gmlStoreA ren (saveA ⟨form d N g none vw w, as⟩).2) = _
      unfold gmlStoreA
      have hE2 : (saveA ⟨form d N g none vw w, as⟩).2.g.edges.isEmpty = true := hE
      simp only [hvw, hE2, if_true]
      show Except.map _ (fromIGraph ⟨N, d, g, none, none⟩) = _
      rw [fromIGraph_form hg none (fun _ h => by cases h)]
      rfl
    · intro a _ _
      rw [linkAttrA_eq, linkAttrA_eq]
      show linkAttr (netOf d g _) = linkAttr (netOf d g _)
      rw [hg0]
      simp [linkAttr, netOf]
    · intro a _; rfl
  refine ⟨⟨form d N g none none (List.replicate N 1), as.map fun p => (ren p.1, p.2)⟩, ?_,
    reprsA_form hgood hdir hadj rfl rfl (fun a => attrOK_none_nil _ _ a), ?_, ?_⟩
  · show fromIGraphA (gmlStoreA ren (saveA ⟨form d N g none vw w, as⟩).2) = _
    unfold gmlStoreA
    have hE2 : ¬ (saveA ⟨form d N g none vw w, as⟩).2.g.edges.isEmpty = true := hE
    simp only [hvw, hE2]
    show Except.map _ (fromIGraph ⟨N, d, g, none, none⟩) = _
    rw [fromIGraph_form hg none (fun _ h => by cases h)]
    rfl
  · intro a ha hinj
    rw [linkAttrA_eq, linkAttrA_eq]
    show linkAttr (netOf d g (Attrs.get (as.map fun p => (ren p.1, p.2)) a)) = _
    rw [get_map_ren as ren a ha hinj]
    rfl
  · intro a hno
    unfold findLinkAttrA
    show (Attrs.get (as.map fun p => (ren p.1, p.2)) a).isSome = false
    rw [get_map_ren_none as ren a hno]; rfl

/-! ## Round 3: subclasses whose constructors derive the adjacency matrix

`ClimateNetwork`, `CoupledClimateNetwork`, `RecurrenceNetwork` and `ResNetwork` compute a
0/1 matrix and hand it to `GeoNetwork.__init__` / `Network.__init__`, i.e. to the same
adjacency setter and node-weight setter.  The result is the canonical network of the
relation the documented rule describes — so `canonical_*`, `n_links_*`, `link_density_*`
and `constructed_reprsA` (hence every history theorem) apply to these objects. -/

private theorem thresholdMat_eq (sim : Nat → Nat → Rat) (thr : Rat) :
    thresholdMat sim thr = ind fun i j => i != j && decide (thr < ratAbs (sim i j)) := by
  funext i j
  unfold thresholdMat ind
  by_cases h : i = j
  · simp [h]
  · by_cases h2 : thr < ratAbs (sim i j) <;> simp [h, h2]

/-- **`ClimateNetwork(grid, similarity, threshold)`** (and `set_threshold` on a live object):
nodes `i ≠ j` are linked iff `|similarity[i, j]| > threshold` (strictly); weights are those of
the `node_weight_type`; for a symmetric similarity matrix — or a directed network — this is
a simple graph (symmetric adjacency with empty diagonal) -/
theorem climate_path (d : Bool) (N : Nat) (hN : 2 ≤ N) (sim : Nat → Nat → Rat) (thr : Rat)
    (cl : List Rat) (hcl : cl.length = N) (t : Nat) :
    climateInit d N sim thr cl t
      = .ok (ofGraph d N (fun i j => i != j && decide (thr < ratAbs (sim i j)))
          (weightsOf N (geoWeights cl t)) none)
    ∧ ((d = false → ∀ i j, sim i j = sim j i) →
        Simple d N fun i j => i != j && decide (thr < ratAbs (sim i j))) := by
  refine ⟨?_, fun hsym => ⟨fun i _ => by simp, fun hd i j _ _ => ?_⟩⟩
  · unfold climateInit
    rw [thresholdMat_eq]
    exact geo_path d N hN _ cl hcl t
  · rw [hsym hd i j]
    by_cases h : i = j
    · subst h; rfl
    · rw [bne_comm]

private theorem geoWeights_length (cl : List Rat) (N : Nat) (hcl : cl.length = N) (t : Nat) :
    (weightsOf N (geoWeights cl t)).length = N := by
  unfold geoWeights
  by_cases h1 : (t == 1) = true
  · simp [h1, weightsOf, hcl]
  · by_cases h2 : (t == 2) = true
    · simp [h1, h2, weightsOf, hcl]
    · simp [h1, h2, weightsOf]

private theorem ratAbs_sub_comm (a b : Rat) : ratAbs (a - b) = ratAbs (b - a) := by
  unfold ratAbs
  split_ifs <;> linarith

/-- **`CoupledClimateNetwork`**: running `Network.__init__` once more on the adjacency and
the weights of the `ClimateNetwork` just built changes nothing -/
theorem coupled_path (d : Bool) (N : Nat) (hN : 2 ≤ N) (sim : Nat → Nat → Rat) (thr : Rat)
    (cl : List Rat) (hcl : cl.length = N) (t : Nat) :
    coupledInit d N sim thr cl t = climateInit d N sim thr cl t := by
  unfold coupledInit
  rw [(climate_path d N hN sim thr cl hcl t).1]
  show init d (.sparse (ofGraph d N _ _ none).sparse) (some (weightsOf N (geoWeights cl t))) = _
  rw [sparse_ofGraph, init_dense d N hN _ _ (geoWeights_length cl N hcl t)]

/-- **`RecurrenceNetwork(x, threshold=ε, node_weights=w)`** of a scalar series (and
`set_fixed_threshold(ε)`, then with unit weights): states `i ≠ j` are linked iff
`|x_i − x_j| < ε`; always an undirected simple graph -/
theorem recurrence_path (x : List Rat) (hN : 2 ≤ x.length) (eps : Rat) (w : Option (List Rat))
    (hw : ∀ v, w = some v → v.length = x.length) :
    recurrenceInit x eps w
      = .ok (ofGraph false x.length
          (fun i j => i != j && decide (ratAbs (x.getD i 0 - x.getD j 0) < eps))
          (weightsOf x.length w) none)
    ∧ Simple false x.length
        fun i j => i != j && decide (ratAbs (x.getD i 0 - x.getD j 0) < eps) := by
  have hm : recurrenceMat x eps
      = ind fun i j => i != j && decide (ratAbs (x.getD i 0 - x.getD j 0) < eps) := by
    funext i j
    unfold recurrenceMat ind
    by_cases h : i = j
    · simp [h]
    · by_cases h2 : ratAbs (x.getD i 0 - x.getD j 0) < eps <;> simp [h, h2]
  refine ⟨?_, ⟨fun i _ => by simp, fun _ i j _ _ => ?_⟩⟩
  · unfold recurrenceInit
    rw [hm]
    cases w with
    | none => exact init_dense_none false _ hN _
    | some v => exact init_dense false _ hN _ v (hw v rfl)
  · have hab := ratAbs_sub_comm (x.getD i 0) (x.getD j 0)
    rw [hab, bne_comm]

/-- **`ResNetwork(resistances)`** without an explicit adjacency: `i` and `j` are linked iff
`resistances[i, j] ≠ 0`; a simple graph when the resistance matrix is symmetric with zero
diagonal -/
theorem res_path (N : Nat) (hN : 2 ≤ N) (R : Nat → Nat → Rat) (cl : List Rat)
    (hcl : cl.length = N) (t : Nat) :
    resInit N R cl t
      = .ok (ofGraph false N (fun i j => R i j != 0) (weightsOf N (geoWeights cl t)) none)
    ∧ ((∀ i, R i i = 0) → (∀ i j, R i j = R j i) → Simple false N fun i j => R i j != 0) := by
  have hm : resMat R = ind fun i j => R i j != 0 := by
    funext i j
    unfold resMat ind
    rfl
  refine ⟨?_, fun h0 hs => ⟨fun i _ => by simp [h0 i], fun _ i j _ _ => by rw [hs i j]⟩⟩
  unfold resInit
  rw [hm]
  exact geo_path false N hN _ cl hcl t


/-! ## Round 4 — the embedded graph object edge by edge: the loops of `set_link_attribute` /
`link_attribute`, and the order of the edge ids -/

/-- **`link_attribute(name)` as the loop that exists in the code** (`weights = zeros`, then per
edge id `weights[e.tuple] = e[name]`, and the transposed cell when undirected) returns the
closed form all earlier theorems speak about — for every object, no hypothesis -/
theorem link_attribute_loop (x : NetA) (a : String) : linkAttrLoopA x a = linkAttrA x a :=
  linkAttrLoopA_eq x a

/-- **`set_link_attribute(name, values)` as the loop that exists in the code**
(`for e in self.graph.es: e[name] = values[e.tuple]`, one assignment per edge id, the first
one creating the attribute with `None` elsewhere) leaves the object the closed form describes —
for every object and every order of the edge ids, no hypothesis; in particular nothing is
created on a network without links -/
theorem set_link_attribute_loop (x : NetA) (a : String) (v : Nat → Nat → Rat) :
    setLinkAttrLoop x a v = setLinkAttrA x a v :=
  setLinkAttrLoop_eq x a v

/-- after the loop the edge with id `k` holds `values[e_k.tuple]` — **whatever the order of the
edge ids** (the statement a "vectorised" assignment in adjacency order violates) -/
theorem set_link_attribute_per_edge (x : NetA) (a : String) (v : Nat → Nat → Rat)
    (hne : x.core.graph ≠ []) :
    ∃ vs, (setLinkAttrLoop x a v).attrs.get a = some vs ∧ vs.length = x.core.graph.length ∧
      ∀ (k : Nat) (e : Nat × Nat), x.core.graph[k]? = some e → vs[k]? = some (v e.1 e.2) := by
  rw [setLinkAttrLoop_eq]
  unfold setLinkAttrA
  have : x.core.graph.isEmpty = false := by simpa using hne
  simp only [this, Bool.false_eq_true, if_false]
  refine ⟨_, by rw [get_put, if_pos rfl], by simp, ?_⟩
  intro k e hk
  rw [List.getElem?_map, hk]
  rfl

/-- a history executed through the loops (what the driver runs) is the history of round 3 -/
theorem history_through_loops (store : IGraphA → IGraphA) (x : NetA) (ops : List OpA) :
    runL store x ops = runA store x ops :=
  runL_eq store ops x

/-- **`FromIGraph` / `Load` with named attributes**: a simple igraph object — edges in the
object's own order — becomes a live object representing the relation its edges list, its
stored vertex weights (or ones), and for every attribute name the matrix its per-edge values
describe; the object keeps the graph (edge order included) and the attribute dictionary -/
theorem igraph_path_named (h : IGraphA) (hs : SimpleIG h) :
    ∃ x, fromIGraphA h = .ok x ∧ ReprsA x (absOf h) ∧ x.core.N = h.g.n
      ∧ x.core.directed = h.g.directed ∧ x.core.graph = h.g.edges ∧ x.attrs = h.attrs :=
  fromIGraphA_reprs h hs

/-- **the orientation in which an undirected edge is listed is not kept**:
`igraph.Graph(n, edges, directed)` reports `(smaller, larger)`, so a listing and the listing
with any edges turned round give the same tuples, and the tuples describe the relation the
listing describes -/
theorem igraph_orientation_irrelevant (d : Bool) (E : List (Nat × Nat)) :
    (∀ e, normEdge false (swap e) = normEdge false e)
    ∧ (∀ e, normEdge true e = e)
    ∧ (∀ e, normEdge d (normEdge d e) = normEdge d e)
    ∧ ∀ i j, rel d (E.map (normEdge d)) i j = rel d E i j :=
  ⟨normEdge_swap, normEdge_directed, normEdge_idem d, rel_map_normEdge d E⟩

/-- two live objects representing the same abstract state show the same observables: every
field but the graph object itself (`N`, `n_links`, `link_density`, `sp_A`, weights, total,
mean, stored vertex weights), the relation of the embedded graph, `link_attribute(name)` cell
for cell for every name, and the same names missing -/
theorem same_state_same_observables {x x' : NetA} {σ : AbsA} (h : ReprsA x σ) (h' : ReprsA x' σ)
    (hN : x'.core.N = x.core.N) :
    x'.core = { x.core with graph := x'.core.graph }
    ∧ (∀ i j, i < x.core.N → j < x.core.N →
        rel σ.d x'.core.graph i j = rel σ.d x.core.graph i j)
    ∧ (∀ a V, σ.V a = some V → ∃ f f', linkAttrA x a = some f ∧ linkAttrA x' a = some f' ∧
        ∀ i j, i < x.core.N → j < x.core.N → f' i j = f i j)
    ∧ (∀ a, σ.V a = none → findLinkAttrA x a = false ∧ findLinkAttrA x' a = false) := by
  obtain ⟨e1, r1, a1⟩ := reprsA_observables h
  obtain ⟨e2, r2, a2⟩ := reprsA_observables h'
  rw [hN] at e2 r2 a2
  have key : ∀ (c c' : Net) (d : Bool) (N : Nat) (a : Nat → Nat → Bool) (w : List Rat)
      (v : Option (List Rat)) (g g' : List (Nat × Nat)),
      c = { ofGraph d N a w none with graph := g, gvw := v } →
      c' = { ofGraph d N a w none with graph := g', gvw := v } → c' = { c with graph := g' } := by
    intro c c' d N a w v g g' hc hc'
    subst hc hc'
    rfl
  refine ⟨key _ _ _ _ _ _ _ _ _ e1 e2, ?_, ?_, ?_⟩
  · intro i j hi hj
    rw [r1 i j hi hj, r2 i j hi hj]
  · intro a V hV
    have b1 := a1 a
    have b2 := a2 a
    rw [hV] at b1 b2
    obtain ⟨f, hf, hfv⟩ := b1
    obtain ⟨f', hf', hfv'⟩ := b2
    exact ⟨f, f', hf, hf', fun i j hi hj => by rw [hfv i j hi hj, hfv' i j hi hj]⟩
  · intro a hV
    have b1 := a1 a
    have b2 := a2 a
    rw [hV] at b1 b2
    exact ⟨b1.1, b2.1⟩

/-- **the order of the edge ids of the embedded graph object is not observable — after any
history.**  Let `h'` be the igraph object `h` with its edges listed in another order (every
edge attribute reordered with them).  Then `FromIGraph` / `Load` of both succeed, and after
**every** history of statements (any length, any order: `set_link_attribute` through its
per-edge loop, `link_attribute`, `del_link_attribute`, weights, `adjacency = A`, `save`,
`save`+`Load`, `copy()`, `FromIGraph(net.graph)`, `undirected_copy()`, the `edge_list()` round
trip, `permuted_copy(identity)`) both objects represent the *same* specified state — hence
(`same_state_same_observables`) agree in every observable. -/
theorem edge_order_irrelevant (store : IGraphA → IGraphA) (hstore : ∀ g, store g = g)
    (h h' : IGraphA) (hs : SimpleIG h) (hr : Reordered h h') (ops : List OpA)
    (hv : ValidRun h.g.n h.g.directed ops) :
    ∃ x0 x0' x x', fromIGraphA h = .ok x0 ∧ fromIGraphA h' = .ok x0'
      ∧ runL store x0 ops = .ok x ∧ runL store x0' ops = .ok x'
      ∧ ReprsA x (specA h.g.n (absOf h) ops) ∧ ReprsA x' (specA h.g.n (absOf h) ops)
      ∧ x'.core.N = x.core.N := by
  obtain ⟨x0, f0, r0, n0, d0, _, _⟩ := fromIGraphA_reprs h hs
  obtain ⟨x0', f0', r0', n0', d0'⟩ := reordered_reprs hs hr
  obtain ⟨x, hx, rx, nx⟩ := runA_reprs store hstore ops x0 _ r0 (by rw [n0, d0]; exact hv)
  obtain ⟨x', hx', rx', nx'⟩ := runA_reprs store hstore ops x0' _ r0' (by rw [n0', d0']; exact hv)
  rw [n0] at rx
  rw [n0'] at rx'
  exact ⟨x0, x0', x, x', f0, f0', by rw [runL_eq]; exact hx, by rw [runL_eq]; exact hx', rx, rx',
    by rw [nx, nx', n0, n0']⟩

/-- the special case the seeded change `C04-6` broke: `set_link_attribute(V)` then
`link_attribute` on two graph objects that differ only in the order of their edge ids return
the same matrix — `V` on the links, 0 elsewhere — for **any** graph object (not even simplicity
is needed) -/
theorem set_then_get_order_free (d : Bool) (E E' : List (Nat × Nat)) (hp : E'.Perm E)
    (V : Nat → Nat → Rat) (hV : d = false → ∀ i j, V j i = V i j) (as as' : Attrs) (a : String)
    (c c' : Net) (hc : c.graph = E ∧ c.directed = d) (hc' : c'.graph = E' ∧ c'.directed = d) :
    ∃ f f', linkAttrLoopA (setLinkAttrLoop ⟨c, as⟩ a V) a = some f
      ∧ linkAttrLoopA (setLinkAttrLoop ⟨c', as'⟩ a V) a = some f'
      ∧ ∀ i j, f' i j = f i j ∧ f i j = if rel d E i j then V i j else 0 := by
  obtain ⟨rfl, rfl⟩ := hc
  obtain ⟨hg', hd'⟩ := hc'
  obtain ⟨⟨f, hf, hfv⟩, _⟩ := named_attr_get_set ⟨c, as⟩ a V hV
  obtain ⟨⟨f', hf', hfv'⟩, _⟩ := named_attr_get_set ⟨c', as'⟩ a V (by rw [hd']; exact hV)
  refine ⟨f, f', ?_, ?_, ?_⟩
  · rw [linkAttrLoopA_eq, setLinkAttrLoop_eq]; exact hf
  · rw [linkAttrLoopA_eq, setLinkAttrLoop_eq]; exact hf'
  · intro i j
    refine ⟨?_, hfv i j⟩
    rw [hfv i j, hfv' i j]
    show (if rel c'.directed c'.graph i j then V i j else 0) = _
    rw [hd', hg', rel_perm _ _ _ hp]

/-- **where the assumption "edge ids follow the adjacency order" holds, and only there**: the
graph object the adjacency setter builds (`Graph(n, nz_coords(A)).simplify()`) lists its edges
as a sub-sequence of the row-major enumeration of the cells, so re-deriving the listing from
the adjacency matrix gives the listing itself and values handed over in adjacency order land
on the right edge ids.  For an adopted graph object (`FromIGraph` / `Load`) nothing of the
kind holds (non-vacuity example below: `[(1, 2), (0, 1)]`); the code's per-edge loops do not
need it (`set_link_attribute_per_edge`, `edge_order_irrelevant`). -/
theorem setter_graph_adjacency_order (d : Bool) (N : Nat) (c : List (Nat × Nat))
    (f : Nat × Nat → Rat) :
    (graphEdges d N c).Sublist (pairs N N)
    ∧ graphEdges d N (graphEdges d N c) = graphEdges d N c
    ∧ (graphEdges d N (graphEdges d N c)).map f = (graphEdges d N c).map f :=
  ⟨List.filter_sublist, graphEdges_idem d N c, by rw [graphEdges_idem]⟩

/-- **`average_link_attribute(name)`** (`link_attribute(name).mean(axis=1)`, through the loop)
of an object representing `σ`: node `i` gets the sum of the specified values over its links
divided by `N`; an unspecified name raises `KeyError` as soon as there is a link -/
theorem average_link_attribute_spec {x : NetA} {σ : AbsA} (h : ReprsA x σ) (a : String) :
    match σ.V a with
    | some V => avgLinkAttrA x a = some ((List.range x.core.N).map fun i =>
        ((List.range x.core.N).map fun j => if σ.a i j then V i j else 0).sum / (x.core.N : Rat))
    | none => x.core.graph ≠ [] → avgLinkAttrA x a = none := by
  obtain ⟨_, _, ha⟩ := reprsA_observables h
  have hb := ha a
  cases hV : σ.V a with
  | none =>
    rw [hV] at hb
    intro hne
    show avgLinkAttrA x a = none
    unfold avgLinkAttrA
    rw [linkAttrLoopA_eq, hb.2 hne]
    rfl
  | some V =>
    rw [hV] at hb
    obtain ⟨f, hf, hfv⟩ := hb
    show avgLinkAttrA x a = some _
    unfold avgLinkAttrA
    rw [linkAttrLoopA_eq, hf]
    simp only [Option.map_some]
    congr 1
    apply List.map_congr_left
    intro i hi
    congr 2
    apply List.map_congr_left
    intro j hj
    exact hfv i j (List.mem_range.1 hi) (List.mem_range.1 hj)

/-- **`SpatialNetwork.Load` / `GeoNetwork.Load` of any simple igraph object with named
attributes** (a file somebody else wrote: edges in its own order; vertex weights stored or
not): the network is rebuilt from the dense adjacency matrix, gets the stored weights — else
the ones the constructor assigned (`geoW`), else ones —, and adopts the graph object (edge
order included) with its whole attribute dictionary; it represents the state the object
lists.  (Round 2 had this for objects written by `save`, one anonymous attribute.) -/
theorem spatial_load_named (h : IGraphA) (hs : SimpleIG h) (gw : Option (Option (List Rat)))
    (hgw : ∀ x, gw = some (some x) → x.length = h.g.n) :
    ∃ x, loadViaAdjacencyA h gw = .ok x
      ∧ ReprsA x { absOf h with w := loadedWeights h.g.n h.g.vw gw }
      ∧ x.core.N = h.g.n ∧ x.core.graph = h.g.edges ∧ x.attrs = h.attrs := by
  obtain ⟨x, a, b, c, _, d, e⟩ := loadViaAdjacencyA_reprs_of h hs gw hgw
    { absOf h with w := loadedWeights h.g.n h.g.vw gw } rfl (fun _ _ _ _ => rfl) rfl rfl
    (attrOK_absOf h)
  exact ⟨x, a, b, c, d, e⟩

/-- … and the order of the edge ids in that file is not observable either: the reordered
object loads to an object representing the same state -/
theorem spatial_load_order_irrelevant (h h' : IGraphA) (hs : SimpleIG h) (hr : Reordered h h')
    (gw : Option (Option (List Rat))) (hgw : ∀ x, gw = some (some x) → x.length = h.g.n) :
    ∃ x x', loadViaAdjacencyA h gw = .ok x ∧ loadViaAdjacencyA h' gw = .ok x'
      ∧ ReprsA x { absOf h with w := loadedWeights h.g.n h.g.vw gw }
      ∧ ReprsA x' { absOf h with w := loadedWeights h.g.n h.g.vw gw }
      ∧ x'.core.N = x.core.N := by
  obtain ⟨x, a, b, c, _⟩ := spatial_load_named h hs gw hgw
  obtain ⟨x', a', b', c', _⟩ := loadViaAdjacencyA_reprs_of h' (simpleIG_reordered hs hr) gw
    (fun y hy => by rw [hr.n]; exact hgw y hy)
    { absOf h with w := loadedWeights h.g.n h.g.vw gw } hr.d
    (fun i j _ _ => by rw [hr.d]; exact rel_perm _ _ _ hr.edges i j)
    (by show loadedWeights h'.g.n h'.g.vw gw = loadedWeights h.g.n h.g.vw gw; rw [hr.n, hr.vw])
    hr.vw (attrOK_reordered hs hr)
  exact ⟨x, x', a, a', b, b', by rw [c, c', hr.n]⟩

/-! non-vacuity, round 3 -/

/-- two attributes at once on the path-plus-isolated-node network; an undirected copy in the
middle of a history; the hypotheses of `named_history_spec` hold and the specified final
state has lost the attributes at `undirected_copy()` and carries the last weights -/
def exOpsA : List OpA :=
  [.setAttr "link_weights" (fun i j => (i + j : Nat)), .setAttr "corr" (fun i j => (i * j : Nat)),
   .save, .copy, .delAttr "corr", .reload, .ucopy, .setW (some [0, 1 / 2, 1, 4]), .edgelist, .pcopy]
example : ValidRun 4 false exOpsA := by
  refine ⟨fun _ i j => by simp [Nat.add_comm], fun _ i j => by simp [Nat.mul_comm], trivial,
    trivial, trivial, trivial, trivial, rfl, trivial, trivial, trivial⟩
example : (specA 4 ⟨false, exA, exW, fun _ => none, none⟩ exOpsA).w = [0, 1 / 2, 1, 4] := rfl
example : ((specA 4 ⟨false, exA, exW, fun _ => none, none⟩ (exOpsA.take 6)).V "link_weights").isSome
    ∧ ((specA 4 ⟨false, exA, exW, fun _ => none, none⟩ (exOpsA.take 6)).V "corr").isNone := by
  constructor <;> decide
example : ReprsA (NetA.fresh (ofGraph false 4 exA exW none)) ⟨false, exA, exW, fun _ => none, none⟩ :=
  constructed_reprsA false 4 (by decide) exA ⟨by decide, fun _ => forall_lt_lt (by decide)⟩ exW rfl
/-- a directed history with `undirected_copy()`: symmetry of the attribute matrix is demanded
only after it -/
example : ValidRun 4 true [.setAttr "a_b" (fun i _ => (i : Nat)), .ucopy,
    .setAttr "a_b" (fun i j => (i + j : Nat))] :=
  by
  refine ⟨?_, trivial, ?_, trivial⟩
  · intro h; cases h
  · intro _ i j; simp [Nat.add_comm]
/-- a similarity matrix with mixed signs, thresholded at 1/2: nodes 0-1 are linked (|-3/4| > 1/2),
0-2 not (1/2 is not above 1/2) -/
example : thresholdMat (fun i j => if i + j == 1 then -3 / 4 else if i + j == 2 then 1 / 2 else 1)
      (1 / 2) 0 1 = 1
    ∧ thresholdMat (fun i j => if i + j == 1 then -3 / 4 else if i + j == 2 then 1 / 2 else 1)
      (1 / 2) 0 2 = 0 := by
  constructor <;> norm_num [thresholdMat, ratAbs]
example : recurrenceMat [0, 1, 3] (3 / 2) 0 1 = 1 ∧ recurrenceMat [0, 1, 3] (3 / 2) 1 2 = 0 := by
  constructor <;> norm_num [recurrenceMat, ratAbs]
/-- igraph's GML renaming satisfies the hypotheses of `gml_reload_named`: the weight
attribute is renamed, `corr` is kept, `link_weights` is renamed away -/
example : stripUnderscores "node_weight_nsi" ≠ "node_weight_nsi"
    ∧ stripUnderscores "corr" = "corr" ∧ stripUnderscores "link_weights" = "linkweights" := by
  decide

/-! non-vacuity, round 4 -/

/-- an igraph object whose edge ids are NOT in adjacency order (path 0-1-2 plus an isolated
node, the edge 1-2 first), with stored vertex weights and one edge attribute … -/
def exH : IGraphA := ⟨⟨4, false, [(1, 2), (0, 1)], some [1, 2, 3, 4], none⟩, [("w", [7, 5])]⟩
/-- … and the same object with the edges (and the values) in adjacency order -/
def exH' : IGraphA := ⟨⟨4, false, [(0, 1), (1, 2)], some [1, 2, 3, 4], none⟩, [("w", [5, 7])]⟩

private theorem get_single (b a : String) (vs : List Rat) :
    Attrs.get [(b, vs)] a = if b == a then some vs else none := rfl

example : SimpleIG exH := by
  refine ⟨by decide, ⟨by decide, fun _ => by decide⟩, ?_, by decide, ?_, ?_⟩
  · intro p hp
    have : p = (1, 2) ∨ p = (0, 1) := by simpa [exH] using hp
    rcases this with rfl | rfl <;> decide
  · intro w hw; cases hw; rfl
  · intro a vs hv
    change Attrs.get [("w", [7, 5])] a = some vs at hv
    rw [get_single] at hv
    split at hv
    · cases hv; rfl
    · cases hv

example : Reordered exH exH' := by
  refine ⟨rfl, rfl, rfl, List.Perm.swap _ _ _, ?_⟩
  intro a
  change (Attrs.get [("w", [7, 5])] a = none ∧ Attrs.get [("w", [5, 7])] a = none) ∨ _
  rw [get_single, get_single]
  by_cases ha : ("w" == a) = true
  · right
    refine ⟨[7, 5], [5, 7], ?_, ?_, rfl, List.Perm.swap _ _ _⟩
    · change Attrs.get [("w", [7, 5])] a = _
      rw [get_single, if_pos ha]
    · change Attrs.get [("w", [5, 7])] a = _
      rw [get_single, if_pos ha]
  · left
    exact ⟨if_neg ha, if_neg ha⟩

/-- the two listings describe the same matrix (5 on the link 0-1, 7 on the link 1-2) … -/
example : matOf false [(1, 2), (0, 1)] [7, 5] 0 1 = 5 ∧ matOf false [(0, 1), (1, 2)] [5, 7] 0 1 = 5
    ∧ matOf false [(1, 2), (0, 1)] [7, 5] 2 1 = 7 := by
  refine ⟨?_, ?_, ?_⟩ <;> simp [matOf, lastVal, cellPred]

/-- … whereas handing the values *in adjacency order* to the edge ids *in their own order*
(what the "vectorised" `graph.es[name] = values[edge_list()]` of the seeded change C04-6 does)
puts them on the wrong links: the per-edge loop stores `[V 1 2, V 0 1]`, the vectorised
assignment `[V 0 1, V 1 2]`, and `link_attribute` then shows `V 1 2` on the link 0-1 -/
example :
    (setLinkAttrLoop ⟨{ Net.blank false 4 with graph := [(1, 2), (0, 1)] }, []⟩ "w"
        (fun i j => ((10 * i + j : Nat) : Rat))).attrs = [("w", [12, 1])]
    ∧ matOf false [(1, 2), (0, 1)]
        ((graphEdges false 4 [(1, 2), (0, 1)]).map fun e => ((10 * e.1 + e.2 : Nat) : Rat)) 0 1 = 12 := by
  refine ⟨?_, ?_⟩
  · rw [setLinkAttrLoop_eq]; norm_num [setLinkAttrA, Net.blank, Attrs.put]
  · norm_num [matOf, lastVal, cellPred, graphEdges, pairs, swap, List.range, List.range.loop]

/-- a history on both objects that assigns an attribute after adoption, copies and reloads -/
example : ValidRun exH.g.n exH.g.directed
    [.setAttr "v" (fun i j => (i + j : Nat)), .copy, .reload, .delAttr "w"] :=
  ⟨fun _ i j => by simp [Nat.add_comm], trivial, trivial, trivial, trivial⟩

/-- igraph's tuples for a listing with one edge turned round -/
example : [(2, 1), (0, 1)].map (normEdge false) = [(1, 2), (0, 1)]
    ∧ [(2, 1), (0, 1)].map (normEdge true) = [(2, 1), (0, 1)] := by decide

/-! ## round 5: `splitted_copy` — the copy with one node split in two -/

/-- **`splitted_copy(node, proportion)` of any live object**: for an object representing `σ`
(any constructor path, any history, any edge order of its graph object) and an index that names
a node (`-N ≤ node < N`, negative indices counted from the end) the call succeeds and returns an
object on `N + 1` nodes representing `splitAbs N k p σ`: same directedness; the new node `N` is
linked to `k` and to everything `k` is linked to (`splitRel`); weights `w` with `w[k]` divided
into `(1-p)·w[k]` and `p·w[k]` (`splitW`); **every named link attribute** carried over under its
name, transformed like the adjacency matrix (`splitV`); a fresh graph object.  Hypothesis
`hlink`: the network has a link or the specification knows no attribute (on an edgeless network
`set_link_attribute` creates nothing, so an attribute specified there does not exist and cannot
be carried to the copy, which does have a link). -/
theorem splitted_copy_spec (x : NetA) (σ : AbsA) (h : ReprsA x σ) (node : Int) (k : Nat)
    (hk : splitNode x.core.N node = some k) (p : Rat)
    (hlink : x.core.graph ≠ [] ∨ ∀ a, σ.V a = none) :
    ∃ x', splittedCopyA x node p = .ok x' ∧ ReprsA x' (splitAbs x.core.N k p σ)
      ∧ x'.core.N = x.core.N + 1 ∧ x'.core.directed = x.core.directed := by
  obtain ⟨core, as⟩ := x
  obtain ⟨hc, hna, hdir, hadj, hw, hgvw, hattr⟩ := h
  have hc' : Coherent core := hc
  obtain ⟨d, N, g, ea, vw, w, rfl, hg⟩ := hc'.exists_form
  have hea : ea = none := hna
  subst hea
  have hdir' : d = σ.d := hdir
  have hadj' : ∀ i j, i < N → j < N → rel d g i j = σ.a i j := hadj
  have hw' : w = σ.w := hw
  have hattr' : ∀ a, AttrOK d g as a (σ.V a) := hattr
  have hk' : splitNode N node = some k := hk
  have hkN : k < N := (splitNode_some hk').1
  have hlink' : g ≠ [] ∨ ∀ a, σ.V a = none := hlink
  have hex : ∀ a W, σ.V a = some W → ∃ vs, as.get a = some vs := by
    intro a W hV
    rcases hlink' with hl | hl
    · have := hattr' a
      rw [hV] at this
      exact this.1 hl
    · rw [hl a] at hV; cases hV
  obtain ⟨as', hrun, hok⟩ := split_attrs_ok (vw := vw) (w := w) (as := as) k hkN (splitW w k p)
    σ.a hadj' σ.V hattr' hex
  have hs := splitRel_simple d (rel d g) N k (simple_rel d N g hg.noloop) hkN
  have hwl : (splitW w k p).length = N + 1 := by rw [splitW_length, hg.wlen]
  have hgood0 : Good d (N + 1) (graphEdges d (N + 1) (cells (N + 1) (splitRel (rel d g) N k)))
      none none (splitW w k p) :=
    good_graphEdges d (N + 1) (by omega) _ _ hwl none (fun _ h => by cases h)
  refine ⟨⟨form d (N + 1) (graphEdges d (N + 1) (cells (N + 1) (splitRel (rel d g) N k)))
      none none (splitW w k p), as'⟩, ?_, reprsA_form hgood0 hdir' ?_ (by rw [hw']; rfl) rfl hok,
    rfl, rfl⟩
  · show splittedCopyA ⟨form d N g none vw w, as⟩ node p = _
    unfold splittedCopyA
    have e0 : (form d N g none vw w).N = N := rfl
    simp only [e0, hk', splitInit_form hg k hkN p]
    exact congrArg Except.ok hrun
  · intro i j hi hj
    rw [rel_graphEdges d (N + 1) _ hs i j hi hj]
    exact splitRel_congr hadj' hkN i j

/-- **the remaining corner of `splitted_copy_spec`: an edgeless network** (where the
specification cannot say which attributes exist — `set_link_attribute` creates nothing there, an
adopted igraph object may still declare some): the copy carries exactly the names the dictionary
of the original holds, each with the value 0 on its single link.  Together with
`splitted_copy_spec` (a network with a link) this covers every live object. -/
theorem splitted_copy_edgeless (x : NetA) (σ : AbsA) (h : ReprsA x σ) (node : Int) (k : Nat)
    (hk : splitNode x.core.N node = some k) (p : Rat) (hE : x.core.graph = []) :
    ∃ x', splittedCopyA x node p = .ok x'
      ∧ ReprsA x' { splitAbs x.core.N k p σ with
          V := fun a => (x.attrs.get a).map fun _ => fun _ _ => 0 }
      ∧ x'.core.N = x.core.N + 1 := by
  obtain ⟨core, as⟩ := x
  obtain ⟨hc, hna, hdir, hadj, hw, hgvw, hattr⟩ := h
  have hc' : Coherent core := hc
  obtain ⟨d, N, g, ea, vw, w, rfl, hg⟩ := hc'.exists_form
  have hea : ea = none := hna
  subst hea
  have hdir' : d = σ.d := hdir
  have hadj' : ∀ i j, i < N → j < N → rel d g i j = σ.a i j := hadj
  have hw' : w = σ.w := hw
  have hk' : splitNode N node = some k := hk
  have hkN : k < N := (splitNode_some hk').1
  have hg0 : g = [] := hE
  let V0 : String → Option (Nat → Nat → Rat) := fun a => (as.get a).map fun _ => fun _ _ => 0
  have hattr0 : ∀ a, AttrOK d g as a (V0 a) := by
    intro a
    show AttrOK d g as a ((as.get a).map fun _ => fun _ _ => 0)
    cases hget : as.get a with
    | none => exact hget
    | some vs => rw [hg0]; exact attrOK_nil d as a _
  have hex : ∀ a W, V0 a = some W → ∃ vs, as.get a = some vs := by
    intro a W hV
    change (as.get a).map _ = some W at hV
    cases hget : as.get a with
    | none => rw [hget] at hV; cases hV
    | some vs => exact ⟨vs, rfl⟩
  obtain ⟨as', hrun, hok⟩ := split_attrs_ok (vw := vw) (w := w) (as := as) k hkN (splitW w k p)
    σ.a hadj' V0 hattr0 hex
  have hs := splitRel_simple d (rel d g) N k (simple_rel d N g hg.noloop) hkN
  have hwl : (splitW w k p).length = N + 1 := by rw [splitW_length, hg.wlen]
  have hgood0 : Good d (N + 1) (graphEdges d (N + 1) (cells (N + 1) (splitRel (rel d g) N k)))
      none none (splitW w k p) :=
    good_graphEdges d (N + 1) (by omega) _ _ hwl none (fun _ h => by cases h)
  refine ⟨⟨form d (N + 1) (graphEdges d (N + 1) (cells (N + 1) (splitRel (rel d g) N k)))
      none none (splitW w k p), as'⟩, ?_, reprsA_form hgood0 hdir' ?_ (by rw [hw']; rfl) rfl ?_,
    rfl⟩
  · show splittedCopyA ⟨form d N g none vw w, as⟩ node p = _
    unfold splittedCopyA
    have e0 : (form d N g none vw w).N = N := rfl
    simp only [e0, hk', splitInit_form hg k hkN p]
    exact congrArg Except.ok hrun
  · intro i j hi hj
    rw [rel_graphEdges d (N + 1) _ hs i j hi hj]
    exact splitRel_congr hadj' hkN i j
  · intro a
    have := hok a
    show AttrOK d _ as' a ((as.get a).map fun _ => fun _ _ => 0)
    have e : (V0 a).map (splitV σ.a N k) = (as.get a).map fun _ => fun _ _ => 0 := by
      show ((as.get a).map fun _ => fun _ _ => 0).map (splitV σ.a N k) = _
      cases as.get a with
      | none => rfl
      | some vs => exact congrArg some (splitV_zero σ.a N k)
    rw [← e]; exact this

/-- the same **without `hlink`**, for everything but the attributes: whatever the dictionary of
the original holds (also on an edgeless network), the call succeeds and — attributes set aside —
the returned object represents the split relation and weights -/
theorem splitted_copy_core (x : NetA) (σ : AbsA) (h : ReprsA x σ) (node : Int) (k : Nat)
    (hk : splitNode x.core.N node = some k) (p : Rat) :
    ∃ x', splittedCopyA x node p = .ok x'
      ∧ ReprsA ⟨x'.core, []⟩ { splitAbs x.core.N k p σ with V := fun _ => none }
      ∧ x'.core.N = x.core.N + 1 := by
  obtain ⟨core, as⟩ := x
  obtain ⟨hc, hna, hdir, hadj, hw, hgvw, hattr⟩ := h
  have hc' : Coherent core := hc
  obtain ⟨d, N, g, ea, vw, w, rfl, hg⟩ := hc'.exists_form
  have hea : ea = none := hna
  subst hea
  have hdir' : d = σ.d := hdir
  have hadj' : ∀ i j, i < N → j < N → rel d g i j = σ.a i j := hadj
  have hw' : w = σ.w := hw
  have hk' : splitNode N node = some k := hk
  have hkN : k < N := (splitNode_some hk').1
  have hs := splitRel_simple d (rel d g) N k (simple_rel d N g hg.noloop) hkN
  have hwl : (splitW w k p).length = N + 1 := by rw [splitW_length, hg.wlen]
  have hgood0 : Good d (N + 1) (graphEdges d (N + 1) (cells (N + 1) (splitRel (rel d g) N k)))
      none none (splitW w k p) :=
    good_graphEdges d (N + 1) (by omega) _ _ hwl none (fun _ h => by cases h)
  refine ⟨as.foldl (splitStep ⟨form d N g none vw w, as⟩ k) (NetA.fresh (form d (N + 1)
    (graphEdges d (N + 1) (cells (N + 1) (splitRel (rel d g) N k))) none none (splitW w k p))),
    ?_, ?_, ?_⟩
  · show splittedCopyA ⟨form d N g none vw w, as⟩ node p = _
    unfold splittedCopyA
    have e0 : (form d N g none vw w).N = N := rfl
    simp only [e0, hk', splitInit_form hg k hkN p]
    rfl
  · rw [splitLoop_core]
    refine reprsA_form hgood0 hdir' ?_ (by rw [hw']; rfl) rfl (fun a => attrOK_none_nil _ _ a)
    intro i j hi hj
    rw [rel_graphEdges d (N + 1) _ hs i j hi hj]
    exact splitRel_congr hadj' hkN i j
  · rw [splitLoop_core]; rfl

/-- what `splitRel` says, cell by cell: among the old nodes nothing changes; the new node `N`
has the in- and out-neighbours of `k`, and `k` itself (both directions); no self-loop -/
theorem splitted_copy_relation (a : Nat → Nat → Bool) (N k : Nat) (hk : k < N) :
    (∀ i j, i < N → j < N → splitRel a N k i j = a i j)
    ∧ (∀ i, i < N → splitRel a N k i N = (decide (i = k) || a i k))
    ∧ (∀ j, j < N → splitRel a N k N j = (decide (j = k) || a k j))
    ∧ splitRel a N k N N = false := by
  refine ⟨?_, ?_, ?_, ?_⟩
  · intro i j hi hj
    unfold splitRel
    have h1 : ¬ ((i = k ∧ j = N) ∨ (i = N ∧ j = k)) := by omega
    simp [h1, hi, hj]
  · intro i hi
    unfold splitRel
    by_cases hik : i = k
    · simp [hik]
    · have h1 : ¬ ((i = k ∧ N = N) ∨ (i = N ∧ N = k)) := by omega
      rw [if_neg h1]
      simp [hi, hik]
  · intro j hj
    unfold splitRel
    by_cases hjk : j = k
    · simp [hjk]
    · have h1 : ¬ ((N = k ∧ j = N) ∨ (N = N ∧ j = k)) := by omega
      rw [if_neg h1]
      simp [hj, hjk]
  · unfold splitRel
    have h1 : ¬ ((N = k ∧ N = N) ∨ (N = N ∧ N = k)) := by omega
    rw [if_neg h1]
    simp

/-- the split network is again a simple graph (no self-loop at either half, symmetric when
undirected) -/
theorem splitted_copy_simple (d : Bool) (a : Nat → Nat → Bool) (N k : Nat) (hs : Simple d N a)
    (hk : k < N) : Simple d (N + 1) (splitRel a N k) := splitRel_simple d a N k hs hk

/-- **the total node weight is preserved** (the purpose of the method: n.s.i. measures are
invariant under it), every other weight is untouched, one weight per node -/
theorem splitted_copy_weights (w : List Rat) (k : Nat) (hk : k < w.length) (p : Rat) :
    (splitW w k p).sum = w.sum ∧ (splitW w k p).length = w.length + 1
    ∧ (splitW w k p)[k]? = some ((1 - p) * w.getD k 0)
    ∧ (splitW w k p)[w.length]? = some (p * w.getD k 0)
    ∧ ∀ i, i < w.length → i ≠ k → (splitW w k p)[i]? = w[i]? := by
  refine ⟨?_, splitW_length w k p, ?_, ?_, ?_⟩
  · have := sum_set_getD w k hk ((1 - p) * w.getD k 0)
    unfold splitW
    rw [List.sum_append, List.sum_singleton]
    linarith
  · unfold splitW
    rw [List.getElem?_append_left (by simpa using hk)]
    simp [hk]
  · unfold splitW
    rw [List.getElem?_append_right (by simp)]
    simp
  · intro i hi hik
    unfold splitW
    rw [List.getElem?_append_left (by simpa using hi)]
    rw [List.getElem?_set_ne (fun h => hik h.symm)]

/-- **link count of the split network** (the docstring's "6 nodes, 7 links → 7 nodes, 9 links"):
the adjacency matrix gains one non-zero cell per in-neighbour and one per out-neighbour of `k`
plus the two cells of the link between the halves; hence, undirected, `n_links' = n_links +
degree(k) + 1`, and directed, `n_links' = n_links + indegree(k) + outdegree(k) + 2` -/
theorem splitted_copy_n_links (d : Bool) (a : Nat → Nat → Bool) (N k : Nat) (hs : Simple d N a)
    (hk : k < N) (w w' : List Rat) (ea ea' : Option (List Rat)) :
    (cells (N + 1) (splitRel a N k)).length
        = (cells N a).length + ((List.range N).filter fun i => a i k).length
          + ((List.range N).filter fun j => a k j).length + 2
    ∧ (d = false → (ofGraph false (N + 1) (splitRel a N k) w' ea').nLinks
        = (ofGraph false N a w ea).nLinks + ((List.range N).filter fun j => a k j).length + 1)
    ∧ (d = true → (ofGraph true (N + 1) (splitRel a N k) w' ea').nLinks
        = (ofGraph true N a w ea).nLinks + ((List.range N).filter fun i => a i k).length
          + ((List.range N).filter fun j => a k j).length + 2) := by
  have hc := cells_split_length a N k hk (hs.irr k hk)
  refine ⟨hc, ?_, ?_⟩
  · intro hd
    subst hd
    have hs' := splitRel_simple false a N k hs hk
    have h1 := cells_length_undirected N a (hs.sym rfl) hs.irr
    have h2 := cells_length_undirected (N + 1) _ (hs'.sym rfl) hs'.irr
    have hsym : ((List.range N).filter fun i => a i k) = (List.range N).filter fun j => a k j := by
      apply List.filter_congr
      intro i hi
      rw [List.mem_range] at hi
      exact hs.sym rfl i k hi hk
    rw [hsym] at hc
    show (if false = true then (cells (N + 1) (splitRel a N k)).length
        else (cells (N + 1) (splitRel a N k)).length / 2)
      = (if false = true then (cells N a).length else (cells N a).length / 2) + _ + 1
    simp only [Bool.false_eq_true, if_false]
    omega
  · intro hd
    subst hd
    show (if true = true then (cells (N + 1) (splitRel a N k)).length
        else (cells (N + 1) (splitRel a N k)).length / 2)
      = (if true = true then (cells N a).length else (cells N a).length / 2) + _ + _ + 2
    simp only [if_true]
    exact hc

/-- the observable consequences on the object returned: `N + 1` nodes, total node weight
unchanged, mean `= total / (N + 1)`, adjacency = indicator of `splitRel`, and for every name the
`link_attribute` matrix is the transformed one on the links and 0 elsewhere -/
theorem splitted_copy_observables (x : NetA) (σ : AbsA) (h : ReprsA x σ) (node : Int) (k : Nat)
    (hk : splitNode x.core.N node = some k) (p : Rat)
    (hlink : x.core.graph ≠ [] ∨ ∀ a, σ.V a = none) :
    ∃ x', splittedCopyA x node p = .ok x' ∧ x'.core.N = x.core.N + 1
      ∧ x'.core.total = x.core.total
      ∧ x'.core.mean = x.core.total / ((x.core.N + 1 : Nat) : Rat)
      ∧ x'.core.spA = table (x.core.N + 1) (ind (splitRel σ.a x.core.N k))
      ∧ ∀ a V, σ.V a = some V → ∃ f, linkAttrA x' a = some f ∧
          ∀ i j, i < x.core.N + 1 → j < x.core.N + 1 →
            f i j = if splitRel σ.a x.core.N k i j then splitV σ.a x.core.N k V i j else 0 := by
  obtain ⟨x', hrun, hr, hN, _⟩ := splitted_copy_spec x σ h node k hk p hlink
  have hkN : k < x.core.N := (splitNode_some hk).1
  obtain ⟨hcore', _, hattr'⟩ := reprsA_observables hr
  obtain ⟨hcore, _, _⟩ := reprsA_observables h
  have hwlen : σ.w.length = x.core.N := by rw [← h.w]; exact h.coh.good.wlen
  have htot : x.core.total = σ.w.sum := by rw [hcore]; rfl
  have hsum := (splitted_copy_weights σ.w k (by omega) p).1
  refine ⟨x', hrun, hN, ?_, ?_, ?_, ?_⟩
  · rw [hcore', htot]; exact hsum
  · rw [hcore', htot, hN]
    show (splitW σ.w k p).sum / _ = _
    rw [hsum]
  · rw [hcore', hN]; rfl
  · intro a V hV
    have := hattr' a
    rw [show (splitAbs x.core.N k p σ).V a = some (splitV σ.a x.core.N k V) by
      show (σ.V a).map _ = _
      rw [hV]; rfl] at this
    obtain ⟨f, hf, hfV⟩ := this
    refine ⟨f, hf, ?_⟩
    intro i j hi hj
    rw [hfV i j (by omega) (by omega)]
    rfl

/-- an index that names no node (`node ≥ N` or `node < -N`) raises `IndexError` -/
theorem splitted_copy_index_error (x : NetA) (node : Int) (p : Rat)
    (h : (x.core.N : Int) ≤ node ∨ node < -(x.core.N : Int)) :
    splittedCopyA x node p = .error .indexError := by
  unfold splittedCopyA
  rw [splitNode_none.2 h]

/-! non-vacuity, round 5 -/

/-- `exA` (path 0-1-2 plus the isolated node 3) with node 1 split: the new node 4 is linked to
0, 1 and 2; splitting the isolated node 3 links only the two halves -/
example : (cells 5 (splitRel exA 4 1)).length = 2 * 5
    ∧ (cells 5 (splitRel exA 4 3)).length = 2 * 3 := by decide
example : splitNode 4 (-3) = some 1 ∧ splitNode 4 1 = some 1 ∧ splitNode 4 4 = none
    ∧ splitNode 4 (-5) = none := by decide
/-- `splitted_copy_n_links` on `exA`: node 1 has degree 2, so 2 links become 2 + 2 + 1 = 5 -/
example : (ofGraph false 5 (splitRel exA 4 1) [] none).nLinks = 5
    ∧ (ofGraph false 4 exA [] none).nLinks = 2
    ∧ ((List.range 4).filter fun j => exA 1 j).length = 2 := by decide
example : splitW exW 1 (1 / 4) = [1, 3 / 2, 3 / 2, 0, 1 / 2] := by norm_num [splitW, exW]
/-- the hypotheses of `splitted_copy_spec` are satisfiable: a constructed network, no attribute -/
example : ∃ x σ, ReprsA x σ ∧ splitNode x.core.N (-3) = some 1
    ∧ (x.core.graph ≠ [] ∨ ∀ a, σ.V a = none) :=
  ⟨_, _, constructed_reprsA false 4 (by decide) exA ⟨by decide, fun _ => forall_lt_lt (by decide)⟩
    exW rfl, by decide, Or.inr fun _ => rfl⟩
/-- the link between the two halves carries `W[k, k]` of the masked matrix, i.e. 0 -/
example : splitV exA 4 1 (fun _ _ => 7) 1 4 = 0 ∧ splitV exA 4 1 (fun _ _ => 7) 0 4 = 7
    ∧ splitV exA 4 1 (fun _ _ => 7) 0 1 = 7 := by
  refine ⟨?_, ?_, ?_⟩ <;> simp [splitV, splitAttr, exA]

end Pyunicorn.Repr
