import Pyunicorn.Lemmas.Repr
import Pyunicorn.Generated.ArithC05
import Mathlib.Tactic.FieldSimp
import Mathlib.Tactic.Ring
import Mathlib.Tactic.Linarith
import Mathlib.Algebra.Order.Field.Rat
import Mathlib.Algebra.Order.Field.Basic
/-!
# C05 — all representations of a network agree, and survive save/load

Statements about the model `Pyunicorn.Repr` (`Model/Repr.lean`) of the
constructor paths of `Network`, and about the definitions that
`translate/gen_arith.py` regenerates on every run from the adjacency setter
(`Pyunicorn.Generated.ArithC05`).
-/
namespace Pyunicorn.Repr
open Pyunicorn.Generated

/-! ## the derived quantities of the adjacency setter (generated definitions) -/

/-- the model's density is the expression found in the source -/
theorem gen_link_density_eq_model (n N : Int) :
    ArithC05.link_density n N = linkDensity n N := rfl

/-- the model's guards and halving are the ones found in the source -/
theorem gen_guards_eq_model (directed : Bool) (nz : Nat) (M N : Nat) (k : Nat) :
    ((if ArithC05.halve_guard directed then ArithC05.n_links_undirected nz else (nz : Int))
        = ((if directed then nz else nz / 2 : Nat) : Int))
    ∧ (ArithC05.not_square M N = (M != N))
    ∧ (ArithC05.wrong_weight_count k N = (k != N)) := by
  refine ⟨?_, ?_, ?_⟩
  · cases directed <;> simp [ArithC05.halve_guard, ArithC05.n_links_undirected]
  · by_cases h : M = N <;> simp [ArithC05.not_square, h]
  · by_cases h : k = N <;> simp [ArithC05.wrong_weight_count, h]

/-- undirected: the `2m` non-zero cells of a symmetric matrix are halved to `m` links … -/
theorem gen_n_links_undirected (m : Nat) : ArithC05.n_links_undirected (2 * m) = m := by
  simp [ArithC05.n_links_undirected]

/-- … and the density computed *before* halving is `m / C(N, 2)` -/
theorem gen_link_density_undirected (m N : Nat) (hN : 2 ≤ N) :
    ArithC05.link_density ((2 * m : Nat) : Int) N = (m : Rat) / ((N : Rat) * ((N : Rat) - 1) / 2) := by
  have h1 : (N : Rat) ≠ 0 := by
    have : (0 : Rat) < N := by exact_mod_cast (by omega : 0 < N)
    exact ne_of_gt this
  have h2 : (N : Rat) - 1 ≠ 0 := by
    have : (1 : Rat) < N := by exact_mod_cast (by omega : 1 < N)
    intro h; linarith
  simp only [ArithC05.link_density]
  push_cast
  field_simp

/-- directed: density is `m / (N (N - 1))` -/
theorem gen_link_density_directed (m N : Nat) :
    ArithC05.link_density (m : Int) N = (m : Rat) / ((N : Rat) * ((N : Rat) - 1)) := by
  simp only [ArithC05.link_density]
  push_cast
  rw [div_div]

/-- the density of a simple graph lies in `[0, 1]` -/
theorem gen_link_density_range (nz N : Nat) (hN : 2 ≤ N) (h : nz ≤ N * (N - 1)) :
    0 ≤ ArithC05.link_density (nz : Int) N ∧ ArithC05.link_density (nz : Int) N ≤ 1 := by
  rw [gen_link_density_directed]
  have h1 : (1 : Rat) < N := by exact_mod_cast (by omega : 1 < N)
  have hpos : (0 : Rat) < (N : Rat) * ((N : Rat) - 1) := by
    apply mul_pos <;> linarith
  have hle : (nz : Rat) ≤ (N : Rat) * ((N : Rat) - 1) := by
    have : ((N * (N - 1) : Nat) : Rat) = (N : Rat) * ((N : Rat) - 1) := by
      rw [Nat.cast_mul, Nat.cast_sub (by omega)]; simp
    rw [← this]; exact_mod_cast h
  constructor
  · apply div_nonneg; exact_mod_cast Nat.zero_le nz; exact le_of_lt hpos
  · rw [div_le_one hpos]; exact hle

/-- the source divides by `N` and by `N - 1`: exactly the sizes 0 and 1 make a
divisor vanish (and the model raises `ZeroDivisionError` there, see
`setAdjacency_small`) -/
theorem gen_link_density_divisors (N : Nat) :
    ((N : Rat) = 0 ∨ (((N : Int) - 1 : Int) : Rat) = 0) ↔ (N = 0 ∨ N = 1) := by
  constructor
  · rintro (h | h)
    · left; exact_mod_cast h
    · right
      have : ((N : Int) - 1) = 0 := by exact_mod_cast h
      omega
  · rintro (h | h) <;> subst h <;> simp


/-! ## every constructor path yields the canonical network `ofGraph` of the graph

`ofGraph d N a w ea` (Lemmas/Repr.lean) is written down directly from the graph:
adjacency `table N (ind a)`, `n_links` / `link_density` from the number of cells
of `a`, embedded graph `graphEdges d N (cells N a)`, weights `w` with
`total = w.sum`, `mean = w.sum / N`.  The theorems below say that the model of
each construction path returns exactly this record. -/

/-- **dense / sparse-canonical matrix path** (`Network(adjacency=A)`), for every
relation `a`, every weight vector and every `N ≥ 2`. -/
theorem dense_path (d : Bool) (N : Nat) (hN : 2 ≤ N) (a : Nat → Nat → Bool) (w : List Rat)
    (hw : w.length = N) :
    init d (.sparse (ofDenseMat N N (ind a))) (some w) = .ok (ofGraph d N a w none) :=
  init_dense d N hN a w hw

/-- **edge-list path** (`Network(edge_list=E, n_nodes=N)`), for *every* in-range
edge list — one orientation, both orientations, repeated entries, empty:
the network of the relation `rel d E` the list describes. -/
theorem edge_list_path (d : Bool) (N : Nat) (hN : 2 ≤ N) (E : List (Nat × Nat))
    (hE : ∀ p ∈ E, p.1 < N ∧ p.2 < N) (w : List Rat) (hw : w.length = N) :
    init d (.edges E (some N)) (some w) = .ok (ofGraph d N (rel d E) w none) :=
  init_edges d N hN E hE w hw

/-- **dense and edge-list representations agree**: any edge list describing the
relation `a` builds the same network as the matrix of `a`. -/
theorem dense_eq_edge_list (d : Bool) (N : Nat) (hN : 2 ≤ N) (a : Nat → Nat → Bool)
    (E : List (Nat × Nat)) (hE : ∀ p ∈ E, p.1 < N ∧ p.2 < N)
    (hrep : ∀ i j, i < N → j < N → a i j = rel d E i j) (w : List Rat) (hw : w.length = N) :
    init d (.sparse (ofDenseMat N N (ind a))) (some w) = init d (.edges E (some N)) (some w) := by
  rw [init_dense d N hN a w hw, init_edges d N hN E hE w hw, ofGraph_congr w none hrep]

/-- two edge lists describing the same relation (e.g. one orientation / both
orientations / with repetitions) build the same network -/
theorem edge_lists_agree (d : Bool) (N : Nat) (hN : 2 ≤ N) (E E' : List (Nat × Nat))
    (hE : ∀ p ∈ E, p.1 < N ∧ p.2 < N) (hE' : ∀ p ∈ E', p.1 < N ∧ p.2 < N)
    (hrep : ∀ i j, i < N → j < N → rel d E i j = rel d E' i j) (w : List Rat) (hw : w.length = N) :
    init d (.edges E (some N)) (some w) = init d (.edges E' (some N)) (some w) := by
  rw [init_edges d N hN E hE w hw, init_edges d N hN E' hE' w hw, ofGraph_congr w none hrep]

/-- **igraph path** (`Network.FromIGraph(g)`) for a simple igraph object: the
network of the relation its edge list describes, carrying `g` itself as
embedded graph and `g`'s edge attribute. -/
theorem igraph_path (g : IGraph) (hN : 2 ≤ g.n) (hs : SimpleEdges g.directed g.edges)
    (hr : ∀ p ∈ g.edges, p.1 < g.n ∧ p.2 < g.n) (hw : ∀ w, g.vw = some w → w.length = g.n) :
    fromIGraph g = .ok { ofGraph g.directed g.n (rel g.directed g.edges) (weightsOf g.n g.vw) none
      with graph := g.edges, eattr := g.ea } :=
  fromIGraph_simple g hN hs hr hw

/-- **save → Load** through a file format that returns what was written -/
theorem saveLoad_ofGraph (store : IGraph → IGraph) (d : Bool) (N : Nat) (hN : 2 ≤ N)
    (a : Nat → Nat → Bool) (hs : Simple d N a) (w : List Rat) (hw : w.length = N)
    (ea : Option (List Rat))
    (hstore : store (toIGraph (ofGraph d N a w ea)) = toIGraph (ofGraph d N a w ea)) :
    saveLoad store (ofGraph d N a w ea) = .ok (ofGraph d N a w ea) := by
  unfold saveLoad
  rw [hstore]
  have hg : toIGraph (ofGraph d N a w ea)
      = ⟨N, d, graphEdges d N (cells N a), some w, ea⟩ := rfl
  rw [hg, fromIGraph_simple _ hN (simpleEdges_graphEdges d N a)]
  · simp only [weightsOf]
    rw [ofGraph_congr w none (rel_graphEdges d N a hs)]
    rfl
  · intro p hp
    rw [mem_graphEdges_cells] at hp
    exact ⟨hp.1, hp.2.1⟩
  · intro w' h
    simp only [Option.some.injEq] at h
    subst h; exact hw

/-- **`FromIGraph`** of the embedded graph object (with node weights attached) is the identity -/
theorem fromIGraph_toIGraph (d : Bool) (N : Nat) (hN : 2 ≤ N)
    (a : Nat → Nat → Bool) (hs : Simple d N a) (w : List Rat) (hw : w.length = N)
    (ea : Option (List Rat)) :
    fromIGraph (toIGraph (ofGraph d N a w ea)) = .ok (ofGraph d N a w ea) :=
  saveLoad_ofGraph id d N hN a hs w hw ea rfl


/-- **copy** of a network without link attributes -/
theorem copy_ofGraph (d : Bool) (N : Nat) (hN : 2 ≤ N) (a : Nat → Nat → Bool) (w : List Rat)
    (hw : w.length = N) :
    copy (ofGraph d N a w none) = .ok (ofGraph d N a w none) := by
  unfold copy
  rw [sparse_ofGraph]
  have h1 : (ofGraph d N a w none).directed = d := rfl
  have h2 : (ofGraph d N a w none).w = w := rfl
  have h3 : (ofGraph d N a w none).eattr = none := rfl
  rw [h1, h2, h3, init_dense d N hN a w hw]
  rfl

/-- **undirected copy** -/
theorem undirectedCopy_ofGraph (d : Bool) (N : Nat) (hN : 2 ≤ N) (a : Nat → Nat → Bool)
    (w : List Rat) (hw : w.length = N) (ea) :
    undirectedCopy (ofGraph d N a w ea) = .ok (ofGraph false N (fun i j => a i j || a j i) w none) := by
  unfold undirectedCopy
  have h2 : (ofGraph d N a w ea).w = w := rfl
  have h3 : (ofGraph d N a w ea).N = N := rfl
  rw [h2, h3]
  have : ofDenseMat N N (fun i j => max ((ofGraph d N a w ea).at i j) ((ofGraph d N a w ea).at j i))
      = ofDenseMat N N (ind fun i j => a i j || a j i) := by
    apply ofDenseMat_congr
    intro i j hi hj
    rw [ofGraph_at, ofGraph_at]
    simp only [hi, hj, and_self, if_true, ind]
    by_cases h1 : a i j = true <;> by_cases h2 : a j i = true <;> simp [h1, h2] <;> decide
  rw [this, init_dense false N hN _ w hw]


/-! ## node weights: total and mean are those of the current vector after *every* path

(for every input whatsoever — no assumption on the matrix, edge list or graph) -/

theorem init_fresh (d : Bool) (inp : Input) (w : Option (List Rat)) (net : Net)
    (h : init d inp w = .ok net) : Fresh net := by
  unfold init at h
  obtain ⟨n1, _, h2⟩ := bind_ok h
  exact (setWeights_fresh _ _ _ h2).1

theorem geoInit_fresh (d : Bool) (inp : Input) (cl : List Rat) (t : Nat) (net : Net)
    (h : geoInit d inp cl t = .ok net) : Fresh net := by
  unfold geoInit at h
  obtain ⟨n1, _, h2⟩ := bind_ok h
  exact (setWeights_fresh _ _ _ h2).1

theorem fromIGraph_fresh (g : IGraph) (net : Net) (h : fromIGraph g = .ok net) : Fresh net := by
  unfold fromIGraph at h
  obtain ⟨n1, h1, h2⟩ := bind_ok h
  simp only [pure, Except.pure, Except.ok.injEq] at h2
  subst h2
  exact fresh_update _ _ _ (init_fresh _ _ _ _ h1)

theorem saveLoad_fresh (store : IGraph → IGraph) (net net' : Net)
    (h : saveLoad store net = .ok net') : Fresh net' :=
  fromIGraph_fresh _ _ h

theorem copy_fresh (net net' : Net) (h : copy net = .ok net') : Fresh net' := by
  unfold copy at h
  obtain ⟨n1, h1, h2⟩ := bind_ok h
  have := init_fresh _ _ _ _ h1
  split at h2 <;> (simp only [pure, Except.pure, Except.ok.injEq] at h2; subst h2; exact this)

theorem undirectedCopy_fresh (net net' : Net) (h : undirectedCopy net = .ok net') : Fresh net' :=
  init_fresh _ _ _ _ h

theorem loadViaAdjacency_fresh (g : IGraph) (gw : Option (Option (List Rat))) (net : Net)
    (h : loadViaAdjacency g gw = .ok net) : Fresh net := by
  unfold loadViaAdjacency at h
  obtain ⟨n0, h0, h⟩ := bind_ok h
  obtain ⟨n1, h1, h⟩ := bind_ok h
  obtain ⟨n2, h2, h⟩ := bind_ok h
  simp only [pure, Except.pure, Except.ok.injEq] at h
  subst h
  apply fresh_update
  exact assignWeights_fresh _ _ _ (assignWeights_fresh _ _ _ (init_fresh _ _ _ _ h0) h1) h2


end Pyunicorn.Repr
