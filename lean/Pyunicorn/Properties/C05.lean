import Pyunicorn.Lemmas.Repr
import Pyunicorn.Generated.ArithC05
import Mathlib.Tactic.FieldSimp
import Mathlib.Tactic.Ring
import Mathlib.Tactic.Linarith
import Mathlib.Algebra.Order.Field.Rat
import Mathlib.Algebra.Order.Field.Basic
/-!
# C05 — all representations of a network agree, and survive save/load

Statements about the model `Pyunicorn.Repr` (`Model/Repr.lean`) of the
constructor paths of `Network`, and about the definitions that
`translate/gen_arith.py` regenerates on every run from the adjacency setter
(`Pyunicorn.Generated.ArithC05`).
-/
namespace Pyunicorn.Repr
open Pyunicorn.Generated

/-! ## the derived quantities of the adjacency setter (generated definitions) -/

/-- the model's density is the expression found in the source -/
theorem gen_link_density_eq_model (n N : Int) :
    ArithC05.link_density n N = linkDensity n N := rfl

/-- the model's guards and halving are the ones found in the source -/
theorem gen_guards_eq_model (directed : Bool) (nz : Nat) (M N : Nat) (k : Nat) :
    ((if ArithC05.halve_guard directed then ArithC05.n_links_undirected nz else (nz : Int))
        = ((if directed then nz else nz / 2 : Nat) : Int))
    ∧ (ArithC05.not_square M N = (M != N))
    ∧ (ArithC05.wrong_weight_count k N = (k != N)) := by
  refine ⟨?_, ?_, ?_⟩
  · cases directed <;> simp [ArithC05.halve_guard, ArithC05.n_links_undirected]
  · by_cases h : M = N <;> simp [ArithC05.not_square, h]
  · by_cases h : k = N <;> simp [ArithC05.wrong_weight_count, h]

/-- undirected: the `2m` non-zero cells of a symmetric matrix are halved to `m` links … -/
theorem gen_n_links_undirected (m : Nat) : ArithC05.n_links_undirected (2 * m) = m := by
  simp [ArithC05.n_links_undirected]

/-- … and the density computed *before* halving is `m / C(N, 2)` -/
theorem gen_link_density_undirected (m N : Nat) (hN : 2 ≤ N) :
    ArithC05.link_density ((2 * m : Nat) : Int) N = (m : Rat) / ((N : Rat) * ((N : Rat) - 1) / 2) := by
  have h1 : (N : Rat) ≠ 0 := by
    have : (0 : Rat) < N := by exact_mod_cast (by omega : 0 < N)
    exact ne_of_gt this
  have h2 : (N : Rat) - 1 ≠ 0 := by
    have : (1 : Rat) < N := by exact_mod_cast (by omega : 1 < N)
    intro h; linarith
  simp only [ArithC05.link_density]
  push_cast
  field_simp

/-- directed: density is `m / (N (N - 1))` -/
theorem gen_link_density_directed (m N : Nat) :
    ArithC05.link_density (m : Int) N = (m : Rat) / ((N : Rat) * ((N : Rat) - 1)) := by
  simp only [ArithC05.link_density]
  push_cast
  rw [div_div]

/-- the density of a simple graph lies in `[0, 1]` -/
theorem gen_link_density_range (nz N : Nat) (hN : 2 ≤ N) (h : nz ≤ N * (N - 1)) :
    0 ≤ ArithC05.link_density (nz : Int) N ∧ ArithC05.link_density (nz : Int) N ≤ 1 := by
  rw [gen_link_density_directed]
  have h1 : (1 : Rat) < N := by exact_mod_cast (by omega : 1 < N)
  have hpos : (0 : Rat) < (N : Rat) * ((N : Rat) - 1) := by
    apply mul_pos <;> linarith
  have hle : (nz : Rat) ≤ (N : Rat) * ((N : Rat) - 1) := by
    have : ((N * (N - 1) : Nat) : Rat) = (N : Rat) * ((N : Rat) - 1) := by
      rw [Nat.cast_mul, Nat.cast_sub (by omega)]; simp
    rw [← this]; exact_mod_cast h
  constructor
  · apply div_nonneg; exact_mod_cast Nat.zero_le nz; exact le_of_lt hpos
  · rw [div_le_one hpos]; exact hle

/-- the source divides by `N` and by `N - 1`: exactly the sizes 0 and 1 make a
divisor vanish (and the model raises `ZeroDivisionError` there, see
`setAdjacency_small`) -/
theorem gen_link_density_divisors (N : Nat) :
    ((N : Rat) = 0 ∨ (((N : Int) - 1 : Int) : Rat) = 0) ↔ (N = 0 ∨ N = 1) := by
  constructor
  · rintro (h | h)
    · left; exact_mod_cast h
    · right
      have : ((N : Int) - 1) = 0 := by exact_mod_cast h
      omega
  · rintro (h | h) <;> subst h <;> simp

end Pyunicorn.Repr
