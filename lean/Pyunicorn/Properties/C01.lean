import Pyunicorn.Lemmas.Memo
import Pyunicorn.Generated.StructC01
/-!
# C01 — Results always reflect the object's current state (cache coherence)

`coherent_of_wf` is the general theorem about the memoisation machine
(`Pyunicorn.Memo`, a model of `core/cache.py`).  `Generated.StructC01` holds, for every
class that uses `Cached`, the table that `translate/gen_C01.py` extracts from the
*current* source (cache keys by MRO, `attrs`, transitive read sets, write/bump/reset
sets of every public mutator); the `wf_*` theorems at the end instantiate the general
theorem for each of them by kernel evaluation of the decidable predicate `wf`.
-/
namespace Pyunicorn.Memo

/-- every output of a run is coherent -/
def AllCoherent (outs : List (Option (List Nat × List Nat))) : Prop :=
  ∀ o ∈ outs, ∀ r c, o = some (r, c) → r = c

/-- **Coherence.** For every class table satisfying `wf`, for every finite history of
mutators, queries (any method, any argument pattern) and evictions, starting from any
state satisfying the invariant (in particular a freshly constructed object), every query
returns exactly what a freshly constructed object would report for the current state. -/
theorem coherent_of_wf_from (t : Table) (hwf : wf t = true) (ops : List Op) (s : State)
    (h : Inv t s) : AllCoherent (run t s ops) := by
  induction ops generalizing s with
  | nil => intro o ho; simp [run] at ho
  | cons op ops ih =>
    obtain ⟨hinv, hout⟩ := inv_step t hwf s op h
    intro o ho r c hrc
    simp only [run, List.mem_cons] at ho
    rcases ho with rfl | ho
    · exact hout r c hrc
    · exact ih _ hinv o ho r c hrc

theorem coherent_of_wf (t : Table) (hwf : wf t = true) (ops : List Op) :
    AllCoherent (run t State.init ops) :=
  coherent_of_wf_from t hwf ops State.init (inv_init t)

/-- **Staleness witness.** If a mutator writes a field that a method reads, bumps none of
the method's key counters and rewrites none of its by-value key attributes, then the
three-step history `query; mutate; query` returns a stale value. (Drives the
failing-input search on the real object.) -/
theorem stale_of_uncovered (t : Table) (mi oi arg : Nat) (m : Method) (o : Mutator)
    (hm : t.methods[mi]? = some m) (ho : t.mutators[oi]? = some o)
    (hb : ∀ c ∈ m.keyCtrs, c ∉ o.bumps)
    (hk : ∀ f ∈ m.keyFlds, f ∉ o.writes)
    (f : Nat) (hfr : f ∈ m.reads) (hfw : f ∈ o.writes) :
    ∃ r c, (run t State.init [.query mi arg, .mutate oi, .query mi arg])[2]? = some (some (r, c))
      ∧ r ≠ c := by
  have hcond : (∀ a ∈ m.keyCtrs, ¬a ∈ o.resets → ¬a ∈ o.bumps) ∧
      ∀ a ∈ m.keyFlds, ¬a ∈ o.writes := ⟨fun a ha _ => hb a ha, hk⟩
  refine ⟨m.reads.map (fun _ => 0),
    m.reads.map (fun f => if f ∈ o.writes then 1 else 0), ?_, ?_⟩
  · simp [run, step, hm, ho, findEntry, State.init, Method.keyOf, Method.current, applyMut]
    rw [if_pos hcond]
  · intro heq
    have := (List.map_inj_left.mp heq) f hfr
    simp [hfw] at this

/-! ### non-vacuity: a two-field toy class -/

/-- field 0 = adjacency (counter 0), field 1 = link attributes (counter 1);
method 0 reads both but is keyed on counter 0 only; mutator 0 writes field 1. -/
def toyBad : Table :=
  ⟨[⟨[0, 1], [0], []⟩], [⟨[1], [1], []⟩]⟩
def toyGood : Table :=
  ⟨[⟨[0, 1], [0, 1], []⟩], [⟨[1], [1], []⟩, ⟨[0], [0], []⟩]⟩

example : wf toyGood = true := by decide
example : wf toyBad = false := by decide
example : (run toyBad State.init [.query 0 0, .mutate 0, .query 0 0])[2]? =
    some (some ([0, 0], [0, 1])) := by decide
example : offending toyBad = [(0, 0)] := by decide

end Pyunicorn.Memo

/-! ### the tables of the current source -/
namespace Pyunicorn.Generated.StructC01
open Pyunicorn.Memo

/-- every class table extracted from the current source is well-formed … -/
theorem wf_all : allTables.all (fun nt => wf nt.2) = true := by decide +kernel

/-- … and keeps its derived summary attributes fresh. -/
theorem derived_fresh_all : allTables.all (fun nt => derivedFresh groups nt.2) = true := by
  decide +kernel

/-- hence every history on every class is coherent -/
theorem coherent_all (name : String) (t : Table) (h : (name, t) ∈ allTables) (ops : List Op) :
    AllCoherent (run t State.init ops) := by
  have := wf_all
  rw [List.all_eq_true] at this
  exact coherent_of_wf t (this (name, t) h) ops

end Pyunicorn.Generated.StructC01
