import Pyunicorn.Lemmas.Memo
import Pyunicorn.Lemmas.MemoNested
import Pyunicorn.Lemmas.MemoMode
import Pyunicorn.Lemmas.MemoOwned
import Pyunicorn.Generated.StructC01
/-!
# C01 — Results always reflect the object's current state (cache coherence)

`coherent_of_wf` is the general theorem about the memoisation machine
(`Pyunicorn.Memo`, a model of `core/cache.py`).  `Generated.StructC01` holds, for every
class that uses `Cached`, the table that `translate/gen_C01.py` extracts from the
*current* source (cache keys by MRO, `attrs`, transitive read sets, write/bump/reset
sets of every public mutator); the `wf_*` theorems at the end instantiate the general
theorem for each of them by kernel evaluation of the decidable predicate `wf`.
-/
namespace Pyunicorn.Memo

/-- every output of a run is coherent -/
def AllCoherent (outs : List (Option (List Nat × List Nat))) : Prop :=
  ∀ o ∈ outs, ∀ r c, o = some (r, c) → r = c

/-- **Coherence.** For every class table satisfying `wf`, for every finite history of
mutators, queries (any method, any argument pattern) and evictions, starting from any
state satisfying the invariant (in particular a freshly constructed object), every query
returns exactly what a freshly constructed object would report for the current state. -/
theorem coherent_of_wf_from (t : Table) (hwf : wf t = true) (ops : List Op) (s : State)
    (h : Inv t s) : AllCoherent (run t s ops) := by
  induction ops generalizing s with
  | nil => intro o ho; simp [run] at ho
  | cons op ops ih =>
    obtain ⟨hinv, hout⟩ := inv_step t hwf s op h
    intro o ho r c hrc
    simp only [run, List.mem_cons] at ho
    rcases ho with rfl | ho
    · exact hout r c hrc
    · exact ih _ hinv o ho r c hrc

theorem coherent_of_wf (t : Table) (hwf : wf t = true) (ops : List Op) :
    AllCoherent (run t State.init ops) :=
  coherent_of_wf_from t hwf ops State.init (inv_init t)

/-- **Staleness witness.** If a mutator writes a field that a method reads, bumps none of
the method's key counters and rewrites none of its by-value key attributes, then the
three-step history `query; mutate; query` returns a stale value. (Drives the
failing-input search on the real object.) -/
theorem stale_of_uncovered (t : Table) (mi oi arg : Nat) (m : Method) (o : Mutator)
    (hm : t.methods[mi]? = some m) (ho : t.mutators[oi]? = some o)
    (hb : ∀ c ∈ m.keyCtrs, c ∉ o.bumps)
    (hk : ∀ f ∈ m.keyFlds, f ∉ o.writes)
    (f : Nat) (hfr : f ∈ m.reads) (hfw : f ∈ o.writes) :
    ∃ r c, (run t State.init [.query mi arg, .mutate oi, .query mi arg])[2]? = some (some (r, c))
      ∧ r ≠ c := by
  have hcond : (∀ a ∈ m.keyCtrs, ¬a ∈ o.resets → ¬a ∈ o.bumps) ∧
      ∀ a ∈ m.keyFlds, ¬a ∈ o.writes := ⟨fun a ha _ => hb a ha, hk⟩
  refine ⟨m.reads.map (fun _ => 0),
    m.reads.map (fun f => if f ∈ o.writes then 1 else 0), ?_, ?_⟩
  · simp [run, step, hm, ho, findEntry, State.init, Method.keyOf, Method.current, applyMut]
    rw [if_pos hcond]
  · intro heq
    have := (List.map_inj_left.mp heq) f hfr
    simp [hfw] at this

/-! ### non-vacuity: a two-field toy class -/

/-- field 0 = adjacency (counter 0), field 1 = link attributes (counter 1);
method 0 reads both but is keyed on counter 0 only; mutator 0 writes field 1. -/
def toyBad : Table :=
  ⟨[⟨[0, 1], [0], []⟩], [⟨[1], [1], []⟩]⟩
def toyGood : Table :=
  ⟨[⟨[0, 1], [0, 1], []⟩], [⟨[1], [1], []⟩, ⟨[0], [0], []⟩]⟩

example : wf toyGood = true := by decide
example : wf toyBad = false := by decide
example : (run toyBad State.init [.query 0 0, .mutate 0, .query 0 0])[2]? =
    some (some ([0, 0], [0, 1])) := by decide
example : offending toyBad = [(0, 0)] := by decide

/-! ### Round 3: the methods as written — nested cached calls, argument patterns, bounded caches

`nrun` executes a history on the machine of `Model/MemoNested.lean`: a cached method reads
fields itself and calls other cached methods through *their* caches (each with its own key);
what it reads and calls depends on the argument pattern; every insertion trims the caches as
`functools.lru_cache(maxsize)` does and a hit moves the entry to the front. -/

/-- **Coherence of the nested machine.**  If the table has no cycle of cached methods and the
key of every method covers, for every argument pattern and every mutator, the *closure* of
what the call reads (its own reads and those of all cached methods it reaches), then after
every history of mutators, queries (any method, any argument pattern, nested calls served
from whatever the callees' caches hold) and evictions (explicit ones and those of the bounded
lru caches), every query returns exactly what a newly constructed object (empty caches)
computes from the current fields. -/
theorem ncoherent_of_wf_from (t : NTable) (hwf : nwf t = true) (ops : List Op) (s : State)
    (h : NInv t s) : AllCoherent (nrun t s ops) := by
  induction ops generalizing s with
  | nil => intro o ho; simp [nrun] at ho
  | cons op ops ih =>
    obtain ⟨hinv, hout⟩ := ninv_step t hwf s op h
    intro o ho r c hrc
    simp only [nrun, List.mem_cons] at ho
    rcases ho with rfl | ho
    · exact hout r c hrc
    · exact ih _ hinv o ho r c hrc

theorem ncoherent_of_wf (t : NTable) (hwf : nwf t = true) (ops : List Op) :
    AllCoherent (nrun t State.init ops) :=
  ncoherent_of_wf_from t hwf ops State.init (ninv_init t)

/-- the value of a call is a function of the stamps of its closure: two states that agree on
the closure of `mi(a)` give the same fresh value (so `closure` is a sound dependency set) -/
theorem current_depends_on_closure (t : NTable) (s s' : State) (mi a : Nat)
    (h : ∀ x ∈ closure t (mi + 1) mi a, s.stamp x = s'.stamp x) :
    t.current s mi a = t.current s' mi a :=
  deepVal_congr t s.stamp s'.stamp (mi + 1) mi a h

/-- **Bounded caches.** after an insertion no method holds more than `maxsize` entries -/
theorem trimGo_bounded (k : Nat) : ∀ (c : List Entry) (cnt : Nat → Nat) (m : Nat), cnt m ≤ k →
    ((trimGo k c cnt).filter (fun e => e.m == m)).length + cnt m ≤ k := by
  intro c
  induction c with
  | nil => intro cnt m h; simpa [trimGo] using h
  | cons e es ih =>
    intro cnt m h
    simp only [trimGo]
    split
    · rename_i hlt
      by_cases hem : e.m = m
      · subst hem
        have := ih (fun m' => if m' = e.m then cnt m' + 1 else cnt m') e.m (by simp; omega)
        simp only [if_true] at this
        simp only [List.filter_cons, beq_self_eq_true, if_true, List.length_cons]
        omega
      · have hne : (e.m == m) = false := by simpa using hem
        have := ih (fun m' => if m' = e.m then cnt m' + 1 else cnt m') m
          (by simp [Ne.symm hem]; exact h)
        simp only [if_neg (Ne.symm hem)] at this
        simp only [List.filter_cons, hne]
        simpa using this
    · exact ih cnt m h

theorem lru_bounded (k : Nat) (c : List Entry) (m : Nat) :
    ((lruTrim (some k) c).filter (fun e => e.m == m)).length ≤ k := by
  have := trimGo_bounded k c (fun _ => 0) m (Nat.zero_le _)
  simpa [lruTrim] using this

/-! non-vacuity: method 1 (keyed on counter 0 only) calls method 0 (keyed on counter 1, reads
field 1); mutator 0 writes field 1 and bumps counter 1: the callee is coherent on its own, the
caller is not — exactly the case "a cached method calling another cached method whose key
covers different fields". -/
def nToyBad : NTable :=
  ⟨[⟨[], ⟨[1], []⟩, [1], []⟩, ⟨[], ⟨[0], [(0, 0)]⟩, [0], []⟩], [⟨[1], [1], []⟩], some 2⟩
def nToyGood : NTable :=
  ⟨[⟨[], ⟨[1], []⟩, [1], []⟩, ⟨[], ⟨[0], [(0, 0)]⟩, [0, 1], []⟩],
   [⟨[1], [1], []⟩, ⟨[0], [0], []⟩], some 2⟩

example : nwf nToyGood = true := by decide
example : nwf nToyBad = false := by decide
example : noffending nToyBad = [(1, 0, 0)] := by decide
/-- the callee alone stays coherent, the caller returns the value computed before the change -/
example : nrun nToyBad State.init [.query 1 0, .mutate 0, .query 0 0, .query 1 0] =
    [some ([0, 0, 0, 0], [0, 0, 0, 0]), none, some ([0, 1], [0, 1]),
     some ([0, 0, 0, 0], [0, 0, 0, 1])] := by decide
example : AllCoherent (nrun nToyGood State.init [.query 1 0, .mutate 0, .query 0 0, .query 1 0]) :=
  ncoherent_of_wf nToyGood (by decide) _
/-- with two slots per method a third argument pattern evicts the least recently used one -/
example : ((nquery nToyGood 1 (nquery nToyGood 1 (nquery nToyGood 1 State.init 0 0).state 0 1).state
    0 2).state.cache.map (·.arg)) = [2, 1] := by decide

/-- **Coherence with raising calls** (round 4).  A history may contain, besides mutators, queries
and evictions, calls that *raise* — before any nested cached call, between two of them, or inside
a nested call at any depth (`path`).  The nested calls that returned keep their cache entries,
the raising call stores nothing.  Every query of such a history still returns what a newly
constructed object computes from the current fields. -/
theorem ncoherent_with_exceptions_from (t : NTable) (hwf : nwf t = true) (ops : List XOp)
    (s : State) (h : NInv t s) : AllCoherent (xrun t s ops) := by
  induction ops generalizing s with
  | nil => intro o ho; simp [xrun] at ho
  | cons op ops ih =>
    obtain ⟨hinv, hout⟩ := xinv_step t hwf s op h
    intro o ho r c hrc
    simp only [xrun, List.mem_cons] at ho
    rcases ho with rfl | ho
    · exact hout r c hrc
    · exact ih _ hinv o ho r c hrc

theorem ncoherent_with_exceptions (t : NTable) (hwf : nwf t = true) (ops : List XOp) :
    AllCoherent (xrun t State.init ops) :=
  ncoherent_with_exceptions_from t hwf ops State.init (ninv_init t)

/-- non-vacuity: method 1 calls method 0; `1(0)` raises after its nested call returned: the callee's
entry is there (the next `0(0)` is a hit), nothing is stored for method 1 -/
example : ((nabort nToyGood 2 State.init 1 0 [1]).cache.map (·.m)) = [0] := by decide
example : ((nabort nToyGood 2 State.init 1 0 [0]).cache.map (·.m)) = [] := by decide
example : AllCoherent (xrun nToyGood State.init
    [.raises 1 0 [1], .op (.mutate 0), .op (.query 1 0), .raises 1 0 [0, 0], .op (.query 0 0)]) :=
  ncoherent_with_exceptions nToyGood (by decide) _

end Pyunicorn.Memo


/-! ### Round 4: stored state under re-initialising mutators — the mode history does not leak

`Model/MemoMode.lean`: a public mutator is the ordered list of its assignments `self.f = value`
(helpers, base-class `__init__`s and property setters inlined, parameters bound symbolically);
a value is a literal constant or an expression over the call's arguments and the current values
of the fields `deps`; an assignment under an undecided `if` may or may not execute (`mask`).
A field that the class assigns two different constants is a *mode* field
(`RecurrenceNetwork.directed`: `Network.__init__(self, A, directed=True)` in
`set_fixed_local_recurrence_rate`, `directed=False` in the other setters). -/
namespace Pyunicorn.Mode

/-- **No leak of the mode history.**  Let the table satisfy `modeWf`, `o` be one of its public
mutators and `T = taintOf (modeFields t) o` the fields whose content may depend on the mode
history while `o` runs.  Take two objects in *arbitrary* states that agree outside `T` (same
current inputs; their mode fields and everything derived from them may differ — e.g. a live
object with any history and a newly constructed one), and run `o` with the same argument along
the same path on both.  Then they agree again outside `T`, and on **every mode field that the
executed path assigns** — `directed` after `set_fixed_threshold` does not depend on whether
`set_fixed_local_recurrence_rate` was called before. -/
theorem mode_no_leak (t : MTable) (hwf : modeWf t = true) (o : List Event) (ho : o ∈ t.mutators)
    (s1 s2 : MState) (hagree : ∀ f, f ∉ taintOf (modeFields t) o → s1 f = s2 f)
    (arg : Nat) (mask : List Bool) :
    (∀ f, f ∉ taintOf (modeFields t) o →
      execEvents arg o mask s1 f = execEvents arg o mask s2 f) ∧
    (∀ f, f ∈ modeFields t → assigned o mask f = true →
      execEvents arg o mask s1 f = execEvents arg o mask s2 f) := by
  have h := (List.all_eq_true.mp hwf) o ho
  simp only [mutOk, Bool.and_eq_true] at h
  obtain ⟨⟨_, hcl⟩, hM⟩ := h
  have hM' : ∀ e ∈ o, e.target ∈ modeFields t →
      srcClean (taintOf (modeFields t) o) e.src = true := by
    intro e he hin
    have := (List.all_eq_true.mp hM) e he
    simp only [Bool.or_eq_true, Bool.not_eq_eq_eq_not, Bool.not_true, List.contains_eq_mem,
      decide_eq_false_iff_not] at this
    rcases this with h1 | h1
    · exact absurd hin h1
    · exact h1
  obtain ⟨h1, h2⟩ := exec_agree (taintOf (modeFields t) o) (modeFields t) arg o mask s1 s2 hcl hM' hagree
  exact ⟨h1, fun f hf ha => h2 f hf (Or.inr ha)⟩

/-- the taint set contains the mode fields (so "agree outside `taintOf`" never asks the two
objects to agree on a mode field) -/
theorem mode_subset_taint (t : MTable) (hwf : modeWf t = true) (o : List Event)
    (ho : o ∈ t.mutators) : ∀ f ∈ modeFields t, f ∈ taintOf (modeFields t) o := by
  have h := (List.all_eq_true.mp hwf) o ho
  simp only [mutOk, Bool.and_eq_true] at h
  intro f hf
  have := (List.all_eq_true.mp h.1.1) f hf
  simpa using this

/-- **Leak witness.**  A mutator whose only assignment of `f` feeds the field from its own stored
value (`Network.__init__(self, A, directed=self.directed)`) returns different states after
histories that left different constants in `f`: the value depends on the history. -/
theorem mode_leak_witness (f site arg c1 c2 : Nat) (hc : c1 ≠ c2) (s1 s2 : MState)
    (h1 : s1 f = .const c1) (h2 : s2 f = .const c2) :
    execEvents arg [⟨f, .expr site [f]⟩] [] s1 f ≠ execEvents arg [⟨f, .expr site [f]⟩] [] s2 f := by
  simp [execEvents, evalSrc, h1, h2, hc]

/-! non-vacuity: field 0 = `directed`, field 1 = `R`, field 2 = `graph`; constants 0 = False,
1 = True.  Mutator 0 = `set_fixed_threshold` (as written), mutator 1 =
`set_fixed_local_recurrence_rate`; in `toyLeak` mutator 0 passes `directed=self.directed`. -/
def toyMode : MTable :=
  ⟨[⟨1, .expr 0 []⟩, ⟨0, .const 0⟩, ⟨2, .expr 1 [1, 0]⟩],
   [[⟨1, .expr 2 []⟩, ⟨0, .const 0⟩, ⟨2, .expr 3 [1, 0]⟩],
    [⟨1, .expr 4 []⟩, ⟨0, .const 1⟩, ⟨2, .expr 3 [1, 0]⟩]]⟩
def toyLeak : MTable :=
  ⟨toyMode.ctor,
   [[⟨1, .expr 2 []⟩, ⟨0, .expr 5 [0]⟩, ⟨2, .expr 3 [1, 0]⟩],
    [⟨1, .expr 4 []⟩, ⟨0, .const 1⟩, ⟨2, .expr 3 [1, 0]⟩]]⟩

example : modeFields toyMode = [0] := by decide
example : modeWf toyMode = true := by decide
example : modeWf toyLeak = false := by decide
example : modeOffending toyLeak = [(0, 1)] := by decide
example : taintOf (modeFields toyMode) [⟨1, .expr 2 []⟩, ⟨0, .const 0⟩, ⟨2, .expr 3 [1, 0]⟩] = [2, 0] := by
  decide

end Pyunicorn.Mode

/-! ### Round 5: owned objects — the table of the pair (owner, owned `Cached` object)

`Model/MemoOwned.lean`: `compose t u l` puts the owner's table `t` and the owned class's *own*
table `u` (both regenerated from the source) together: the owned object's cached methods with
their own keys, the owner's methods calling them through the owned object's caches, the owner's
mutators and **every** mutator of the owned class.  The counters of the owned object's
`__cache_state__` are the owner's key components `comp.c` (that is what `Cached.__hash__` of the
owner hashes when `self.comp` is listed in its `__cache_state__`). -/
namespace Pyunicorn.Memo

/-- **Coherence of the pair.**  If the composed table is well-formed, every history of owner
mutators, mutators called on the owned object (`o.data.set_window(…)`), queries of either object
(owner queries computing through whatever the owned object's caches hold), evictions and raising
calls returns at every query what newly constructed objects compute from the current fields. -/
theorem ocoherent_of_wf (t u : NTable) (l : OLink) (hwf : nwf (compose t u l) = true)
    (ops : List XOp) : AllCoherent (xrun (compose t u l) State.init ops) :=
  ncoherent_with_exceptions _ hwf ops

/-- the owned object's methods sit, renamed, at their own indices in the table of the pair … -/
theorem compose_owned_method (t u : NTable) (l : OLink) (i : Nat) (m : NMethod)
    (h : u.methods[i]? = some m) : (compose t u l).methods[i]? = some (liftMethod l m) := by
  obtain ⟨hi, hm⟩ := List.getElem?_eq_some_iff.mp h
  simp [compose, List.getElem?_append_left, hi, hm]

/-- … and **every** mutator of the owned class's own table is a mutator of the pair -/
theorem compose_owned_mutator (t u : NTable) (l : OLink) (o : Mutator) (h : o ∈ u.mutators) :
    liftMut l o ∈ (compose t u l).mutators := by
  simp only [compose, List.mem_append, List.mem_map]
  exact Or.inr ⟨o, h, rfl⟩

/-- **What well-formedness of the pair says in terms of the source.**  If the table of the pair is
well-formed and names are kept apart, then for every cached method `m` of the owner, every argument
pattern `k` whose body reads the owned object, and every mutator `o` of the owned class's own table
that writes anything: `o` bumps (after renaming) a counter that is part of `m`'s key — i.e. a
counter of the owned object's `__cache_state__` (those are the only owned counters an owner key
can contain).  A state-changing public method of the owned class that bumps only method-level
counters of the owned class (`attrs=`) leaves the owner's entries reachable. -/
theorem owner_key_sees_owned_mutator (t u : NTable) (l : OLink)
    (hwf : nwf (compose t u l) = true) (hap : l.apart t = true)
    (mi : Nat) (m : NMethod) (hm : t.methods[mi]? = some m) (k : Nat)
    (hread : l.content ∈ (m.bodyOf k).direct)
    (o : Mutator) (ho : o ∈ u.mutators) (f : Nat) (hf : f ∈ o.writes) :
    ∃ c ∈ m.keyCtrs, c ∈ o.bumps.map l.renCtr := by
  have hwf' : wf (compose t u l).flatten = true := by
    simp only [nwf, Bool.and_eq_true] at hwf; exact hwf.2
  simp only [wf, Bool.and_eq_true, List.all_eq_true] at hwf'
  have hcm := compose_owner_method t u l mi m hm
  have hmem := flatMethod_mem (compose t u l) (u.methods.length + mi) k _ hcm
  have hmut : liftMut l o ∈ (compose t u l).flatten.mutators := by
    simp only [NTable.flatten, compose, List.mem_append, List.mem_map]; exact Or.inr ⟨o, ho, rfl⟩
  have hcov := hwf'.1 _ hmem _ hmut
  simp only [covered, Bool.or_eq_true, List.any_eq_true, List.all_eq_true] at hcov
  rcases hcov with ⟨c, hc, hb⟩ | hall
  · refine ⟨c, ?_, ?_⟩
    · simpa [flatMethod, hcm, ownerMethod] using hc
    · simpa [liftMut] using hb
  · exfalso
    have hw : l.renFld f ∈ (liftMut l o).writes := by
      simp only [liftMut, List.mem_map]; exact ⟨f, hf, rfl⟩
    have h1 := hall _ hw
    have hr : l.renFld f ∈ (flatMethod (compose t u l) (u.methods.length + mi) k).reads := by
      simp only [flatMethod, hcm]
      apply mem_closure_direct _ _ _ _ _ hcm
      rw [ownerMethod_bodyOf_direct]
      have hc : (m.bodyOf k).direct.contains l.content = true := by simpa using hread
      rw [if_pos hc]
      exact List.mem_append_right _
        (List.mem_map.mpr ⟨f, mem_ownedFields_of_write u o ho f hf, rfl⟩)
    have hk : l.renFld f ∉ (flatMethod (compose t u l) (u.methods.length + mi) k).keyFlds := by
      simp only [flatMethod, hcm, ownerMethod]
      intro hin
      have hmm : m ∈ t.methods := List.mem_of_getElem? hm
      simp only [OLink.apart, Bool.and_eq_true, List.all_eq_true] at hap
      have := (hap.1.1 m hmm).1.2 _ hin
      have h2 := of_decide_eq_true this
      simp only [OLink.renFld] at h2
      omega
    simp [hr, hk] at h1

/-! non-vacuity.  Owned class: method 0 reads its field 0, keyed on its counter 0; mutator 0 writes
field 0 and bumps counter 0 (`ClimateData.set_window`), mutator 1 (`oBad` only) writes field 0 and
bumps counter 1, which is *not* part of the owned object's `__cache_state__`.  Owner: method 0
reads the owned object (field 5 = `data.content`) and calls its method 0; its key is the owner
counter 7 = `data._mut_window` = the owned counter 0. -/
def oOwner : NTable := ⟨[⟨[], ⟨[5], []⟩, [7], []⟩], [], some 4⟩
def oOwned : NTable := ⟨[⟨[], ⟨[0], []⟩, [0], []⟩], [⟨[0], [0], []⟩], some 4⟩
def oOwnedBad : NTable :=
  ⟨[⟨[], ⟨[0], []⟩, [0, 1], []⟩], [⟨[0], [0], []⟩, ⟨[0], [1], []⟩], some 4⟩
def oLink : OLink := ⟨5, [(0, 7)], [(0, 0, 0, 0), (0, 1, 0, 0)], [], 100⟩

example : compose oOwner oOwned oLink =
    ⟨[⟨[], ⟨[100], []⟩, [7], []⟩, ⟨[], ⟨[5, 100], [(0, 0)]⟩, [7], []⟩], [⟨[100], [7], []⟩], some 4⟩ := by
  decide
example : nwf (compose oOwner oOwned oLink) = true := by decide
example : oLink.apart oOwner = true := by decide
/-- the owned class is coherent on its own (its second counter is a method-level key part), the pair
is not: the owner's key sees only the owned object's `__cache_state__` -/
example : nwf oOwnedBad = true ∧ nwf (compose oOwner oOwnedBad oLink) = false := by decide
example : noffending (compose oOwner oOwnedBad oLink) = [(1, 0, 1)] := by decide
/-- owner query; the unbumped mutator on the owned object; owner query: the old value comes back -/
example : xrun (compose oOwner oOwnedBad oLink) State.init
      [.op (.query 1 0), .op (.mutate 1), .op (.query 0 0), .op (.query 1 0)] =
    [some ([0, 0, 0, 0, 0], [0, 0, 0, 0, 0]), none, some ([0, 1], [0, 1]),
     some ([0, 0, 0, 0, 0], [0, 0, 1, 0, 1])] := by decide
example : AllCoherent (xrun (compose oOwner oOwned oLink) State.init
      [.op (.query 1 0), .op (.mutate 0), .raises 1 0 [1], .op (.query 0 0), .op (.query 1 0)]) :=
  ocoherent_of_wf _ _ _ (by decide) _

/-- `owner_key_sees_owned_mutator` on the toy pair: the owned mutator's counter 0 is the owner's key counter 7 -/
example : ∃ c ∈ [7], c ∈ ([0].map oLink.renCtr) :=
  owner_key_sees_owned_mutator oOwner oOwned oLink (by decide) (by decide) 0 _ rfl 0 (by decide)
    ⟨[0], [0], []⟩ (by decide) 0 (by decide)

end Pyunicorn.Memo

/-! ### the tables of the current source -/
namespace Pyunicorn.Generated.StructC01
open Pyunicorn.Memo

/-- every class table extracted from the current source is well-formed … -/
theorem wf_all : allTables.all (fun nt => wf nt.2) = true := by decide +kernel

/-- … and keeps its derived summary attributes fresh. -/
theorem derived_fresh_all : allTables.all (fun nt => derivedFresh groups nt.2) = true := by
  decide +kernel

/-- hence every history on every class is coherent -/
theorem coherent_all (name : String) (t : Table) (h : (name, t) ∈ allTables) (ops : List Op) :
    AllCoherent (run t State.init ops) := by
  have := wf_all
  rw [List.all_eq_true] at this
  exact coherent_of_wf t (this (name, t) h) ops

/-! #### round 3: the nested tables (methods as written) of the current source -/

/-- no class has a cycle of cached methods, and in every class the key of every cached method
covers — for the call without arguments and for the general call — everything the method *and
the cached methods it calls* read, against every public mutator -/
theorem nwf_all : allNTables.all (fun nt => nwf nt.2) = true := by decide +kernel

/-- the flat tables (`allTables`, produced by the translator's transitive read analysis) contain
the closure that the Lean model computes from the call edges, method by method: the two views
of the source agree -/
theorem flat_covers_nested_all :
    (allNTables.zip allTables).all (fun p => p.1.1 == p.2.1 && flatCovers p.1.2 p.2.2) = true := by
  decide +kernel

/-- hence every history on every class is coherent on the machine with nested cached calls,
argument patterns and bounded lru caches -/
theorem ncoherent_all (name : String) (t : NTable) (h : (name, t) ∈ allNTables) (ops : List Op) :
    AllCoherent (nrun t State.init ops) := by
  have := nwf_all
  rw [List.all_eq_true] at this
  exact ncoherent_of_wf t (this (name, t) h) ops

/-- … also when calls raise at any point of their nested computation -/
theorem ncoherent_with_exceptions_all (name : String) (t : NTable) (h : (name, t) ∈ allNTables)
    (ops : List XOp) : AllCoherent (xrun t State.init ops) := by
  have := nwf_all
  rw [List.all_eq_true] at this
  exact ncoherent_with_exceptions t (this (name, t) h) ops

/-! #### round 4: the assignment tables (constructor and every public mutator) of the current source -/
open Pyunicorn.Mode in
/-- in no class does a public mutator store, in a field that the class switches between
constants (`RecurrenceNetwork.directed`, `Surrogates._normalized`), a value computed from a
field that may carry the mode history -/
theorem mode_wf_all : allMTables.all (fun nt => modeWf nt.2) = true := by decide +kernel

open Pyunicorn.Mode in
/-- hence on every class, two objects that agree outside the taint set of a public mutator agree
after it on every mode field its executed path assigns -/
theorem mode_no_leak_all (name : String) (t : MTable) (h : (name, t) ∈ allMTables)
    (o : List Mode.Event) (ho : o ∈ t.mutators) (s1 s2 : MState)
    (hagree : ∀ f, f ∉ taintOf (modeFields t) o → s1 f = s2 f) (arg : Nat) (mask : List Bool)
    (f : Nat) (hf : f ∈ modeFields t) (ha : assigned o mask f = true) :
    execEvents arg o mask s1 f = execEvents arg o mask s2 f := by
  have := mode_wf_all
  rw [List.all_eq_true] at this
  exact (mode_no_leak t (this (name, t) h) o ho s1 s2 hagree arg mask).2 f hf ha

/-! #### round 5: the pairs (owner, owned `Cached` object) of the current source -/

/-- one kernel evaluation for the three decidable facts about every pair (owner class, owned
component): names kept apart, hand-written description sound, composed table well-formed -/
theorem owned_pairs_ok :
    allOLinks.all (fun p => p.2.2.2.2.apart p.2.2.1 && abstractionSound p.2.2.1 p.2.2.2.1 p.2.2.2.2 &&
      nwf (compose p.2.2.1 p.2.2.2.1 p.2.2.2.2)) = true := by decide +kernel

/-- for every owner class and every owned component (`data`, `grid`, `rp_x`, `rp_y`, `crp_xy`),
the table composed of the owner's table and the owned class's own table is acyclic and covered:
the key of every cached method of the owner covers what it reads of the owned object — directly
or through the owned object's cached methods and caches — against **every public mutator of the
owned class** as extracted from the owned class's source, and the owned methods are covered
against the owner's mutators -/
theorem owned_nwf_all :
    allOLinks.all (fun p => nwf (compose p.2.2.1 p.2.2.2.1 p.2.2.2.2)) = true := by
  have h := owned_pairs_ok
  rw [List.all_eq_true] at h ⊢
  intro p hp
  have := h p hp
  simp only [Bool.and_eq_true] at this
  exact this.2

/-- the renaming keeps the two objects' names apart, and the hand-written description of the owned
objects' mutators that rounds 1–4 used (translate/fields_C01.json: `data.set_window` bumps
`data._mut_window`) claims nothing the owned class's own table does not grant -/
theorem owned_links_sound :
    allOLinks.all (fun p => p.2.2.2.2.apart p.2.2.1 && abstractionSound p.2.2.1 p.2.2.2.1 p.2.2.2.2)
      = true := by
  have h := owned_pairs_ok
  rw [List.all_eq_true] at h ⊢
  intro p hp
  have := h p hp
  simp only [Bool.and_eq_true] at this ⊢
  exact this.1

/-- hence every history on a pair — owner mutators, mutators called on the owned object, queries of
both, evictions, raising calls — is coherent -/
theorem ocoherent_all (c comp : String) (t u : NTable) (l : OLink)
    (h : (c, comp, t, u, l) ∈ allOLinks) (ops : List XOp) :
    AllCoherent (xrun (compose t u l) State.init ops) := by
  have := owned_nwf_all
  rw [List.all_eq_true] at this
  exact ocoherent_of_wf t u l (this (c, comp, t, u, l) h) ops

/-- in source terms: in every pair, every mutator of the owned class that writes anything bumps a
counter in the key of every owner method that reads the owned object.  (On the current source no
cached method of an owner reads an owned object that has mutators — the statement is a guard; hand
mutation M1 of design/C01.md, Round 5, makes it fire.) -/
theorem owner_keys_see_owned_mutators_all (c comp : String) (t u : NTable) (l : OLink)
    (h : (c, comp, t, u, l) ∈ allOLinks) (mi : Nat) (m : NMethod) (hm : t.methods[mi]? = some m)
    (k : Nat) (hread : l.content ∈ (m.bodyOf k).direct) (o : Mutator) (ho : o ∈ u.mutators)
    (f : Nat) (hf : f ∈ o.writes) : ∃ c' ∈ m.keyCtrs, c' ∈ o.bumps.map l.renCtr := by
  have h1 := owned_pairs_ok
  rw [List.all_eq_true] at h1
  have := h1 (c, comp, t, u, l) h
  simp only [Bool.and_eq_true] at this
  exact owner_key_sees_owned_mutator t u l this.2 this.1.1 mi m hm k hread o ho f hf

end Pyunicorn.Generated.StructC01
