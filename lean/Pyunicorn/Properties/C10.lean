import Pyunicorn.Lemmas.Coupling
/-!
# C10 — Similarity and coupling estimates equal reference statistics

Statements about the model `Pyunicorn.Coupling` (`Model/Coupling.lean`) of the
correlation / mutual-information kernels.  The model is tied to the working tree by the
exact kernel-boundary correspondence and the float32-tolerance data-level correspondence
in `harness/c10.py`; equality of the library's floating-point output with numpy / scipy
reference statistics is the oracle's part.
-/
namespace Pyunicorn.Coupling

/-! ## value / lag at the absolute maximum -/

/-- **argmax-first rule.**  The `tau` loop of `_cross_correlation_max` (`max = 0`,
`argmax = 0`, strict `abs(crossij) > abs(max)`) ends, after `n + 1` iterations, in the state
`(c a, a)` where `a` is the *least* loop index at which `|c|` is maximal (if every `c t` is
zero this is `a = 0` with value `0`). -/
theorem argmax_first (c : Nat → Rat) (n : Nat) :
    ∃ a, a ≤ n ∧ absmaxScan c (n + 1) = (c a, a) ∧
      (∀ t, t ≤ n → rabs (c t) ≤ rabs (c a)) ∧
      (∀ t, t < a → rabs (c t) < rabs (c a)) :=
  absmaxScan_inv c n

example : absmaxScan (fun t => [1, -3, 3, 2].getD t 0) 4 = (-3, 1) := by decide

/-- **max mode, off-diagonal entry** (the `int8` store included).  The returned pair is
`(c(τ_max - ℓ) / corr_range, wrap8 ℓ)` where `ℓ ≤ τ_max` is the **largest lag** at which the
lag function `ℓ ↦ c(τ_max - ℓ)` attains its absolute maximum. -/
theorem ccMax_entry_wrap (A : Nat → Nat → Nat → Rat) (tauMax cr i j : Nat) (hij : i ≠ j) :
    ∃ lag, lag ≤ tauMax ∧
      ccMaxEntry A tauMax cr i j =
        (crossAt A tauMax cr i j (tauMax - lag) / (cr : Rat), wrap8 (lag : Int)) ∧
      (∀ l, l ≤ tauMax → rabs (crossAt A tauMax cr i j (tauMax - l))
          ≤ rabs (crossAt A tauMax cr i j (tauMax - lag))) ∧
      (∀ l, lag < l → l ≤ tauMax → rabs (crossAt A tauMax cr i j (tauMax - l))
          < rabs (crossAt A tauMax cr i j (tauMax - lag))) := by
  obtain ⟨a, ha, hst, hmax, hfirst⟩ := absmaxScan_inv (crossAt A tauMax cr i j) tauMax
  refine ⟨tauMax - a, by omega, ?_, ?_, ?_⟩
  · have e : tauMax - (tauMax - a) = a := by omega
    unfold ccMaxEntry
    rw [if_neg hij, hst, e]
    have : ((tauMax : Int) - (a : Int)) = ((tauMax - a : Nat) : Int) := by omega
    simp only [this]
  · intro l hl
    have e : tauMax - (tauMax - a) = a := by omega
    rw [e]; exact hmax _ (by omega)
  · intro l h1 h2
    have e : tauMax - (tauMax - a) = a := by omega
    rw [e]; exact hfirst _ (by omega)

/-- for `tau_max ≤ 127` the stored lag is the lag itself -/
theorem ccMax_entry (A : Nat → Nat → Nat → Rat) (tauMax cr i j : Nat) (hij : i ≠ j)
    (h8 : tauMax ≤ 127) :
    ∃ lag, lag ≤ tauMax ∧
      ccMaxEntry A tauMax cr i j =
        (crossAt A tauMax cr i j (tauMax - lag) / (cr : Rat), (lag : Int)) ∧
      (∀ l, l ≤ tauMax → rabs (crossAt A tauMax cr i j (tauMax - l))
          ≤ rabs (crossAt A tauMax cr i j (tauMax - lag))) ∧
      (∀ l, lag < l → l ≤ tauMax → rabs (crossAt A tauMax cr i j (tauMax - l))
          < rabs (crossAt A tauMax cr i j (tauMax - lag))) := by
  obtain ⟨lag, h1, h2, h3, h4⟩ := ccMax_entry_wrap A tauMax cr i j hij
  refine ⟨lag, h1, ?_, h3, h4⟩
  rw [h2, wrap8_id (by omega) (by omega)]

/-- the diagonal of the max-mode matrices keeps its initial `(1, 0)` -/
theorem ccMax_diag (A : Nat → Nat → Nat → Rat) (tauMax cr i : Nat) :
    ccMaxEntry A tauMax cr i i = (1, 0) := by
  unfold ccMaxEntry; rw [if_pos rfl]

/-- **the pinned code beyond `int8`**: a lag of 150 (`tau_max = 200`) is stored as `-106`
(known finding `C10-lag-int8`; observed on the implementation with exactly this value). -/
theorem lag_wraps_beyond_int8 : wrap8 150 = -106 := by decide

/-! ## all-lags mode: the reversed lag index -/

/-- **`lagfuncs[i, j, tau_max - tau]`**: after the `tau` loop, slot `lag ≤ tau_max` of
`lagfuncs[i, j, :]` holds the product of window `tau_max - lag` of series `i` with window
`tau_max` of series `j`, divided by `corr_range`; every slot is written exactly once. -/
theorem ccAll_entry (A : Nat → Nat → Nat → Rat) (tauMax cr i j lag : Nat) (h : lag ≤ tauMax) :
    ccAllEntry A tauMax cr i j lag = crossAt A tauMax cr i j (tauMax - lag) / (cr : Rat) := by
  unfold ccAllEntry
  rw [ccAllRow_entry _ _ _ _ _ (Nat.le_refl _), if_pos (by omega)]

/-- **lag semantics** (`xcorr_lag_index`).  With the windows `array[t, i, k] = x_i(t + k)` that
`cross_correlation` builds, the product behind entry `[i, j, lag]` pairs `x_i(t - lag)` with
`x_j(t)` for `t = tau_max … tau_max + corr_range - 1`: the direction `i → j` of the docstring. -/
theorem xcorr_lag_index (x : Nat → Nat → Rat) (tauMax cr i j lag : Nat) (h : lag ≤ tauMax) :
    crossAt (windows x) tauMax cr i j (tauMax - lag) =
      sumTo cr fun k => x i (tauMax + k - lag) * x j (tauMax + k) := by
  unfold crossAt dotTo windows
  apply sumTo_congr
  intro k _
  have : tauMax - lag + k = tauMax + k - lag := by omega
  rw [this]

example : ccAllEntry (windows fun i t => [[1, 2, 3, 4], [0, 1, 0, 2]].getD i [] |>.getD t 0) 1 3 0 1 1
    = (1 * 1 + 2 * 0 + 3 * 2 : Rat) / 3 := by decide +kernel

end Pyunicorn.Coupling
