import Pyunicorn.Lemmas.Coupling
import Pyunicorn.Lemmas.CouplingStat
/-!
# C10 — Similarity and coupling estimates equal reference statistics

Statements about the model `Pyunicorn.Coupling` (`Model/Coupling.lean`) of the
correlation / mutual-information kernels.  The model is tied to the working tree by the
exact kernel-boundary correspondence and the float32-tolerance data-level correspondence
in `harness/c10.py`; equality of the library's floating-point output with numpy / scipy
reference statistics is the oracle's part.
-/
namespace Pyunicorn.Coupling

/-! ## value / lag at the absolute maximum -/

/-- **argmax-first rule.**  The `tau` loop of `_cross_correlation_max` (`max = 0`,
`argmax = 0`, strict `abs(crossij) > abs(max)`) ends, after `n + 1` iterations, in the state
`(c a, a)` where `a` is the *least* loop index at which `|c|` is maximal (if every `c t` is
zero this is `a = 0` with value `0`). -/
theorem argmax_first (c : Nat → Rat) (n : Nat) :
    ∃ a, a ≤ n ∧ absmaxScan c (n + 1) = (c a, a) ∧
      (∀ t, t ≤ n → rabs (c t) ≤ rabs (c a)) ∧
      (∀ t, t < a → rabs (c t) < rabs (c a)) :=
  absmaxScan_inv c n

example : absmaxScan (fun t => [1, -3, 3, 2].getD t 0) 4 = (-3, 1) := by decide

/-- **max mode, off-diagonal entry** (the `int8` store included).  The returned pair is
`(c(τ_max - ℓ) / corr_range, wrap8 ℓ)` where `ℓ ≤ τ_max` is the **largest lag** at which the
lag function `ℓ ↦ c(τ_max - ℓ)` attains its absolute maximum. -/
theorem ccMax_entry_wrap (A : Nat → Nat → Nat → Rat) (tauMax cr i j : Nat) (hij : i ≠ j) :
    ∃ lag, lag ≤ tauMax ∧
      ccMaxEntry A tauMax cr i j =
        (crossAt A tauMax cr i j (tauMax - lag) / (cr : Rat), wrap8 (lag : Int)) ∧
      (∀ l, l ≤ tauMax → rabs (crossAt A tauMax cr i j (tauMax - l))
          ≤ rabs (crossAt A tauMax cr i j (tauMax - lag))) ∧
      (∀ l, lag < l → l ≤ tauMax → rabs (crossAt A tauMax cr i j (tauMax - l))
          < rabs (crossAt A tauMax cr i j (tauMax - lag))) := by
  obtain ⟨a, ha, hst, hmax, hfirst⟩ := absmaxScan_inv (crossAt A tauMax cr i j) tauMax
  refine ⟨tauMax - a, by omega, ?_, ?_, ?_⟩
  · have e : tauMax - (tauMax - a) = a := by omega
    unfold ccMaxEntry
    rw [if_neg hij, hst, e]
    have : ((tauMax : Int) - (a : Int)) = ((tauMax - a : Nat) : Int) := by omega
    simp only [this]
  · intro l hl
    have e : tauMax - (tauMax - a) = a := by omega
    rw [e]; exact hmax _ (by omega)
  · intro l h1 h2
    have e : tauMax - (tauMax - a) = a := by omega
    rw [e]; exact hfirst _ (by omega)

/-- for `tau_max ≤ 127` the stored lag is the lag itself -/
theorem ccMax_entry (A : Nat → Nat → Nat → Rat) (tauMax cr i j : Nat) (hij : i ≠ j)
    (h8 : tauMax ≤ 127) :
    ∃ lag, lag ≤ tauMax ∧
      ccMaxEntry A tauMax cr i j =
        (crossAt A tauMax cr i j (tauMax - lag) / (cr : Rat), (lag : Int)) ∧
      (∀ l, l ≤ tauMax → rabs (crossAt A tauMax cr i j (tauMax - l))
          ≤ rabs (crossAt A tauMax cr i j (tauMax - lag))) ∧
      (∀ l, lag < l → l ≤ tauMax → rabs (crossAt A tauMax cr i j (tauMax - l))
          < rabs (crossAt A tauMax cr i j (tauMax - lag))) := by
  obtain ⟨lag, h1, h2, h3, h4⟩ := ccMax_entry_wrap A tauMax cr i j hij
  refine ⟨lag, h1, ?_, h3, h4⟩
  rw [h2, wrap8_id (by omega) (by omega)]

/-- the diagonal of the max-mode matrices keeps its initial `(1, 0)` -/
theorem ccMax_diag (A : Nat → Nat → Nat → Rat) (tauMax cr i : Nat) :
    ccMaxEntry A tauMax cr i i = (1, 0) := by
  unfold ccMaxEntry; rw [if_pos rfl]

/-- **the pinned code beyond `int8`**: a lag of 150 (`tau_max = 200`) is stored as `-106`
(known finding `C10-lag-int8`; observed on the implementation with exactly this value). -/
theorem lag_wraps_beyond_int8 : wrap8 150 = -106 := by decide

/-! ## all-lags mode: the reversed lag index -/

/-- **`lagfuncs[i, j, tau_max - tau]`**: after the `tau` loop, slot `lag ≤ tau_max` of
`lagfuncs[i, j, :]` holds the product of window `tau_max - lag` of series `i` with window
`tau_max` of series `j`, divided by `corr_range`; every slot is written exactly once. -/
theorem ccAll_entry (A : Nat → Nat → Nat → Rat) (tauMax cr i j lag : Nat) (h : lag ≤ tauMax) :
    ccAllEntry A tauMax cr i j lag = crossAt A tauMax cr i j (tauMax - lag) / (cr : Rat) := by
  unfold ccAllEntry
  rw [ccAllRow_entry _ _ _ _ _ (Nat.le_refl _), if_pos (by omega)]

/-- **lag semantics** (`xcorr_lag_index`).  With the windows `array[t, i, k] = x_i(t + k)` that
`cross_correlation` builds, the product behind entry `[i, j, lag]` pairs `x_i(t - lag)` with
`x_j(t)` for `t = tau_max … tau_max + corr_range - 1`: the direction `i → j` of the docstring. -/
theorem xcorr_lag_index (x : Nat → Nat → Rat) (tauMax cr i j lag : Nat) (h : lag ≤ tauMax) :
    crossAt (windows x) tauMax cr i j (tauMax - lag) =
      sumTo cr fun k => x i (tauMax + k - lag) * x j (tauMax + k) := by
  unfold crossAt dotTo windows
  apply sumTo_congr
  intro k _
  have : tauMax - lag + k = tauMax + k - lag := by omega
  rw [this]

example : ccAllEntry (windows fun i t => [[1, 2, 3, 4], [0, 1, 0, 2]].getD i [] |>.getD t 0) 1 3 0 1 1
    = (1 * 1 + 2 * 0 + 3 * 2 : Rat) / 3 := by decide +kernel

/-! ## the `maximum` / `lag_at_max` loop of `mutual_information` / `information_transfer` -/

/-- `maximum = 0.; lag_at_max = 0; if ixy_z > maximum` : the summary is the **first** lag with
the largest *positive* estimate; if no estimate is positive it is `(0, 0)`. -/
theorem maxScan_first (c : Nat → Rat) (n : Nat) :
    ((maxScan c n = (0, 0) ∧ ∀ t, t < n → c t ≤ 0) ∨
     (∃ a, a < n ∧ maxScan c n = (c a, a) ∧ 0 < c a ∧ (∀ t, t < n → c t ≤ c a) ∧
        ∀ t, t < a → c t < c a)) := by
  induction n with
  | zero => exact Or.inl ⟨rfl, fun t h => by omega⟩
  | succ n ih =>
    have hs : maxScan c (n + 1) =
        if c n > (maxScan c n).1 then (c n, n) else maxScan c n := rfl
    rcases ih with ⟨h0, hall⟩ | ⟨a, han, hst, hpos, hmax, hfirst⟩
    · rw [hs, h0]
      by_cases hgt : c n > 0
      · refine Or.inr ⟨n, by omega, ?_, hgt, ?_, ?_⟩
        · simp only [hgt, if_true]
        · intro t ht
          by_cases e : t = n
          · subst e; exact le_refl _
          · exact le_trans (hall t (by omega)) (le_of_lt hgt)
        · intro t ht; exact lt_of_le_of_lt (hall t ht) hgt
      · refine Or.inl ⟨by simp only [hgt, if_false], ?_⟩
        intro t ht
        by_cases e : t = n
        · subst e; exact not_lt.mp hgt
        · exact hall t (by omega)
    · rw [hs, hst]
      by_cases hgt : c n > c a
      · refine Or.inr ⟨n, by omega, by simp only [hgt, if_true], lt_trans hpos hgt, ?_, ?_⟩
        · intro t ht
          by_cases e : t = n
          · subst e; exact le_refl _
          · exact le_trans (hmax t (by omega)) (le_of_lt hgt)
        · intro t ht; exact lt_of_le_of_lt (hmax t ht) hgt
      · refine Or.inr ⟨a, by omega, by simp only [hgt, if_false], hpos, ?_, hfirst⟩
        intro t ht
        by_cases e : t = n
        · subst e; exact not_lt.mp hgt
        · exact hmax t (by omega)

example : maxScan (fun t => [1, 3, 3, 2].getD t 0) 4 = (3, 1) := by decide

/-! ## `symmetrize_by_absmax` -/

/-- **pair rule**: for `i < j < N` the two cells of the pair end up as the loop body
prescribes from the *input* matrices (no other iteration touches them): the entry of
larger absolute value (ties: `[j, i]`) is copied to the other cell with negated lag. -/
theorem symmetrize_entry (N : Nat) (st : SymState) (i j : Nat) (hij : i < j) (hjN : j < N) :
    SymResult st i j (symmetrize N st) :=
  symAll_pair N N st i j hij hjN (by omega)

/-- the result is **symmetric in value** -/
theorem absmax_symmetrised_value (N : Nat) (st : SymState) (i j : Nat) (hi : i < N) (hj : j < N) :
    (symmetrize N st).1 i j = (symmetrize N st).1 j i := by
  rcases Nat.lt_trichotomy i j with h | h | h
  · have := symmetrize_entry N st i j h hj
    unfold SymResult at this
    split at this <;> (obtain ⟨a, b, _, _⟩ := this; rw [a, b])
  · subst h; rfl
  · have := symmetrize_entry N st j i h hi
    unfold SymResult at this
    split at this <;> (obtain ⟨a, b, _, _⟩ := this; rw [a, b])

/-- … and **antisymmetric in lag**, for lags that fit `int8` without `-128`
(lags produced by the library are `0 … tau_max ≤ 127`) -/
theorem absmax_symmetrised_lag (N : Nat) (st : SymState) (i j : Nat) (hij : i ≠ j) (hi : i < N)
    (hj : j < N) (hl : ∀ a b, -127 ≤ st.2 a b ∧ st.2 a b ≤ 127) :
    (symmetrize N st).2 j i = -(symmetrize N st).2 i j := by
  have key : ∀ i j, i < j → j < N → (symmetrize N st).2 j i = -(symmetrize N st).2 i j := by
    intro i j h hj
    have := symmetrize_entry N st i j h hj
    unfold SymResult at this
    split at this
    · obtain ⟨_, _, c, d⟩ := this
      rw [c, d, wrap8_id (by have := hl i j; omega) (by have := hl i j; omega)]
    · obtain ⟨_, _, c, d⟩ := this
      rw [c, d, wrap8_id (by have := hl j i; omega) (by have := hl j i; omega)]; omega
  rcases Nat.lt_or_gt_of_ne hij with h | h
  · exact key i j h hj
  · have := key j i h hi; omega

/-- the common value has the larger absolute value of the two inputs -/
theorem absmax_symmetrised_max (N : Nat) (st : SymState) (i j : Nat) (hij : i < j) (hjN : j < N) :
    rabs (st.1 i j) ≤ rabs ((symmetrize N st).1 i j) ∧
      rabs (st.1 j i) ≤ rabs ((symmetrize N st).1 i j) ∧
      ((symmetrize N st).1 i j = st.1 i j ∨ (symmetrize N st).1 i j = st.1 j i) := by
  have := symmetrize_entry N st i j hij hjN
  unfold SymResult at this
  split at this
  · rename_i h
    obtain ⟨a, _, _, _⟩ := this
    rw [a]; exact ⟨le_refl _, le_of_lt h, Or.inl rfl⟩
  · rename_i h
    obtain ⟨a, _, _, _⟩ := this
    rw [a]; exact ⟨not_lt.mp h, le_refl _, Or.inr rfl⟩

/-- the diagonal is not touched -/
theorem symmetrize_diag (N : Nat) (st : SymState) (a : Nat) :
    (symmetrize N st).1 a a = st.1 a a ∧ (symmetrize N st).2 a a = st.2 a a :=
  symAll_other N N st a a (fun i j _ _ hij e => by unfold Touches at e; omega)

example : SymResult (fun i j => if i = 0 ∧ j = 1 then (1 : Rat) / 2 else -3 / 4, fun _ _ => 2) 0 1
    (symmetrize 2 (fun i j => if i = 0 ∧ j = 1 then (1 : Rat) / 2 else -3 / 4, fun _ _ => 2)) :=
  symmetrize_entry 2 _ 0 1 (by decide) (by decide)

/-! ## histogram mutual information: the flat index walks count what they should -/

/-- every symbol is a valid bin index (no write outside `hist` / `hist2d`) -/
theorem symbol_lt (s rmin x : Rat) (nb : Nat) (hnb : 0 < nb) : symbolOf s rmin nb x < nb :=
  symbolOf_lt s rmin x nb hnb

/-- a sample strictly inside the range gets the index of its equal-width bin -/
theorem symbol_bin (s rmin x : Rat) (nb : Nat) (h0 : 0 ≤ s * (x - rmin)) (h1 : s * (x - rmin) < 1) :
    ((symbolOf s rmin nb x : Nat) : Rat) ≤ s * (x - rmin) * (nb : Rat) ∧
      s * (x - rmin) * (nb : Rat) < ((symbolOf s rmin nb x : Nat) : Rat) + 1 :=
  symbolOf_bin s rmin x nb h0 h1

/-- **`mi_hist_counts`**: after the walk `hist2d[symbolic[i*n+k]*n_bins + symbolic[j*n+k]]++`
(offsets accumulated by `in_samples += n_samples`), cell `a*n_bins + b` holds the number of
samples `k < n` with symbol `a` in series `i` and symbol `b` in series `j`. -/
theorem mi_hist_counts (symbA symbB : Nat → Nat) (n nb i j a b : Nat) (hb : b < nb)
    (hB : ∀ t, symbB t < nb) :
    hist2dFlat symbA symbB n nb i j (a * nb + b) =
      countTo n (fun k => decide (symbA (i * n + k) = a) && decide (symbB (j * n + k) = b)) :=
  hist2dFlat_entry symbA symbB n nb i j a b hb hB

/-- the 1-d histograms: cell `i*n_bins + a` counts the samples of series `i` with symbol `a` -/
theorem mi_hist1d_counts (symb : Nat → Nat) (n nb N i a : Nat) (hs : ∀ u, symb u < nb)
    (hi : i < N) (ha : a < nb) :
    histFlat symb n nb N (i * nb + a) = countTo n (fun k => decide (symb (i * n + k) = a)) :=
  histFlat_entry symb n nb N i a hs hi ha

/-- **marginals**: row `a` of `hist2d` sums to the 1-d histogram entry of series `i` … -/
theorem mi_hist_row_marginal (symb : Nat → Nat) (n nb N i j a : Nat) (hs : ∀ u, symb u < nb)
    (hi : i < N) (ha : a < nb) :
    sumNatTo nb (fun b => hist2dFlat symb symb n nb i j (a * nb + b)) =
      histFlat symb n nb N (i * nb + a) := by
  rw [histFlat_entry symb n nb N i a hs hi ha]
  have : (fun b => hist2dFlat symb symb n nb i j (a * nb + b)) =
      fun b => if b < nb then
        countTo n (fun k => decide (symb (i * n + k) = a) && decide (symb (j * n + k) = b))
      else hist2dFlat symb symb n nb i j (a * nb + b) := by
    funext b
    split
    · rename_i hb; exact hist2dFlat_entry symb symb n nb i j a b hb hs
    · rfl
  rw [← count_partition n nb (fun k => decide (symb (i * n + k) = a)) (fun k => symb (j * n + k))
    (fun k => hs _)]
  apply sumNatTo_congr
  intro b hb
  exact hist2dFlat_entry symb symb n nb i j a b hb hs

/-- … and every 1-d histogram sums to `n_samples` -/
theorem mi_hist_total (symb : Nat → Nat) (n nb N i : Nat) (hs : ∀ u, symb u < nb) (hi : i < N) :
    sumNatTo nb (fun a => histFlat symb n nb N (i * nb + a)) = n := by
  have h1 : sumNatTo nb (fun a => histFlat symb n nb N (i * nb + a)) =
      sumNatTo nb (fun a => countTo n (fun k => true && decide (symb (i * n + k) = a))) := by
    apply sumNatTo_congr
    intro a ha
    rw [histFlat_entry symb n nb N i a hs hi ha]
    apply countTo_congr
    intro k _; simp
  rw [h1, count_partition n nb (fun _ => true) (fun k => symb (i * n + k)) (fun k => hs _)]
  exact countTo_true n

example : hist2dFlat (fun t => [0, 1, 1, 0, 1, 1].getD t 0) (fun t => [0, 1, 1, 0, 1, 1].getD t 0)
    3 2 1 0 (1 * 2 + 1) = 2 := by decide

/-! ## `_test_pearson_correlation_fast` -/

/-- entry `(i, j)`, `i ≠ j`, of the surrogate test matrix is the mean product of original
series `i` (flat offset `i*n_time`) with surrogate series `j` (flat offset `j*n_time`) -/
theorem testPearson_entry (orig surr : Nat → Rat) (n i j : Nat) (hij : i ≠ j) :
    testPearsonEntry orig surr n i j =
      sumTo n (fun k => orig (i * n + k) * surr (j * n + k)) / (n : Rat) := by
  unfold testPearsonEntry dotTo; rw [if_neg hij]

/-! ## Pearson correlation (signed square `sign(r)·r²`): symmetry, bound, affine invariance -/

/-- **symmetric** -/
theorem pearson_symm (n : Nat) (f g : Nat → Rat) : pearsonSq n f g = pearsonSq n g f := by
  unfold pearsonSq
  simp only [covTo_comm n g f]
  by_cases h : covTo n f f = 0 ∨ covTo n g g = 0
  · rw [if_pos h, if_pos h.symm]
  · rw [if_neg h, if_neg (fun e => h e.symm), mul_comm (covTo n g g)]

/-- zero-lag entries of the lagged cross correlation are symmetric in `(i, j)` -/
theorem xcorr_lag0_symm (x : Nat → Nat → Rat) (T tauMax i j : Nat) :
    xcorrSq x T tauMax i j 0 = xcorrSq x T tauMax j i 0 := by
  unfold xcorrSq; exact pearson_symm _ _ _

/-- **bounded**: `|r| ≤ 1` (Cauchy–Schwarz), as `-1 ≤ sign(r)·r² ≤ 1` -/
theorem pearson_bounded (n : Nat) (f g : Nat → Rat) :
    -1 ≤ pearsonSq n f g ∧ pearsonSq n f g ≤ 1 := by
  unfold pearsonSq
  simp only
  split
  · constructor <;> norm_num
  · rename_i h
    have hx : covTo n f f ≠ 0 := fun e => h (Or.inl e)
    have hy : covTo n g g ≠ 0 := fun e => h (Or.inr e)
    have hxp : 0 < covTo n f f := lt_of_le_of_ne (covTo_self_nonneg n f) (Ne.symm hx)
    have hyp : 0 < covTo n g g := lt_of_le_of_ne (covTo_self_nonneg n g) (Ne.symm hy)
    have hd : 0 < covTo n f f * covTo n g g := mul_pos hxp hyp
    have hcs := covTo_sq_le n f g
    have hq0 : 0 ≤ covTo n f g * covTo n f g / (covTo n f f * covTo n g g) :=
      div_nonneg (mul_self_nonneg _) (le_of_lt hd)
    have hq1 : covTo n f g * covTo n f g / (covTo n f f * covTo n g g) ≤ 1 := by
      rw [div_le_one hd]; exact hcs
    have hs := sgn_abs_le (covTo n f g)
    rw [mul_div_assoc]
    constructor <;> nlinarith

/-- **affine-invariant**: `a·x + b` against `c·y + d` (`a, c ≠ 0`) changes `r` by the sign of `a·c` -/
theorem pearson_affine_invariant (n : Nat) (hn : 0 < n) (f g : Nat → Rat) (a b c d : Rat)
    (ha : a ≠ 0) (hc : c ≠ 0) :
    pearsonSq n (fun k => a * f k + b) (fun k => c * g k + d) = sgn (a * c) * pearsonSq n f g := by
  unfold pearsonSq
  simp only
  have e1 := covTo_affine n hn f g a b c d
  have e2 := covTo_affine n hn f f a b a b
  have e3 := covTo_affine n hn g g c d c d
  rw [e1, e2, e3]
  by_cases h : covTo n f f = 0 ∨ covTo n g g = 0
  · have h' : a * a * covTo n f f = 0 ∨ c * c * covTo n g g = 0 := by
      rcases h with h | h
      · left; rw [h]; ring
      · right; rw [h]; ring
    rw [if_pos h, if_pos h']; ring
  · have hx : covTo n f f ≠ 0 := fun e => h (Or.inl e)
    have hy : covTo n g g ≠ 0 := fun e => h (Or.inr e)
    have h' : ¬ (a * a * covTo n f f = 0 ∨ c * c * covTo n g g = 0) := by
      intro e
      rcases e with e | e
      · exact hx ((mul_eq_zero.mp e).resolve_left (mul_ne_zero ha ha))
      · exact hy ((mul_eq_zero.mp e).resolve_left (mul_ne_zero hc hc))
    rw [if_neg h, if_neg h']
    by_cases hcv : covTo n f g = 0
    · rw [hcv]; simp
    · rw [sgn_mul (mul_ne_zero ha hc) hcv]
      field_simp

/-- a series against itself (**duplicated series**) has `r = 1` … -/
theorem pearson_self (n : Nat) (f : Nat → Rat) (hv : covTo n f f ≠ 0) : pearsonSq n f f = 1 := by
  unfold pearsonSq
  simp only
  rw [if_neg (by simpa using hv)]
  have hp : 0 < covTo n f f := lt_of_le_of_ne (covTo_self_nonneg n f) (Ne.symm hv)
  have : sgn (covTo n f f) = 1 := by unfold sgn; rw [if_neg (not_lt.mpr (le_of_lt hp))]
  rw [this]; field_simp

/-- … and against a negative multiple (**anti-correlated series**) `r = -1` -/
theorem pearson_anticorrelated (n : Nat) (hn : 0 < n) (f : Nat → Rat) (c d : Rat) (hc : c < 0)
    (hv : covTo n f f ≠ 0) : pearsonSq n f (fun k => c * f k + d) = -1 := by
  have h := pearson_affine_invariant n hn f f 1 0 c d one_ne_zero (ne_of_lt hc)
  have e : (fun k => 1 * f k + 0) = f := by funext k; ring
  rw [e, pearson_self n f hv] at h
  rw [h]
  have : sgn (1 * c) = -1 := by unfold sgn; rw [if_pos (by linarith)]
  rw [this]; ring

/-- a **constant series** has correlation `0` with everything (the code's `nan → 0`) -/
theorem pearson_constant (n : Nat) (hn : 0 < n) (c : Rat) (g : Nat → Rat) :
    pearsonSq n (fun _ => c) g = 0 := by
  unfold pearsonSq
  simp only
  have : covTo n (fun _ => c) (fun _ => c) = 0 := by
    have h := covTo_affine n hn (fun _ => (0 : Rat)) (fun _ => (0 : Rat)) 0 c 0 c
    simp only [zero_mul, zero_add] at h
    exact h
  rw [if_pos (Or.inl this)]

/-- **reordered series**: relabelling the series by `σ` permutes every matrix entry -/
theorem xcorr_relabel (x : Nat → Nat → Rat) (σ : Nat → Nat) (T tauMax i j lag : Nat) :
    xcorrSq (fun i => x (σ i)) T tauMax i j lag = xcorrSq x T tauMax (σ i) (σ j) lag := rfl

theorem ccMax_relabel (A : Nat → Nat → Nat → Rat) (σ : Nat → Nat) (hσ : ∀ a b, σ a = σ b → a = b)
    (tauMax cr i j : Nat) :
    ccMaxEntry (fun t i => A t (σ i)) tauMax cr i j = ccMaxEntry A tauMax cr (σ i) (σ j) := by
  unfold ccMaxEntry
  by_cases h : i = j
  · subst h; simp
  · have : σ i ≠ σ j := fun e => h (hσ _ _ e)
    rw [if_neg h, if_neg this]; rfl

/-- the affine law lifts to every lagged entry -/
theorem xcorr_affine_invariant (x : Nat → Nat → Rat) (T tauMax i j lag : Nat) (hT : tauMax < T)
    (a b : Nat → Rat) (ha : ∀ i, a i ≠ 0) :
    xcorrSq (fun i t => a i * x i t + b i) T tauMax i j lag =
      sgn (a i * a j) * xcorrSq x T tauMax i j lag := by
  unfold xcorrSq
  exact pearson_affine_invariant (T - tauMax) (by omega) _ _ (a i) (b i) (a j) (b j) (ha i) (ha j)

example : pearsonSq 4 (fun t => [1, 2, 2, 5].getD t 0) (fun t => [3, 1, 1, 0].getD t 0) = -121 / 171 := by
  decide +kernel

/-! ## ranks and Spearman's rho -/

/-- ranks (and hence Spearman's rho) do not change under a strictly increasing map of the
values — in particular under affine maps with positive slope -/
theorem rank_monotone_invariant (n : Nat) (x : Nat → Rat) (φ : Rat → Rat)
    (hφ : ∀ u v, φ u < φ v ↔ u < v) (i : Nat) :
    rank2 n (fun k => φ (x k)) i = rank2 n x i := by
  have hinj : ∀ u v, φ u = φ v ↔ u = v := by
    intro u v
    constructor
    · intro e
      rcases lt_trichotomy u v with h | h | h
      · have := (hφ u v).mpr h; rw [e] at this; exact absurd this (lt_irrefl _)
      · exact h
      · have := (hφ v u).mpr h; rw [e] at this; exact absurd this (lt_irrefl _)
    · intro e; rw [e]
  unfold rank2
  congr 2
  · congr 1
    apply countTo_congr
    intro k _
    exact decide_eq_decide.mpr (hφ _ _)
  · apply countTo_congr
    intro k _
    exact decide_eq_decide.mpr (hinj _ _)

theorem spearman_monotone_invariant (n : Nat) (f g : Nat → Rat) (φ ψ : Rat → Rat)
    (hφ : ∀ u v, φ u < φ v ↔ u < v) (hψ : ∀ u v, ψ u < ψ v ↔ u < v) :
    spearmanSq n (fun k => φ (f k)) (fun k => ψ (g k)) = spearmanSq n f g := by
  unfold spearmanSq
  have e1 : (fun i => (rank2 n (fun k => φ (f k)) i : Rat)) = fun i => (rank2 n f i : Rat) := by
    funext i; rw [rank_monotone_invariant n f φ hφ i]
  have e2 : (fun i => (rank2 n (fun k => ψ (g k)) i : Rat)) = fun i => (rank2 n g i : Rat) := by
    funext i; rw [rank_monotone_invariant n g ψ hψ i]
  rw [e1, e2]

/-- Spearman's rho is Pearson's r of the rank series, hence symmetric and bounded -/
theorem spearman_symm (n : Nat) (f g : Nat → Rat) : spearmanSq n f g = spearmanSq n g f :=
  pearson_symm _ _ _

theorem spearman_bounded (n : Nat) (f g : Nat → Rat) :
    -1 ≤ spearmanSq n f g ∧ spearmanSq n f g ≤ 1 := pearson_bounded _ _ _

/-- a tie-free value has the rank `1 + #{smaller values}` (twice that, here); tied values
share one rank -/
theorem rank_ties_share (n : Nat) (x : Nat → Rat) (i j : Nat) (h : x i = x j) :
    rank2 n x i = rank2 n x j := by
  unfold rank2; rw [h]

example : (List.range 4).map (rank2 4 (fun t => [3, 1, 1, 2].getD t 0)) = [8, 3, 3, 6] := by decide

/-- **mirrored result matrix.**  `_mutual_information` computes only the pairs `j < i`,
writes the value to `mi[i*N + j]` and mirrors it to `mi[j*N + i]`: after the loops both
cells of every pair `b < a < N` hold the value computed for `(a, b)` — the matrix is
symmetric by construction — and the diagonal keeps its initial value. -/
theorem mi_matrix_mirrored {α : Type} (zero : α) (val : Nat → Nat → α) (N a b : Nat)
    (ha : a < N) (hb : b < a) :
    miFlat zero val N N (a * N + b) = val a b ∧ miFlat zero val N N (b * N + a) = val a b :=
  miFlat_entry zero val N N a b (Nat.le_refl _) ha hb

theorem mi_matrix_symm {α : Type} (zero : α) (val : Nat → Nat → α) (N a b : Nat)
    (ha : a < N) (hb : b < N) :
    miFlat zero val N N (a * N + b) = miFlat zero val N N (b * N + a) := by
  rcases Nat.lt_trichotomy a b with h | h | h
  · have := mi_matrix_mirrored zero val N b a hb h; rw [this.1, this.2]
  · subst h; rfl
  · have := mi_matrix_mirrored zero val N a b ha h; rw [this.1, this.2]

theorem mi_matrix_diag {α : Type} (zero : α) (val : Nat → Nat → α) (N a : Nat) (ha : a < N) :
    miFlat zero val N N (a * N + a) = zero :=
  miFlat_diag zero val N N a (Nat.le_refl _) ha

example : (List.range 9).map (miFlat 0 (fun i j => i * 3 + j + 1) 3 3) = [0, 4, 7, 4, 0, 8, 7, 8, 0] := by
  decide

/-- **`bincount_hist`** (`D = 2`): through `multisymb = symb[0] + base·symb[1]`, `bincount`,
`reshape(base, base).T`, entry `[a][b]` is the number of samples with symbols `(a, b)` -/
theorem bincount_hist_counts (s0 s1 : Nat → Nat) (T base a b : Nat) (ha : a < base)
    (h0 : ∀ k, s0 k < base) :
    bincountHistEntry s0 s1 T base a b =
      countTo T (fun k => decide (s0 k = a) && decide (s1 k = b)) := by
  unfold bincountHistEntry bincount2
  rw [incWalk_apply, Nat.zero_add]
  apply countTo_congr
  intro k _
  rw [← Bool.decide_and]
  apply decide_eq_decide.mpr
  constructor
  · intro h
    have h' : s1 k * base + s0 k = b * base + a := by
      rw [Nat.mul_comm (s1 k) base, Nat.add_comm]; exact h
    have := flat_index_inj (h0 k) ha h'
    exact ⟨this.2, this.1⟩
  · intro h
    rw [h.1, h.2, Nat.mul_comm, Nat.add_comm]

end Pyunicorn.Coupling
