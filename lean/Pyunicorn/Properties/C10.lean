import Pyunicorn.Lemmas.Coupling
import Pyunicorn.Lemmas.CouplingStat
import Pyunicorn.Lemmas.Coupling2
import Pyunicorn.Lemmas.CouplingQuantile
import Pyunicorn.Lemmas.CouplingKnn
import Pyunicorn.Lemmas.Coupling3
import Pyunicorn.Generated.ArithC10
import Pyunicorn.Lemmas.Coupling4
import Pyunicorn.Lemmas.CouplingOccupancy
import Pyunicorn.Lemmas.CouplingGJ
import Pyunicorn.Lemmas.CouplingGJ2
import Pyunicorn.Lemmas.CouplingOccupancy2
import Pyunicorn.Generated.StructC10
/-!
# C10 — Similarity and coupling estimates equal reference statistics

Statements about the model `Pyunicorn.Coupling` (`Model/Coupling.lean`) of the
correlation / mutual-information kernels.  The model is tied to the working tree by the
exact kernel-boundary correspondence and the float32-tolerance data-level correspondence
in `harness/c10.py`; equality of the library's floating-point output with numpy / scipy
reference statistics is the oracle's part.
-/
namespace Pyunicorn.Coupling

/-! ## value / lag at the absolute maximum -/

/-- **argmax-first rule.**  The `tau` loop of `_cross_correlation_max` (`max = 0`,
`argmax = 0`, strict `abs(crossij) > abs(max)`) ends, after `n + 1` iterations, in the state
`(c a, a)` where `a` is the *least* loop index at which `|c|` is maximal (if every `c t` is
zero this is `a = 0` with value `0`). -/
theorem argmax_first (c : Nat → Rat) (n : Nat) :
    ∃ a, a ≤ n ∧ absmaxScan c (n + 1) = (c a, a) ∧
      (∀ t, t ≤ n → rabs (c t) ≤ rabs (c a)) ∧
      (∀ t, t < a → rabs (c t) < rabs (c a)) :=
  absmaxScan_inv c n

example : absmaxScan (fun t => [1, -3, 3, 2].getD t 0) 4 = (-3, 1) := by decide

/-- **max mode, off-diagonal entry** (the `int8` store included).  The returned pair is
`(c(τ_max - ℓ) / corr_range, wrap8 ℓ)` where `ℓ ≤ τ_max` is the **largest lag** at which the
lag function `ℓ ↦ c(τ_max - ℓ)` attains its absolute maximum. -/
theorem ccMax_entry_wrap (A : Nat → Nat → Nat → Rat) (tauMax cr i j : Nat) (hij : i ≠ j) :
    ∃ lag, lag ≤ tauMax ∧
      ccMaxEntry A tauMax cr i j =
        (crossAt A tauMax cr i j (tauMax - lag) / (cr : Rat), wrap8 (lag : Int)) ∧
      (∀ l, l ≤ tauMax → rabs (crossAt A tauMax cr i j (tauMax - l))
          ≤ rabs (crossAt A tauMax cr i j (tauMax - lag))) ∧
      (∀ l, lag < l → l ≤ tauMax → rabs (crossAt A tauMax cr i j (tauMax - l))
          < rabs (crossAt A tauMax cr i j (tauMax - lag))) := by
  obtain ⟨a, ha, hst, hmax, hfirst⟩ := absmaxScan_inv (crossAt A tauMax cr i j) tauMax
  refine ⟨tauMax - a, by omega, ?_, ?_, ?_⟩
  · have e : tauMax - (tauMax - a) = a := by omega
    unfold ccMaxEntry
    rw [if_neg hij, hst, e]
    have : ((tauMax : Int) - (a : Int)) = ((tauMax - a : Nat) : Int) := by omega
    simp only [this]
  · intro l hl
    have e : tauMax - (tauMax - a) = a := by omega
    rw [e]; exact hmax _ (by omega)
  · intro l h1 h2
    have e : tauMax - (tauMax - a) = a := by omega
    rw [e]; exact hfirst _ (by omega)

/-- for `tau_max ≤ 127` the stored lag is the lag itself -/
theorem ccMax_entry (A : Nat → Nat → Nat → Rat) (tauMax cr i j : Nat) (hij : i ≠ j)
    (h8 : tauMax ≤ 127) :
    ∃ lag, lag ≤ tauMax ∧
      ccMaxEntry A tauMax cr i j =
        (crossAt A tauMax cr i j (tauMax - lag) / (cr : Rat), (lag : Int)) ∧
      (∀ l, l ≤ tauMax → rabs (crossAt A tauMax cr i j (tauMax - l))
          ≤ rabs (crossAt A tauMax cr i j (tauMax - lag))) ∧
      (∀ l, lag < l → l ≤ tauMax → rabs (crossAt A tauMax cr i j (tauMax - l))
          < rabs (crossAt A tauMax cr i j (tauMax - lag))) := by
  obtain ⟨lag, h1, h2, h3, h4⟩ := ccMax_entry_wrap A tauMax cr i j hij
  refine ⟨lag, h1, ?_, h3, h4⟩
  rw [h2, wrap8_id (by omega) (by omega)]

/-- the diagonal of the max-mode matrices keeps its initial `(1, 0)` -/
theorem ccMax_diag (A : Nat → Nat → Nat → Rat) (tauMax cr i : Nat) :
    ccMaxEntry A tauMax cr i i = (1, 0) := by
  unfold ccMaxEntry; rw [if_pos rfl]

/-- **the pinned code beyond `int8`**: a lag of 150 (`tau_max = 200`) is stored as `-106`
(known finding `C10-lag-int8`; observed on the implementation with exactly this value). -/
theorem lag_wraps_beyond_int8 : wrap8 150 = -106 := by decide

/-! ## all-lags mode: the reversed lag index -/

/-- **`lagfuncs[i, j, tau_max - tau]`**: after the `tau` loop, slot `lag ≤ tau_max` of
`lagfuncs[i, j, :]` holds the product of window `tau_max - lag` of series `i` with window
`tau_max` of series `j`, divided by `corr_range`; every slot is written exactly once. -/
theorem ccAll_entry (A : Nat → Nat → Nat → Rat) (tauMax cr i j lag : Nat) (h : lag ≤ tauMax) :
    ccAllEntry A tauMax cr i j lag = crossAt A tauMax cr i j (tauMax - lag) / (cr : Rat) := by
  unfold ccAllEntry
  rw [ccAllRow_entry _ _ _ _ _ (Nat.le_refl _), if_pos (by omega)]

/-- **lag semantics** (`xcorr_lag_index`).  With the windows `array[t, i, k] = x_i(t + k)` that
`cross_correlation` builds, the product behind entry `[i, j, lag]` pairs `x_i(t - lag)` with
`x_j(t)` for `t = tau_max … tau_max + corr_range - 1`: the direction `i → j` of the docstring. -/
theorem xcorr_lag_index (x : Nat → Nat → Rat) (tauMax cr i j lag : Nat) (h : lag ≤ tauMax) :
    crossAt (windows x) tauMax cr i j (tauMax - lag) =
      sumTo cr fun k => x i (tauMax + k - lag) * x j (tauMax + k) := by
  unfold crossAt dotTo windows
  apply sumTo_congr
  intro k _
  have : tauMax - lag + k = tauMax + k - lag := by omega
  rw [this]

example : ccAllEntry (windows fun i t => [[1, 2, 3, 4], [0, 1, 0, 2]].getD i [] |>.getD t 0) 1 3 0 1 1
    = (1 * 1 + 2 * 0 + 3 * 2 : Rat) / 3 := by decide +kernel

/-! ## the `maximum` / `lag_at_max` loop of `mutual_information` / `information_transfer` -/

/-- `maximum = 0.; lag_at_max = 0; if ixy_z > maximum` : the summary is the **first** lag with
the largest *positive* estimate; if no estimate is positive it is `(0, 0)`. -/
theorem maxScan_first (c : Nat → Rat) (n : Nat) :
    ((maxScan c n = (0, 0) ∧ ∀ t, t < n → c t ≤ 0) ∨
     (∃ a, a < n ∧ maxScan c n = (c a, a) ∧ 0 < c a ∧ (∀ t, t < n → c t ≤ c a) ∧
        ∀ t, t < a → c t < c a)) := by
  induction n with
  | zero => exact Or.inl ⟨rfl, fun t h => by omega⟩
  | succ n ih =>
    have hs : maxScan c (n + 1) =
        if c n > (maxScan c n).1 then (c n, n) else maxScan c n := rfl
    rcases ih with ⟨h0, hall⟩ | ⟨a, han, hst, hpos, hmax, hfirst⟩
    · rw [hs, h0]
      by_cases hgt : c n > 0
      · refine Or.inr ⟨n, by omega, ?_, hgt, ?_, ?_⟩
        · simp only [hgt, if_true]
        · intro t ht
          by_cases e : t = n
          · subst e; exact le_refl _
          · exact le_trans (hall t (by omega)) (le_of_lt hgt)
        · intro t ht; exact lt_of_le_of_lt (hall t ht) hgt
      · refine Or.inl ⟨by simp only [hgt, if_false], ?_⟩
        intro t ht
        by_cases e : t = n
        · subst e; exact not_lt.mp hgt
        · exact hall t (by omega)
    · rw [hs, hst]
      by_cases hgt : c n > c a
      · refine Or.inr ⟨n, by omega, by simp only [hgt, if_true], lt_trans hpos hgt, ?_, ?_⟩
        · intro t ht
          by_cases e : t = n
          · subst e; exact le_refl _
          · exact le_trans (hmax t (by omega)) (le_of_lt hgt)
        · intro t ht; exact lt_of_le_of_lt (hmax t ht) hgt
      · refine Or.inr ⟨a, by omega, by simp only [hgt, if_false], hpos, ?_, hfirst⟩
        intro t ht
        by_cases e : t = n
        · subst e; exact not_lt.mp hgt
        · exact hmax t (by omega)

example : maxScan (fun t => [1, 3, 3, 2].getD t 0) 4 = (3, 1) := by decide

/-! ## `symmetrize_by_absmax` -/

/-- **pair rule**: for `i < j < N` the two cells of the pair end up as the loop body
prescribes from the *input* matrices (no other iteration touches them): the entry of
larger absolute value (ties: `[j, i]`) is copied to the other cell with negated lag. -/
theorem symmetrize_entry (N : Nat) (st : SymState) (i j : Nat) (hij : i < j) (hjN : j < N) :
    SymResult st i j (symmetrize N st) :=
  symAll_pair N N st i j hij hjN (by omega)

/-- the result is **symmetric in value** -/
theorem absmax_symmetrised_value (N : Nat) (st : SymState) (i j : Nat) (hi : i < N) (hj : j < N) :
    (symmetrize N st).1 i j = (symmetrize N st).1 j i := by
  rcases Nat.lt_trichotomy i j with h | h | h
  · have := symmetrize_entry N st i j h hj
    unfold SymResult at this
    split at this <;> (obtain ⟨a, b, _, _⟩ := this; rw [a, b])
  · subst h; rfl
  · have := symmetrize_entry N st j i h hi
    unfold SymResult at this
    split at this <;> (obtain ⟨a, b, _, _⟩ := this; rw [a, b])

/-- … and **antisymmetric in lag**, for lags that fit `int8` without `-128`
(lags produced by the library are `0 … tau_max ≤ 127`) -/
theorem absmax_symmetrised_lag (N : Nat) (st : SymState) (i j : Nat) (hij : i ≠ j) (hi : i < N)
    (hj : j < N) (hl : ∀ a b, -127 ≤ st.2 a b ∧ st.2 a b ≤ 127) :
    (symmetrize N st).2 j i = -(symmetrize N st).2 i j := by
  have key : ∀ i j, i < j → j < N → (symmetrize N st).2 j i = -(symmetrize N st).2 i j := by
    intro i j h hj
    have := symmetrize_entry N st i j h hj
    unfold SymResult at this
    split at this
    · obtain ⟨_, _, c, d⟩ := this
      rw [c, d, wrap8_id (by have := hl i j; omega) (by have := hl i j; omega)]
    · obtain ⟨_, _, c, d⟩ := this
      rw [c, d, wrap8_id (by have := hl j i; omega) (by have := hl j i; omega)]; omega
  rcases Nat.lt_or_gt_of_ne hij with h | h
  · exact key i j h hj
  · have := key j i h hi; omega

/-- the common value has the larger absolute value of the two inputs -/
theorem absmax_symmetrised_max (N : Nat) (st : SymState) (i j : Nat) (hij : i < j) (hjN : j < N) :
    rabs (st.1 i j) ≤ rabs ((symmetrize N st).1 i j) ∧
      rabs (st.1 j i) ≤ rabs ((symmetrize N st).1 i j) ∧
      ((symmetrize N st).1 i j = st.1 i j ∨ (symmetrize N st).1 i j = st.1 j i) := by
  have := symmetrize_entry N st i j hij hjN
  unfold SymResult at this
  split at this
  · rename_i h
    obtain ⟨a, _, _, _⟩ := this
    rw [a]; exact ⟨le_refl _, le_of_lt h, Or.inl rfl⟩
  · rename_i h
    obtain ⟨a, _, _, _⟩ := this
    rw [a]; exact ⟨not_lt.mp h, le_refl _, Or.inr rfl⟩

/-- the diagonal is not touched -/
theorem symmetrize_diag (N : Nat) (st : SymState) (a : Nat) :
    (symmetrize N st).1 a a = st.1 a a ∧ (symmetrize N st).2 a a = st.2 a a :=
  symAll_other N N st a a (fun i j _ _ hij e => by unfold Touches at e; omega)

example : SymResult (fun i j => if i = 0 ∧ j = 1 then (1 : Rat) / 2 else -3 / 4, fun _ _ => 2) 0 1
    (symmetrize 2 (fun i j => if i = 0 ∧ j = 1 then (1 : Rat) / 2 else -3 / 4, fun _ _ => 2)) :=
  symmetrize_entry 2 _ 0 1 (by decide) (by decide)

/-! ## histogram mutual information: the flat index walks count what they should -/

/-- every symbol is a valid bin index (no write outside `hist` / `hist2d`) -/
theorem symbol_lt (s rmin x : Rat) (nb : Nat) (hnb : 0 < nb) : symbolOf s rmin nb x < nb :=
  symbolOf_lt s rmin x nb hnb

/-- a sample strictly inside the range gets the index of its equal-width bin -/
theorem symbol_bin (s rmin x : Rat) (nb : Nat) (h0 : 0 ≤ s * (x - rmin)) (h1 : s * (x - rmin) < 1) :
    ((symbolOf s rmin nb x : Nat) : Rat) ≤ s * (x - rmin) * (nb : Rat) ∧
      s * (x - rmin) * (nb : Rat) < ((symbolOf s rmin nb x : Nat) : Rat) + 1 :=
  symbolOf_bin s rmin x nb h0 h1

/-- **`mi_hist_counts`**: after the walk `hist2d[symbolic[i*n+k]*n_bins + symbolic[j*n+k]]++`
(offsets accumulated by `in_samples += n_samples`), cell `a*n_bins + b` holds the number of
samples `k < n` with symbol `a` in series `i` and symbol `b` in series `j`. -/
theorem mi_hist_counts (symbA symbB : Nat → Nat) (n nb i j a b : Nat) (hb : b < nb)
    (hB : ∀ t, symbB t < nb) :
    hist2dFlat symbA symbB n nb i j (a * nb + b) =
      countTo n (fun k => decide (symbA (i * n + k) = a) && decide (symbB (j * n + k) = b)) :=
  hist2dFlat_entry symbA symbB n nb i j a b hb hB

/-- the 1-d histograms: cell `i*n_bins + a` counts the samples of series `i` with symbol `a` -/
theorem mi_hist1d_counts (symb : Nat → Nat) (n nb N i a : Nat) (hs : ∀ u, symb u < nb)
    (hi : i < N) (ha : a < nb) :
    histFlat symb n nb N (i * nb + a) = countTo n (fun k => decide (symb (i * n + k) = a)) :=
  histFlat_entry symb n nb N i a hs hi ha

/-- **marginals**: row `a` of `hist2d` sums to the 1-d histogram entry of series `i` … -/
theorem mi_hist_row_marginal (symb : Nat → Nat) (n nb N i j a : Nat) (hs : ∀ u, symb u < nb)
    (hi : i < N) (ha : a < nb) :
    sumNatTo nb (fun b => hist2dFlat symb symb n nb i j (a * nb + b)) =
      histFlat symb n nb N (i * nb + a) := by
  rw [histFlat_entry symb n nb N i a hs hi ha]
  have : (fun b => hist2dFlat symb symb n nb i j (a * nb + b)) =
      fun b => if b < nb then
        countTo n (fun k => decide (symb (i * n + k) = a) && decide (symb (j * n + k) = b))
      else hist2dFlat symb symb n nb i j (a * nb + b) := by
    funext b
    split
    · rename_i hb; exact hist2dFlat_entry symb symb n nb i j a b hb hs
    · rfl
  rw [← count_partition n nb (fun k => decide (symb (i * n + k) = a)) (fun k => symb (j * n + k))
    (fun k => hs _)]
  apply sumNatTo_congr
  intro b hb
  exact hist2dFlat_entry symb symb n nb i j a b hb hs

/-- … and every 1-d histogram sums to `n_samples` -/
theorem mi_hist_total (symb : Nat → Nat) (n nb N i : Nat) (hs : ∀ u, symb u < nb) (hi : i < N) :
    sumNatTo nb (fun a => histFlat symb n nb N (i * nb + a)) = n := by
  have h1 : sumNatTo nb (fun a => histFlat symb n nb N (i * nb + a)) =
      sumNatTo nb (fun a => countTo n (fun k => true && decide (symb (i * n + k) = a))) := by
    apply sumNatTo_congr
    intro a ha
    rw [histFlat_entry symb n nb N i a hs hi ha]
    apply countTo_congr
    intro k _; simp
  rw [h1, count_partition n nb (fun _ => true) (fun k => symb (i * n + k)) (fun k => hs _)]
  exact countTo_true n

example : hist2dFlat (fun t => [0, 1, 1, 0, 1, 1].getD t 0) (fun t => [0, 1, 1, 0, 1, 1].getD t 0)
    3 2 1 0 (1 * 2 + 1) = 2 := by decide

/-! ## `_test_pearson_correlation_fast` -/

/-- entry `(i, j)`, `i ≠ j`, of the surrogate test matrix is the mean product of original
series `i` (flat offset `i*n_time`) with surrogate series `j` (flat offset `j*n_time`) -/
theorem testPearson_entry (orig surr : Nat → Rat) (n i j : Nat) (hij : i ≠ j) :
    testPearsonEntry orig surr n i j =
      sumTo n (fun k => orig (i * n + k) * surr (j * n + k)) / (n : Rat) := by
  unfold testPearsonEntry dotTo; rw [if_neg hij]

/-! ## Pearson correlation (signed square `sign(r)·r²`): symmetry, bound, affine invariance -/

/-- **symmetric** -/
theorem pearson_symm (n : Nat) (f g : Nat → Rat) : pearsonSq n f g = pearsonSq n g f := by
  unfold pearsonSq
  simp only [covTo_comm n g f]
  by_cases h : covTo n f f = 0 ∨ covTo n g g = 0
  · rw [if_pos h, if_pos h.symm]
  · rw [if_neg h, if_neg (fun e => h e.symm), mul_comm (covTo n g g)]

/-- zero-lag entries of the lagged cross correlation are symmetric in `(i, j)` -/
theorem xcorr_lag0_symm (x : Nat → Nat → Rat) (T tauMax i j : Nat) :
    xcorrSq x T tauMax i j 0 = xcorrSq x T tauMax j i 0 := by
  unfold xcorrSq; exact pearson_symm _ _ _

/-- **bounded**: `|r| ≤ 1` (Cauchy–Schwarz), as `-1 ≤ sign(r)·r² ≤ 1` -/
theorem pearson_bounded (n : Nat) (f g : Nat → Rat) :
    -1 ≤ pearsonSq n f g ∧ pearsonSq n f g ≤ 1 := by
  unfold pearsonSq
  simp only
  split
  · constructor <;> norm_num
  · rename_i h
    have hx : covTo n f f ≠ 0 := fun e => h (Or.inl e)
    have hy : covTo n g g ≠ 0 := fun e => h (Or.inr e)
    have hxp : 0 < covTo n f f := lt_of_le_of_ne (covTo_self_nonneg n f) (Ne.symm hx)
    have hyp : 0 < covTo n g g := lt_of_le_of_ne (covTo_self_nonneg n g) (Ne.symm hy)
    have hd : 0 < covTo n f f * covTo n g g := mul_pos hxp hyp
    have hcs := covTo_sq_le n f g
    have hq0 : 0 ≤ covTo n f g * covTo n f g / (covTo n f f * covTo n g g) :=
      div_nonneg (mul_self_nonneg _) (le_of_lt hd)
    have hq1 : covTo n f g * covTo n f g / (covTo n f f * covTo n g g) ≤ 1 := by
      rw [div_le_one hd]; exact hcs
    have hs := sgn_abs_le (covTo n f g)
    rw [mul_div_assoc]
    constructor <;> nlinarith

/-- **affine-invariant**: `a·x + b` against `c·y + d` (`a, c ≠ 0`) changes `r` by the sign of `a·c` -/
theorem pearson_affine_invariant (n : Nat) (hn : 0 < n) (f g : Nat → Rat) (a b c d : Rat)
    (ha : a ≠ 0) (hc : c ≠ 0) :
    pearsonSq n (fun k => a * f k + b) (fun k => c * g k + d) = sgn (a * c) * pearsonSq n f g := by
  unfold pearsonSq
  simp only
  have e1 := covTo_affine n hn f g a b c d
  have e2 := covTo_affine n hn f f a b a b
  have e3 := covTo_affine n hn g g c d c d
  rw [e1, e2, e3]
  by_cases h : covTo n f f = 0 ∨ covTo n g g = 0
  · have h' : a * a * covTo n f f = 0 ∨ c * c * covTo n g g = 0 := by
      rcases h with h | h
      · left; rw [h]; ring
      · right; rw [h]; ring
    rw [if_pos h, if_pos h']; ring
  · have hx : covTo n f f ≠ 0 := fun e => h (Or.inl e)
    have hy : covTo n g g ≠ 0 := fun e => h (Or.inr e)
    have h' : ¬ (a * a * covTo n f f = 0 ∨ c * c * covTo n g g = 0) := by
      intro e
      rcases e with e | e
      · exact hx ((mul_eq_zero.mp e).resolve_left (mul_ne_zero ha ha))
      · exact hy ((mul_eq_zero.mp e).resolve_left (mul_ne_zero hc hc))
    rw [if_neg h, if_neg h']
    by_cases hcv : covTo n f g = 0
    · rw [hcv]; simp
    · rw [sgn_mul (mul_ne_zero ha hc) hcv]
      field_simp

/-- a series against itself (**duplicated series**) has `r = 1` … -/
theorem pearson_self (n : Nat) (f : Nat → Rat) (hv : covTo n f f ≠ 0) : pearsonSq n f f = 1 := by
  unfold pearsonSq
  simp only
  rw [if_neg (by simpa using hv)]
  have hp : 0 < covTo n f f := lt_of_le_of_ne (covTo_self_nonneg n f) (Ne.symm hv)
  have : sgn (covTo n f f) = 1 := by unfold sgn; rw [if_neg (not_lt.mpr (le_of_lt hp))]
  rw [this]; field_simp

/-- … and against a negative multiple (**anti-correlated series**) `r = -1` -/
theorem pearson_anticorrelated (n : Nat) (hn : 0 < n) (f : Nat → Rat) (c d : Rat) (hc : c < 0)
    (hv : covTo n f f ≠ 0) : pearsonSq n f (fun k => c * f k + d) = -1 := by
  have h := pearson_affine_invariant n hn f f 1 0 c d one_ne_zero (ne_of_lt hc)
  have e : (fun k => 1 * f k + 0) = f := by funext k; ring
  rw [e, pearson_self n f hv] at h
  rw [h]
  have : sgn (1 * c) = -1 := by unfold sgn; rw [if_pos (by linarith)]
  rw [this]; ring

/-- a **constant series** has correlation `0` with everything (the code's `nan → 0`) -/
theorem pearson_constant (n : Nat) (hn : 0 < n) (c : Rat) (g : Nat → Rat) :
    pearsonSq n (fun _ => c) g = 0 := by
  unfold pearsonSq
  simp only
  have : covTo n (fun _ => c) (fun _ => c) = 0 := by
    have h := covTo_affine n hn (fun _ => (0 : Rat)) (fun _ => (0 : Rat)) 0 c 0 c
    simp only [zero_mul, zero_add] at h
    exact h
  rw [if_pos (Or.inl this)]

/-- **reordered series**: relabelling the series by `σ` permutes every matrix entry -/
theorem xcorr_relabel (x : Nat → Nat → Rat) (σ : Nat → Nat) (T tauMax i j lag : Nat) :
    xcorrSq (fun i => x (σ i)) T tauMax i j lag = xcorrSq x T tauMax (σ i) (σ j) lag := rfl

theorem ccMax_relabel (A : Nat → Nat → Nat → Rat) (σ : Nat → Nat) (hσ : ∀ a b, σ a = σ b → a = b)
    (tauMax cr i j : Nat) :
    ccMaxEntry (fun t i => A t (σ i)) tauMax cr i j = ccMaxEntry A tauMax cr (σ i) (σ j) := by
  unfold ccMaxEntry
  by_cases h : i = j
  · subst h; simp
  · have : σ i ≠ σ j := fun e => h (hσ _ _ e)
    rw [if_neg h, if_neg this]; rfl

/-- the affine law lifts to every lagged entry -/
theorem xcorr_affine_invariant (x : Nat → Nat → Rat) (T tauMax i j lag : Nat) (hT : tauMax < T)
    (a b : Nat → Rat) (ha : ∀ i, a i ≠ 0) :
    xcorrSq (fun i t => a i * x i t + b i) T tauMax i j lag =
      sgn (a i * a j) * xcorrSq x T tauMax i j lag := by
  unfold xcorrSq
  exact pearson_affine_invariant (T - tauMax) (by omega) _ _ (a i) (b i) (a j) (b j) (ha i) (ha j)

example : pearsonSq 4 (fun t => [1, 2, 2, 5].getD t 0) (fun t => [3, 1, 1, 0].getD t 0) = -121 / 171 := by
  decide +kernel

/-! ## ranks and Spearman's rho -/

/-- ranks (and hence Spearman's rho) do not change under a strictly increasing map of the
values — in particular under affine maps with positive slope -/
theorem rank_monotone_invariant (n : Nat) (x : Nat → Rat) (φ : Rat → Rat)
    (hφ : ∀ u v, φ u < φ v ↔ u < v) (i : Nat) :
    rank2 n (fun k => φ (x k)) i = rank2 n x i := by
  have hinj : ∀ u v, φ u = φ v ↔ u = v := by
    intro u v
    constructor
    · intro e
      rcases lt_trichotomy u v with h | h | h
      · have := (hφ u v).mpr h; rw [e] at this; exact absurd this (lt_irrefl _)
      · exact h
      · have := (hφ v u).mpr h; rw [e] at this; exact absurd this (lt_irrefl _)
    · intro e; rw [e]
  unfold rank2
  congr 2
  · congr 1
    apply countTo_congr
    intro k _
    exact decide_eq_decide.mpr (hφ _ _)
  · apply countTo_congr
    intro k _
    exact decide_eq_decide.mpr (hinj _ _)

theorem spearman_monotone_invariant (n : Nat) (f g : Nat → Rat) (φ ψ : Rat → Rat)
    (hφ : ∀ u v, φ u < φ v ↔ u < v) (hψ : ∀ u v, ψ u < ψ v ↔ u < v) :
    spearmanSq n (fun k => φ (f k)) (fun k => ψ (g k)) = spearmanSq n f g := by
  unfold spearmanSq
  have e1 : (fun i => (rank2 n (fun k => φ (f k)) i : Rat)) = fun i => (rank2 n f i : Rat) := by
    funext i; rw [rank_monotone_invariant n f φ hφ i]
  have e2 : (fun i => (rank2 n (fun k => ψ (g k)) i : Rat)) = fun i => (rank2 n g i : Rat) := by
    funext i; rw [rank_monotone_invariant n g ψ hψ i]
  rw [e1, e2]

/-- Spearman's rho is Pearson's r of the rank series, hence symmetric and bounded -/
theorem spearman_symm (n : Nat) (f g : Nat → Rat) : spearmanSq n f g = spearmanSq n g f :=
  pearson_symm _ _ _

theorem spearman_bounded (n : Nat) (f g : Nat → Rat) :
    -1 ≤ spearmanSq n f g ∧ spearmanSq n f g ≤ 1 := pearson_bounded _ _ _

/-- a tie-free value has the rank `1 + #{smaller values}` (twice that, here); tied values
share one rank -/
theorem rank_ties_share (n : Nat) (x : Nat → Rat) (i j : Nat) (h : x i = x j) :
    rank2 n x i = rank2 n x j := by
  unfold rank2; rw [h]

example : (List.range 4).map (rank2 4 (fun t => [3, 1, 1, 2].getD t 0)) = [8, 3, 3, 6] := by decide

/-- **mirrored result matrix.**  `_mutual_information` computes only the pairs `j < i`,
writes the value to `mi[i*N + j]` and mirrors it to `mi[j*N + i]`: after the loops both
cells of every pair `b < a < N` hold the value computed for `(a, b)` — the matrix is
symmetric by construction — and the diagonal keeps its initial value. -/
theorem mi_matrix_mirrored {α : Type} (zero : α) (val : Nat → Nat → α) (N a b : Nat)
    (ha : a < N) (hb : b < a) :
    miFlat zero val N N (a * N + b) = val a b ∧ miFlat zero val N N (b * N + a) = val a b :=
  miFlat_entry zero val N N a b (Nat.le_refl _) ha hb

theorem mi_matrix_symm {α : Type} (zero : α) (val : Nat → Nat → α) (N a b : Nat)
    (ha : a < N) (hb : b < N) :
    miFlat zero val N N (a * N + b) = miFlat zero val N N (b * N + a) := by
  rcases Nat.lt_trichotomy a b with h | h | h
  · have := mi_matrix_mirrored zero val N b a hb h; rw [this.1, this.2]
  · subst h; rfl
  · have := mi_matrix_mirrored zero val N a b ha h; rw [this.1, this.2]

theorem mi_matrix_diag {α : Type} (zero : α) (val : Nat → Nat → α) (N a : Nat) (ha : a < N) :
    miFlat zero val N N (a * N + a) = zero :=
  miFlat_diag zero val N N a (Nat.le_refl _) ha

example : (List.range 9).map (miFlat 0 (fun i j => i * 3 + j + 1) 3 3) = [0, 4, 7, 4, 0, 8, 7, 8, 0] := by
  decide

/-- **`bincount_hist`** (`D = 2`): through `multisymb = symb[0] + base·symb[1]`, `bincount`,
`reshape(base, base).T`, entry `[a][b]` is the number of samples with symbols `(a, b)` -/
theorem bincount_hist_counts (s0 s1 : Nat → Nat) (T base a b : Nat) (ha : a < base)
    (h0 : ∀ k, s0 k < base) :
    bincountHistEntry s0 s1 T base a b =
      countTo T (fun k => decide (s0 k = a) && decide (s1 k = b)) := by
  unfold bincountHistEntry bincount2
  rw [incWalk_apply, Nat.zero_add]
  apply countTo_congr
  intro k _
  rw [← Bool.decide_and]
  apply decide_eq_decide.mpr
  constructor
  · intro h
    have h' : s1 k * base + s0 k = b * base + a := by
      rw [Nat.mul_comm (s1 k) base, Nat.add_comm]; exact h
    have := flat_index_inj (h0 k) ha h'
    exact ⟨this.2, this.1⟩
  · intro h
    rw [h.1, h.2, Nat.mul_comm, Nat.add_comm]


/-! # Round 2 -/

/-! ## `_test_mutual_information_fast`: layout of the result matrix -/

/-- every off-diagonal cell `mi[a*N + b]` (`a ≠ b`) receives the value of the ordered pair
`(original a, surrogate b)` — the matrix is **not** mirrored, unlike `_mutual_information` -/
theorem tmi_matrix_entry {α : Type} (zero : α) (val : Nat → Nat → α) (N a b : Nat)
    (ha : a < N) (hb : b < N) (hab : a ≠ b) : tmiFlat zero val N N (a * N + b) = val a b :=
  tmiFlat_entry zero val N N a b (Nat.le_refl _) ha hb hab

/-- … and the diagonal keeps its initial zero -/
theorem tmi_matrix_diag {α : Type} (zero : α) (val : Nat → Nat → α) (N a : Nat) (ha : a < N) :
    tmiFlat zero val N N (a * N + a) = zero :=
  tmiFlat_diag zero val N N a ha

example : (List.range 9).map (tmiFlat 0 (fun i j => i * 3 + j + 1) 3 3) = [0, 2, 3, 4, 0, 6, 7, 8, 0] := by
  decide

/-! ## compiled vs. pure-Python `CouplingAnalysis` -/

/-- **alternative implementations agree, lags `≤ 0`.**  Entry `[t, i, j]`, `t ≤ tau_max`, of
`CouplingAnalysisPurePython.cross_correlation(tau_max, 'all')` on `T` samples is entry
`[j, i, tau_max - t]` of the compiled `CouplingAnalysis.cross_correlation` on the first
`T - tau_max` samples. -/
theorem pure_eq_compiled_back (x : Nat → Nat → Rat) (T tauMax t i j : Nat) (ht : t ≤ tauMax) :
    pureXcorrSq x T tauMax t i j = xcorrSq x (T - tauMax) tauMax j i (tauMax - t) := by
  unfold pureXcorrSq xcorrSq
  rw [pearson_symm]
  have e1 : T - 2 * tauMax = T - tauMax - tauMax := by omega
  have e2 : tauMax - (tauMax - t) = t := by omega
  rw [e1, e2]

/-- **alternative implementations agree, lags `≥ 0`.**  Entry `[t, i, j]`, `tau_max ≤ t ≤ 2 tau_max`,
of the pure-Python result is entry `[j, i, t - tau_max]` of the compiled class on the first
`T - tau_max` samples of the **time-reversed** data. -/
theorem pure_eq_compiled_fwd (x : Nat → Nat → Rat) (T tauMax t i j : Nat) (h1 : tauMax ≤ t)
    (h2 : t ≤ 2 * tauMax) :
    pureXcorrSq x T tauMax t i j =
      xcorrSq (fun i s => x i (T - 1 - s)) (T - tauMax) tauMax j i (t - tauMax) := by
  unfold pureXcorrSq xcorrSq
  rw [pearson_symm (T - tauMax - tauMax)]
  have e1 : T - tauMax - tauMax = T - 2 * tauMax := by omega
  rw [e1, ← pearsonSq_reverse]
  apply pearsonSq_congr
  · intro k hk
    have : tauMax + (T - 2 * tauMax - 1 - k) = T - 1 - (tauMax + k) := by omega
    rw [this]
  · intro k hk
    have : t + (T - 2 * tauMax - 1 - k) = T - 1 - (tauMax - (t - tauMax) + k) := by omega
    rw [this]

/-- the zero-lag slice `t = tau_max` of the pure-Python result is symmetric -/
theorem pure_lag0_symm (x : Nat → Nat → Rat) (T tauMax i j : Nat) :
    pureXcorrSq x T tauMax tauMax i j = pureXcorrSq x T tauMax tauMax j i := by
  unfold pureXcorrSq; exact pearson_symm _ _ _

/-- **pure-Python `'max'` mode**: `corrmat[0]` is `|c a|` and `corrmat[1]` is `a - tau_max`
where `a ≤ 2 tau_max` is the *least* window index at which `|c|` is maximal (the most negative
lag wins ties; all-zero → `(0, -tau_max)`). -/
theorem pure_max_entry (c : Nat → Rat) (tauMax : Nat) :
    ∃ a, a ≤ 2 * tauMax ∧ pureMaxEntry c tauMax = (rabs (c a), (a : Int) - (tauMax : Int)) ∧
      (∀ t, t ≤ 2 * tauMax → rabs (c t) ≤ rabs (c a)) ∧
      (∀ t, t < a → rabs (c t) < rabs (c a)) := by
  obtain ⟨a, ha, hst, hmax, hfirst⟩ := absmaxScan_inv c (2 * tauMax)
  refine ⟨a, ha, ?_, hmax, hfirst⟩
  unfold pureMaxEntry
  simp only [pureMaxScan_eq, hst]

/-- … and the compiled `'max'` scan and the pure-Python one select the same index and the same
absolute value on the same sequence -/
theorem pure_max_agrees (c : Nat → Rat) (n : Nat) :
    pureMaxScan c n = (rabs (absmaxScan c n).1, (absmaxScan c n).2) := pureMaxScan_eq c n

/-- **pure-Python `'sum'` mode**: `corrmat[0]` sums `|c|` over the windows `t ≥ tau_max`,
`corrmat[1]` over `t ≤ tau_max` (both include the zero-lag window) -/
theorem pure_sum_entry (c : Nat → Rat) (tauMax : Nat) :
    pureSumScan c tauMax (2 * tauMax + 1) =
      (sumTo (tauMax + 1) (fun k => rabs (c (tauMax + k))), sumTo (tauMax + 1) (fun t => rabs (c t))) := by
  have e : 2 * tauMax + 1 = tauMax + 1 + tauMax := by omega
  rw [e]; exact pureSumScan_high c tauMax tauMax

example : pureMaxEntry (fun t => [1, -3, 3, 2, 0].getD t 0) 2 = (3, -1) := by decide
example : pureSumScan (fun t => [1, -3, 3, 2, 0].getD t 0) 2 5 = (5, 7) := by decide +kernel

/-! ## Gaussian estimators: partial correlation of residual rows -/

/-- **no negative slice start**: every node of `XYZ` reaches back at most `max_lag = tau_max + past`
samples, so `data[max_lag + lag : T + lag]` never starts below `0` for `tau ≤ tau_max` -/
theorem it_window_in_range (mit : Bool) (i j tau past tauMax : Nat) (ht : tau ≤ tauMax)
    (node : Nat × Nat) (h : node ∈ itNodes mit i j tau past) : node.2 ≤ tauMax + past := by
  have := itNodes_lag_le mit i j tau past node h; omega

/-- number of rows of `array`: `dim = 2 + past` (`'ity'`) or `2 + 2·past` (`'mit'`) -/
theorem it_dim (mit : Bool) (i j tau past : Nat) :
    (itNodes mit i j tau past).length = 2 + past + (if mit then past else 0) :=
  itNodes_length mit i j tau past

/-- **Gaussian MI is the Pearson case**: without confounds the estimate is the (signed square of
the) correlation of the two rows -/
theorem gauss_mi_is_pearson (n : Nat) (r : Nat → Nat → Rat) :
    parCorrSqG (fun a b => covTo n (r a) (r b)) [] 0 1 = pearsonSq n (r 0) (r 1) := rfl

/-- the Gram matrix of centred rows (the `G` the estimators use) is symmetric: the hypothesis
`hG` of the next theorems holds for it -/
theorem cov_gram_symm (n : Nat) (r : Nat → Nat → Rat) (a b : Nat) :
    (fun a b => covTo n (r a) (r b)) a b = (fun a b => covTo n (r a) (r b)) b a :=
  covTo_comm n (r a) (r b)

/-- **residuals are orthogonal to every confound** (confounds linearly independent) -/
theorem residual_orthogonal (G : Nat → Nat → Rat) (hG : ∀ a b, G a b = G b a) (zs : List Nat)
    (hp : Pivots G zs) (a z : Nat) (hz : z ∈ zs) : pcovG G zs a z = 0 :=
  pcovG_confound_zero G hG zs hp a z hz

/-- the partial correlation is **symmetric** in the two variables -/
theorem parCorr_symm (G : Nat → Nat → Rat) (hG : ∀ a b, G a b = G b a) (zs : List Nat) (a b : Nat) :
    parCorrSqG G zs a b = parCorrSqG G zs b a := by
  unfold parCorrSqG
  simp only [pcovG_symm G hG zs b a]
  by_cases h : pcovG G zs a a = 0 ∨ pcovG G zs b b = 0
  · rw [if_pos h, if_pos h.symm]
  · rw [if_neg h, if_neg (fun e => h e.symm), mul_comm (pcovG G zs b b)]

/-- **standardisation / affine images do not matter**: rescaling row `d` by `s d ≠ 0` (the code
divides by the standard deviation; an affine image `a·x + b` of a series rescales its centred
rows by `a`) changes the partial correlation by `sign(s a · s b)` only -/
theorem parCorr_scale_invariant (G : Nat → Nat → Rat) (s : Nat → Rat) (hs : ∀ d, s d ≠ 0)
    (zs : List Nat) (a b : Nat) :
    parCorrSqG (fun a b => s a * s b * G a b) zs a b = sgn (s a * s b) * parCorrSqG G zs a b := by
  unfold parCorrSqG
  simp only [pcovG_scale G s hs]
  have ha := hs a
  have hb := hs b
  by_cases h : pcovG G zs a a = 0 ∨ pcovG G zs b b = 0
  · have h' : s a * s a * pcovG G zs a a = 0 ∨ s b * s b * pcovG G zs b b = 0 := by
      rcases h with h | h
      · left; rw [h]; ring
      · right; rw [h]; ring
    rw [if_pos h, if_pos h']; ring
  · have hx : pcovG G zs a a ≠ 0 := fun e => h (Or.inl e)
    have hy : pcovG G zs b b ≠ 0 := fun e => h (Or.inr e)
    have h' : ¬ (s a * s a * pcovG G zs a a = 0 ∨ s b * s b * pcovG G zs b b = 0) := by
      intro e
      rcases e with e | e
      · exact hx ((mul_eq_zero.mp e).resolve_left (mul_ne_zero ha ha))
      · exact hy ((mul_eq_zero.mp e).resolve_left (mul_ne_zero hb hb))
    rw [if_neg h, if_neg h']
    by_cases hcv : pcovG G zs a b = 0
    · rw [hcv]; simp
    · rw [sgn_mul (mul_ne_zero ha hb) hcv]
      field_simp

/-- linear independence of the confounds is not affected by the rescaling either -/
theorem pivots_scale_invariant (G : Nat → Nat → Rat) (s : Nat → Rat) (hs : ∀ d, s d ≠ 0)
    (zs : List Nat) : Pivots (fun a b => s a * s b * G a b) zs ↔ Pivots G zs :=
  pivots_scale G s hs zs

example : itNodes true 0 1 2 2 = [(0, 2), (1, 0), (1, 1), (1, 2), (0, 3), (0, 4)] := by decide
example : pcovG (fun a b => [[4, 2, 2], [2, 3, 1], [2, 1, 2]].getD a [] |>.getD b (0 : Rat)) [2] 0 1 = 1 := by
  decide +kernel

/-! ## `PartialCorrelationClimateNetwork`: `- C_inv / sqrt(|outer(diag, diag)|)` -/

/-- symmetric for a symmetric inverse -/
theorem normInv_symm (P : Nat → Nat → Rat) (hP : ∀ a b, P a b = P b a) (i j : Nat) :
    normInvSq P i j = normInvSq P j i := by
  unfold normInvSq
  rw [hP j i, mul_comm (P j j)]

/-- the diagonal is `-1` by construction (positive diagonal of the inverse) -/
theorem normInv_diag (P : Nat → Nat → Rat) (i : Nat) (h : 0 < P i i) : normInvSq P i i = -1 := by
  unfold normInvSq
  have hpos : 0 < P i i * P i i := mul_pos h h
  have hr : rabs (P i i * P i i) = P i i * P i i := by
    unfold rabs; rw [if_neg (not_lt.mpr (le_of_lt hpos))]
  have hs : sgn (-(P i i)) = -1 := by unfold sgn; rw [if_pos (by linarith)]
  simp only [hr, hs]
  rw [if_neg (ne_of_gt hpos)]
  field_simp

/-- **correlation vs. covariance matrix**: if `C' = D C D` with a positive diagonal `D = diag(s)`
then `C'⁻¹ = D⁻¹ C⁻¹ D⁻¹`, and the normalised inverse is the same — the partial correlation may
be computed from the inverse *covariance* matrix (rational) instead of the inverse *correlation*
matrix (square roots), which is what the exact correspondence does -/
theorem normInv_scale_invariant (P : Nat → Nat → Rat) (s : Nat → Rat) (hs : ∀ d, 0 < s d) (i j : Nat) :
    normInvSq (fun a b => P a b / (s a * s b)) i j = normInvSq P i j := by
  unfold normInvSq
  have hi := hs i
  have hj := hs j
  have hij : 0 < s i * s j := mul_pos hi hj
  have hden : 0 < (s i * s i) * (s j * s j) := mul_pos (mul_pos hi hi) (mul_pos hj hj)
  have e1 : P i i / (s i * s i) * (P j j / (s j * s j)) = P i i * P j j / ((s i * s i) * (s j * s j)) := by
    field_simp
  have hr : rabs (P i i * P j j / ((s i * s i) * (s j * s j))) =
      rabs (P i i * P j j) / ((s i * s i) * (s j * s j)) := by
    unfold rabs
    by_cases hn : P i i * P j j < 0
    · rw [if_pos hn, if_pos (div_neg_of_neg_of_pos hn hden)]; ring
    · rw [if_neg hn, if_neg (not_lt.mpr (div_nonneg (not_lt.mp hn) (le_of_lt hden)))]
  have hsg : sgn (-(P i j / (s i * s j))) = sgn (-(P i j)) := by
    unfold sgn
    by_cases hn : -(P i j) < 0
    · have : -(P i j / (s i * s j)) < 0 := by
        rw [← neg_div]; exact div_neg_of_neg_of_pos hn hij
      rw [if_pos hn, if_pos this]
    · have : ¬ -(P i j / (s i * s j)) < 0 := by
        rw [← neg_div]; exact not_lt.mpr (div_nonneg (not_lt.mp hn) (le_of_lt hij))
      rw [if_neg hn, if_neg this]
  simp only [e1, hr, hsg]
  by_cases hd : rabs (P i i * P j j) = 0
  · rw [if_pos hd, if_pos (by rw [hd]; simp)]
  · have : rabs (P i i * P j j) / ((s i * s i) * (s j * s j)) ≠ 0 :=
      div_ne_zero hd (ne_of_gt hden)
    rw [if_neg hd, if_neg this]
    field_simp

example : normInvSq (fun a b => [[2, -1], [-1, 2]].getD a [] |>.getD b (0 : Rat)) 0 1 = 1 / 4 := by
  decide +kernel
example : (gjInverse (fun a b => [[2, 1], [1, 2]].getD a [] |>.getD b (0 : Rat)) 2).map
    (fun P => [P 0 0, P 0 1, P 1 0, P 1 1]) = some [2 / 3, -1 / 3, -1 / 3, 2 / 3] := by decide +kernel

/-! ## ranks: the average ranks sum to `n(n+1)/2` -/

/-- `Σ_i 2·rank_i = n(n+1)` whatever the ties: the ranks `rank_time_series` hands to `corrcoef`
have the mean `(n+1)/2` of a permutation of `1..n` -/
theorem rank_sum (n : Nat) (x : Nat → Rat) : sumNatTo n (rank2 n x) = n * (n + 1) := by
  have hswap : sumNatTo n (fun i => countTo n (fun j => decide (x j < x i))) =
      sumNatTo n (fun i => countTo n (fun j => decide (x i < x j))) :=
    sumNatTo_countTo_swap n n (fun i j => decide (x j < x i))
  have htri : sumNatTo n (fun i => countTo n (fun j => decide (x j < x i)) +
      countTo n (fun j => decide (x j = x i)) + countTo n (fun j => decide (x i < x j))) = n * n := by
    rw [sumNatTo_congr (g := fun _ => n) (fun i _ => countTo_tri n x i), sumNatTo_const]
  rw [sumNatTo_add, sumNatTo_add] at htri
  have hr : sumNatTo n (rank2 n x) =
      sumNatTo n (fun i => 2 * countTo n (fun j => decide (x j < x i)) +
        countTo n (fun j => decide (x j = x i)) + 1) := rfl
  have h2 : sumNatTo n (fun i => 2 * countTo n (fun j => decide (x j < x i))) =
      sumNatTo n (fun i => countTo n (fun j => decide (x j < x i))) +
      sumNatTo n (fun i => countTo n (fun j => decide (x j < x i))) := by
    rw [← sumNatTo_add]; apply sumNatTo_congr; intro i _; omega
  rw [hr, sumNatTo_add, sumNatTo_add, h2, sumNatTo_const]
  have : n * (n + 1) = n * n + n := by ring
  rw [this]
  omega

example : sumNatTo 4 (rank2 4 (fun t => [3, 1, 1, 2].getD t 0)) = 4 * 5 := by decide


/-! ## `_quantile_bin_array` -/

/-- every sample of the row gets a symbol in `0 … #edges - 1`, there are at most `bins` edges
(so the symbols fit the `base × base` histogram of `bincount_hist`), and the symbol is
monotone in the sample value -/
theorem qbin_range (row : List Rat) (bins : Nat) (hb : 1 ≤ bins) (x : Rat) (hx : x ∈ row) :
    0 ≤ quantileSym (quantileEdges row bins) x ∧
      quantileSym (quantileEdges row bins) x < (bins : Int) := by
  have hr : row ≠ [] := fun e => by rw [e] at hx; cases hx
  have h1 := quantileSym_nonneg row bins x hx
  have h2 := quantileSym_lt (quantileEdges row bins) x
  have h3 := quantileEdges_length_le row bins hb hr
  omega

theorem qbin_monotone (row : List Rat) (bins : Nat) (x y : Rat) (h : x ≤ y) :
    quantileSym (quantileEdges row bins) x ≤ quantileSym (quantileEdges row bins) y :=
  quantileSym_mono _ x y h

/-- tied samples share their symbol (no order dependence, unlike a rank-based binning) -/
theorem qbin_ties_share (row : List Rat) (bins : Nat) (x y : Rat) (h : x = y) :
    quantileSym (quantileEdges row bins) x = quantileSym (quantileEdges row bins) y := by rw [h]

example : quantileBinRow [5, 1, 4, 2, 3, 0] 3 = [2, 0, 2, 1, 1, 0] := by decide +kernel

/-! ## index arithmetic regenerated from the current source (`translate/arith_C10.json`) -/

open Pyunicorn.Generated.ArithC10 in
/-- **`cross_correlation` windows**: for `0 ≤ t ≤ tau_max ≤ T` the slice `data[t : t + corr_range]`
starts at `t` (the model's `windows x t i k = x i (t + k)`), has `corr_range = T - tau_max`
samples (the model's window length) and ends inside the data; the slice the mean is taken of
is the same one -/
theorem arith_xcorr_window (T tau_max t : Int) (h0 : 0 ≤ t) (h1 : t ≤ tau_max) (_h2 : tau_max ≤ T) :
    xcorrWinLo t (xcorrRange T tau_max) = t ∧
      xcorrWinHi t (xcorrRange T tau_max) - xcorrWinLo t (xcorrRange T tau_max) = T - tau_max ∧
      xcorrWinHi t (xcorrRange T tau_max) ≤ T ∧ 0 ≤ xcorrWinLo t (xcorrRange T tau_max) ∧
      xcorrMeanWinLo t (xcorrRange T tau_max) = xcorrWinLo t (xcorrRange T tau_max) ∧
      xcorrMeanWinHi t (xcorrRange T tau_max) = xcorrWinHi t (xcorrRange T tau_max) := by
  unfold xcorrWinLo xcorrWinHi xcorrMeanWinLo xcorrMeanWinHi xcorrRange
  omega

open Pyunicorn.Generated.ArithC10 in
/-- **`mutual_information` rows**: node `(var, lag = -tau)`, `0 ≤ tau ≤ tau_max ≤ T`: the slice
`data[max_lag + lag : T + lag]` starts at `tau_max - tau ≥ 0` (no wrap-around of a negative
index), ends at `T - tau ≤ T` and has exactly the `T - max_lag` samples of a row of `array` -/
theorem arith_mi_window (T tau_max tau : Int) (h0 : 0 ≤ tau) (h1 : tau ≤ tau_max) (_h2 : tau_max ≤ T) :
    miWinLo (miMaxLag tau_max) (-tau) T = tau_max - tau ∧ 0 ≤ miWinLo (miMaxLag tau_max) (-tau) T ∧
      miWinHi (miMaxLag tau_max) (-tau) T ≤ T ∧
      miWinHi (miMaxLag tau_max) (-tau) T - miWinLo (miMaxLag tau_max) (-tau) T =
        miRowLen (miMaxLag tau_max) T := by
  unfold miWinLo miWinHi miRowLen miMaxLag
  omega

open Pyunicorn.Generated.ArithC10 in
/-- **`information_transfer` rows**: every node of `XYZ` (`it_window_in_range`: it reaches back
`l ≤ tau_max + past` samples) is cut from `data[max_lag - l : T - l]`: inside the data, `T - max_lag`
samples, start `max_lag - l` as in the model's `itRow` -/
theorem arith_it_window (T tau_max past l : Int) (h0 : 0 ≤ l) (h1 : l ≤ tau_max + past) :
    itWinLo (itMaxLag tau_max past) (-l) T = tau_max + past - l ∧
      0 ≤ itWinLo (itMaxLag tau_max past) (-l) T ∧ itWinHi (itMaxLag tau_max past) (-l) T ≤ T ∧
      itWinHi (itMaxLag tau_max past) (-l) T - itWinLo (itMaxLag tau_max past) (-l) T =
        itRowLen (itMaxLag tau_max past) T := by
  unfold itWinLo itWinHi itRowLen itMaxLag
  omega

open Pyunicorn.Generated.ArithC10 in
/-- `bin_edge = ceil(T / bins)` of the source is the model's `binEdge` -/
theorem arith_bin_edge (T bins : Nat) (hb : 1 ≤ bins) :
    qbinEdge (T : Int) (bins : Int) = (binEdge T bins : Int) := by
  unfold qbinEdge ceilDiv binEdge
  have h : ((T : Int) + (bins : Int) - 1) = ((T + bins - 1 : Nat) : Int) := by omega
  rw [h, Int.natCast_ediv]

open Pyunicorn.Generated.ArithC10 in
/-- pure-Python class: window length `total_time - 2 tau_max` (the model's `pureXcorrSq`), windows
end inside the data for `t ≤ 2 tau_max`, and the reported lag is `argmax - tau_max`
(`pureMaxEntry`) -/
theorem arith_pure (total_time tau_max t : Int) (_h0 : 0 ≤ t) (h1 : t ≤ 2 * tau_max) :
    pureWinHi t (pureRange total_time tau_max) ≤ total_time ∧
      pureWinHi t (pureRange total_time tau_max) - t = total_time - 2 * tau_max := by
  unfold pureWinHi pureRange
  omega

open Pyunicorn.Generated.ArithC10 in
theorem arith_pure_lag (c : Nat → Rat) (tauMax : Nat) :
    (pureMaxEntry c tauMax).2 = pureLagOut ((pureMaxScan c (2 * tauMax + 1)).2 : Int) (tauMax : Int) := rfl

/-! # Round 3 -/

/-! ## the nearest-neighbour kernel `_get_nearest_neighbors` -/

/-- the early-exit scan over the dimensions decides "maximum-metric distance `< eps`" -/
theorem knn_cube_test (arr : Nat → Nat → Rat) (i t : Nat) (eps : Rat) (dim : Nat) (he : 0 < eps) :
    inCube arr i t eps dim = true ↔ jointD arr i dim t < eps :=
  inCube_iff_jointD arr i t eps dim he

/-- "distance of the `k`-th nearest neighbour" (`IsKth`: a distance that occurs, at most `k` samples
strictly closer, more than `k` at most that far; the sample itself counts as the 0-th) determines
the value uniquely -/
theorem knn_kth_unique (D : Nat → Rat) (T k : Nat) (v w : Rat) (hv : IsKth D T k v)
    (hw : IsKth D T k w) : v = w := IsKth_unique D T k v w hv hw

/-- **bounded insertion sort**: whatever the content of `dxyzarray` left by the previous sample,
after `n` distances slot `p < min n (k+1)` holds the `p`-th order statistic of those distances
(only `k+1` slots, larger values are dropped, the shifting loop never reads an unwritten slot) -/
theorem knn_sort_slot (k : Nat) (x : Nat → Rat) (n : Nat) (A0 : List Rat) (h0 : A0.length = k + 1)
    (p : Nat) (hp : p < min n (k + 1)) : IsKth x n p (rd (sortSeq k x n A0) p) :=
  sortSeq_kth k x n A0 h0 p hp

/-- **growing cube**: whatever the start width `eps0 > 0` (a floating-point `(k/T)**(1/dim)` in the
code), the number of doublings and the stale contents of `indexfound` / `dxyzarray`: when the
`while n <= k` loop exits, more than `k` samples are in the cube and `epsmax = dxyzarray[k]` is the
distance of the `k`-th nearest neighbour among **all** `T` samples -/
theorem knn_epsmax (arr : Nat → Nat → Rat) (i T dim k fuel : Nat) (eps0 eps : Rat)
    (idx0 idx : Nat → Nat) (n : Nat) (A0 : List Rat) (hA0 : A0.length = k + 1) (h0 : 0 < eps0)
    (h : growLoop arr i T dim k fuel eps0 idx0 = some (eps, idx, n)) :
    k < n ∧ IsKth (jointD arr i dim) T k (rd (sortLoop arr i dim k idx n A0) k) :=
  knn_epsmax_kth arr i T dim k fuel eps0 eps idx0 idx n A0 hA0 h0 h

/-- the growing-cube loop exits after finitely many doublings whenever `k < T` … -/
theorem knn_terminates (arr : Nat → Nat → Rat) (i T dim k : Nat) (eps0 : Rat) (idx0 : Nat → Nat)
    (h0 : 0 < eps0) (hk : k < T) : ∃ fuel, (growLoop arr i T dim k fuel eps0 idx0).isSome = true :=
  growLoop_terminates arr i T dim k eps0 idx0 h0 hk

/-- … and **never** for `T ≤ k`: the compiled loop does not terminate on such a call (the public
methods must refuse `k ≥ T - tau_max`; see the defect list) -/
theorem knn_never_terminates (arr : Nat → Nat → Rat) (i T dim k fuel : Nat) (eps0 : Rat)
    (idx0 : Nat → Nat) (hk : T ≤ k) : growLoop arr i T dim k fuel eps0 idx0 = none :=
  growLoop_never arr i T dim k fuel eps0 idx0 hk

/-- the last loop: `k_z` counts the samples with `dz < epsmax`, `k_xz` / `k_yz` those that
additionally have `dx < epsmax` / `dy < epsmax` (strict, maximum metric per subspace) -/
theorem knn_counts (arr : Nat → Nat → Rat) (i dimx dimy dim : Nat) (e : Rat) (T : Nat) :
    countLoop arr i dimx dimy dim e T =
      (countTo T (fun j => decide (dzOf arr i dimx dimy dim j < e) && decide (dxOf arr i dimx j < e)),
       countTo T (fun j => decide (dzOf arr i dimx dimy dim j < e) && decide (dyOf arr i dimx dimy j < e)),
       countTo T (fun j => decide (dzOf arr i dimx dimy dim j < e))) :=
  countLoop_eq arr i dimx dimy dim e T

/-- **the whole kernel**: if the call returns, then for every sample `i` the triple
`(k_xz[i], k_yz[i], k_z[i])` is the triple of subspace counts at the `k`-th nearest-neighbour
distance of sample `i` — independent of the start width, of the number of doublings and of what
the work arrays held from the previous sample -/
theorem knn_kernel (arr : Nat → Nat → Rat) (T dim dimx dimy k fuel : Nat) (eps0 : Rat)
    (h0 : 0 < eps0) (m : Nat) (st : KnnState)
    (h : knnAll arr T dim dimx dimy k fuel eps0 m = some st) :
    st.out.length = m ∧ ∀ i, i < m → ∃ v, IsKth (jointD arr i dim) T k v ∧
      st.out[i]? = some (countLoop arr i dimx dimy dim v T) :=
  (knnAll_spec arr T dim dimx dimy k fuel eps0 h0 m st h).2

example : ((knnAll (fun d t => [[0, 1, 3, 7], [0, 2, 1, 5]].getD d [] |>.getD t (0 : Rat))
    4 2 1 1 1 8 (1 / 2) 4).map (·.out)) = some [(2, 2, 4), (2, 2, 4), (1, 3, 4), (1, 2, 4)] := by
  decide +kernel
example : sortSeq 1 (fun j => [5, 2, 7, 1, 3].getD j (0 : Rat)) 5 [99, 99] = [1, 2] := by
  decide +kernel

/-! ## pure-Python class: pair loops, `only_tri`, `_calculate_mi` -/

/-- without `only_tri` every cell `i, j < N` of a lag slice receives the value of the ordered pair -/
theorem tri_off_entry (val : Nat → Nat → Nat → Rat) (N tauMax t i j : Nat) (hi : i < N) (hj : j < N) :
    triAll val false N tauMax t i j = val t i j := by
  unfold triAll
  simp only [Bool.false_eq_true, if_false, pairMat_apply, if_pos (And.intro hi hj)]

/-- **`only_tri`, mode `'all'`**: the upper triangle holds the computed pair, the lower triangle the
same pair at the **reversed lag index** `2 tau_max - t`, the diagonal is never computed (`0`) -/
theorem tri_all_entry (val : Nat → Nat → Nat → Rat) (N tauMax t i j : Nat) (hij : i < j) (hj : j < N) :
    triAll val true N tauMax t i j = val t i j ∧
      triAll val true N tauMax t j i = val (2 * tauMax - t) i j ∧
      triAll val true N tauMax t i i = 0 := by
  unfold triAll
  simp only [if_true, pairMat_apply]
  refine ⟨?_, ?_, ?_⟩
  · rw [if_pos ⟨hij, hj⟩, if_neg (fun h => by omega)]; ring
  · rw [if_neg (fun h => by omega), if_pos ⟨hij, hj⟩]; ring
  · simp

/-- **`only_tri`, mode `'sum'`**: `corrmat[0][i,j] = s₀(i,j)`, `corrmat[0][j,i] = s₁(i,j)`,
`corrmat[1]` is the transpose of `corrmat[0]` -/
theorem tri_sum_entry (v0 v1 : Nat → Nat → Rat) (N i j : Nat) (hij : i < j) (hj : j < N) :
    (triSum v0 v1 true N).1 i j = v0 i j ∧ (triSum v0 v1 true N).1 j i = v1 i j ∧
      (triSum v0 v1 true N).2 i j = v1 i j ∧ (triSum v0 v1 true N).2 j i = v0 i j := by
  unfold triSum
  simp only [if_true, pairMat_apply]
  refine ⟨?_, ?_, ?_, ?_⟩
  · rw [if_pos ⟨hij, hj⟩, if_neg (fun h => by omega)]; ring
  · rw [if_neg (fun h => by omega), if_pos ⟨hij, hj⟩]; ring
  · rw [if_neg (fun h => by omega), if_pos ⟨hij, hj⟩]; ring
  · rw [if_pos ⟨hij, hj⟩, if_neg (fun h => by omega)]; ring

/-- **`only_tri`, mode `'max'`**: the value matrix is symmetric, the lag matrix antisymmetric -/
theorem tri_max_entry (v0 v1 : Nat → Nat → Rat) (N i j : Nat) (hij : i < j) (hj : j < N) :
    (triMax v0 v1 true N).1 i j = v0 i j ∧ (triMax v0 v1 true N).1 j i = v0 i j ∧
      (triMax v0 v1 true N).2 i j = v1 i j ∧ (triMax v0 v1 true N).2 j i = -v1 i j := by
  unfold triMax
  simp only [if_true, pairMat_apply]
  refine ⟨?_, ?_, ?_, ?_⟩
  · rw [if_pos ⟨hij, hj⟩, if_neg (fun h => by omega)]; ring
  · rw [if_neg (fun h => by omega), if_pos ⟨hij, hj⟩]; ring
  · rw [if_pos ⟨hij, hj⟩, if_neg (fun h => by omega)]; ring
  · rw [if_neg (fun h => by omega), if_pos ⟨hij, hj⟩]; ring

example : (List.range 3).map (fun i => (List.range 3).map (triAll (fun t i j => t * 100 + i * 10 + j) true 3 1 0 i))
    = [[0, 1, 2], [201, 0, 12], [202, 212, 0]] := by decide +kernel

/-- **`_calculate_mi`**: after the walk, cell `[a, b]` of `hist2D` is the number of samples `k` with
symbol `a` in the reference window (`tau_max`) of series `i` and symbol `b` in window `t` of
series `j` … -/
theorem pure_mi_hist_counts (S : Nat → Nat → Nat → Nat) (tauMax cr bins i j t a b : Nat)
    (hb : b < bins) (hS : ∀ k, S t j k < bins) :
    pureMiHist S tauMax cr bins i j t (fun _ => 0) (a * bins + b) =
      countTo cr (fun k => decide (S tauMax i k = a) && decide (S t j k = b)) :=
  pureMiHist_counts S tauMax cr bins i j t a b hb hS

/-- … and the entropy loop leaves the shared histogram empty, so every `(i, j, t)` starts from `0` -/
theorem pure_mi_hist_clean (S : Nat → Nat → Nat → Nat) (tauMax cr bins i j t : Nat)
    (hS : ∀ t i k, S t i k < bins) (c : Nat) :
    pureMiReset bins (pureMiHist S tauMax cr bins i j t (fun _ => 0)) c = 0 :=
  pureMiReset_clean S tauMax cr bins i j t hS c

/-- **`_calculate_mi`, mode `'max'`**: the summary is the first window with the largest *positive*
estimate and its **signed** lag `t - tau_max`; `(0, 0)` if no estimate is positive (unlike
`_calculate_cc`, whose default lag is `-tau_max`) -/
theorem pure_mi_max_entry (c : Nat → Rat) (tauMax n : Nat) :
    pureMiMaxScan c tauMax n =
      ((maxScan c n).1, if 0 < (maxScan c n).1 then ((maxScan c n).2 : Int) - (tauMax : Int) else 0) :=
  (pureMiMaxScan_eq c tauMax n).1

example : pureMiMaxScan (fun t => [1, 3, 3, 2, 0].getD t 0) 2 5 = (3, -1) := by decide +kernel
example : pureMiMaxScan (fun t => [0, -1, 0].getD t 0) 1 3 = (0, 0) := by decide +kernel

/-! ## surrogate matrices of the pure-Python class: invariants for every draw stream -/

/-- **the order of the drawn sample times does not matter**: re-ordering the draw `perm` by any
permutation `σ` of the sample positions leaves every entry of `time_surrogate_for_cc` unchanged -/
theorem time_surrogate_order_free (x : Nat → Nat → Rat) (perm σ : Nat → Nat) (sr tauMax t i j : Nat)
    (hσ : PermOn σ sr) :
    timeSurrSq x (fun s => perm (σ s)) sr tauMax t i j = timeSurrSq x perm sr tauMax t i j := by
  unfold timeSurrSq
  exact pearsonSq_perm sr (fun s => x i (perm s)) (fun s => x j (perm s + t - tauMax)) σ hσ

/-- **a full sample reproduces the estimate**: when the draw covers all of
`range(tau_max, T - tau_max)` (`sample_range ≥ T - 2 tau_max`), `time_surrogate_for_cc` equals
`cross_correlation` of the same object entry by entry, for every draw -/
theorem time_surrogate_full (x : Nat → Nat → Rat) (π : Nat → Nat) (T tauMax t i j : Nat)
    (hπ : PermOn π (T - 2 * tauMax)) :
    timeSurrSq x (fun s => tauMax + π s) (T - 2 * tauMax) tauMax t i j = pureXcorrSq x T tauMax t i j := by
  unfold timeSurrSq pureXcorrSq
  rw [← pearsonSq_perm (T - 2 * tauMax) (fun k => x i (tauMax + k)) (fun k => x j (t + k)) π hπ]
  apply pearsonSq_congr
  · intro k _; rfl
  · intro k _
    have : tauMax + π k + t - tauMax = t + π k := by omega
    simp only [this]

/-- `shuffled_surrogate_for_cc(lag_mode='all')`: the `2 tau_max + 1` slices are one and the same
matrix; it is symmetric and bounded for every shuffle … -/
theorem shuffled_surrogate_entry (x : Nat → Nat → Rat) (sh : Nat → Nat → Nat) (cr t t' i j : Nat) :
    shufSurrSq x sh cr t i j = shufSurrSq x sh cr t' i j ∧
      shufSurrSq x sh cr t i j = shufSurrSq x sh cr t j i ∧
      -1 ≤ shufSurrSq x sh cr t i j ∧ shufSurrSq x sh cr t i j ≤ 1 :=
  ⟨rfl, pearson_symm _ _ _, pearson_bounded _ _ _⟩

/-- … and when the whole series is used (`tau_max = 0`) a shuffle keeps mean and variance of every
series, so the diagonal is `1` exactly for the series that are not constant -/
theorem shuffled_surrogate_diag (x : Nat → Nat → Rat) (sh : Nat → Nat → Nat) (T t i : Nat)
    (hsh : PermOn (sh i) T) :
    meanTo T (fun s => x i (sh i s)) = meanTo T (x i) ∧
      covTo T (fun s => x i (sh i s)) (fun s => x i (sh i s)) = covTo T (x i) (x i) ∧
      shufSurrSq x sh T t i i = if covTo T (x i) (x i) = 0 then 0 else 1 := by
  refine ⟨meanTo_perm T (x i) (sh i) hsh, covTo_perm T (x i) (x i) (sh i) hsh, ?_⟩
  unfold shufSurrSq
  rw [pearsonSq_perm T (x i) (x i) (sh i) hsh]
  by_cases h : covTo T (x i) (x i) = 0
  · rw [if_pos h]; unfold pearsonSq; simp only [h, true_or, if_true]
  · rw [if_neg h]; exact pearson_self T (x i) h

example : PermOn (fun s => [2, 0, 3, 1].getD s 0) 4 := by
  constructor
  · intro s hs
    have : s = 0 ∨ s = 1 ∨ s = 2 ∨ s = 3 := by omega
    rcases this with rfl | rfl | rfl | rfl <;> decide
  · intro s s' hs hs'
    have h1 : s = 0 ∨ s = 1 ∨ s = 2 ∨ s = 3 := by omega
    have h2 : s' = 0 ∨ s' = 1 ∨ s' = 2 ∨ s' = 3 := by omega
    rcases h1 with rfl | rfl | rfl | rfl <;> rcases h2 with rfl | rfl | rfl | rfl <;> decide

/-! ## `|partial correlation| ≤ 1` (Gaussian information transfer / MI) -/

/-- the recursion `pcovG` on the Gram matrix of the rows computes the inner products of the
**residual vectors** `x -= Q Qᵀ x` (confounds projected out one after the other) -/
theorem pcov_is_residual_product (n : Nat) (r : Nat → Nat → Rat) (zs : List Nat) (a b : Nat) :
    pcovG (fun a b => dotTo n (r a) (r b)) zs a b = dotTo n (resid n r zs a) (resid n r zs b) :=
  pcovG_eq_resid n r zs a b

/-- **bounded**: for every data set, every list of confounds (linearly independent or not) and
every pair, the partial correlation of the Gaussian estimators lies in `[-1, 1]` (as a signed
square) — Cauchy–Schwarz on the residual vectors; `G` is the Gram matrix of the centred rows,
as in `itSq` -/
theorem parCorr_bounded (n : Nat) (r : Nat → Nat → Rat) (zs : List Nat) (a b : Nat) :
    -1 ≤ parCorrSqG (fun a b => covTo n (r a) (r b)) zs a b ∧
      parCorrSqG (fun a b => covTo n (r a) (r b)) zs a b ≤ 1 :=
  parCorrSqG_bounded n (fun a k => r a k - meanTo n (r a)) zs a b

example : parCorrSqG (fun a b => covTo 4 (fun k => [[1, 2, 4, 3], [2, 1, 3, 5], [0, 1, 0, 2]].getD a [] |>.getD k (0 : Rat))
    (fun k => [[1, 2, 4, 3], [2, 1, 3, 5], [0, 1, 0, 2]].getD b [] |>.getD k (0 : Rat))) [2] 0 1 = 11 / 36 := by
  decide +kernel

/-! ## round 3: index arithmetic of the pure-Python class regenerated from the source -/

open Pyunicorn.Generated.ArithC10 in
/-- **pair loops**: `range(N - only_tri)` rows and `range((i+1)*only_tri, N)` columns of the source
(both in `_calculate_cc` and `_calculate_mi`) are the bounds the model's `pairMat` / `pairRow` use:
with `only_tri = 1` the strict upper triangle, with `only_tri = 0` every pair -/
theorem arith_pair_loops (N i ot : Nat) :
    pairRows (N : Int) (ot : Int) = (N : Int) - (ot : Int) ∧
      pairColLo (i : Int) (ot : Int) = (((i + 1) * ot : Nat) : Int) ∧
      pairRowsMi (N : Int) (ot : Int) = pairRows (N : Int) (ot : Int) ∧
      pairColLoMi (i : Int) (ot : Int) = pairColLo (i : Int) (ot : Int) ∧
      (pairColLo (i : Int) 1 ≤ (N : Int) - 1 ↔ i + 1 < N) ∧ pairColLo (i : Int) 0 = 0 := by
  unfold pairRows pairColLo pairRowsMi pairColLoMi
  refine ⟨rfl, by push_cast; ring, rfl, rfl, by omega, by ring⟩

open Pyunicorn.Generated.ArithC10 in
/-- **time surrogate**: the column picked for slice `t` and drawn time `p ≥ tau_max` is
`p + (t - tau_max)` — the model's `perm s + t - tauMax` — and lies inside the data for
`p < total_time - tau_max`, `t ≤ 2 tau_max`; the shuffled surrogate uses the window length of
`cross_correlation` (`pureRange`); `_calculate_mi` reports the signed lag `t - tau_max` -/
theorem arith_time_surrogate (T tauMax t p : Nat) (hp : tauMax ≤ p) (hpT : p + tauMax < T)
    (ht : t ≤ 2 * tauMax) :
    tsurrIdx (p : Int) (tsurrTau (t : Int) (tauMax : Int)) = ((p + t - tauMax : Nat) : Int) ∧
      0 ≤ tsurrIdx (p : Int) (tsurrTau (t : Int) (tauMax : Int)) ∧
      tsurrIdx (p : Int) (tsurrTau (t : Int) (tauMax : Int)) < (T : Int) ∧
      ssurrRange (T : Int) (tauMax : Int) = pureRange (T : Int) (tauMax : Int) ∧
      pureMiTau (t : Int) (tauMax : Int) = (t : Int) - (tauMax : Int) := by
  unfold tsurrIdx tsurrTau ssurrRange pureRange pureMiTau
  refine ⟨by omega, by omega, by omega, rfl, rfl⟩

/-! ## round 4 -/

/-! ### the Schur-complement identity: `PartialCorrelationClimateNetwork` computes partial correlations -/

/-- **the block of the inverse is the inverse of the Schur complement**: for every symmetric `C`
with right inverse `P` on the indices `< N` and every list of distinct confounds with regular
pivots, `P` restricted to the remaining indices is a right inverse of the matrix of partial
covariances `pcovG C zs` there -/
theorem schur_complement_inverse (N : Nat) (P C : Nat → Nat → Rat) (hC : ∀ a b, C a b = C b a)
    (hinv : isInverse C P N = true) (zs : List Nat) (hnd : zs.Nodup) (hlt : ∀ z ∈ zs, z < N)
    (hp : Pivots C zs) (a b : Nat) (ha : a < N) (hb : b < N) (haz : a ∉ zs) (hbz : b ∉ zs) :
    sumTo N (fun k => if k ∈ zs then 0 else pcovG C zs a k * P k b) = if a = b then 1 else 0 :=
  schur_inv N P C hC ((isInverse_iff C P N).mp hinv) zs hnd hlt hp a b ha hb haz hbz

/-- a covariance (Gram) matrix that has an inverse has **no vanishing pivot**, whatever the order in
which the confounds are eliminated: the hypothesis `Pivots` is not needed for it -/
theorem cov_pivots_regular (n N : Nat) (r : Nat → Nat → Rat) (P : Nat → Nat → Rat)
    (hinv : isInverse (fun a b => covTo n (r a) (r b)) P N = true) (zs : List Nat) (hnd : zs.Nodup)
    (hlt : ∀ z ∈ zs, z < N) : Pivots (fun a b => covTo n (r a) (r b)) zs :=
  gram_pivots n N (fun a k => r a k - meanTo n (r a)) P
    ((isInverse_iff _ P N).mp hinv) zs hnd hlt

/-- **Schur-complement identity, every `N`**: for every data set whose covariance matrix `C` has the
(right) inverse `P` — `C · P = I` on the `N` series — entry `(i, j)`, `i ≠ j`, of
`- P / sqrt(|outer(diag P, diag P)|)` **is** the partial correlation of series `i` and `j` given all
other series (residual correlation after projecting out the others), as signed squares.  No
regularity hypothesis: the pivots are non-zero because the inverse exists. -/
theorem normInv_is_partial_correlation (n N : Nat) (r : Nat → Nat → Rat) (P : Nat → Nat → Rat)
    (hinv : isInverse (fun a b => covTo n (r a) (r b)) P N = true) (i j : Nat) (hi : i < N)
    (hj : j < N) (hij : i ≠ j) :
    normInvSq P i j = parCorrSqG (fun a b => covTo n (r a) (r b)) (othersOf N i j) i j :=
  normInv_eq_parCorr_gram n N (fun a k => r a k - meanTo n (r a)) P hinv i j hi hj hij

/-- hence the matrix the class returns is bounded off the diagonal -/
theorem normInv_bounded (n N : Nat) (r : Nat → Nat → Rat) (P : Nat → Nat → Rat)
    (hinv : isInverse (fun a b => covTo n (r a) (r b)) P N = true) (i j : Nat) (hi : i < N)
    (hj : j < N) (hij : i ≠ j) : -1 ≤ normInvSq P i j ∧ normInvSq P i j ≤ 1 := by
  rw [normInv_is_partial_correlation n N r P hinv i j hi hj hij]
  exact parCorr_bounded n r _ i j

/-- … and symmetric, without assuming that `P` is -/
theorem normInv_symm_of_inverse (n N : Nat) (r : Nat → Nat → Rat) (P : Nat → Nat → Rat)
    (hinv : isInverse (fun a b => covTo n (r a) (r b)) P N = true) (i j : Nat) (hi : i < N)
    (hj : j < N) (hij : i ≠ j) : normInvSq P i j = normInvSq P j i := by
  rw [normInv_is_partial_correlation n N r P hinv i j hi hj hij,
    normInv_is_partial_correlation n N r P hinv j i hj hi (Ne.symm hij),
    parCorr_symm _ (cov_gram_symm n r)]
  have : othersOf N j i = othersOf N i j := by
    unfold othersOf; congr 1; funext k; exact Bool.and_comm _ _
  rw [this]

example : othersOf 5 1 3 = [0, 2, 4] := by decide

/-! ### `gjInverse` (the model of `numpy.linalg.inv`) is correct -/

/-- **Gauss–Jordan elimination returns an inverse**: for every matrix `C` and every `N`, if
`gjInverse C N` returns `P` then `P · C = I` on the indices `< N` (pivot search, row swap,
scaling and elimination of the list code, column by column) -/
theorem gjInverse_correct (C : Nat → Nat → Rat) (N : Nat) (P : Nat → Nat → Rat)
    (h : gjInverse C N = some P) (i j : Nat) (hi : i < N) (hj : j < N) :
    sumTo N (fun l => P i l * C l j) = if i = j then 1 else 0 :=
  gjInverse_left C N P h i j hi hj

/-- for a symmetric `C` the certificate `C · Pᵀ = I` that the driver evaluates per case holds for
every input -/
theorem gjInverse_certificate (C : Nat → Nat → Rat) (hC : ∀ a b, C a b = C b a) (N : Nat)
    (P : Nat → Nat → Rat) (h : gjInverse C N = some P) : isInverse C (fun a b => P b a) N = true :=
  gjInverse_isInverse C hC N P h

/-- **the executable model of `PartialCorrelationClimateNetwork` computes partial correlations**:
whenever the elimination succeeds on the covariance matrix of the data, every off-diagonal entry
of `normInvSq ∘ gjInverse` — what the correspondence compares with
`- C_inv / sqrt(|outer(diag, diag)|)` of the implementation — is the partial correlation of the two
series given all others; no per-case certificate is needed any more -/
theorem model_partial_correlation (n N : Nat) (r : Nat → Nat → Rat) (P : Nat → Nat → Rat)
    (h : gjInverse (fun a b => covTo n (r a) (r b)) N = some P) (i j : Nat) (hi : i < N)
    (hj : j < N) (hij : i ≠ j) :
    normInvSq P i j = parCorrSqG (fun a b => covTo n (r a) (r b)) (othersOf N i j) i j ∧
      -1 ≤ normInvSq P i j ∧ normInvSq P i j ≤ 1 := by
  have hcert := gjInverse_certificate _ (cov_gram_symm n r) N P h
  have h1 := normInv_is_partial_correlation n N r (fun a b => P b a) hcert j i hj hi (Ne.symm hij)
  have e : normInvSq (fun a b => P b a) j i = normInvSq P i j := by
    unfold normInvSq; simp only [mul_comm (P j j) (P i i)]
  have e2 : othersOf N j i = othersOf N i j := by
    unfold othersOf; congr 1; funext k; exact Bool.and_comm _ _
  rw [e, e2, parCorr_symm _ (cov_gram_symm n r)] at h1
  refine ⟨h1, ?_⟩
  rw [h1]
  exact parCorr_bounded n r _ i j

/-! ### the Gram table of the Gaussian estimators -/

/-- **the table lookup is the Gram matrix**: the value `itSq` reads through `itGramTab` / `tabFn`
(the executable model, compared with the implementation) is the partial correlation on the Gram
*function* of the centred rows -/
theorem itSq_table_is_gram (x : Nat → Nat → Rat) (T tauMax past : Nat) (mit : Bool) (i j tau : Nat) :
    itSq x T tauMax past mit i j tau = itSqFn x T tauMax past mit i j tau :=
  itSq_eq_fn x T tauMax past mit i j tau

/-- **bounded, for the table lookup itself**: every entry of the Gaussian information transfer /
mutual information model lies in `[-1, 1]` (signed square), for every data set, lag, `past`,
condition mode -/
theorem itSq_bounded (x : Nat → Nat → Rat) (T tauMax past : Nat) (mit : Bool) (i j tau : Nat) :
    -1 ≤ itSq x T tauMax past mit i j tau ∧ itSq x T tauMax past mit i j tau ≤ 1 :=
  itSq_bounded' x T tauMax past mit i j tau

/-! ### equal occupancy of the quantile bins -/

/-- **equal occupancy**: for a tie-free row of `T = m · bins` samples `_quantile_bin_array` gives
every symbol `0 … bins-1` to exactly `m` samples and no other symbol to any — the marginal
entropies of `mutual_information(estimator='binning')` are then `log bins` exactly -/
theorem qbin_equal_occupancy (row : List Rat) (bins m : Nat) (hb : 1 ≤ bins) (hm : 1 ≤ m)
    (hT : row.length = m * bins) (hnd : row.Nodup) (a : Int) :
    qbinOccupancy row bins a = if 0 ≤ a ∧ a < (bins : Int) then m else 0 :=
  qbinOccupancy_eq row bins m hb hm hT hnd a

example : qbinOccupancy [5, 1, 4, 2, 3, 0] 3 1 = 2 := by decide +kernel
example : qbinOccupancy [5, 1, 4, 2, 3, 0] 3 3 = 0 := by decide +kernel
/-- with ties the occupancy is not equal (why `Nodup` is a hypothesis) -/
example : qbinOccupancy [1, 1, 1, 2, 3, 0] 3 1 = 3 := by decide +kernel

/-! ### the declared type of the lag matrices (`translate/gen_C10.py` reads it) -/

open Pyunicorn.Generated.StructC10 in
/-- **one type at every site**: `LAG` of `types.py` and `LAG_t` of `types.pxd` are the same signed
width, and every buffer declaration, allocation, cast and conversion of a lag matrix in `funcnet`
uses `LAG` / `LAG_t` -/
theorem lag_dtype_declared :
    lagBitsPy = lagBitsC ∧ lagSignedPy = true ∧ lagSignedC = true ∧ 1 ≤ lagBitsC ∧
      (∀ s ∈ lagSites, s.2 = "LAG" ∨ s.2 = "LAG_t") ∧ lagSites.length = 7 := by decide

open Pyunicorn.Generated.StructC10 in
/-- the model's `wrap8` **is** the store into a cell of the declared type -/
theorem lag_store_is_declared (z : Int) : wrap8 z = wrapBits lagBitsC z := rfl

open Pyunicorn.Generated.StructC10 in
/-- the lag entry of `_cross_correlation_max` is the source's expression stored in the declared type,
and the mirrored lag of `_symmetrize_by_absmax` is the source's `-lag_matrix[I, J]` stored likewise -/
theorem lag_store_expr (A : Nat → Nat → Nat → Rat) (tauMax cr i j : Nat) (hij : i ≠ j) (l : Int) :
    (ccMaxEntry A tauMax cr i j).2 = wrapBits lagBitsC
      (lagStoreExpr tauMax (absmaxScan (crossAt A tauMax cr i j) (tauMax + 1)).2) ∧
      wrap8 (-l) = wrapBits lagBitsC (symLagExpr l) := by
  unfold ccMaxEntry
  rw [if_neg hij]
  exact ⟨rfl, rfl⟩

open Pyunicorn.Generated.StructC10 in
/-- **exact iff in range**: all lags `0 … tau_max` survive the store into the declared type iff
`tau_max ≤ 2^(bits-1) - 1` — with the declared `int8`, iff `tau_max ≤ 127` -/
theorem lag_store_exact_iff (tauMax : Nat) :
    (∀ lag : Nat, lag ≤ tauMax → wrapBits lagBitsC (lag : Int) = (lag : Int)) ↔ tauMax ≤ 127 := by
  constructor
  · intro h
    have := (wrapBits_eq_iff lagBitsC (by decide) (tauMax : Int)).mp (h tauMax (Nat.le_refl _))
    have e : (2 : Int) ^ (lagBitsC - 1) = 128 := by decide
    rw [e] at this
    omega
  · intro h lag hl
    apply (wrapBits_eq_iff lagBitsC (by decide) (lag : Int)).mpr
    have e : (2 : Int) ^ (lagBitsC - 1) = 128 := by decide
    rw [e]
    omega

open Pyunicorn.Generated.StructC10 in
/-- **what is read back beyond the range**: a lag `128 … 255` comes back as `lag - 256` (the known
finding `C10-lag-int8`, for every such lag, not just the observed `150 → -106`); whatever is
stored, the cell holds a value in `[-128, 127]` -/
theorem lag_store_wraps (lag : Nat) (h1 : 128 ≤ lag) (h2 : lag ≤ 255) (z : Int) :
    wrapBits lagBitsC (lag : Int) = (lag : Int) - 256 ∧
      -128 ≤ wrapBits lagBitsC z ∧ wrapBits lagBitsC z ≤ 127 := by
  have e : (2 : Int) ^ (lagBitsC - 1) = 128 := by decide
  have e2 : (2 : Int) ^ lagBitsC = 256 := by decide
  have hw := wrapBits_above lagBitsC (by decide) (lag : Int) (by rw [e]; omega) (by rw [e]; omega)
  have hr := wrapBits_range lagBitsC (by decide) z
  rw [e2] at hw
  rw [e] at hr
  exact ⟨hw, hr.1, by omega⟩

example : wrapBits 8 150 = -106 := by decide
example : wrapBits 16 150 = 150 := by decide

/-! ## Round 5: the elimination fails for singular matrices only (completeness of `gjInverse`) -/

/-- **completeness of the pivot search**: for every matrix `C` and every `N`, `gjInverse C N`
returns `none` **iff** `C` has a non-zero kernel vector on the indices `< N`.  (Row operations
are reversible, so the left half of the augmented matrix keeps the kernel of `C`; when no pivot
is found in column `c`, that column is a combination of the unit columns before it.)  Together
with `gjInverse_correct`: the model of `numpy.linalg.inv` returns a matrix exactly for the
regular matrices, and then the inverse. -/
theorem gjInverse_complete (C : Nat → Nat → Rat) (N : Nat) :
    gjInverse C N = none ↔
      ∃ v : Nat → Rat, (∃ l, l < N ∧ v l ≠ 0) ∧ ∀ k, k < N → sumTo N (fun l => C k l * v l) = 0 :=
  gjInverse_none_iff C N

/-- the same as an existence statement: the elimination succeeds iff `C` has a left inverse at
all -/
theorem gjInverse_succeeds_iff (C : Nat → Nat → Rat) (N : Nat) :
    (gjInverse C N).isSome ↔
      ∃ P : Nat → Nat → Rat, ∀ i j, i < N → j < N →
        sumTo N (fun l => P i l * C l j) = if i = j then 1 else 0 := by
  constructor
  · intro h
    obtain ⟨P, hP⟩ := Option.isSome_iff_exists.mp h
    exact ⟨P, fun i j hi hj => gjInverse_correct C N P hP i j hi hj⟩
  · intro ⟨P, hP⟩
    cases h : gjInverse C N with
    | some _ => rfl
    | none =>
      obtain ⟨v, ⟨l, hl, hne⟩, hk⟩ := (gjInverse_complete C N).mp h
      exact absurd (left_inverse_kernel C P N hP v hk l hl) hne

/-- **the witness the driver prints** (`gjKernel`, executable): if it returns `(c, w)` then the
elimination got through the columns `< c` and found no pivot in column `c`; `w` has `N` entries,
`w_c = -1`, `w_l = 0` beyond `c`, and `C · w = 0` — the harness checks exactly this on the
covariance matrix the implementation is run on -/
theorem gjKernel_witness (C : Nat → Nat → Rat) (N c : Nat) (w : List Rat)
    (h : gjKernel C N = some (c, w)) :
    c < N ∧ w.length = N ∧ w.getD c 0 = -1 ∧ (∀ l, c < l → l < N → w.getD l 0 = 0) ∧
      (∃ M, gjLoop N c (gjAug C N) = some M ∧ gjStep M c = none) ∧
      ∀ k, k < N → sumTo N (fun l => C k l * w.getD l 0) = 0 :=
  gjKernel_spec C N c w h

/-- **the failing column is the first dependent one**: the columns before `c` are linearly
independent — a kernel vector of `C` that vanishes from column `c` on is zero.  With
`gjKernel_witness` (`w_c = -1`, `w_l = 0` beyond `c`): `c` is the least column that is a
combination of its predecessors, which the harness recomputes with an independent rank routine -/
theorem gjKernel_first_dependent (C : Nat → Nat → Rat) (N c : Nat) (w : List Rat)
    (h : gjKernel C N = some (c, w)) (v : Nat → Rat) (hsup : ∀ l, c ≤ l → v l = 0)
    (hk : ∀ k, k < N → sumTo N (fun l => C k l * v l) = 0) : ∀ l, v l = 0 :=
  gjKernel_first C N c w h v hsup hk

/-- exactly one of the two happens: a kernel vector or an inverse -/
theorem gjKernel_dichotomy (C : Nat → Nat → Rat) (N : Nat) :
    gjKernel C N = none ↔ (gjInverse C N).isSome :=
  gjKernel_none_iff C N

example : gjKernel (fun a b => ([[1, 2, 3], [2, 4, 6], [1, 0, 1]].getD a []).getD b (0 : Rat)) 3 =
    some (2, [1, 1, -1]) := by decide +kernel
example : gjKernel (fun a b => ([[2, 1], [1, 2]].getD a []).getD b (0 : Rat)) 2 = none := by
  decide +kernel
/-- a zero on the diagonal is not a failure (row swap) -/
example : gjKernel (fun a b => ([[0, 1], [1, 0]].getD a []).getD b (0 : Rat)) 2 = none := by
  decide +kernel

/-- **when the partial-correlation model has no value**: on the covariance matrix of the series
`r_a` (`n` samples) the elimination fails **iff** the series are exactly collinear — some
non-trivial combination `Σ_a v_a (r_a(t) - mean_a)` vanishes at every sample.  This is the case
for which `_calculate_correlation` has its `det(C) == 0` / `pinv` branch; for every other data set
the model returns the partial correlations (`model_partial_correlation_total`). -/
theorem partial_correlation_fails_iff_collinear (n N : Nat) (r : Nat → Nat → Rat) :
    gjInverse (fun a b => covTo n (r a) (r b)) N = none ↔
      ∃ v : Nat → Rat, (∃ l, l < N ∧ v l ≠ 0) ∧ ∀ t, t < n → combCentred r n N v t = 0 := by
  rw [gjInverse_complete]
  constructor
  · intro ⟨v, hne, hk⟩
    exact ⟨v, hne, gram_kernel_collinear r n N v hk⟩
  · intro ⟨v, hne, hc⟩
    exact ⟨v, hne, collinear_gram_kernel r n N v hc⟩

example : combCentred (fun a t => ([[1, 2, 4], [2, 4, 8]].getD a []).getD t 0) 3 2
    (fun l => [2, -1].getD l 0) 1 = 0 := by decide +kernel

/-- **total form of `model_partial_correlation`**: for every data set whose series are not
exactly collinear the executable model `normInvSq ∘ gjInverse` *has* a value, and every
off-diagonal entry is the partial correlation of the two series given all others, in `[-1, 1]` -/
theorem model_partial_correlation_total (n N : Nat) (r : Nat → Nat → Rat)
    (hreg : ∀ v : Nat → Rat, (∀ t, t < n → combCentred r n N v t = 0) → ∀ l, l < N → v l = 0) :
    ∃ P, gjInverse (fun a b => covTo n (r a) (r b)) N = some P ∧
      ∀ i j, i < N → j < N → i ≠ j →
        normInvSq P i j = parCorrSqG (fun a b => covTo n (r a) (r b)) (othersOf N i j) i j ∧
          -1 ≤ normInvSq P i j ∧ normInvSq P i j ≤ 1 := by
  cases h : gjInverse (fun a b => covTo n (r a) (r b)) N with
  | none =>
    obtain ⟨v, ⟨l, hl, hne⟩, hc⟩ := (partial_correlation_fails_iff_collinear n N r).mp h
    exact absurd (hreg v hc l hl) hne
  | some P =>
    exact ⟨P, rfl, fun i j hi hj hij => model_partial_correlation n N r P h i j hi hj hij⟩

/-! ## Round 5: occupancy of the quantile bins for every row length -/

/-- **occupancy, any `T`** (closes "equal occupancy for `bins ∤ T`: no closed form stated"): for a
tie-free row of `T ≥ 1` samples and `step = ceil(T / bins)` (the `bin_edge` of the source),
`_quantile_bin_array` gives the symbol `a ≥ 0` to exactly `min step (T - step·a)` samples
(truncated subtraction): `step` samples in every full bin, the remaining `T - step·a` in the last,
short bin, none beyond; no sample gets a negative symbol.  `qbin_equal_occupancy` is the case
`bins | T`. -/
theorem qbin_occupancy_any_length (row : List Rat) (bins : Nat) (hnd : row.Nodup)
    (hT : 1 ≤ row.length) (hb : 1 ≤ bins) (a : Int) :
    qbinOccupancy row bins a =
      if 0 ≤ a then min (binEdge row.length bins) (row.length - binEdge row.length bins * a.toNat)
      else 0 :=
  qbinOccupancy_general row bins hnd hT hb a

/-- which symbols occur at all: exactly `0 … ceil(T / step) - 1` -/
theorem qbin_symbol_used_iff (row : List Rat) (bins : Nat) (hnd : row.Nodup)
    (hT : 1 ≤ row.length) (hb : 1 ≤ bins) (a : Int) :
    0 < qbinOccupancy row bins a ↔ 0 ≤ a ∧ binEdge row.length bins * a.toNat < row.length := by
  rw [qbin_occupancy_any_length row bins hnd hT hb a]
  have hstep : 1 ≤ binEdge row.length bins := by
    unfold binEdge
    exact (Nat.one_le_div_iff (by omega)).mpr (by omega)
  by_cases ha : 0 ≤ a
  · rw [if_pos ha]
    constructor
    · intro h; exact ⟨ha, by omega⟩
    · intro ⟨_, h⟩; omega
  · rw [if_neg ha]
    constructor
    · intro h; omega
    · intro ⟨h, _⟩; exact absurd h ha

/-- `T = 7`, `bins = 3`: `step = 3`, occupancies `3, 3, 1` -/
example : (List.range 5).map (fun a => qbinOccupancy [5, 1, 4, 2, 3, 7, 6] 3 (Int.ofNat a - 1)) =
    [0, 3, 3, 1, 0] := by decide +kernel
/-- `T = 5`, `bins = 4`: `step = 2`, only three symbols are used: `2, 2, 1` -/
example : (List.range 5).map (fun a => qbinOccupancy [5, 1, 4, 2, 3] 4 (Int.ofNat a)) =
    [2, 2, 1, 0, 0] := by decide +kernel

/-- the hypothesis of `model_partial_correlation_total` is satisfiable: these two series are not
collinear (the elimination succeeds on their covariance matrix) -/
example : ∀ v : Nat → Rat,
    (∀ t, t < 3 → combCentred (fun a t => ([[1, 2, 4], [1, 0, 1]].getD a []).getD t 0) 3 2 v t = 0) →
      ∀ l, l < 2 → v l = 0 := by
  intro v hv l hl
  by_contra hne
  have hnone := (partial_correlation_fails_iff_collinear 3 2 _).mpr ⟨v, ⟨l, hl, hne⟩, hv⟩
  have hk : gjKernel (fun a b => covTo 3
      ((fun a t => ([[1, 2, 4], [1, 0, 1]].getD a []).getD t (0 : Rat)) a)
      ((fun a t => ([[1, 2, 4], [1, 0, 1]].getD a []).getD t (0 : Rat)) b)) 2 = none := by
    decide +kernel
  have := (gjKernel_dichotomy _ 2).mp hk
  rw [hnone] at this
  cases this

/-! ## Round 5: the result of the elimination is a two-sided inverse -/

/-- **two-sided** (closes "`gjInverse_correct` is the left inverse only"): for every matrix `C`,
symmetric or not, whatever `gjInverse` returns satisfies `C · P = I` as well as `P · C = I` on the
indices `< N` — the hypothesis `C · P = I` of `normInv_is_partial_correlation` /
`schur_complement_inverse` is met by the model's own output without the symmetry detour -/
theorem gjInverse_two_sided (C : Nat → Nat → Rat) (N : Nat) (P : Nat → Nat → Rat)
    (h : gjInverse C N = some P) (i j : Nat) (hi : i < N) (hj : j < N) :
    sumTo N (fun l => P i l * C l j) = (if i = j then 1 else 0) ∧
      sumTo N (fun l => C i l * P l j) = (if i = j then 1 else 0) :=
  ⟨gjInverse_correct C N P h i j hi hj,
   left_inverse_is_right C P N (fun a b ha hb => gjInverse_correct C N P h a b ha hb) i j hi hj⟩

/-- the inverse is unique: any left inverse of `C` on the indices `< N` is what the elimination
returns (entry by entry) -/
theorem gjInverse_unique (C : Nat → Nat → Rat) (N : Nat) (P Q : Nat → Nat → Rat)
    (h : gjInverse C N = some P)
    (hQ : ∀ i j, i < N → j < N → sumTo N (fun l => Q i l * C l j) = if i = j then 1 else 0)
    (i j : Nat) (hi : i < N) (hj : j < N) : Q i j = P i j := by
  -- (Q - P) · C = 0 and C · P = I: the kernel lemma for the transposed system
  have key := left_inverse_kernel (fun a b => C b a) (fun a b => P b a) N
    (fun a b ha hb => by
      have := (gjInverse_two_sided C N P h b a hb ha).2
      rw [sumTo_congr (g := fun l => C b l * P l a) (fun l _ => by ring), this]
      by_cases e : a = b
      · rw [if_pos e, if_pos e.symm]
      · rw [if_neg e, if_neg (fun x => e x.symm)])
    (fun l => Q i l - P i l)
    (fun m hm => by
      rw [sumTo_congr (g := fun l => (Q i l - P i l) * C l m) (fun l _ => by ring)]
      have e : (fun l => (Q i l - P i l) * C l m) = fun l => (Q i l - 1 * P i l) * C l m := by
        funext l; ring
      rw [e, sumTo_lin, hQ i m hi hm, gjInverse_correct C N P h i m hi hm]; ring)
  have := key j hj
  exact sub_eq_zero.mp this

/-! ## Round 5: the expression `_calculate_correlation` returns (`translate/gen_C10.py` reads it) -/

open Pyunicorn.Generated.StructC10 in
/-- **the model's normalisation is the source's**: `pcorrNumer` / `pcorrDenomSq` are generated on
every run by evaluating `return - C_inv / norm`, `norm = np.sqrt(abs(np.outer(diag, diag)))`,
`diag = C_inv.diagonal()[:]` of the working tree entry by entry; `normInvSq` is the signed square
of that quotient.  Another sign, another mean of the diagonal entries, a dropped `abs` or another
matrix in the numerator changes the generated definitions and breaks this proof. -/
theorem normInv_is_source_expression (P : Nat → Nat → Rat) (i j : Nat) :
    normInvSq P i j =
      if pcorrDenomSq P i j = 0 then 0
      else sgn (pcorrNumer P i j) * (pcorrNumer P i j * pcorrNumer P i j) / pcorrDenomSq P i j := by
  unfold normInvSq pcorrDenomSq pcorrNumer qabs rabs
  simp only [neg_mul_neg]

open Pyunicorn.Generated.StructC10 in
/-- the matrix handed to the inverse is the correlation (or covariance — `normInv_scale_invariant`:
same result) matrix of the anomalies, `numpy.linalg.inv` runs exactly under the guard
`det(C) != 0.0`, `pinv` otherwise -/
theorem pcorr_source_branches :
    (pcorrMatrixFn = "corrcoef" ∨ pcorrMatrixFn = "cov") ∧ pcorrGuard = "np.linalg.det(C) != 0.0" ∧
      pcorrThen = "np.linalg.inv(C)" ∧ pcorrElse = "np.linalg.pinv(C)" := by decide

open Pyunicorn.Generated.StructC10 in
/-- **source expression = partial correlation**: the expression of the working tree, evaluated on
the exact inverse of the covariance matrix of the series, is the partial correlation of `i` and `j`
given all other series (signed squares), for every data set on which the elimination succeeds —
by `partial_correlation_fails_iff_collinear` every data set without exactly collinear series -/
theorem source_expression_is_partial_correlation (n N : Nat) (r : Nat → Nat → Rat)
    (P : Nat → Nat → Rat) (h : gjInverse (fun a b => covTo n (r a) (r b)) N = some P) (i j : Nat)
    (hi : i < N) (hj : j < N) (hij : i ≠ j) :
    (if pcorrDenomSq P i j = 0 then 0
      else sgn (pcorrNumer P i j) * (pcorrNumer P i j * pcorrNumer P i j) / pcorrDenomSq P i j) =
      parCorrSqG (fun a b => covTo n (r a) (r b)) (othersOf N i j) i j := by
  rw [← normInv_is_source_expression]
  exact (model_partial_correlation n N r P h i j hi hj hij).1

/-! ## Round 5: reordering the series permutes the partial-correlation matrix -/

/-- the inverse of a relabelled matrix is the relabelled inverse, and the elimination succeeds on
it (whatever pivots it meets on the way): uniqueness of the inverse -/
theorem gjInverse_relabel (C : Nat → Nat → Rat) (N : Nat) (π : Nat → Nat) (hπ : PermOn π N)
    (P : Nat → Nat → Rat) (h : gjInverse C N = some P) :
    ∃ P', gjInverse (fun a b => C (π a) (π b)) N = some P' ∧
      ∀ i j, i < N → j < N → P' i j = P (π i) (π j) := by
  have hQ : ∀ i j, i < N → j < N →
      sumTo N (fun l => (fun a b => P (π a) (π b)) i l * (fun a b => C (π a) (π b)) l j) =
        if i = j then 1 else 0 := by
    intro i j hi hj
    show sumTo N (fun l => P (π i) (π l) * C (π l) (π j)) = _
    rw [sumTo_perm N (fun m => P (π i) m * C m (π j)) π hπ,
      gjInverse_correct C N P h (π i) (π j) (hπ.1 i hi) (hπ.1 j hj)]
    by_cases e : i = j
    · subst e; simp
    · have : π i ≠ π j := fun x => e (hπ.2 i j hi hj x)
      simp [e, this]
  have hs : (gjInverse (fun a b => C (π a) (π b)) N).isSome :=
    (gjInverse_succeeds_iff _ N).mpr ⟨fun a b => P (π a) (π b), hQ⟩
  obtain ⟨P', hP'⟩ := Option.isSome_iff_exists.mp hs
  exact ⟨P', hP', fun i j hi hj =>
    (gjInverse_unique _ N P' (fun a b => P (π a) (π b)) hP' hQ i j hi hj).symm⟩

example : PermOn (fun k => [2, 0, 1].getD k k) 3 := by
  constructor
  · intro s hs
    have h1 : s = 0 ∨ s = 1 ∨ s = 2 := by omega
    rcases h1 with rfl | rfl | rfl <;> decide
  · intro s s' hs hs' e
    have h1 : s = 0 ∨ s = 1 ∨ s = 2 := by omega
    have h2 : s' = 0 ∨ s' = 1 ∨ s' = 2 := by omega
    rcases h1 with rfl | rfl | rfl <;> rcases h2 with rfl | rfl | rfl <;>
      first | rfl | (exfalso; revert e; decide)

/-- **"permuted consistently when series are reordered", for the partial correlation**: for every
reordering `π` of the `N` series, if the model has a value on the data it has one on the reordered
data, and entry `(i, j)` there is entry `(π i, π j)` of the original matrix — diagonal included -/
theorem partial_correlation_relabel (n N : Nat) (r : Nat → Nat → Rat) (π : Nat → Nat)
    (hπ : PermOn π N) (P : Nat → Nat → Rat)
    (h : gjInverse (fun a b => covTo n (r a) (r b)) N = some P) :
    ∃ P', gjInverse (fun a b => covTo n (r (π a)) (r (π b))) N = some P' ∧
      ∀ i j, i < N → j < N → normInvSq P' i j = normInvSq P (π i) (π j) := by
  obtain ⟨P', hP', he⟩ := gjInverse_relabel (fun a b => covTo n (r a) (r b)) N π hπ P h
  refine ⟨P', hP', fun i j hi hj => ?_⟩
  unfold normInvSq
  rw [he i i hi hi, he j j hj hj, he i j hi hj]

/-! ## Round 5: affine images of the series and the partial correlation -/

/-- **"affine-invariant wherever the statistic is", for the partial correlation**: replace every
series `x_d` by `a_d · x_d + b_d` (`a_d ≠ 0`).  If the model has a value on the data it has one on
the images, and every off-diagonal entry changes by the factor `sign(a_i a_j)` only (signed
squares).  The elimination succeeds on the rescaled covariance matrix because `P_ul / (a_u a_l)`
is a left inverse of it (`gjInverse_succeeds_iff`); the value is tied to the data through
`model_partial_correlation` and `parCorr_scale_invariant`. -/
theorem partial_correlation_affine_invariant (n N : Nat) (hn : 0 < n) (r : Nat → Nat → Rat)
    (a b : Nat → Rat) (ha : ∀ d, a d ≠ 0) (P : Nat → Nat → Rat)
    (h : gjInverse (fun u v => covTo n (r u) (r v)) N = some P) :
    ∃ P', gjInverse (fun u v => covTo n (fun k => a u * r u k + b u)
        (fun k => a v * r v k + b v)) N = some P' ∧
      ∀ i j, i < N → j < N → i ≠ j → normInvSq P' i j = sgn (a i * a j) * normInvSq P i j := by
  have hG : (fun u v => covTo n (fun k => a u * r u k + b u) (fun k => a v * r v k + b v)) =
      fun u v => a u * a v * covTo n (r u) (r v) := by
    funext u v; exact covTo_affine n hn (r u) (r v) (a u) (b u) (a v) (b v)
  have hQ : ∀ i j, i < N → j < N →
      sumTo N (fun l => (fun u v => P u v / (a u * a v)) i l *
        (fun u v => a u * a v * covTo n (r u) (r v)) l j) = if i = j then 1 else 0 := by
    intro i j hi hj
    have hai := ha i
    rw [sumTo_congr (g := fun l => (a j / a i) * (P i l * covTo n (r l) (r j))) (fun l _ => by
      have hal := ha l
      show P i l / (a i * a l) * (a l * a j * covTo n (r l) (r j)) = _
      field_simp), sumTo_mul_left, gjInverse_correct _ N P h i j hi hj]
    by_cases e : i = j
    · subst e; simp [div_self hai]
    · simp [e]
  have hs : (gjInverse (fun u v => covTo n (fun k => a u * r u k + b u)
      (fun k => a v * r v k + b v)) N).isSome := by
    rw [hG]; exact (gjInverse_succeeds_iff _ N).mpr ⟨_, hQ⟩
  obtain ⟨P', hP'⟩ := Option.isSome_iff_exists.mp hs
  refine ⟨P', hP', fun i j hi hj hij => ?_⟩
  rw [(model_partial_correlation n N (fun u k => a u * r u k + b u) P' hP' i j hi hj hij).1,
    (model_partial_correlation n N r P h i j hi hj hij).1]
  have := parCorr_scale_invariant (fun u v => covTo n (r u) (r v)) a ha (othersOf N i j) i j
  rw [← this]
  congr 1

end Pyunicorn.Coupling
