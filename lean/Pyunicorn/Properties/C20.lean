import Pyunicorn.Lemmas.Access
/-!
# C20 — compiled kernels never touch memory outside their arrays

Statements about the access-trace models `Pyunicorn.Access` (the six raw-pointer
C routines and the wrappers that size their arrays) and
`Pyunicorn.WhileKernels` (the index-before-bound `while` kernels).  The models
are tied to the current sources by `harness/c20.py`: the real load/store trace
of the compiled C files (clang `trace-loads/trace-stores`) must equal the model
trace, and the verdict `safe | raise | oob` of every public call must equal the
one observed on an ASan/UBSan build.
-/
namespace Pyunicorn.Access

/-! ## `_spearman_corr` -/

/-- every access of `_spearman_corr` lies inside its array, for every `m`, `tmax`
(including 0, 1, `m > tmax`, `m < tmax`) with the sizes the wrapper allocates -/
theorem spearman_in_bounds (m tmax : Nat) :
    ∀ a ∈ spearmanTrace m tmax, a.inb (spearmanSizes m tmax) := by
  simp only [spearmanTrace, spearmanGen, forall_forr, List.forall_mem_append,
    List.forall_mem_cons, List.not_mem_nil, false_imp_iff, implies_true, and_true]
  intro i hi dj hdj
  have hj : i + dj < m := by omega
  with_reducible and_intros
  all_goals (try intro t ht)
  all_goals with_reducible and_intros
  all_goals inb_auto

example : spearmanTrace 2 3 ≠ [] := by decide

/-- the public method is safe or raises, whatever the two shapes are -/
theorem spearmanCall_rejects_or_safe (mm mt m tmax : Nat) :
    spearmanCall mm mt m tmax ≠ .oob := by
  unfold spearmanCall
  split
  · simp
  · rw [verdictOf_ne_oob (spearman_in_bounds m tmax)]; simp

example : spearmanCall 2 3 2 3 = .safe := by decide
example : spearmanCall 3 2 2 3 = .raise := by decide

/-- the routine as pinned (mask through `int*`, stride `m`) leaves its arrays
already for a 1×1 input, and for `m > tmax` even with a correctly typed mask -/
theorem spearmanPinned_oob_witness :
    verdictOf (spearmanSizes 1 1) (spearmanPinned 1 1) = .oob
    ∧ verdictOf (spearmanSizes 3 2) (spearmanGen 1 3 3 2) = .oob := by decide

/-! ## `_test_pearson_correlation_fast` -/

theorem pearson_in_bounds (N T : Nat) :
    ∀ a ∈ pearsonTrace N T, a.inb (pearsonSizes N T N T) := by
  simp only [pearsonTrace, forall_forr]
  intro i hi j hj a ha
  split at ha
  · simp only [List.mem_append, mem_forr, List.mem_cons, List.not_mem_nil, or_false] at ha
    rcases ha with ⟨k, hk, rfl | rfl⟩ | rfl
    all_goals inb_auto
  · simp at ha

example : pearsonTrace 2 2 ≠ [] := by decide

theorem pearsonCall_rejects_or_safe (N T N2 T2 : Nat) : pearsonCall N T N2 T2 ≠ .oob := by
  unfold pearsonCall
  split
  · simp
  · split
    · simp
    · rename_i h _
      have h' : (N2, T2) = (N, T) := by simpa using h
      obtain ⟨rfl, rfl⟩ := Prod.mk.inj h'
      rw [verdictOf_ne_oob (pearson_in_bounds N2 T2)]; simp

example : pearsonCall 3 5 3 5 = .safe := by decide
example : pearsonCall 3 5 2 3 = .raise := by decide

/-- the pinned wrapper (no shape check) reads outside a smaller surrogate array -/
theorem pearsonCallPinned_oob_witness : pearsonCallPinned 3 5 2 3 = .oob := by decide

/-! ## the two mutual-information routines -/

/-- `_mutual_information`: every access in bounds for all `N`, `n_samples`,
`n_bins`, provided the stored symbols are bin numbers (see `symbol_in_range`) -/
theorem mi_in_bounds (N T nb : Nat) (sym : Nat → Nat → Int)
    (hsym : ∀ i k, i < N → k < T → 0 ≤ sym i k ∧ sym i k < (nb : Int)) :
    ∀ a ∈ miTrace N T nb sym, a.inb (miSizes N T nb) := by
  simp only [miTrace, forall_forr, List.forall_mem_append, List.forall_mem_cons,
    forall_mem_ite_nil, List.not_mem_nil, false_imp_iff, implies_true, and_true]
  constructor
  · intro i hi k hk
    obtain ⟨h0, h1⟩ := hsym i k hi hk
    with_reducible and_intros
    · inb_auto
    · inb_auto
    · inb_auto
    · exact inb_sym1 rfl hi h0 h1
    · exact inb_sym1 rfl hi h0 h1
  · intro i hi j hj hij
    have hjN : j < N := by omega
    with_reducible and_intros
    · intro k hk
      obtain ⟨a0, a1⟩ := hsym i k hi hk
      obtain ⟨b0, b1⟩ := hsym j k hjN hk
      with_reducible and_intros
      · inb_auto
      · inb_auto
      · exact inb_sym2 rfl a0 a1 b0 b1
      · exact inb_sym2 rfl a0 a1 b0 b1
    · intro l hl
      constructor
      · inb_auto
      · intro _ m hm
        constructor
        · inb_auto
        · intro _
          constructor
          · inb_auto
          · intro _
            (with_reducible and_intros) <;> inb_auto
    · inb_auto
    · inb_auto
    · intro l hl m hm
      inb_auto

example : miTrace 2 2 2 (fun _ _ => 1) ≠ [] := by decide

/-- `_test_mutual_information_fast`, same statement -/
theorem tmi_in_bounds (N T nb : Nat) (sO sS : Nat → Nat → Int)
    (hO : ∀ i k, i < N → k < T → 0 ≤ sO i k ∧ sO i k < (nb : Int))
    (hS : ∀ i k, i < N → k < T → 0 ≤ sS i k ∧ sS i k < (nb : Int)) :
    ∀ a ∈ tmiTrace N T nb sO sS, a.inb (tmiSizes N T N T nb) := by
  simp only [tmiTrace, forall_forr, List.forall_mem_append, List.forall_mem_cons,
    forall_mem_ite_nil, List.not_mem_nil, false_imp_iff, implies_true, and_true]
  constructor
  · intro i hi k hk
    obtain ⟨a0, a1⟩ := hO i k hi hk
    obtain ⟨b0, b1⟩ := hS i k hi hk
    with_reducible and_intros
    · inb_auto
    · inb_auto
    · inb_auto
    · exact inb_sym1 rfl hi a0 a1
    · exact inb_sym1 rfl hi a0 a1
    · inb_auto
    · inb_auto
    · inb_auto
    · exact inb_sym1 rfl hi b0 b1
    · exact inb_sym1 rfl hi b0 b1
  · intro i hi j hj hij
    with_reducible and_intros
    · intro k hk
      obtain ⟨a0, a1⟩ := hO i k hi hk
      obtain ⟨b0, b1⟩ := hS j k hj hk
      with_reducible and_intros
      · inb_auto
      · inb_auto
      · exact inb_sym2 rfl a0 a1 b0 b1
      · exact inb_sym2 rfl a0 a1 b0 b1
    · intro l hl
      constructor
      · inb_auto
      · intro _ m hm
        constructor
        · inb_auto
        · intro _
          constructor
          · inb_auto
          · intro _
            (with_reducible and_intros) <;> inb_auto
    · intro l hl m hm
      inb_auto

private theorem truncInt_bounds {r : Rat} {nb : Int} (h0 : 0 ≤ r) (h1 : r < (nb : Rat)) :
    0 ≤ truncInt r ∧ truncInt r < nb := by
  unfold truncInt
  rw [if_pos h0]
  constructor
  · exact Rat.le_floor_iff.mpr (by simpa using h0)
  · exact Rat.floor_lt_iff.mpr h1

/-- bin numbers: for `n_bins ≥ 1`, any sample (NaN included) whose rescaled
value is not negative gets a symbol in `[0, n_bins)` -/
theorem symbol_in_range (s m x : Option Rat) (nb : Int) (hnb : 1 ≤ nb)
    (hpos : ∀ sv mv v, s = some sv → m = some mv → x = some v → 0 ≤ sv * (v - mv)) :
    0 ≤ symbol s m nb x ∧ symbol s m nb x < nb := by
  unfold symbol
  split
  · rename_i sv mv v
    have h := hpos sv mv v rfl rfl rfl
    simp only
    split
    · rename_i hlt
      apply truncInt_bounds
      · exact Rat.mul_nonneg h (by exact_mod_cast (by omega : (0:Int) ≤ nb))
      · have hnbpos : (0 : Rat) < (nb : Rat) := by exact_mod_cast (by omega : (0:Int) < nb)
        calc sv * (v - mv) * (nb : Rat) < 1 * (nb : Rat) := by
              exact Rat.mul_lt_mul_of_pos_right hlt hnbpos
          _ = nb := by simp
    · omega
  · omega

example : symbol (some 1) (some 0) 4 (some (1/2)) = 2 ∧ symbol (some 1) (some 0) 4 (some 1) = 3
    ∧ symbol (some 1) (some 0) 4 none = 3 := by decide +kernel

/-- with `scaling = 1/(max - min)` and `range_min = min` no sample of the data
has a negative rescaled value -/
theorem rescaled_nonneg (a b v : Rat) (hab : a < b) (hv : a ≤ v) : 0 ≤ (1 / (b - a)) * (v - a) := by
  apply Rat.mul_nonneg
  · have : 0 < b - a := by grind
    rw [Rat.div_def, Rat.one_mul]
    exact Rat.le_of_lt (Rat.inv_pos.mpr this)
  · grind

/-- `Surrogates.test_mutual_information` is safe or raises for every pair of
shapes, every `n_bins` (negative, zero, positive) and all data made of finite
values and NaN -/
theorem tmiCall_rejects_or_safe (N T N2 T2 : Nat) (nb : Int) (dO dS : Data) :
    tmiCall N T N2 T2 nb dO dS ≠ .oob := by
  unfold tmiCall
  split
  · simp
  rename_i hnb
  split
  · simp
  rename_i hshape
  have hs : (N2, T2) = (N, T) := by simpa using hshape
  obtain ⟨rfl, rfl⟩ := Prod.mk.inj hs
  split
  · simp
  have hnb1 : 1 ≤ nb := by omega
  have hcast : ((nb.toNat : Nat) : Int) = nb := Int.toNat_of_nonneg (by omega)
  simp only
  split
  · rename_i a b hmin hmax
    split
    · simp
    · rename_i hne
      -- a < b
      have hne' : dO.flat ++ dS.flat ≠ [] := optMin_ne_nil _ a hmin
      obtain ⟨x, hx⟩ := List.exists_mem_of_ne_nil _ hne'
      obtain ⟨v, rfl, hav⟩ := optMin_le _ a hmin x hx
      obtain ⟨v', hv', hvb⟩ := optMax_ge _ b hmax _ hx
      cases hv'
      have hab : a < b := by grind
      have key : ∀ (d : Data), (∀ y ∈ d.flat, y ∈ dO.flat ++ dS.flat) → ∀ i k,
          0 ≤ symbol (some (1 / (b - a))) (some a) nb (d.at i k)
          ∧ symbol (some (1 / (b - a))) (some a) nb (d.at i k) < ((nb.toNat : Nat) : Int) := by
        intro d hd i k
        rw [hcast]
        apply symbol_in_range _ _ _ _ hnb1
        intro sv mv w hsv hmv hw
        cases hsv; cases hmv
        have hmem := hd _ (Data.at_mem_flat d i k w hw)
        obtain ⟨w', hw', haw⟩ := optMin_le _ a hmin _ hmem
        cases hw'
        exact rescaled_nonneg a b w hab haw
      rw [hmin]
      rw [verdictOf_ne_oob (tmi_in_bounds N2 T2 nb.toNat _ _
        (fun i k _ _ => key dO (fun y hy => List.mem_append_left _ hy) i k)
        (fun i k _ _ => key dS (fun y hy => List.mem_append_right _ hy) i k))]
      simp
  · have hr : 0 ≤ nb - 1 ∧ nb - 1 < ((nb.toNat : Nat) : Int) := by omega
    rw [verdictOf_ne_oob (tmi_in_bounds N2 T2 nb.toNat _ _
      (fun _ _ _ _ => hr) (fun _ _ _ _ => hr))]
    simp

example : tmiCall 1 2 1 2 2 [[some 0, some 1]] [[some 1, none]] = .safe := by decide +kernel
example : tmiCall 1 2 1 2 0 [[some 0, some 1]] [[some 1, none]] = .raise := by decide +kernel

/-- the pinned wrapper: `n_bins = 0`, and a smaller surrogate array -/
theorem tmiCallPinned_oob_witness :
    tmiCallPinned 1 2 1 2 0 [[some 0, some 1]] [[some 1, some 0]] = .oob
    ∧ tmiCallPinned 2 2 1 2 2 [[some 0, some 1], [some 1, some 0]] [[some 1, some 0]] = .oob := by
  decide +kernel

/-- `MutualInfoClimateNetwork.calculate_similarity_measure`: safe or raises, given
that `range_min` is not above any sample and `scaling ≥ 0` (what the wrapper
computes from `min`/`max` of the same array) -/
theorem miCall_rejects_or_safe (N T : Nat) (nb : Int) (zdiv : Bool) (scaling rmin : Option Rat)
    (d : Data) (hnb : 1 ≤ nb)
    (hpos : ∀ i k sv mv v, scaling = some sv → rmin = some mv → d.at i k = some v →
      0 ≤ sv * (v - mv)) :
    miCall N T nb zdiv scaling rmin d ≠ .oob := by
  unfold miCall
  have hcast : ((nb.toNat : Nat) : Int) = nb := Int.toNat_of_nonneg (by omega)
  split
  · simp
  split
  · simp
  split
  · simp
  rw [verdictOf_ne_oob (mi_in_bounds N T nb.toNat _ (fun i k _ _ => by
    rw [hcast]
    exact symbol_in_range _ _ _ _ hnb (fun sv mv v h1 h2 h3 => hpos i k sv mv v h1 h2 h3)))]
  simp

/-! ## current-flow betweenness -/

theorem ecfb_in_bounds (N : Nat) : ∀ a ∈ ecfbTrace N, a.inb (cfbSizes N) := by
  simp only [ecfbTrace, forall_forr, List.forall_mem_append, List.forall_mem_cons,
    List.not_mem_nil, false_imp_iff, implies_true, and_true]
  intro i hi j hj
  with_reducible and_intros
  · intro t ht s hs
    have hs' : s < N := by omega
    with_reducible and_intros
    all_goals inb_auto
  all_goals inb_auto

example : ecfbTrace 3 ≠ [] := by decide

theorem vcfb_in_bounds (N : Nat) (i : Nat) (hi : i < N) :
    ∀ a ∈ vcfbTrace N i, a.inb (cfbSizes N) := by
  simp only [vcfbTrace, forall_forr]
  intro t ht s hs a ha
  have hs' : s < N := by omega
  split at ha
  · simp at ha
  · simp only [mem_forr, List.mem_cons, List.not_mem_nil, or_false] at ha
    obtain ⟨j, hj, h⟩ := ha
    have e1 : ((i : Int) * (N : Int) + (j : Int)) = ((i * N + j : Nat) : Int) := by simp
    have e2 : ((i : Int) * (N : Int) + (s : Int)) = ((i * N + s : Nat) : Int) := by simp
    have e3 : ((i : Int) * (N : Int) + (t : Int)) = ((i * N + t : Nat) : Int) := by simp
    rcases h with rfl | rfl | rfl | rfl | rfl
    · show (Acc.mk 0 (((i : Int) * (N : Int) + (j : Int)) * ((4 : Nat) : Int)) 4 false).inb _
      rw [e1]; inb_auto
    · show (Acc.mk 1 (((i : Int) * (N : Int) + (s : Int)) * ((4 : Nat) : Int)) 4 false).inb _
      rw [e2]; inb_auto
    · inb_auto
    · inb_auto
    · show (Acc.mk 1 (((i : Int) * (N : Int) + (t : Int)) * ((4 : Nat) : Int)) 4 false).inb _
      rw [e3]; inb_auto

example : vcfbTrace 3 1 ≠ [] := by decide

theorem vcfbCall_rejects_or_safe (N : Nat) (i : Int) : vcfbCall N i ≠ .oob := by
  unfold vcfbCall
  split
  · simp
  · rename_i h
    have h0 : 0 ≤ i := by omega
    obtain ⟨k, rfl⟩ := Int.eq_ofNat_of_zero_le h0
    have hk : k < N := by omega
    rw [verdictOf_ne_oob (vcfb_in_bounds N k hk)]; simp

example : vcfbCall 3 1 = .safe := by decide
example : vcfbCall 3 3 = .raise := by decide

/-- the pinned method hands any node index to the C routine -/
theorem vcfbCallPinned_oob_witness :
    vcfbCallPinned 3 3 = .oob ∧ vcfbCallPinned 3 (-1) = .oob := by decide

end Pyunicorn.Access

/-! ## `while` kernels that index before testing the bound -/
namespace Pyunicorn.WhileKernels

/-- the scan `while k < n_time and recurrence[l, sorted_neighbors[l, k]] == 1: k += 1`
never moves `k` beyond `n_time`, and (since the bound is tested first) presents only
columns `k < n_time` to `sorted_neighbors[l, ·]`. -/
theorem scan_le (recur sn : IMat) (l : Int) (nT : Nat) (f k0 k : Nat)
    (h : scan recur sn l nT f k0 = some k) : k0 ≤ k ∧ (k0 ≤ nT → k ≤ nT) := by
  induction f generalizing k0 with
  | zero => simp [scan] at h; subst h; exact ⟨Nat.le_refl _, id⟩
  | succ f ih =>
    unfold scan at h
    split at h
    · rename_i hk
      split at h
      · cases h
      · split at h
        · cases h
        · split at h
          · obtain ⟨h1, h2⟩ := ih _ h
            exact ⟨by omega, fun _ => h2 (by omega)⟩
          · cases h; exact ⟨Nat.le_refl _, id⟩
    · cases h; exact ⟨Nat.le_refl _, id⟩

theorem visScan_mem (cond : Nat → Bool) (j f k x : Nat) (h : x ∈ visScan cond j f k) :
    k ≤ x ∧ (k ≤ j → x ≤ j) := by
  induction f generalizing k with
  | zero => simp [visScan] at h; subst h; exact ⟨Nat.le_refl _, id⟩
  | succ f ih =>
    simp only [visScan, List.mem_cons] at h
    rcases h with rfl | h
    · exact ⟨Nat.le_refl _, id⟩
    · split at h
      · rename_i hc
        have hk : k < j := by simp at hc; exact hc.2
        obtain ⟨h1, h2⟩ := ih _ h
        exact ⟨by omega, fun _ => h2 (by omega)⟩
      · simp at h

/-- the visibility kernels (`_visibility_relations_missingvalues`,
`_no_missingvalues`, `_horizontal`) evaluate `x[·]`, `t[·]`, `mv_indices[·]`,
`A[·,·]` only at indices `< N`, whatever the data (`cond`) are: the loops
`while … and k < j` read `x[k]` before testing `k < j`, but `k ≤ j < N`. -/
theorem visIndices_lt (cond : Nat → Nat → Nat → Bool) (N : Nat) :
    ∀ x ∈ visIndices cond N, x < N := by
  intro x hx
  simp only [visIndices, List.mem_append, List.mem_flatMap, List.mem_range, List.mem_cons,
    List.not_mem_nil, or_false] at hx
  rcases hx with ⟨i, hi, dj, hdj, h⟩ | ⟨i, hi, h⟩
  · rcases h with (rfl | rfl) | h
    · omega
    · omega
    · obtain ⟨h1, h2⟩ := visScan_mem _ _ _ _ _ h
      have := h2 (by omega)
      omega
  · rcases h with rfl | rfl <;> omega

example : visIndices (fun _ _ _ => true) 4 ≠ [] := by decide

/-- dense neighbourhoods: the scan stops at `k = n_time` without reading
`sorted_neighbors[l, n_time]` and no link is added (the pinned kernel raised IndexError here) -/
example : adaptive 2 2 [[0, 1], [1, 0]] [0, 1] [[0, 0], [0, 0]] = some [[0, 1], [1, 0]] := by decide
example : adaptive 3 1 [[0, 1, 2], [1, 0, 2], [2, 1, 0]] [0, 1, 2] [[0,0,0],[0,0,0],[0,0,0]]
    = some [[0, 1, 1], [1, 0, 1], [1, 1, 0]] := by decide

end Pyunicorn.WhileKernels
