import Pyunicorn.Lemmas.Access
import Pyunicorn.Lemmas.AccessX
import Pyunicorn.Lemmas.WhileSafe
import Pyunicorn.Lemmas.Binary64
import Pyunicorn.Lemmas.LineIdx
import Pyunicorn.Lemmas.NsiIdx
import Pyunicorn.Lemmas.AccessMi
import Pyunicorn.Lemmas.NsiCsr
import Pyunicorn.Lemmas.SymbolRnd64
import Pyunicorn.Generated.StructC20
import Pyunicorn.Generated.StructC20Pyx
import Pyunicorn.Generated.StructC20Py
import Pyunicorn.Generated.StructC20Run
/-!
# C20 — compiled kernels never touch memory outside their arrays

Statements about the access-trace models `Pyunicorn.Access` (the six raw-pointer
C routines and the wrappers that size their arrays) and
`Pyunicorn.WhileKernels` (the index-before-bound `while` kernels).  The models
are tied to the current sources by `harness/c20.py`: the real load/store trace
of the compiled C files (clang `trace-loads/trace-stores`) must equal the model
trace, and the verdict `safe | raise | oob` of every public call must equal the
one observed on an ASan/UBSan build.
-/
namespace Pyunicorn.Access

/-! ## `_spearman_corr` -/

/-- every access of `_spearman_corr` lies inside its array, for every `m`, `tmax`
(including 0, 1, `m > tmax`, `m < tmax`) with the sizes the wrapper allocates -/
theorem spearman_in_bounds (m tmax : Nat) :
    ∀ a ∈ spearmanTrace m tmax, a.inb (spearmanSizes m tmax) := by
  simp only [spearmanTrace, spearmanGen, forall_forr, List.forall_mem_append,
    List.forall_mem_cons, List.not_mem_nil, false_imp_iff, implies_true, and_true]
  intro i hi dj hdj
  have hj : i + dj < m := by omega
  with_reducible and_intros
  all_goals (try intro t ht)
  all_goals with_reducible and_intros
  all_goals inb_auto

example : spearmanTrace 2 3 ≠ [] := by decide

/-- the public method is safe or raises, whatever the two shapes are -/
theorem spearmanCall_rejects_or_safe (mm mt m tmax : Nat) :
    spearmanCall mm mt m tmax ≠ .oob := by
  unfold spearmanCall
  split
  · simp
  · rw [verdictOf_ne_oob (spearman_in_bounds m tmax)]; simp

example : spearmanCall 2 3 2 3 = .safe := by decide
example : spearmanCall 3 2 2 3 = .raise := by decide

/-- the routine as pinned (mask through `int*`, stride `m`) leaves its arrays
already for a 1×1 input, and for `m > tmax` even with a correctly typed mask -/
theorem spearmanPinned_oob_witness :
    verdictOf (spearmanSizes 1 1) (spearmanPinned 1 1) = .oob
    ∧ verdictOf (spearmanSizes 3 2) (spearmanGen 1 3 3 2) = .oob := by decide

/-! ## `_test_pearson_correlation_fast` -/

theorem pearson_in_bounds (N T : Nat) :
    ∀ a ∈ pearsonTrace N T, a.inb (pearsonSizes N T N T) := by
  simp only [pearsonTrace, forall_forr]
  intro i hi j hj a ha
  split at ha
  · simp only [List.mem_append, mem_forr, List.mem_cons, List.not_mem_nil, or_false] at ha
    rcases ha with ⟨k, hk, rfl | rfl⟩ | rfl
    all_goals inb_auto
  · simp at ha

example : pearsonTrace 2 2 ≠ [] := by decide

theorem pearsonCall_rejects_or_safe (N T N2 T2 : Nat) : pearsonCall N T N2 T2 ≠ .oob := by
  unfold pearsonCall
  split
  · simp
  · split
    · simp
    · rename_i h _
      have h' : (N2, T2) = (N, T) := by simpa using h
      obtain ⟨rfl, rfl⟩ := Prod.mk.inj h'
      rw [verdictOf_ne_oob (pearson_in_bounds N2 T2)]; simp

example : pearsonCall 3 5 3 5 = .safe := by decide
example : pearsonCall 3 5 2 3 = .raise := by decide

/-- the pinned wrapper (no shape check) reads outside a smaller surrogate array -/
theorem pearsonCallPinned_oob_witness : pearsonCallPinned 3 5 2 3 = .oob := by decide

/-! ## the two mutual-information routines -/

/-- `_mutual_information`: every access in bounds for all `N`, `n_samples`,
`n_bins`, provided the stored symbols are bin numbers (see `symbol_in_range`) -/
theorem mi_in_bounds (N T nb : Nat) (sym : Nat → Nat → Int)
    (hsym : ∀ i k, i < N → k < T → 0 ≤ sym i k ∧ sym i k < (nb : Int)) :
    ∀ a ∈ miTrace N T nb sym, a.inb (miSizes N T nb) := by
  simp only [miTrace, forall_forr, List.forall_mem_append, List.forall_mem_cons,
    forall_mem_ite_nil, List.not_mem_nil, false_imp_iff, implies_true, and_true]
  constructor
  · intro i hi k hk
    obtain ⟨h0, h1⟩ := hsym i k hi hk
    with_reducible and_intros
    · inb_auto
    · inb_auto
    · inb_auto
    · exact inb_sym1 rfl hi h0 h1
    · exact inb_sym1 rfl hi h0 h1
  · intro i hi j hj hij
    have hjN : j < N := by omega
    with_reducible and_intros
    · intro k hk
      obtain ⟨a0, a1⟩ := hsym i k hi hk
      obtain ⟨b0, b1⟩ := hsym j k hjN hk
      with_reducible and_intros
      · inb_auto
      · inb_auto
      · exact inb_sym2 rfl a0 a1 b0 b1
      · exact inb_sym2 rfl a0 a1 b0 b1
    · intro l hl
      constructor
      · inb_auto
      · intro _ m hm
        constructor
        · inb_auto
        · intro _
          constructor
          · inb_auto
          · intro _
            (with_reducible and_intros) <;> inb_auto
    · inb_auto
    · inb_auto
    · intro l hl m hm
      inb_auto

example : miTrace 2 2 2 (fun _ _ => 1) ≠ [] := by decide

/-- `_test_mutual_information_fast`, same statement -/
theorem tmi_in_bounds (N T nb : Nat) (sO sS : Nat → Nat → Int)
    (hO : ∀ i k, i < N → k < T → 0 ≤ sO i k ∧ sO i k < (nb : Int))
    (hS : ∀ i k, i < N → k < T → 0 ≤ sS i k ∧ sS i k < (nb : Int)) :
    ∀ a ∈ tmiTrace N T nb sO sS, a.inb (tmiSizes N T N T nb) := by
  simp only [tmiTrace, forall_forr, List.forall_mem_append, List.forall_mem_cons,
    forall_mem_ite_nil, List.not_mem_nil, false_imp_iff, implies_true, and_true]
  constructor
  · intro i hi k hk
    obtain ⟨a0, a1⟩ := hO i k hi hk
    obtain ⟨b0, b1⟩ := hS i k hi hk
    with_reducible and_intros
    · inb_auto
    · inb_auto
    · inb_auto
    · exact inb_sym1 rfl hi a0 a1
    · exact inb_sym1 rfl hi a0 a1
    · inb_auto
    · inb_auto
    · inb_auto
    · exact inb_sym1 rfl hi b0 b1
    · exact inb_sym1 rfl hi b0 b1
  · intro i hi j hj hij
    with_reducible and_intros
    · intro k hk
      obtain ⟨a0, a1⟩ := hO i k hi hk
      obtain ⟨b0, b1⟩ := hS j k hj hk
      with_reducible and_intros
      · inb_auto
      · inb_auto
      · exact inb_sym2 rfl a0 a1 b0 b1
      · exact inb_sym2 rfl a0 a1 b0 b1
    · intro l hl
      constructor
      · inb_auto
      · intro _ m hm
        constructor
        · inb_auto
        · intro _
          constructor
          · inb_auto
          · intro _
            (with_reducible and_intros) <;> inb_auto
    · intro l hl m hm
      inb_auto

/-- bin numbers: for `n_bins ≥ 1`, any sample (NaN included) whose rescaled
value is not negative gets a symbol in `[0, n_bins)` -/
theorem symbol_in_range (s m x : Option Rat) (nb : Int) (hnb : 1 ≤ nb)
    (hpos : ∀ sv mv v, s = some sv → m = some mv → x = some v → 0 ≤ sv * (v - mv)) :
    0 ≤ symbol s m nb x ∧ symbol s m nb x < nb := by
  unfold symbol
  split
  · rename_i sv mv v
    have h := hpos sv mv v rfl rfl rfl
    simp only
    split
    · rename_i hlt
      apply truncInt_bounds
      · exact Rat.mul_nonneg h (by exact_mod_cast (by omega : (0:Int) ≤ nb))
      · have hnbpos : (0 : Rat) < (nb : Rat) := by exact_mod_cast (by omega : (0:Int) < nb)
        calc sv * (v - mv) * (nb : Rat) < 1 * (nb : Rat) := by
              exact Rat.mul_lt_mul_of_pos_right hlt hnbpos
          _ = nb := by simp
    · omega
  · omega

example : symbol (some 1) (some 0) 4 (some (1/2)) = 2 ∧ symbol (some 1) (some 0) 4 (some 1) = 3
    ∧ symbol (some 1) (some 0) 4 none = 3 := by decide +kernel

/-- the same with rounding after every floating-point operation.  For every
rounding `rnd` that is monotone and maps 0 to 0 (every IEEE rounding mode is),
every `scaling ≥ 0` and every sample `x ≥ range_min`, the symbol is **not
negative** — no hypothesis about the format is left for this half.  The upper half
needs that the rounded product of a representable `r < 1` with `n_bins` stays
below `n_bins` (`hlt`; for binary64 and `n_bins < 2^31` this holds because
`r ≤ 1 - 2^-53` puts `r·n_bins` below the midpoint between `n_bins` and its
predecessor, and in `_mutual_information` the product of a float with an `int` is
exact in double) — this hypothesis is *not* proved here (partial); the oracle
stream drives `rescaled = 1 - 2^-53` through the real kernels. -/
theorem symbolRnd_in_range_partial (rnd : Rat → Rat) (hmono : ∀ x y, x ≤ y → rnd x ≤ rnd y)
    (h0 : rnd 0 = 0) (hidem : ∀ x, rnd (rnd x) = rnd x) (s m v : Rat) (nb : Int)
    (hs : 0 ≤ s) (hv : m ≤ v) (hnb : 1 ≤ nb)
    (hlt : ∀ r, 0 ≤ r → r < 1 → rnd r = r → rnd (r * (nb : Rat)) < (nb : Rat)) :
    0 ≤ symbolRnd rnd s m nb v ∧ symbolRnd rnd s m nb v < nb := by
  have hnbq : (0 : Rat) ≤ (nb : Rat) := by exact_mod_cast (by omega : (0:Int) ≤ nb)
  have h1 : 0 ≤ rnd (v - m) := by
    have := hmono 0 (v - m) (by grind)
    rwa [h0] at this
  have h2 : 0 ≤ rnd (s * rnd (v - m)) := by
    have := hmono 0 (s * rnd (v - m)) (Rat.mul_nonneg hs h1)
    rwa [h0] at this
  unfold symbolRnd
  simp only
  split
  · rename_i hr
    have h3 : 0 ≤ rnd (rnd (s * rnd (v - m)) * (nb : Rat)) := by
      have := hmono 0 _ (Rat.mul_nonneg h2 hnbq)
      rwa [h0] at this
    exact truncInt_bounds h3 (hlt _ h2 hr (hidem _))
  · omega

/-- **round 3: the hypothesis `hlt` discharged for IEEE-754 binary64.**  For every rounding
`rnd` that is monotone, fixes 0, is idempotent, returns binary64 values and returns a *nearest*
one (any tie-breaking rule — `B64.Nearest`), every `scaling ≥ 0`, every sample `x ≥ range_min`
and every `1 ≤ n_bins < 2^31` (Cython's `int n_bins`), the symbol computed with a rounding after
each of the three floating-point operations lies in `[0, n_bins)`: the rounded product of a
double `r < 1` with `n_bins` is strictly below `n_bins` (`B64.b64_mul_lt`: `r ≤ 1 - 2^-53`
puts `r·n_bins` at least half a grid step below `n_bins`, and exactly half a step only where
the product is itself a double).  A binary32 value is a binary64 value, so this covers the
`float` rescaled value of `_mutual_information` as well. -/
theorem symbolRnd_in_range_b64 (rnd : Rat → Rat) (hmono : ∀ x y, x ≤ y → rnd x ≤ rnd y)
    (h0 : rnd 0 = 0) (hidem : ∀ x, rnd (rnd x) = rnd x) (hnear : Pyunicorn.B64.Nearest rnd)
    (hrep : ∀ x, Pyunicorn.B64.IsB64 (rnd x)) (s m v : Rat) (nb : Int)
    (hs : 0 ≤ s) (hv : m ≤ v) (hnb : 1 ≤ nb) (hnb31 : nb < 2 ^ 31) :
    0 ≤ symbolRnd rnd s m nb v ∧ symbolRnd rnd s m nb v < nb :=
  symbolRnd_in_range_partial rnd hmono h0 hidem s m v nb hs hv hnb
    (fun r hr0 hr1 hfix =>
      Pyunicorn.B64.b64_mul_lt rnd hnear r (hfix ▸ hrep r) hr0 hr1 nb hnb hnb31)

/-- **round 5g: `symbolRnd_in_range_partial` without `_partial` — both halves, no hypothesis about the
rounding.**  With the *executable* IEEE-754 binary64 rounding `Rnd64.rnd64` (round to nearest, ties
to even, of an arbitrary rational; `Model/Rnd64.lean`) after each of the three floating-point
operations `x - range_min`, `scaling * ·`, `· * n_bins`, for every `scaling ≥ 0`, every sample
`x ≥ range_min` and every `1 ≤ n_bins < 2^31` (Cython's `int n_bins`) the symbol lies in
`[0, n_bins)`.  The hypothesis `hlt` of `symbolRnd_in_range_partial` is `rnd64_mul_lt` (a double
`r < 1` is `≤ 1 - 2^-53`, so `r·n_bins` lies strictly below the midpoint between `n_bins` and its
predecessor unless it is itself a double: `B64.b64_mul_lt`), and the hypotheses `hmono`, `h0`,
`hidem`, `hnear`, `hrep` of `symbolRnd_in_range_b64` are theorems about `rnd64`
(`Rnd64.rnd64_nearest`, `Rnd64.rnd64_isB64`, `B64.nearest_fix`, `Rnd64.nearest_nonneg` — the proofs
of C17's round 5 for the same definition) or not needed (monotonicity was only used for `0 ≤ rnd x`). -/
theorem symbolRnd_in_range_binary64 (s m v : Rat) (nb : Int)
    (hs : 0 ≤ s) (hv : m ≤ v) (hnb : 1 ≤ nb) (hnb31 : nb < 2 ^ 31) :
    0 ≤ symbolRnd Pyunicorn.Rnd64.rnd64 s m nb v ∧ symbolRnd Pyunicorn.Rnd64.rnd64 s m nb v < nb :=
  symbolRnd_in_range_rnd64 s m v nb hs hv hnb hnb31

/-- the same for every round-to-nearest rounding onto doubles, whatever its tie rule: the hypotheses
`hmono`, `h0`, `hidem` of `symbolRnd_in_range_b64` dropped -/
theorem symbolRnd_in_range_any_nearest (rnd : Rat → Rat) (hnear : Pyunicorn.B64.Nearest rnd)
    (hrep : ∀ x, Pyunicorn.B64.IsB64 (rnd x)) (s m v : Rat) (nb : Int)
    (hs : 0 ≤ s) (hv : m ≤ v) (hnb : 1 ≤ nb) (hnb31 : nb < 2 ^ 31) :
    0 ≤ symbolRnd rnd s m nb v ∧ symbolRnd rnd s m nb v < nb :=
  symbolRnd_in_range_nearest rnd hnear hrep s m v nb hs hv hnb hnb31

/-- the executable rounding discharges `hlt` of `symbolRnd_in_range_partial` as stated there (so the
old theorem applies to it too), and it is a nearest rounding onto doubles that fixes 0 and is idempotent -/
theorem rnd64_discharges_hlt (nb : Int) (hnb : 1 ≤ nb) (hnb31 : nb < 2 ^ 31) :
    (∀ r, 0 ≤ r → r < 1 → Pyunicorn.Rnd64.rnd64 r = r →
      Pyunicorn.Rnd64.rnd64 (r * (nb : Rat)) < (nb : Rat)) ∧
    Pyunicorn.B64.Nearest Pyunicorn.Rnd64.rnd64 ∧ (∀ x, Pyunicorn.B64.IsB64 (Pyunicorn.Rnd64.rnd64 x)) ∧
    Pyunicorn.Rnd64.rnd64 0 = 0 ∧
    ∀ x, Pyunicorn.Rnd64.rnd64 (Pyunicorn.Rnd64.rnd64 x) = Pyunicorn.Rnd64.rnd64 x :=
  ⟨fun r h0 h1 hfix => rnd64_mul_lt r h0 h1 hfix nb hnb hnb31,
   Pyunicorn.Rnd64.rnd64_nearest, Pyunicorn.Rnd64.rnd64_isB64,
   Pyunicorn.B64.nearest_zero _ Pyunicorn.Rnd64.rnd64_nearest,
   Pyunicorn.B64.nearest_idem _ Pyunicorn.Rnd64.rnd64_nearest Pyunicorn.Rnd64.rnd64_isB64⟩

/-- non-vacuity: the hypotheses are satisfiable (scaling 1/3 — not a double —, `n_bins` = 7 and the
largest `int`), and the executable rounding really rounds: `rnd64 (1/3) ≠ 1/3`, `rnd64 (1/2) = 1/2` -/
example : (0 ≤ symbolRnd Pyunicorn.Rnd64.rnd64 (1/3) 0 7 (29/10) ∧
      symbolRnd Pyunicorn.Rnd64.rnd64 (1/3) 0 7 (29/10) < 7) ∧
    (0 ≤ symbolRnd Pyunicorn.Rnd64.rnd64 1 (-1) (2 ^ 31 - 1) 0 ∧
      symbolRnd Pyunicorn.Rnd64.rnd64 1 (-1) (2 ^ 31 - 1) 0 < 2 ^ 31 - 1) :=
  ⟨symbolRnd_in_range_binary64 (1/3) 0 (29/10) 7 (by decide +kernel) (by decide +kernel) (by decide +kernel) (by decide +kernel),
   symbolRnd_in_range_binary64 1 (-1) 0 (2 ^ 31 - 1) (by decide +kernel) (by decide +kernel) (by decide +kernel) (by decide +kernel)⟩
example : Pyunicorn.Rnd64.rnd64 (1/2) = 1/2 ∧ Pyunicorn.Rnd64.rnd64 (1/3) ≠ 1/3 ∧
    symbolRnd Pyunicorn.Rnd64.rnd64 (1/3) 0 7 (29/10) = 6 ∧
    symbolRnd Pyunicorn.Rnd64.rnd64 1 0 4 1 = 3 := by decide +kernel

/-- **round 3: data with infinities.**  With IEEE semantics for `±inf` and NaN (`XR`): whenever
`scaling` is not negative (`≥ 0`, `+inf` — the float overflow of `1/(max-min)` — or NaN) and
`range_min ≤ x` in the extended order or one of them is NaN (what `min` of the data gives:
`-inf ≤ x`, and NaN as soon as any entry is NaN), the rescaled value is never `-inf` — so no
undefined float→int conversion is executed — and the symbol lies in `[0, n_bins)`:
`inf - inf`, `0·inf` are NaN and take the `else` branch, `+inf` is not `< 1.0`. -/
theorem symbolX_in_range (s m x : XR) (nb : Int) (hnb : 1 ≤ nb) (hs : s.notNeg = true)
    (hmx : m.isNan = true ∨ x.isNan = true ∨ XR.le m x = true) :
    ∃ k, symbolX s m nb x = some k ∧ 0 ≤ k ∧ k < nb := by
  have hr : (XR.mul s (XR.sub x m)).notNeg = true :=
    XR.mul_notNeg _ _ hs (XR.sub_notNeg m x hmx)
  unfold symbolX
  generalize XR.mul s (XR.sub x m) = r at hr
  cases r with
  | nan => exact ⟨nb - 1, rfl, by omega, by omega⟩
  | pinf => exact ⟨nb - 1, rfl, by omega, by omega⟩
  | ninf => simp [XR.notNeg] at hr
  | fin q =>
    have hq : 0 ≤ q := by simpa [XR.notNeg] using hr
    refine ⟨_, rfl, ?_⟩
    split
    · rename_i hlt
      apply truncInt_bounds
      · exact Rat.mul_nonneg hq (by exact_mod_cast (by omega : (0:Int) ≤ nb))
      · have hnbpos : (0 : Rat) < (nb : Rat) := by exact_mod_cast (by omega : (0:Int) < nb)
        calc q * (nb : Rat) < 1 * (nb : Rat) := Rat.mul_lt_mul_of_pos_right hlt hnbpos
          _ = nb := by simp
    · omega

/-- `+inf` in the data (`max = +inf`, so `scaling = 1/inf = 0`): finite samples get bin 0, the
infinite one `0·inf = NaN` the last bin; a rescaled `-inf` (negative scaling) is the undefined case -/
example : symbolX (.fin 0) (.fin 1) 4 (.fin 3) = some 0 ∧ symbolX (.fin 0) (.fin 1) 4 .pinf = some 3
    ∧ symbolX (.fin 1) .ninf 4 (.fin 3) = some 3 ∧ symbolX (.fin (-1)) (.fin 0) 4 .pinf = none := by
  decide +kernel

/-- exact arithmetic is an instance (so the hypotheses are satisfiable), and there
`symbolRnd` is `symbol` -/
example : symbolRnd id 1 0 4 (1/2) = 2 ∧ symbol (some 1) (some 0) 4 (some (1/2)) = 2 := by
  decide +kernel
example : ∀ r : Rat, 0 ≤ r → r < 1 → id r = r → id (r * ((4 : Int) : Rat)) < ((4 : Int) : Rat) := by
  intro r _ h _
  show r * ((4 : Int) : Rat) < ((4 : Int) : Rat)
  have : r * ((4 : Int) : Rat) < 1 * ((4 : Int) : Rat) :=
    Rat.mul_lt_mul_of_pos_right h (by decide)
  simpa using this

/-- with `scaling = 1/(max - min)` and `range_min = min` no sample of the data
has a negative rescaled value -/
theorem rescaled_nonneg (a b v : Rat) (hab : a < b) (hv : a ≤ v) : 0 ≤ (1 / (b - a)) * (v - a) := by
  apply Rat.mul_nonneg
  · have : 0 < b - a := by grind
    rw [Rat.div_def, Rat.one_mul]
    exact Rat.le_of_lt (Rat.inv_pos.mpr this)
  · grind

/-- `Surrogates.test_mutual_information` is safe or raises for every pair of
shapes, every `n_bins` (negative, zero, positive) and all data made of finite
values and NaN -/
theorem tmiCall_rejects_or_safe (N T N2 T2 : Nat) (nb : Int) (dO dS : Data) :
    tmiCall N T N2 T2 nb dO dS ≠ .oob := by
  unfold tmiCall
  split
  · simp
  rename_i hnb
  split
  · simp
  rename_i hshape
  have hs : (N2, T2) = (N, T) := by simpa using hshape
  obtain ⟨rfl, rfl⟩ := Prod.mk.inj hs
  split
  · simp
  rename_i hbig
  split
  · simp
  have hnb1 : 1 ≤ nb := by omega
  have hb32 : nb ≤ (2 : Int) ^ (32 - 1) := by
    have : (2 : Int) ^ (32 - 1) = (2 : Int) ^ 31 := by decide
    omega
  have hcast : ((nb.toNat : Nat) : Int) = nb := Int.toNat_of_nonneg (by omega)
  simp only
  split
  · rename_i a b hmin hmax
    split
    · simp
    · rename_i hne
      -- a < b
      have hne' : dO.flat ++ dS.flat ≠ [] := optMin_ne_nil _ a hmin
      obtain ⟨x, hx⟩ := List.exists_mem_of_ne_nil _ hne'
      obtain ⟨v, rfl, hav⟩ := optMin_le _ a hmin x hx
      obtain ⟨v', hv', hvb⟩ := optMax_ge _ b hmax _ hx
      cases hv'
      have hab : a < b := by grind
      -- no rescaled value is negative
      have hpos : ∀ (d : Data), (∀ y ∈ d.flat, y ∈ dO.flat ++ dS.flat) → ∀ i k sv mv w,
          (some (1 / (b - a)) : Option Rat) = some sv → (some a : Option Rat) = some mv →
          d.at i k = some w → 0 ≤ sv * (w - mv) := by
        intro d hd i k sv mv w hsv hmv hw
        cases hsv; cases hmv
        have hmem := hd _ (Data.at_mem_flat d i k w hw)
        obtain ⟨w', hw', haw⟩ := optMin_le _ a hmin _ hmem
        cases hw'
        exact rescaled_nonneg a b w hab haw
      have key : ∀ (d : Data), (∀ y ∈ d.flat, y ∈ dO.flat ++ dS.flat) → ∀ i k,
          0 ≤ symbol (some (1 / (b - a))) (some a) nb (d.at i k)
          ∧ symbol (some (1 / (b - a))) (some a) nb (d.at i k) < ((nb.toNat : Nat) : Int) := by
        intro d hd i k
        rw [hcast]
        exact symbol_in_range _ _ _ _ hnb1 (fun sv mv w h1 h2 h3 => hpos d hd i k sv mv w h1 h2 h3)
      have inO : ∀ y ∈ dO.flat, y ∈ dO.flat ++ dS.flat := fun y hy => List.mem_append_left _ hy
      have inS : ∀ y ∈ dS.flat, y ∈ dO.flat ++ dS.flat := fun y hy => List.mem_append_right _ hy
      rw [hmin]
      rw [castsOK_of_pos (d := dO.at) hnb1 hb32 (hpos dO inO),
          castsOK_of_pos (d := dS.at) hnb1 hb32 (hpos dS inS)]
      simp only [Bool.and_self, if_true]
      rw [verdictOf_ne_oob (tmi_in_bounds N2 T2 nb.toNat _ _
        (fun i k _ _ => key dO inO i k) (fun i k _ _ => key dS inS i k))]
      simp
  · have hr : 0 ≤ nb - 1 ∧ nb - 1 < ((nb.toNat : Nat) : Int) := by omega
    rw [verdictOf_ne_oob (tmi_in_bounds N2 T2 nb.toNat _ _
      (fun _ _ _ _ => hr) (fun _ _ _ _ => hr))]
    simp

example : tmiCall 1 2 1 2 2 [[some 0, some 1]] [[some 1, none]] = .safe := by decide +kernel
example : tmiCall 1 2 1 2 0 [[some 0, some 1]] [[some 1, none]] = .raise := by decide +kernel
example : tmiCall 1 2 1 2 (2 ^ 31) [[some 0, some 1]] [[some 1, none]] = .raise := by decide +kernel

/-- a kernel that converts to `int` first and clamps afterwards
(`sym = (int)(rescaled * n_bins); if (sym >= n_bins) sym = n_bins - 1;`) performs an
undefined conversion as soon as one sample is NaN — with the branch on
`rescaled < 1.0` first (the code as it is) the same call is safe -/
theorem tmiCallConvertFirst_undefined_witness :
    tmiCallConvertFirst 1 2 2 [[some 0, some 1]] [[some 1, none]] = .oob
    ∧ tmiCall 1 2 1 2 2 [[some 0, some 1]] [[some 1, none]] = .safe := by decide +kernel

/-- the pinned wrapper: `n_bins = 0`, and a smaller surrogate array -/
theorem tmiCallPinned_oob_witness :
    tmiCallPinned 1 2 1 2 0 [[some 0, some 1]] [[some 1, some 0]] = .oob
    ∧ tmiCallPinned 2 2 1 2 2 [[some 0, some 1], [some 1, some 0]] [[some 1, some 0]] = .oob := by
  decide +kernel

/-- `MutualInfoClimateNetwork.calculate_similarity_measure`: safe or raises, given
that `range_min` is not above any sample and `scaling ≥ 0` (what the wrapper
computes from `min`/`max` of the same array) -/
theorem miCall_rejects_or_safe (N T : Nat) (nb : Int) (zdiv : Bool) (scaling rmin : Option Rat)
    (d : Data) (hnb : 1 ≤ nb)
    (hpos : ∀ i k sv mv v, scaling = some sv → rmin = some mv → d.at i k = some v →
      0 ≤ sv * (v - mv)) :
    miCall N T nb zdiv scaling rmin d ≠ .oob := by
  unfold miCall
  have hcast : ((nb.toNat : Nat) : Int) = nb := Int.toNat_of_nonneg (by omega)
  split
  · simp
  split
  · simp
  rename_i hbig
  split
  · simp
  split
  · simp
  have hb64 : nb ≤ (2 : Int) ^ (64 - 1) := by
    have : (2 : Int) ^ 31 ≤ (2 : Int) ^ (64 - 1) := by decide
    omega
  rw [castsOK_of_pos (d := d.at) hnb hb64 hpos]
  simp only [if_true]
  rw [verdictOf_ne_oob (mi_in_bounds N T nb.toNat _ (fun i k _ _ => by
    rw [hcast]
    exact symbol_in_range _ _ _ _ hnb (fun sv mv v h1 h2 h3 => hpos i k sv mv v h1 h2 h3)))]
  simp

/-- `MutualInfoClimateNetwork._cython_calculate_mutual_information` from the
normalised float64 array down to the kernel is safe or raises — for every array
(NaN included), every conversion double → float that is monotone (rounding to
nearest is), every non-negative (or NaN / infinite) `float scaling` and every
`n_bins ≥ 1` (the public path fixes 32).  This discharges the hypothesis of
`miCall_rejects_or_safe` from what the wrapper computes: `range_min` is the
minimum of the very array whose samples reach the kernel, and both pass through
the same monotone conversion, so no rescaled value is negative. -/
theorem miWrapperCall_rejects_or_safe (rnd : Rat → Rat) (hmono : ∀ x y, x ≤ y → rnd x ≤ rnd y)
    (N T : Nat) (nb : Int) (hnb : 1 ≤ nb) (sc : Option Rat) (hsc : ∀ s, sc = some s → 0 ≤ s)
    (a : Data) : miWrapperCall rnd N T nb sc a ≠ .oob := by
  unfold miWrapperCall
  apply miCall_rejects_or_safe _ _ _ _ _ _ _ hnb
  intro i k sv mv v hs hm hv
  rw [Data.at_map a (fun x => x.map rnd) rfl] at hv
  cases hmin : optMin a.flat with
  | none => simp [hmin] at hm
  | some mn =>
    cases hmax : optMax a.flat with
    | none => simp [hmin, hmax] at hs
    | some mx =>
      simp only [hmin, hmax] at hs
      simp only [hmin, Option.map_some, Option.some.injEq] at hm
      cases hw : a.at i k with
      | none => simp [hw] at hv
      | some w =>
        simp only [hw, Option.map_some, Option.some.injEq] at hv
        obtain ⟨w', hw', hle⟩ := optMin_le _ mn hmin _ (Data.at_mem_flat a i k w hw)
        cases hw'
        subst hm; subst hv
        have h1 : 0 ≤ rnd w - rnd mn := by
          have := hmono mn w hle
          grind
        exact Rat.mul_nonneg (hsc sv hs) h1

example : miWrapperCall id 2 2 32 (some (1/2)) [[some 0, some 2], [some 1, some 2]] = .safe := by
  decide +kernel
example : miWrapperCall id 2 2 32 (some 1) [[some 1, some 1], [some 1, some 1]] = .raise := by
  decide +kernel

/-! ## current-flow betweenness -/

theorem ecfb_in_bounds (N : Nat) : ∀ a ∈ ecfbTrace N, a.inb (cfbSizes N) := by
  simp only [ecfbTrace, forall_forr, List.forall_mem_append, List.forall_mem_cons,
    List.not_mem_nil, false_imp_iff, implies_true, and_true]
  intro i hi j hj
  with_reducible and_intros
  · intro t ht s hs
    have hs' : s < N := by omega
    with_reducible and_intros
    all_goals inb_auto
  all_goals inb_auto

example : ecfbTrace 3 ≠ [] := by decide

theorem vcfb_in_bounds (N : Nat) (i : Nat) (hi : i < N) :
    ∀ a ∈ vcfbTrace N i, a.inb (cfbSizes N) := by
  simp only [vcfbTrace, forall_forr]
  intro t ht s hs a ha
  have hs' : s < N := by omega
  split at ha
  · simp at ha
  · simp only [mem_forr, List.mem_cons, List.not_mem_nil, or_false] at ha
    obtain ⟨j, hj, h⟩ := ha
    have e1 : ((i : Int) * (N : Int) + (j : Int)) = ((i * N + j : Nat) : Int) := by simp
    have e2 : ((i : Int) * (N : Int) + (s : Int)) = ((i * N + s : Nat) : Int) := by simp
    have e3 : ((i : Int) * (N : Int) + (t : Int)) = ((i * N + t : Nat) : Int) := by simp
    rcases h with rfl | rfl | rfl | rfl | rfl
    · show (Acc.mk 0 (((i : Int) * (N : Int) + (j : Int)) * ((4 : Nat) : Int)) 4 false).inb _
      rw [e1]; inb_auto
    · show (Acc.mk 1 (((i : Int) * (N : Int) + (s : Int)) * ((4 : Nat) : Int)) 4 false).inb _
      rw [e2]; inb_auto
    · inb_auto
    · inb_auto
    · show (Acc.mk 1 (((i : Int) * (N : Int) + (t : Int)) * ((4 : Nat) : Int)) 4 false).inb _
      rw [e3]; inb_auto

example : vcfbTrace 3 1 ≠ [] := by decide

/-- `ResNetwork.vertex_current_flow_betweenness(i)`: safe or raises for every node
index (any integer) and whatever the size `Na` of the admittance / R matrices the
object holds (they go stale when `Network.adjacency` is reassigned with another
number of nodes) -/
theorem vcfbCall_rejects_or_safe (N : Nat) (i : Int) (Na : Nat) : vcfbCall N i Na ≠ .oob := by
  unfold vcfbCall
  split
  · simp
  · rename_i h
    have h0 : 0 ≤ i := by omega
    obtain ⟨k, rfl⟩ := Int.eq_ofNat_of_zero_le h0
    have hk : k < N := by omega
    split
    · simp
    · rename_i hNa
      have : Na = N := by simpa using hNa
      subst this
      show verdictOf (cfbSizes Na) (vcfbTrace Na k) ≠ .oob
      rw [verdictOf_ne_oob (vcfb_in_bounds Na k hk)]; simp

example : vcfbCall 3 1 3 = .safe := by decide
example : vcfbCall 3 3 3 = .raise := by decide
example : vcfbCall 3 1 2 = .raise := by decide

theorem ecfbCall_rejects_or_safe (N Na : Nat) : ecfbCall N Na ≠ .oob := by
  unfold ecfbCall
  split
  · simp
  · rename_i hNa
    have : Na = N := by simpa using hNa
    subst this
    show verdictOf (cfbSizes Na) (ecfbTrace Na) ≠ .oob
    rw [verdictOf_ne_oob (ecfb_in_bounds Na)]; simp

example : ecfbCall 3 3 = .safe := by decide
example : ecfbCall 3 2 = .raise := by decide

/-- the pinned method hands any node index to the C routine -/
theorem vcfbCallPinned_oob_witness :
    vcfbCallPinned 3 3 = .oob ∧ vcfbCallPinned 3 (-1) = .oob := by decide

/-- before the shape test in the Cython wrappers (round 2): after
`net.adjacency = <4×4>` on an object holding 2×2 matrices, both methods read
outside the held arrays -/
theorem cfbCallStale_oob_witness :
    vcfbCallStale 4 3 2 = .oob ∧ ecfbCallStale 4 2 = .oob := by decide

end Pyunicorn.Access

/-! ## `while` kernels that index before testing the bound -/
namespace Pyunicorn.WhileKernels

/-- the scan `while k < n_time and recurrence[l, sorted_neighbors[l, k]] == 1: k += 1`
never moves `k` beyond `n_time`, and (since the bound is tested first) presents only
columns `k < n_time` to `sorted_neighbors[l, ·]`. -/
theorem scan_le (recur sn : IMat) (l : Int) (nT : Nat) (f k0 k : Nat)
    (h : scan recur sn l nT f k0 = some k) : k0 ≤ k ∧ (k0 ≤ nT → k ≤ nT) := by
  induction f generalizing k0 with
  | zero => simp [scan] at h; subst h; exact ⟨Nat.le_refl _, id⟩
  | succ f ih =>
    unfold scan at h
    split at h
    · rename_i hk
      split at h
      · cases h
      · split at h
        · cases h
        · split at h
          · obtain ⟨h1, h2⟩ := ih _ h
            exact ⟨by omega, fun _ => h2 (by omega)⟩
          · cases h; exact ⟨Nat.le_refl _, id⟩
    · cases h; exact ⟨Nat.le_refl _, id⟩

theorem visScan_mem (cond : Nat → Bool) (j f k x : Nat) (h : x ∈ visScan cond j f k) :
    k ≤ x ∧ (k ≤ j → x ≤ j) := by
  induction f generalizing k with
  | zero => simp [visScan] at h; subst h; exact ⟨Nat.le_refl _, id⟩
  | succ f ih =>
    simp only [visScan, List.mem_cons] at h
    rcases h with rfl | h
    · exact ⟨Nat.le_refl _, id⟩
    · split at h
      · rename_i hc
        have hk : k < j := by simp at hc; exact hc.2
        obtain ⟨h1, h2⟩ := ih _ h
        exact ⟨by omega, fun _ => h2 (by omega)⟩
      · simp at h

/-- the visibility kernels (`_visibility_relations_missingvalues`,
`_no_missingvalues`, `_horizontal`) evaluate `x[·]`, `t[·]`, `mv_indices[·]`,
`A[·,·]` only at indices `< N`, whatever the data (`cond`) are: the loops
`while … and k < j` read `x[k]` before testing `k < j`, but `k ≤ j < N`. -/
theorem visIndices_lt (cond : Nat → Nat → Nat → Bool) (N : Nat) :
    ∀ x ∈ visIndices cond N, x < N := by
  intro x hx
  simp only [visIndices, List.mem_append, List.mem_flatMap, List.mem_range, List.mem_cons,
    List.not_mem_nil, or_false] at hx
  rcases hx with ⟨i, hi, dj, hdj, h⟩ | ⟨i, hi, h⟩
  · rcases h with (rfl | rfl) | h
    · omega
    · omega
    · obtain ⟨h1, h2⟩ := visScan_mem _ _ _ _ _ h
      have := h2 (by omega)
      omega
  · rcases h with rfl | rfl <;> omega

example : visIndices (fun _ _ _ => true) 4 ≠ [] := by decide

/-- `_set_adaptive_neighborhood_size` on well-formed arguments (an `n × n`
recurrence matrix, neighbour table and processing order holding state numbers
`< n` — what `RecurrencePlot.set_adaptive_neighborhood_size` passes) presents no
index outside a buffer: for every size `a`, every `n_time`, every prefilled
matrix it returns a matrix (no IndexError) of the same shape.  The kernel is
therefore safe on the public path even without Cython's bounds checks. -/
theorem adaptive_valid_ok (n nT a : Nat) (sn : IMat) (order : List Int) (recur : IMat)
    (h : tablesOK n nT sn order recur = true) :
    ∃ r', adaptive nT a sn order recur = some r' ∧ Square n r' := by
  obtain ⟨hr, hs, ho⟩ := tablesOK_sound h
  exact outer_some hs ho (List.range a) recur hr

example : tablesOK 3 3 [[0, 1, 2], [1, 0, 2], [2, 1, 0]] [2, 0, 1] [[0,0,1],[0,0,0],[1,0,0]] = true := by
  decide
/-- an entry of the neighbour table outside `[0, n)` is answered by IndexError -/
example : tablesOK 2 2 [[0, 2], [1, 0]] [0, 1] [[0, 0], [0, 0]] = false
    ∧ adaptive 2 1 [[0, 2], [1, 0]] [0, 1] [[0, 0], [0, 0]] = none := by decide

/-- dense neighbourhoods: the scan stops at `k = n_time` without reading
`sorted_neighbors[l, n_time]` and no link is added (the pinned kernel raised IndexError here) -/
example : adaptive 2 2 [[0, 1], [1, 0]] [0, 1] [[0, 0], [0, 0]] = some [[0, 1], [1, 0]] := by decide
example : adaptive 3 1 [[0, 1, 2], [1, 0, 2], [2, 1, 0]] [0, 1, 2] [[0,0,0],[0,0,0],[0,0,0]]
    = some [[0, 1, 1], [1, 0, 1], [1, 1, 0]] := by decide

end Pyunicorn.WhileKernels

/-! # Statements about the index arithmetic and allocation sizes *as regenerated from
the current source* by `translate/gen_C20.py`

`Generated/StructC20.lean` lists, for each raw-pointer C routine, every array
subscript and every pointer formed from an array parameter by closed-form
arithmetic (with the enclosing `for` ranges and the C integer type the
expression is evaluated in), and for each Cython wrapper the arrays it
allocates, the casts it applies and the parameter types of the C function.
The theorems below hold for all sizes; they stop compiling when the source
changes a stride, a loop bound, an allocation or a pointee type. -/
namespace Pyunicorn.Access
open Pyunicorn.Generated.StructC20

/-- a site is fine for an array of `cnt` elements: a subscript lies in `[0, cnt)`,
a formed pointer in `[0, cnt]` (one past the end at most) -/
def siteFine (s : Site) (cnt : Int) : Prop :=
  0 ≤ s.idx ∧ (if s.kind = 0 then s.idx < cnt else s.idx ≤ cnt)

/-- no integer sub-expression of the site leaves the range of its C type -/
def siteFits (s : Site) : Prop :=
  ∀ v ∈ s.subs, -((2 : Int) ^ (s.bits - 1)) ≤ v ∧ v < (2 : Int) ^ (s.bits - 1)

/-- 64-bit sites: no sub-expression exceeds the element count of its array (so `long`
arithmetic cannot overflow for any array that fits in memory) -/
def siteFits' (s : Site) (c1 c2 : Int) : Prop := ∀ v ∈ s.subs, 0 ≤ v ∧ (v ≤ c1 ∨ v ≤ c2)

/-- closes the per-site goals; the row facts (`row2` instances, stated as
implications) must be in the context -/
macro "site_bounds" : tactic => `(tactic| (
  intro g
  simp only [siteFine, siteFits, List.forall_mem_cons, List.not_mem_nil, false_imp_iff,
    implies_true, and_true, if_true, if_false, Nat.one_ne_zero, Nat.reduceSub] at *
  all_goals omega))

/-! ## `_spearman_corr` -/

/-- element counts of the arrays of `_spearman_corr` for an `m × tmax` input
(`spearmanSizes` is these counts times the element widths) -/
def spearmanCnt (m tmax : Int) : String → Int
  | "final_mask" => m * tmax
  | "time_series_ranked" => m * tmax
  | "spearman_rho" => m * m
  | "rankedi" | "rankedj" | "normalizedi" | "normalizedj" => tmax
  | _ => 0

theorem spearmanSizes_eq (m tmax : Nat) :
    (spearmanSizes m tmax).map (fun (b : Nat) => (b : Int)) =
      [spearmanCnt m tmax "final_mask" * 1, spearmanCnt m tmax "time_series_ranked" * 4,
       spearmanCnt m tmax "spearman_rho" * 4, spearmanCnt m tmax "rankedi" * 8,
       spearmanCnt m tmax "rankedj" * 8, spearmanCnt m tmax "normalizedi" * 8,
       spearmanCnt m tmax "normalizedj" * 8] := by
  simp [spearmanSizes, spearmanCnt]

/-- every subscript in the current text of `_spearman_corr` is inside its array,
for all `m`, `tmax` and all values of the loop variables in their ranges -/
theorem spearman_sites_fine (m tmax i j t : Int) :
    ∀ s ∈ spearman_sites m tmax i j t, s.guard → siteFine s (spearmanCnt m tmax s.arr) := by
  have r1 := @row2 i m tmax; have r2 := @row2 j m tmax
  have r3 := @row2 i m m; have r4 := @row2 j m m
  simp only [spearman_sites, List.forall_mem_cons, List.not_mem_nil, false_imp_iff,
    implies_true, and_true, spearmanCnt]
  (with_reducible and_intros) <;> site_bounds

/-- no `int` index expression of `_spearman_corr` overflows, provided the element
counts `m·tmax` and `m·m` are below 2^31 -/
theorem spearman_sites_fit (m tmax i j t : Int) (h1 : m * tmax < 2 ^ 31) (h2 : m * m < 2 ^ 31) :
    ∀ s ∈ spearman_sites m tmax i j t, s.guard → siteFits s := by
  have r1 := @row2 i m tmax; have r2 := @row2 j m tmax
  have r3 := @row2 i m m; have r4 := @row2 j m m
  simp only [spearman_sites, List.forall_mem_cons, List.not_mem_nil, false_imp_iff,
    implies_true, and_true]
  (with_reducible and_intros) <;> site_bounds

example : (spearman_sites 2 3 1 1 2).length = 24 := by decide


/-! ## `_test_pearson_correlation_fast` -/

def pearsonCnt (N n_time : Int) : String → Int
  | "original_data" => N * n_time
  | "surrogates" => N * n_time
  | "correlation" => N * N
  | _ => 0
/-- number of elements walked from a formed row pointer (`p++` in the inner loop) -/
def pearsonRow (N n_time : Int) : String → Int
  | "correlation" => N
  | "original_data" => n_time
  | "surrogates" => n_time
  | _ => 0

/-- every row pointer formed in the current text of `_test_pearson_correlation_fast`
points into its array and the whole row walked from it lies inside -/
theorem pearson_sites_fine (n_time N i j k : Int) (hT : 0 ≤ n_time) :
    ∀ s ∈ pearson_sites n_time N i j k, s.guard →
      siteFine s (pearsonCnt N n_time s.arr)
      ∧ s.idx + pearsonRow N n_time s.arr ≤ pearsonCnt N n_time s.arr := by
  have r1 := @row2 i N N; have r2 := @row2 i N n_time; have r3 := @row2 j N n_time
  simp only [pearson_sites, List.forall_mem_cons, List.not_mem_nil, false_imp_iff,
    implies_true, and_true, pearsonCnt, pearsonRow]
  (with_reducible and_intros) <;> site_bounds

theorem pearson_sites_fit (n_time N i j k : Int) (hT : 0 ≤ n_time)
    (h1 : N * n_time < 2 ^ 31) (h2 : N * N < 2 ^ 31) :
    ∀ s ∈ pearson_sites n_time N i j k, s.guard → siteFits s := by
  have r1 := @row2 i N N; have r2 := @row2 i N n_time; have r3 := @row2 j N n_time
  simp only [pearson_sites, List.forall_mem_cons, List.not_mem_nil, false_imp_iff,
    implies_true, and_true]
  (with_reducible and_intros) <;> site_bounds

example : (pearson_sites 3 2 1 1 0).length = 3 := by decide

/-! ## the mutual-information routines: closed-form pointer formations -/

def tmiCnt (N n_bins : Int) : String → Int
  | "mi" => N * N
  | "hist2d" => n_bins * n_bins
  | _ => 0

theorem tmi_sites_fine (N n_time n_bins i k j l m : Int) :
    ∀ s ∈ tmi_sites N n_time n_bins i k j l m, s.guard →
      siteFine s (tmiCnt N n_bins s.arr) ∧ siteFits' s (N * N) (n_bins * n_bins) := by
  have r1 := @row2 i N N; have r2 := @row2 l n_bins n_bins
  simp only [tmi_sites, List.forall_mem_cons, List.not_mem_nil, false_imp_iff,
    implies_true, and_true, tmiCnt, siteFits']
  (with_reducible and_intros) <;> site_bounds

/-- `p_mi2 = mi + i` in `_mutual_information` -/
theorem mi_sites_fine (n_samples N n_bins i k j l m : Int) :
    ∀ s ∈ mi_sites n_samples N n_bins i k j l m, s.guard → siteFine s (N * N) := by
  have r1 := @row2 0 N N
  simp only [mi_sites, List.forall_mem_cons, List.not_mem_nil, false_imp_iff,
    implies_true, and_true]
  site_bounds

/-! ## current-flow betweenness -/

def cfbCnt (N : Int) : String → Int
  | "admittance" | "R" | "ECFB" => N * N
  | _ => 0

/-- every subscript in the current text of `_vertex_current_flow_betweenness_fast`
is inside its `N × N` array for every node index `0 ≤ i < N` (what the method
guarantees), and no `int` expression overflows when `N·N < 2^31` -/
theorem vcfb_sites_fine (N i t s j : Int) (hi0 : 0 ≤ i) (hi : i < N) :
    ∀ x ∈ vcfb_sites N i t s j, x.guard → siteFine x (cfbCnt N x.arr) := by
  have r1 := @row2 i N N; have r2 := @row2 j N N
  simp only [vcfb_sites, List.forall_mem_cons, List.not_mem_nil, false_imp_iff,
    implies_true, and_true, cfbCnt]
  (with_reducible and_intros) <;> site_bounds

theorem vcfb_sites_fit (N i t s j : Int) (hi0 : 0 ≤ i) (hi : i < N) (h : N * N < 2 ^ 31) :
    ∀ x ∈ vcfb_sites N i t s j, x.guard → siteFits x := by
  have r1 := @row2 i N N; have r2 := @row2 j N N
  simp only [vcfb_sites, List.forall_mem_cons, List.not_mem_nil, false_imp_iff,
    implies_true, and_true]
  (with_reducible and_intros) <;> site_bounds

theorem ecfb_sites_fine (N i j t s : Int) :
    ∀ x ∈ ecfb_sites N i j t s, x.guard → siteFine x (cfbCnt N x.arr) := by
  have r1 := @row2 i N N; have r2 := @row2 j N N
  simp only [ecfb_sites, List.forall_mem_cons, List.not_mem_nil, false_imp_iff,
    implies_true, and_true, cfbCnt]
  (with_reducible and_intros) <;> site_bounds

theorem ecfb_sites_fit (N i j t s : Int) (h : N * N < 2 ^ 31) :
    ∀ x ∈ ecfb_sites N i j t s, x.guard → siteFits x := by
  have r1 := @row2 i N N; have r2 := @row2 j N N
  simp only [ecfb_sites, List.forall_mem_cons, List.not_mem_nil, false_imp_iff,
    implies_true, and_true]
  (with_reducible and_intros) <;> site_bounds

example : (vcfb_sites 3 1 2 0 1).length = 5 ∧ (ecfb_sites 3 1 2 1 0).length = 6 := by decide

/-! ## the wrappers: allocations, casts and parameter types as they are in the source -/

def lookupW (n : String) (l : List (String × Nat)) : Option Nat := (l.find? (·.1 == n)).map (·.2)

/-- each array the wrapper allocates is handed over through a cast whose pointee
is as wide as the array's dtype, and each typed buffer parameter likewise -/
def castsAgree (allocs : List (String × Nat × Nat)) (bufs : List (String × Nat × Nat × Bool))
    (ptrargs : List (String × Nat)) : Bool :=
  allocs.all (fun a => lookupW a.1 ptrargs == some a.2.2)
  && bufs.all (fun b => lookupW b.1 ptrargs == some b.2.1)
  && ptrargs.all (fun p => allocs.any (·.1 == p.1) || bufs.any (·.1 == p.1))

/-- in the current source: every pointer argument is cast to a pointee of the
width of the array's dtype; the C functions declare pointees of the same widths
in the same order (the pinned `int *final_mask` fails this); scalar arguments
are passed in the order of the C parameters -/
theorem wrappers_casts_agree :
    castsAgree (mi_allocs 0 0 0) mi_bufparams mi_ptrargs = true
    ∧ castsAgree (spearman_allocs 0 0) spearman_bufparams spearman_ptrargs = true
    ∧ castsAgree (pearson_allocs 0 0) pearson_bufparams pearson_ptrargs = true
    ∧ castsAgree (tmi_allocs 0 0 0) tmi_bufparams tmi_ptrargs = true
    ∧ castsAgree (vcfb_allocs 0 0) vcfb_bufparams vcfb_ptrargs = true
    ∧ castsAgree (ecfb_allocs 0) ecfb_bufparams ecfb_ptrargs = true
    ∧ mi_ptrargs.map (·.2) = mi_cptrs.map (·.2)
    ∧ spearman_ptrargs.map (·.2) = spearman_cptrs.map (·.2)
    ∧ pearson_ptrargs.map (·.2) = pearson_cptrs.map (·.2)
    ∧ tmi_ptrargs.map (·.2) = tmi_cptrs.map (·.2)
    ∧ vcfb_ptrargs.map (·.2) = vcfb_cptrs.map (·.2)
    ∧ ecfb_ptrargs.map (·.2) = ecfb_cptrs.map (·.2)
    ∧ mi_scalarargs = mi_cscalars ∧ spearman_scalarargs = spearman_cscalars
    ∧ pearson_scalarargs = pearson_cscalars ∧ tmi_scalarargs = tmi_cscalars
    ∧ vcfb_scalarargs = vcfb_cscalars ∧ ecfb_scalarargs = ecfb_cscalars := by decide

def allocBytes (l : List (String × Nat × Nat)) : List Nat := l.map fun a => a.2.1 * a.2.2

/-- the byte sizes the access-trace theorems are stated for are the ones the
current wrappers allocate (caller arrays first, as `to_cy` copies them) -/
theorem model_sizes_are_allocations (N T nb m tmax : Nat) :
    miSizes N T nb = [N * T * 4] ++ allocBytes (mi_allocs T N nb)
    ∧ spearmanSizes m tmax = [m * tmax * 1, m * tmax * 4] ++ allocBytes (spearman_allocs m tmax)
        ++ [tmax * 8, tmax * 8, tmax * 8, tmax * 8]
    ∧ pearsonSizes N T N T = [N * T * 8, N * T * 8] ++ allocBytes (pearson_allocs N T)
    ∧ tmiSizes N T N T nb = [N * T * 8, N * T * 8] ++ allocBytes (tmi_allocs N T nb)
    ∧ cfbSizes N = [N * N * 4, N * N * 4] ++ allocBytes (ecfb_allocs N) := by
  refine ⟨rfl, rfl, rfl, rfl, rfl⟩

/-! ## census -/

/-- the typed-buffer kernels are compiled with bounds checks and without
wrap-around, no function overrides that locally, and the only functions of the
four `numerics.pyx` that use raw pointers are the six wrappers modelled above -/
theorem raw_pointer_census :
    cy_boundscheck = true ∧ cy_wraparound = false ∧ pyx_overrides = []
    ∧ rawptr_functions =
      [("climate", "mutual_information", 5), ("climate", "spearman_corr", 3),
       ("core", "_edge_current_flow_betweenness", 3), ("core", "_vertex_current_flow_betweenness", 2),
       ("timeseries", "_test_mutual_information", 8), ("timeseries", "_test_pearson_correlation", 3)] := by
  decide

end Pyunicorn.Access

/-! # The typed-buffer Cython kernels (round 3)

`Generated/StructC20Pyx.lean` (translate/gen_C20.py + c20_pyx.py, regenerated on every run)
lists, for every function of the four `numerics.pyx`, every subscript of a typed buffer whose
index expressions are closed-form integer arithmetic over the integer parameters, the
variables of the enclosing `for v in range(..)` loops and single-assignment locals — one
`PSite` per axis, with the extent of that axis (the allocation expression of a local array,
the shape symbol `<arr>_<axis>` of a parameter) and the loop ranges.  `<kernel>_contract` is
what the Python callers pass (translate/c20_contracts.json; the harness evaluates the same
relations on every kernel call it observes under the public API).  Each theorem below says:
under the contract, for **all** sizes and all values of the loop variables in their ranges,
every such index lies in `[0, extent)` — so these subscripts never raise IndexError on the
public path and would be inside their buffers even without Cython's bounds check; a negative
index (which `wraparound=False` would not wrap) is never formed.  Subscripts whose index is
read from memory, drawn at random or advanced by a `while` loop are listed in
`<kernel>_checked` and stay with the bounds check (`raw_pointer_census`), except the
adaptive-neighbourhood and visibility scans, which are modelled in `WhileKernels`. -/
namespace Pyunicorn.Access
open Pyunicorn.Generated.StructC20Pyx

/-- every listed index is inside its axis whenever the loop variables are in their ranges -/
def PFine (l : List PSite) : Prop := ∀ s ∈ l, s.g = true → 0 ≤ s.idx ∧ s.idx < s.dim

macro "psites_auto" : tactic => `(tactic| (
  simp only [PFine, List.forall_mem_cons, List.not_mem_nil, false_imp_iff, implies_true, and_true]
  (with_reducible and_intros) <;> (
    intro g
    try simp only [Bool.and_eq_true, decide_eq_true_eq] at g
    omega)))

/-- `core:overwriteAdjacency` (numerics.pyx:122): 4 closed-form index expressions; 2 subscripts left to the bounds check -/
theorem core_overwriteAdjacency_fine (v : String → Int) (h : core_overwriteAdjacency_contract v) :
    PFine (core_overwriteAdjacency_psites v) := by
  unfold core_overwriteAdjacency_contract at h
  unfold core_overwriteAdjacency_psites
  psites_auto

/-- `core:_cross_transitivity` (numerics.pyx:200): 3 closed-form index expressions; 4 subscripts left to the bounds check -/
theorem core_cross_transitivity_fine (v : String → Int) (h : core_cross_transitivity_contract v) :
    PFine (core_cross_transitivity_psites v) := by
  unfold core_cross_transitivity_contract at h
  unfold core_cross_transitivity_psites
  psites_auto

/-- `core:_nsi_cross_transitivity` (numerics.pyx:228): 3 closed-form index expressions; 6 subscripts left to the bounds check -/
theorem core_nsi_cross_transitivity_fine (v : String → Int) (h : core_nsi_cross_transitivity_contract v) :
    PFine (core_nsi_cross_transitivity_psites v) := by
  unfold core_nsi_cross_transitivity_contract at h
  unfold core_nsi_cross_transitivity_psites
  psites_auto

/-- `core:_cross_local_clustering` (numerics.pyx:260): 6 closed-form index expressions; 3 subscripts left to the bounds check -/
theorem core_cross_local_clustering_fine (v : String → Int) (h : core_cross_local_clustering_contract v) :
    PFine (core_cross_local_clustering_psites v) := by
  unfold core_cross_local_clustering_contract at h
  unfold core_cross_local_clustering_psites
  psites_auto

/-- `core:_nsi_cross_local_clustering` (numerics.pyx:288): 5 closed-form index expressions; 5 subscripts left to the bounds check -/
theorem core_nsi_cross_local_clustering_fine (v : String → Int) (h : core_nsi_cross_local_clustering_contract v) :
    PFine (core_nsi_cross_local_clustering_psites v) := by
  unfold core_nsi_cross_local_clustering_contract at h
  unfold core_nsi_cross_local_clustering_psites
  psites_auto

/-- `core:_local_cliquishness_4thorder` (numerics.pyx:316): 4 closed-form index expressions; 7 subscripts left to the bounds check -/
theorem core_local_cliquishness_4thorder_fine (v : String → Int) (h : core_local_cliquishness_4thorder_contract v) :
    PFine (core_local_cliquishness_4thorder_psites v) := by
  unfold core_local_cliquishness_4thorder_contract at h
  unfold core_local_cliquishness_4thorder_psites
  psites_auto

/-- `core:_local_cliquishness_5thorder` (numerics.pyx:355): 4 closed-form index expressions; 11 subscripts left to the bounds check -/
theorem core_local_cliquishness_5thorder_fine (v : String → Int) (h : core_local_cliquishness_5thorder_contract v) :
    PFine (core_local_cliquishness_5thorder_psites v) := by
  unfold core_local_cliquishness_5thorder_contract at h
  unfold core_local_cliquishness_5thorder_psites
  psites_auto

/-- `core:_nsi_betweenness` (numerics.pyx:399): 8 closed-form index expressions; 30 subscripts left to the bounds check -/
theorem core_nsi_betweenness_fine (v : String → Int) (h : core_nsi_betweenness_contract v) :
    PFine (core_nsi_betweenness_psites v) := by
  unfold core_nsi_betweenness_contract at h
  unfold core_nsi_betweenness_psites
  psites_auto

/-- `core:_mpi_newman_betweenness` (numerics.pyx:498): 11 closed-form index expressions -/
theorem core_mpi_newman_betweenness_fine (v : String → Int) (h : core_mpi_newman_betweenness_contract v) :
    PFine (core_mpi_newman_betweenness_psites v) := by
  unfold core_mpi_newman_betweenness_contract at h
  unfold core_mpi_newman_betweenness_psites
  psites_auto

/-- `core:_mpi_nsi_newman_betweenness` (numerics.pyx:535): 18 closed-form index expressions -/
theorem core_mpi_nsi_newman_betweenness_fine (v : String → Int) (h : core_mpi_nsi_newman_betweenness_contract v) :
    PFine (core_mpi_nsi_newman_betweenness_psites v) := by
  unfold core_mpi_nsi_newman_betweenness_contract at h
  unfold core_mpi_nsi_newman_betweenness_psites
  psites_auto

/-- `core:_calculate_angular_distance` (numerics.pyx:570): 12 closed-form index expressions -/
theorem core_calculate_angular_distance_fine (v : String → Int) (h : core_calculate_angular_distance_contract v) :
    PFine (core_calculate_angular_distance_psites v) := by
  unfold core_calculate_angular_distance_contract at h
  unfold core_calculate_angular_distance_psites
  psites_auto

/-- `core:_calculate_euclidean_distance` (numerics.pyx:594): 8 closed-form index expressions -/
theorem core_calculate_euclidean_distance_fine (v : String → Int) (h : core_calculate_euclidean_distance_contract v) :
    PFine (core_calculate_euclidean_distance_psites v) := by
  unfold core_calculate_euclidean_distance_contract at h
  unfold core_calculate_euclidean_distance_psites
  psites_auto

/-- `funcnet:_symmetrize_by_absmax` (numerics.pyx:24): 4 closed-form index expressions; 4 subscripts left to the bounds check -/
theorem fn_symmetrize_by_absmax_fine (v : String → Int) (h : fn_symmetrize_by_absmax_contract v) :
    PFine (fn_symmetrize_by_absmax_psites v) := by
  unfold fn_symmetrize_by_absmax_contract at h
  unfold fn_symmetrize_by_absmax_psites
  psites_auto

/-- `funcnet:_cross_correlation_max` (numerics.pyx:46): 10 closed-form index expressions -/
theorem fn_cross_correlation_max_fine (v : String → Int) (h : fn_cross_correlation_max_contract v) :
    PFine (fn_cross_correlation_max_psites v) := by
  unfold fn_cross_correlation_max_contract at h
  unfold fn_cross_correlation_max_psites
  psites_auto

/-- `funcnet:_cross_correlation_all` (numerics.pyx:82): 9 closed-form index expressions -/
theorem fn_cross_correlation_all_fine (v : String → Int) (h : fn_cross_correlation_all_contract v) :
    PFine (fn_cross_correlation_all_psites v) := by
  unfold fn_cross_correlation_all_contract at h
  unfold fn_cross_correlation_all_psites
  psites_auto

/-- `funcnet:_get_nearest_neighbors` (numerics.pyx:107): 38 closed-form index expressions; 12 subscripts left to the bounds check -/
theorem fn_get_nearest_neighbors_fine (v : String → Int) (h : fn_get_nearest_neighbors_contract v) :
    PFine (fn_get_nearest_neighbors_psites v) := by
  unfold fn_get_nearest_neighbors_contract at h
  unfold fn_get_nearest_neighbors_psites
  psites_auto

/-- `timeseries:_manhattan_distance_matrix_crp` (numerics.pyx:41): 6 closed-form index expressions -/
theorem ts_manhattan_distance_matrix_crp_fine (v : String → Int) (h : ts_manhattan_distance_matrix_crp_contract v) :
    PFine (ts_manhattan_distance_matrix_crp_psites v) := by
  unfold ts_manhattan_distance_matrix_crp_contract at h
  unfold ts_manhattan_distance_matrix_crp_psites
  psites_auto

/-- `timeseries:_euclidean_distance_matrix_crp` (numerics.pyx:62): 6 closed-form index expressions -/
theorem ts_euclidean_distance_matrix_crp_fine (v : String → Int) (h : ts_euclidean_distance_matrix_crp_contract v) :
    PFine (ts_euclidean_distance_matrix_crp_psites v) := by
  unfold ts_euclidean_distance_matrix_crp_contract at h
  unfold ts_euclidean_distance_matrix_crp_psites
  psites_auto

/-- `timeseries:_supremum_distance_matrix_crp` (numerics.pyx:83): 6 closed-form index expressions -/
theorem ts_supremum_distance_matrix_crp_fine (v : String → Int) (h : ts_supremum_distance_matrix_crp_contract v) :
    PFine (ts_supremum_distance_matrix_crp_psites v) := by
  unfold ts_supremum_distance_matrix_crp_contract at h
  unfold ts_supremum_distance_matrix_crp_psites
  psites_auto

/-- `timeseries:_embed_time_series_array` (numerics.pyx:108): 5 closed-form index expressions -/
theorem ts_embed_time_series_array_fine (v : String → Int) (h : ts_embed_time_series_array_contract v) :
    PFine (ts_embed_time_series_array_psites v) := by
  unfold ts_embed_time_series_array_contract at h
  unfold ts_embed_time_series_array_psites
  simp only [PFine, List.forall_mem_cons, List.not_mem_nil, false_imp_iff, implies_true, and_true]
  (with_reducible and_intros) <;> (
    intro g
    simp only [Bool.and_eq_true, decide_eq_true_eq] at g
    -- `index = j * delay + k` with `k < n_time - (dimension - 1) * delay`: the product is monotone in `j`
    have hj0 : 0 ≤ v "j" := by omega
    have hj1 : v "j" ≤ v "dimension" - 1 := by omega
    have ht : 0 ≤ v "delay" := by omega
    have h1 := Int.mul_nonneg hj0 ht
    have h2 := Int.mul_le_mul_of_nonneg_right hj1 ht
    omega)

/-- `timeseries:_recurrence_plot` (numerics.pyx:130): 8 closed-form index expressions -/
theorem ts_recurrence_plot_fine (v : String → Int) (h : ts_recurrence_plot_contract v) :
    PFine (ts_recurrence_plot_psites v) := by
  unfold ts_recurrence_plot_contract at h
  unfold ts_recurrence_plot_psites
  psites_auto

/-- `timeseries:_twins_s` (numerics.pyx:154): 20 closed-form index expressions; 2 subscripts left to the bounds check -/
theorem ts_twins_s_fine (v : String → Int) (h : ts_twins_s_contract v) :
    PFine (ts_twins_s_psites v) := by
  unfold ts_twins_s_contract at h
  unfold ts_twins_s_psites
  psites_auto

/-- `timeseries:_embed_time_series` (numerics.pyx:344): 3 closed-form index expressions -/
theorem ts_embed_time_series_fine (v : String → Int) (h : ts_embed_time_series_contract v) :
    PFine (ts_embed_time_series_psites v) := by
  unfold ts_embed_time_series_contract at h
  unfold ts_embed_time_series_psites
  simp only [PFine, List.forall_mem_cons, List.not_mem_nil, false_imp_iff, implies_true, and_true]
  (with_reducible and_intros) <;> (
    intro g
    simp only [Bool.and_eq_true, decide_eq_true_eq] at g
    -- `index = j * tau + k` with `k < n_time - (dim - 1) * tau`: the product is monotone in `j`
    have hj0 : 0 ≤ v "j" := by omega
    have hj1 : v "j" ≤ v "dim" - 1 := by omega
    have ht : 0 ≤ v "tau" := by omega
    have h1 := Int.mul_nonneg hj0 ht
    have h2 := Int.mul_le_mul_of_nonneg_right hj1 ht
    omega)

/-- `timeseries:_manhattan_distance_matrix_rp` (numerics.pyx:365): 8 closed-form index expressions -/
theorem ts_manhattan_distance_matrix_rp_fine (v : String → Int) (h : ts_manhattan_distance_matrix_rp_contract v) :
    PFine (ts_manhattan_distance_matrix_rp_psites v) := by
  unfold ts_manhattan_distance_matrix_rp_contract at h
  unfold ts_manhattan_distance_matrix_rp_psites
  psites_auto

/-- `timeseries:_euclidean_distance_matrix_rp` (numerics.pyx:385): 8 closed-form index expressions -/
theorem ts_euclidean_distance_matrix_rp_fine (v : String → Int) (h : ts_euclidean_distance_matrix_rp_contract v) :
    PFine (ts_euclidean_distance_matrix_rp_psites v) := by
  unfold ts_euclidean_distance_matrix_rp_contract at h
  unfold ts_euclidean_distance_matrix_rp_psites
  psites_auto

/-- `timeseries:_supremum_distance_matrix_rp` (numerics.pyx:406): 8 closed-form index expressions -/
theorem ts_supremum_distance_matrix_rp_fine (v : String → Int) (h : ts_supremum_distance_matrix_rp_contract v) :
    PFine (ts_supremum_distance_matrix_rp_psites v) := by
  unfold ts_supremum_distance_matrix_rp_contract at h
  unfold ts_supremum_distance_matrix_rp_psites
  psites_auto

/-- `timeseries:_set_adaptive_neighborhood_size` (numerics.pyx:428): 1 closed-form index expressions; 6 subscripts left to the bounds check -/
theorem ts_set_adaptive_neighborhood_size_fine (v : String → Int) (h : ts_set_adaptive_neighborhood_size_contract v) :
    PFine (ts_set_adaptive_neighborhood_size_psites v) := by
  unfold ts_set_adaptive_neighborhood_size_contract at h
  unfold ts_set_adaptive_neighborhood_size_psites
  psites_auto

/-- `timeseries:_bootstrap_distance_matrix_manhattan` (numerics.pyx:454): 5 closed-form index expressions; 2 subscripts left to the bounds check -/
theorem ts_bootstrap_distance_matrix_manhattan_fine (v : String → Int) (h : ts_bootstrap_distance_matrix_manhattan_contract v) :
    PFine (ts_bootstrap_distance_matrix_manhattan_psites v) := by
  unfold ts_bootstrap_distance_matrix_manhattan_contract at h
  unfold ts_bootstrap_distance_matrix_manhattan_psites
  psites_auto

/-- `timeseries:_bootstrap_distance_matrix_euclidean` (numerics.pyx:473): 5 closed-form index expressions; 2 subscripts left to the bounds check -/
theorem ts_bootstrap_distance_matrix_euclidean_fine (v : String → Int) (h : ts_bootstrap_distance_matrix_euclidean_contract v) :
    PFine (ts_bootstrap_distance_matrix_euclidean_psites v) := by
  unfold ts_bootstrap_distance_matrix_euclidean_contract at h
  unfold ts_bootstrap_distance_matrix_euclidean_psites
  psites_auto

/-- `timeseries:_bootstrap_distance_matrix_supremum` (numerics.pyx:493): 5 closed-form index expressions; 2 subscripts left to the bounds check -/
theorem ts_bootstrap_distance_matrix_supremum_fine (v : String → Int) (h : ts_bootstrap_distance_matrix_supremum_contract v) :
    PFine (ts_bootstrap_distance_matrix_supremum_psites v) := by
  unfold ts_bootstrap_distance_matrix_supremum_contract at h
  unfold ts_bootstrap_distance_matrix_supremum_psites
  psites_auto

/-- `timeseries:_twins_r` (numerics.pyx:530): 3 closed-form index expressions; 2 subscripts left to the bounds check -/
theorem ts_twins_r_fine (v : String → Int) (h : ts_twins_r_contract v) :
    PFine (ts_twins_r_psites v) := by
  unfold ts_twins_r_contract at h
  unfold ts_twins_r_psites
  psites_auto

/-- `timeseries:_visibility_relations_missingvalues` (numerics.pyx:801): 16 closed-form index expressions; 3 subscripts left to the bounds check -/
theorem ts_visibility_relations_missingvalues_fine (v : String → Int) (h : ts_visibility_relations_missingvalues_contract v) :
    PFine (ts_visibility_relations_missingvalues_psites v) := by
  unfold ts_visibility_relations_missingvalues_contract at h
  unfold ts_visibility_relations_missingvalues_psites
  psites_auto

/-- `timeseries:_visibility_relations_no_missingvalues` (numerics.pyx:829): 14 closed-form index expressions; 2 subscripts left to the bounds check -/
theorem ts_visibility_relations_no_missingvalues_fine (v : String → Int) (h : ts_visibility_relations_no_missingvalues_contract v) :
    PFine (ts_visibility_relations_no_missingvalues_psites v) := by
  unfold ts_visibility_relations_no_missingvalues_contract at h
  unfold ts_visibility_relations_no_missingvalues_psites
  psites_auto

/-- `timeseries:_visibility_relations_horizontal` (numerics.pyx:854): 10 closed-form index expressions; 1 subscripts left to the bounds check -/
theorem ts_visibility_relations_horizontal_fine (v : String → Int) (h : ts_visibility_relations_horizontal_contract v) :
    PFine (ts_visibility_relations_horizontal_psites v) := by
  unfold ts_visibility_relations_horizontal_contract at h
  unfold ts_visibility_relations_horizontal_psites
  psites_auto

/-- `timeseries:_retarded_local_clustering` (numerics.pyx:877): 9 closed-form index expressions -/
theorem ts_retarded_local_clustering_fine (v : String → Int) (h : ts_retarded_local_clustering_contract v) :
    PFine (ts_retarded_local_clustering_psites v) := by
  unfold ts_retarded_local_clustering_contract at h
  unfold ts_retarded_local_clustering_psites
  psites_auto

/-- `timeseries:_advanced_local_clustering` (numerics.pyx:902): 9 closed-form index expressions -/
theorem ts_advanced_local_clustering_fine (v : String → Int) (h : ts_advanced_local_clustering_contract v) :
    PFine (ts_advanced_local_clustering_psites v) := by
  unfold ts_advanced_local_clustering_contract at h
  unfold ts_advanced_local_clustering_psites
  psites_auto

/-- the hypotheses are satisfiable and the site lists are not empty: a 5-sample, 2-dimensional
embedding handed to the Manhattan kernel; `_embed_time_series` with `dim = 3`, `tau = 2` -/
example : ts_manhattan_distance_matrix_rp_contract
    (fun s => if s = "n_time" ∨ s = "embedding_0" then 5 else if s = "dim" ∨ s = "embedding_1" then 2 else 0) := by
  simp [ts_manhattan_distance_matrix_rp_contract]
example : (ts_manhattan_distance_matrix_rp_psites (fun _ => 0)).length = 8
    ∧ (ts_embed_time_series_psites (fun _ => 0)).length = 3 := by decide
/-- an embedding with too few rows violates the contract, and then a listed index does leave its axis -/
example : ¬ PFine (ts_manhattan_distance_matrix_rp_psites
    (fun s => if s = "n_time" then 5 else if s = "embedding_0" then 4 else if s = "j" then 4
      else if s = "dim" ∨ s = "embedding_1" then 2 else 0)) := by
  intro h
  unfold ts_manhattan_distance_matrix_rp_psites at h
  have := h _ List.mem_cons_self (by simp)
  simp at this

/-- integer counters of the kernels (`x += 1`, `x -= 1` on a typed C integer): every scalar counter
is at least 32 bits wide, and no buffer is counted in place in a narrower element type.  (Up to
round 3 the neighbour counter `nR` of `_twins_s` was int16; C15 showed that it loses twins from
`n_time = 65537` on and the counter was widened by a `fix:` commit, after which this census — which
reads the current source — lists no narrow counter at all.) -/
theorem narrow_counters_census :
    scalar_counters.all (fun c => decide (32 ≤ c.2.2.1)) = true
    ∧ buffer_counters.filter (fun c => decide (c.2.2.1 < 32)) = [] := by
  decide

end Pyunicorn.Access


/-! # Round 4: the size arguments as the calling Python methods pass them

`Generated/StructC20Py.lean` is regenerated on every run from `mutual_info.py`, `rainfall.py`,
`surrogates.py` and `resistive_network.py` (translate/c20_py.py): for each integer the Python method
hands to a raw-pointer Cython wrapper, where it takes it from.  The C routines trust these integers,
so they must describe *the array that is passed* — not the object (`self.N`), whose size a caller of
`calculate_similarity_measure(anomaly[:, :k])` is free to differ from. -/
namespace Pyunicorn.Access
open Pyunicorn.Generated.StructC20Py

def sizeKind (rows : List SizeRow) (cy : String) : Option (String × String × Nat × Nat) :=
  (rows.find? (fun r => r.1 == cy)).map (·.2)

/-- in the current source
 * `_cython_calculate_mutual_information` passes as `N`, `n_samples` the two axes of the (transposed)
   array it passes;
 * `spearman_corr` passes as `m`, `tmax` the axes of the ranked anomaly and rejects a mask of
   another shape;
 * the two surrogate tests pass the axes of `original_data` and reject surrogates of another shape;
 * the current-flow methods pass `self.N`, and the Cython wrappers compare it with both axes of both
   arrays they are given. -/
theorem wrappers_sizes_agree :
    sizeKind mi_pysizes "N" = some ("arr", "anomaly.1", 0, 0)
    ∧ sizeKind mi_pysizes "n_samples" = some ("arr", "anomaly.0", 0, 1)
    ∧ sizeKind spearman_pysizes "m" = some ("arr", "anomaly.0", 1, 0)
    ∧ sizeKind spearman_pysizes "tmax" = some ("arr", "anomaly.1", 1, 1)
    ∧ (0, 1) ∈ spearman_pychecks
    ∧ sizeKind pearson_pysizes "N" = some ("arr", "original_data.0", 0, 0)
    ∧ sizeKind pearson_pysizes "n_time" = some ("arr", "original_data.1", 0, 1)
    ∧ (1, 0) ∈ pearson_pychecks
    ∧ sizeKind tmi_pysizes "N" = some ("arr", "original_data.0", 0, 0)
    ∧ sizeKind tmi_pysizes "n_time" = some ("arr", "original_data.1", 0, 1)
    ∧ (1, 0) ∈ tmi_pychecks
    ∧ sizeKind vcfb_pysizes "N" = some ("self", "N", 0, 0)
    ∧ sizeKind ecfb_pysizes "N" = some ("self", "N", 0, 0)
    ∧ vcfb_cychecks = [("admittance", 0, "N"), ("admittance", 1, "N"), ("R", 0, "N"), ("R", 1, "N")]
    ∧ ecfb_cychecks = [("admittance", 0, "N"), ("admittance", 1, "N"), ("R", 0, "N"), ("R", 1, "N")] := by
  refine ⟨by decide, by decide, by decide, by decide, by decide, by decide, by decide, by decide,
    by decide, by decide, by decide, by decide, by decide, by decide, by decide⟩

/-- the public methods that reach the worker (`calculate_similarity_measure`,
`mutual_information`) pass the array only, so `n_bins` is the default of the signature, which is a
valid bin count (this is why the `n_bins = 0` hole of the private worker is not public) -/
theorem mi_public_nbins :
    mi_forwarders = [("calculate_similarity_measure", 1), ("mutual_information", 1)]
    ∧ mi_int_defaults = [("n_bins", 32)] := by decide

/-- `MutualInfoClimateNetwork.calculate_similarity_measure(anomaly)` /
`mutual_information(anomaly=…)` on an object with **any** number of nodes `self.N = objN`, for an
anomaly array of **any** shape: safe or raises — because the sizes handed to the kernel are read
off the generated table `mi_pysizes` and are those of the array itself.  (Hypotheses as in
`miCall_rejects_or_safe`; discharged in `miObjWrapperCall_rejects_or_safe`.) -/
theorem miObjCall_rejects_or_safe (objN N T : Nat) (nb : Int) (zdiv : Bool)
    (scaling rmin : Option Rat) (d : Data) (hnb : 1 ≤ nb)
    (hpos : ∀ i k sv mv v, scaling = some sv → rmin = some mv → d.at i k = some v →
      0 ≤ sv * (v - mv)) :
    miObjCall mi_pysizes objN N T nb zdiv scaling rmin d ≠ .oob := by
  have h1 : resolveSize mi_pysizes "N" [[N, T]] objN = some N := by
    simp [resolveSize, mi_pysizes]
  have h2 : resolveSize mi_pysizes "n_samples" [[N, T]] objN = some T := by
    simp [resolveSize, mi_pysizes]
  unfold miObjCall
  rw [h1, h2]
  simp only [and_self, if_true]
  exact miCall_rejects_or_safe N T nb zdiv scaling rmin d hnb hpos

/-- the same from the normalised float64 array down to the kernel, no hypothesis on the data left:
every array (NaN included), every monotone conversion double → float, every non-negative (or NaN /
infinite) `float scaling`, every `self.N` -/
theorem miObjWrapperCall_rejects_or_safe (rnd : Rat → Rat) (hmono : ∀ x y, x ≤ y → rnd x ≤ rnd y)
    (objN N T : Nat) (nb : Int) (hnb : 1 ≤ nb) (sc : Option Rat) (hsc : ∀ s, sc = some s → 0 ≤ s)
    (a : Data) : miObjWrapperCall rnd mi_pysizes objN N T nb sc a ≠ .oob := by
  unfold miObjWrapperCall
  apply miObjCall_rejects_or_safe _ _ _ _ _ _ _ _ hnb
  intro i k sv mv v hs hm hv
  rw [Data.at_map a (fun x => x.map rnd) rfl] at hv
  cases hmin : optMin a.flat with
  | none => simp [hmin] at hm
  | some mn =>
    cases hmax : optMax a.flat with
    | none => simp [hmin, hmax] at hs
    | some mx =>
      simp only [hmin, hmax] at hs
      simp only [hmin, Option.map_some, Option.some.injEq] at hm
      cases hw : a.at i k with
      | none => simp [hw] at hv
      | some w =>
        simp only [hw, Option.map_some, Option.some.injEq] at hv
        obtain ⟨w', hw', hle⟩ := optMin_le _ mn hmin _ (Data.at_mem_flat a i k w hw)
        cases hw'
        subst hm; subst hv
        have h1 : 0 ≤ rnd w - rnd mn := by
          have := hmono mn w hle
          grind
        exact Rat.mul_nonneg (hsc sv hs) h1

example : miObjWrapperCall id mi_pysizes 6 2 2 32 (some (1/2)) [[some 0, some 2], [some 1, some 2]]
    = .safe := by decide +kernel
example : miObjWrapperCall id mi_pysizes 1 2 2 32 (some 1) [[some 1, some 1], [some 1, some 1]]
    = .raise := by decide +kernel

/-- a method that passed `self.N` instead (the shape of seeded change C20-6): with an anomaly of
fewer columns than the object has nodes the kernel reads past the array; with more columns it stays
inside (and returns a matrix of the wrong size); with the object's own size nothing changes — which
is why no existing test notices -/
theorem miObjCall_selfN_oob_witness :
    let rows : List SizeRow := [("n_samples", "arr", "anomaly.0", 0, 1), ("N", "self", "N", 0, 0)]
    miObjCall rows 6 1 2 32 false (some (1/2)) (some 0) [[some 0, some 2]] = .oob
    ∧ miObjCall rows 1 2 2 32 false (some (1/2)) (some 0) [[some 0, some 2], [some 1, some 2]] = .safe
    ∧ miObjCall rows 2 2 2 32 false (some (1/2)) (some 0) [[some 0, some 2], [some 1, some 2]] = .safe := by
  decide +kernel


/-! ## the histogram range as the sources compute it -/

/-- in the current source `_test_mutual_information` takes `range_min` / `range_max` as the
minimum / maximum over **both** arrays and `scaling = 1/(range_max - range_min)`;
`_cython_calculate_mutual_information` takes them from the transposed copy that reaches the kernel
(seeded change C20-5, `surrogates.max()` inside `range_min`, breaks the first line) -/
theorem range_terms_agree :
    tmi_range_min = ("np.min", [("original_data", "min"), ("surrogates", "min")])
    ∧ tmi_range_max = ("np.max", [("original_data", "max"), ("surrogates", "max")])
    ∧ tmi_scaling = "1.0 / (range_max - range_min)"
    ∧ mi_anomaly_last = "anomaly.T.copy()"
    ∧ mi_range_min = "float(anomaly.min())" ∧ mi_range_max = "float(anomaly.max())"
    ∧ mi_scaling = "1.0 / (range_max - range_min)" := by
  refine ⟨by decide, by decide, by decide, by decide, by decide, by decide, by decide⟩

/-- the model of `tmiCall` *is* the kernel verdict for the minimum / maximum over both arrays
(after the wrapper's rejections) -/
theorem tmiCall_eq_kernelVerdict (N T : Nat) (nb : Int) (dO dS : Data) (h1 : 1 ≤ nb)
    (h2 : nb < (2 : Int) ^ 31) (h3 : N * T ≠ 0) :
    tmiCall N T N T nb dO dS
      = tmiKernelVerdict (optMin (dO.flat ++ dS.flat)) (optMax (dO.flat ++ dS.flat)) N T nb dO dS := by
  unfold tmiCall tmiKernelVerdict
  rw [if_neg (by omega), if_neg (by simp), if_neg (by omega), if_neg h3]

/-- with the range read off the generated terms the kernel is safe on data where the surrogates
reach below the original's minimum, and a `range_min` that leaves the surrogates' minimum out (the
shape of seeded change C20-5: `np.min((original_data.min(), surrogates.max()))`) is out of bounds on
the same data — a negative bin number -/
theorem tmi_range_witness :
    let dO : Data := [[some 0, some 1]]
    let dS : Data := [[some (-2), some 1]]
    let r := rangeFrom dO dS tmi_range_min.2 tmi_range_max.2
    let r' := rangeFrom dO dS [("original_data", "min"), ("surrogates", "max")] tmi_range_max.2
    tmiKernelVerdict r.1 r.2 1 2 4 dO dS = .safe
    ∧ r = (optMin (dO.flat ++ dS.flat), optMax (dO.flat ++ dS.flat))
    ∧ tmiKernelVerdict r'.1 r'.2 1 2 4 dO dS = .oob := by
  decide +kernel

end Pyunicorn.Access


/-! # Round 4: `_line_dist` — the data-dependent subscripts of all RQA line histograms

`Model/LineIdx.lean` lists every buffer subscript `_line_dist` evaluates, in program order, for an
arbitrary recurrence predicate and an arbitrary missing-value mask; loop skeleton, index functions
(`i2J_*`, `ij2I_*`) and the nine wrappers' arguments are the generated definitions. -/
namespace Pyunicorn.LineIdx
open Pyunicorn.Generated.StructC20Py

/-- the model covers exactly the subscripts that occur in the source of `_line_dist` and of
`metric_supremum` (a further subscript in the source breaks this) -/
theorem line_dist_subscripts_covered :
    ld_subscripts = [("M", "I"), ("M", "j"), ("R", "I, j"), ("hist", "k-1")]
    ∧ ld_metric_loops = [("l", "dim")]
    ∧ ld_metric_subscripts = [("E", "I, l"), ("E", "j, l")]
    ∧ line_dist_wrappers.map (·.name) =
      ["_vertline_dist", "_diagline_dist", "_white_vertline_dist", "_vertline_dist_sequential",
       "_diagline_dist_sequential", "_vertline_dist_missingvalues", "_diagline_dist_missingvalues",
       "_vertline_dist_sequential_missingvalues", "_diagline_dist_sequential_missingvalues"] := by
  refine ⟨by decide, by decide, by decide, by decide⟩

/-- the index functions each of the nine wrappers passes keep row and column inside `[0, n_time)`
and the inner loop within `n_time` iterations — for **every** `n_time` (vertical lines: `I = i`,
`j < N = n_time`; diagonals: `N = n_time - 1`, `j ≤ i < N`, `1 ≤ I = N - i + j ≤ N`) -/
theorem geo_of_wrapper (w : LDWrap) (hw : w ∈ line_dist_wrappers) (n : Int) : Geo w n := by
  simp only [line_dist_wrappers, List.mem_cons, List.not_mem_nil, or_false] at hw
  rcases hw with rfl | rfl | rfl | rfl | rfl | rfl | rfl | rfl | rfl <;>
  · intro i hi0 hi
    simp only [ld_outer, ld_N, ld_inner, ld_I, i2J_vertline, i2J_diagline, ij2I_vertline,
      ij2I_diagline, Bool.false_eq_true, if_false, if_true] at hi ⊢
    refine ⟨by omega, by omega, ?_⟩
    intro j hj0 hj
    omega

/-- **every subscript `_line_dist` evaluates is inside its buffer**, for each of the nine wrappers,
every `n_time`, every embedding dimension, every recurrence matrix / embedding content (`line`) and
every missing-value mask (`miss`): `R[I, j]` with `I, j ∈ [0, n_time)` (only for `dim = 0`),
`E[I, l]`, `E[j, l]` with `l ∈ [0, dim)` (only for `dim ≠ 0`), `M[I]`, `M[j]` (only with
missing-value handling) and `hist[k-1] ∈ [0, n_time)` — the line length `k` never exceeds the number
of points visited in the current row, and a raised `missing_flag` means `k = 0`.  So these
subscripts never raise IndexError on the public path and would be safe without the bounds check. -/
theorem lineDist_in_bounds (w : LDWrap) (hw : w ∈ line_dist_wrappers) (n_time dim : Int)
    (line : Int → Int → Bool) (miss : Int → Bool) :
    ∀ e ∈ (lineDist w n_time dim line miss).1, e.within w.mv n_time dim := by
  unfold lineDist
  exact (outer_spec (n := n_time) (dim := dim) w (geo_of_wrapper w hw n_time) line miss _
    (fun i hi => mem_ints.mp hi)).1

/-- after the kernel `k = 0` and `missing_flag = False` (nothing is left uncounted) -/
theorem lineDist_final_state (w : LDWrap) (hw : w ∈ line_dist_wrappers) (n_time dim : Int)
    (line : Int → Int → Bool) (miss : Int → Bool) :
    (lineDist w n_time dim line miss).2 = ⟨0, false⟩ := by
  unfold lineDist
  exact (outer_spec (n := n_time) (dim := dim) w (geo_of_wrapper w hw n_time) line miss _
    (fun i hi => mem_ints.mp hi)).2

/-- with buffers of the extents the Python callers pass (`hist`: `n_time`; `R`: `n_time × n_time`
in matrix mode; `E`: `n_time × dim` in sequential mode; `M`: `n_time` with missing values — the
`*_null` arrays of the wrappers are never subscripted) the executable model never answers
IndexError, whatever the buffers contain -/
theorem lineDist_never_raises (w : LDWrap) (hw : w ∈ line_dist_wrappers) (n_time dim : Int) (x : Ext)
    (Rm Em : List (List Int)) (eps2 : Int) (Mm : List Int)
    (hh : n_time ≤ x.h0) (hR : dim = 0 → n_time ≤ x.r0 ∧ n_time ≤ x.r1)
    (hE : dim ≠ 0 → n_time ≤ x.e0 ∧ dim ≤ x.e1) (hM : w.mv = true → n_time ≤ x.m0) :
    outcome w n_time dim x Rm Em eps2 Mm ≠ none := by
  unfold outcome
  dsimp only
  rw [if_pos]
  · simp
  rw [List.all_eq_true]
  intro e he
  have h := lineDist_in_bounds w hw n_time dim _ _ e he
  cases e with
  | R I j =>
    obtain ⟨hd, a, b, c, d⟩ := h
    obtain ⟨r0, r1⟩ := hR hd
    simp only [Ev.ok, inr, Bool.and_eq_true, decide_eq_true_eq]
    omega
  | M i =>
    obtain ⟨hm, a, b⟩ := h
    have := hM hm
    simp only [Ev.ok, inr, Bool.and_eq_true, decide_eq_true_eq]
    omega
  | E r c =>
    obtain ⟨hd, a, b, c', d⟩ := h
    obtain ⟨e0, e1⟩ := hE hd
    simp only [Ev.ok, inr, Bool.and_eq_true, decide_eq_true_eq]
    omega
  | H i =>
    obtain ⟨a, b⟩ := h
    simp only [Ev.ok, inr, Bool.and_eq_true, decide_eq_true_eq]
    omega


/-! ### the nine wrappers under the contracts of `translate/c20_contracts.json`

(what `recurrence_plot.py` passes; validated on every observed call).  The buffers a wrapper does
not receive are its own `*_null` arrays of shape `(1, 0)` / `(0,)`. -/
open Pyunicorn.Generated.StructC20Pyx in
theorem ldw_length : line_dist_wrappers.length = 9 := by decide
open Pyunicorn.Generated.StructC20Pyx in
/-- `_vertline_dist` never raises IndexError under its contract, whatever its buffers contain -/
theorem ts_vertline_dist_fine (v : String → Int) (h : ts_vertline_dist_contract v)
    (Rm Em : List (List Int)) (eps2 : Int) (Mm : List Int) :
    outcome (line_dist_wrappers[0]'(by rw [ldw_length]; omega)) (v "n_time") (0)
      ⟨v "R_0", v "R_1", 0, 1, 0, v "hist_0"⟩ Rm Em eps2 Mm ≠ none := by
  obtain ⟨h1, h2, h3⟩ := h
  exact lineDist_never_raises _ (List.getElem_mem _) _ _ _ _ _ _ _ h1 (fun _ => ⟨h2, h3⟩) (fun hd => absurd rfl hd) (fun hm => by simp [line_dist_wrappers] at hm)
open Pyunicorn.Generated.StructC20Pyx in
/-- `_diagline_dist` never raises IndexError under its contract, whatever its buffers contain -/
theorem ts_diagline_dist_fine (v : String → Int) (h : ts_diagline_dist_contract v)
    (Rm Em : List (List Int)) (eps2 : Int) (Mm : List Int) :
    outcome (line_dist_wrappers[1]'(by rw [ldw_length]; omega)) (v "n_time") (0)
      ⟨v "R_0", v "R_1", 0, 1, 0, v "hist_0"⟩ Rm Em eps2 Mm ≠ none := by
  obtain ⟨h1, h2, h3⟩ := h
  exact lineDist_never_raises _ (List.getElem_mem _) _ _ _ _ _ _ _ h1 (fun _ => ⟨h2, h3⟩) (fun hd => absurd rfl hd) (fun hm => by simp [line_dist_wrappers] at hm)
open Pyunicorn.Generated.StructC20Pyx in
/-- `_white_vertline_dist` never raises IndexError under its contract, whatever its buffers contain -/
theorem ts_white_vertline_dist_fine (v : String → Int) (h : ts_white_vertline_dist_contract v)
    (Rm Em : List (List Int)) (eps2 : Int) (Mm : List Int) :
    outcome (line_dist_wrappers[2]'(by rw [ldw_length]; omega)) (v "n_time") (0)
      ⟨v "R_0", v "R_1", 0, 1, 0, v "hist_0"⟩ Rm Em eps2 Mm ≠ none := by
  obtain ⟨h1, h2, h3⟩ := h
  exact lineDist_never_raises _ (List.getElem_mem _) _ _ _ _ _ _ _ h1 (fun _ => ⟨h2, h3⟩) (fun hd => absurd rfl hd) (fun hm => by simp [line_dist_wrappers] at hm)
open Pyunicorn.Generated.StructC20Pyx in
/-- `_vertline_dist_sequential` never raises IndexError under its contract, whatever its buffers contain -/
theorem ts_vertline_dist_sequential_fine (v : String → Int) (h : ts_vertline_dist_sequential_contract v)
    (Rm Em : List (List Int)) (eps2 : Int) (Mm : List Int) :
    outcome (line_dist_wrappers[3]'(by rw [ldw_length]; omega)) (v "n_time") (v "dim")
      ⟨1, 0, 0, v "E_0", v "E_1", v "hist_0"⟩ Rm Em eps2 Mm ≠ none := by
  obtain ⟨h1, h2, h3, h4⟩ := h
  exact lineDist_never_raises _ (List.getElem_mem _) _ _ _ _ _ _ _ h1 (fun hd => by omega) (fun _ => ⟨h2, h3⟩) (fun hm => by simp [line_dist_wrappers] at hm)
open Pyunicorn.Generated.StructC20Pyx in
/-- `_diagline_dist_sequential` never raises IndexError under its contract, whatever its buffers contain -/
theorem ts_diagline_dist_sequential_fine (v : String → Int) (h : ts_diagline_dist_sequential_contract v)
    (Rm Em : List (List Int)) (eps2 : Int) (Mm : List Int) :
    outcome (line_dist_wrappers[4]'(by rw [ldw_length]; omega)) (v "n_time") (v "dim")
      ⟨1, 0, 0, v "E_0", v "E_1", v "hist_0"⟩ Rm Em eps2 Mm ≠ none := by
  obtain ⟨h1, h2, h3, h4⟩ := h
  exact lineDist_never_raises _ (List.getElem_mem _) _ _ _ _ _ _ _ h1 (fun hd => by omega) (fun _ => ⟨h2, h3⟩) (fun hm => by simp [line_dist_wrappers] at hm)
open Pyunicorn.Generated.StructC20Pyx in
/-- `_vertline_dist_missingvalues` never raises IndexError under its contract, whatever its buffers contain -/
theorem ts_vertline_dist_missingvalues_fine (v : String → Int) (h : ts_vertline_dist_missingvalues_contract v)
    (Rm Em : List (List Int)) (eps2 : Int) (Mm : List Int) :
    outcome (line_dist_wrappers[5]'(by rw [ldw_length]; omega)) (v "n_time") (0)
      ⟨v "R_0", v "R_1", v "M_0", 1, 0, v "hist_0"⟩ Rm Em eps2 Mm ≠ none := by
  obtain ⟨h1, h2, h3, h4⟩ := h
  exact lineDist_never_raises _ (List.getElem_mem _) _ _ _ _ _ _ _ h1 (fun _ => ⟨h2, h3⟩) (fun hd => absurd rfl hd) (fun _ => h4)
open Pyunicorn.Generated.StructC20Pyx in
/-- `_diagline_dist_missingvalues` never raises IndexError under its contract, whatever its buffers contain -/
theorem ts_diagline_dist_missingvalues_fine (v : String → Int) (h : ts_diagline_dist_missingvalues_contract v)
    (Rm Em : List (List Int)) (eps2 : Int) (Mm : List Int) :
    outcome (line_dist_wrappers[6]'(by rw [ldw_length]; omega)) (v "n_time") (0)
      ⟨v "R_0", v "R_1", v "M_0", 1, 0, v "hist_0"⟩ Rm Em eps2 Mm ≠ none := by
  obtain ⟨h1, h2, h3, h4⟩ := h
  exact lineDist_never_raises _ (List.getElem_mem _) _ _ _ _ _ _ _ h1 (fun _ => ⟨h2, h3⟩) (fun hd => absurd rfl hd) (fun _ => h4)
open Pyunicorn.Generated.StructC20Pyx in
/-- `_vertline_dist_sequential_missingvalues` never raises IndexError under its contract, whatever its buffers contain -/
theorem ts_vertline_dist_sequential_missingvalues_fine (v : String → Int) (h : ts_vertline_dist_sequential_missingvalues_contract v)
    (Rm Em : List (List Int)) (eps2 : Int) (Mm : List Int) :
    outcome (line_dist_wrappers[7]'(by rw [ldw_length]; omega)) (v "n_time") (v "dim")
      ⟨1, 0, v "M_0", v "E_0", v "E_1", v "hist_0"⟩ Rm Em eps2 Mm ≠ none := by
  obtain ⟨h1, h2, h3, h4, h5⟩ := h
  exact lineDist_never_raises _ (List.getElem_mem _) _ _ _ _ _ _ _ h1 (fun hd => by omega) (fun _ => ⟨h2, h3⟩) (fun _ => h5)
open Pyunicorn.Generated.StructC20Pyx in
/-- `_diagline_dist_sequential_missingvalues` never raises IndexError under its contract, whatever its buffers contain -/
theorem ts_diagline_dist_sequential_missingvalues_fine (v : String → Int) (h : ts_diagline_dist_sequential_missingvalues_contract v)
    (Rm Em : List (List Int)) (eps2 : Int) (Mm : List Int) :
    outcome (line_dist_wrappers[8]'(by rw [ldw_length]; omega)) (v "n_time") (v "dim")
      ⟨1, 0, v "M_0", v "E_0", v "E_1", v "hist_0"⟩ Rm Em eps2 Mm ≠ none := by
  obtain ⟨h1, h2, h3, h4, h5⟩ := h
  exact lineDist_never_raises _ (List.getElem_mem _) _ _ _ _ _ _ _ h1 (fun hd => by omega) (fun _ => ⟨h2, h3⟩) (fun _ => h5)

/-- `_vertline_dist`, `_diagline_dist` as generated -/
def ldVert : LDWrap := ⟨"_vertline_dist", i2J_vertline, ij2I_vertline, false, false, false, true, ("", "")⟩
def ldDiag : LDWrap := ⟨"_diagline_dist", i2J_diagline, ij2I_diagline, true, false, false, true, ("", "")⟩

/-- non-vacuity: the diagonal kernel on a 3 × 3 all-recurrent matrix visits `R[2, 0]`, `R[1, 0]`,
`R[2, 1]` and counts lines of lengths 1 and 2 -/
example : (lineDist ldDiag 3 0 (fun _ _ => true) (fun _ => false)).1
    = [.R 2 0, .H 0, .R 1 0, .R 2 1, .H 1] := by decide +kernel
/-- sharpness: a histogram one entry short, or an index function shifted by one, is an IndexError -/
example : outcome ldVert 2 0 ⟨2, 2, 0, 1, 0, 1⟩ [[1, 1], [1, 1]] [] 0 []
    = none := by decide +kernel
example : outcome ldVert 2 0 ⟨2, 2, 0, 1, 0, 2⟩ [[1, 1], [1, 1]] [] 0 []
    = some [0, 2] := by decide +kernel
example : outcome { ldDiag with ij2I := fun i j N => N - i + j + 1 }
    3 0 ⟨3, 3, 0, 1, 0, 3⟩ [[1, 1, 1], [1, 1, 1], [1, 1, 1]] [] 0 [] = none := by decide +kernel

end Pyunicorn.LineIdx

/-! # Round 5: `Surrogates.test_mutual_information` from the two arrays down to the kernel, over
IEEE data (NaN, `±inf`, finite)

Round 3 put infinities into the *symbol* (`symbolX_in_range`); the wrapper-level theorem
`tmiCall_rejects_or_safe` stayed on `Option Rat` data (NaN | finite) and the claim for infinite data
was "put together by hand".  `tmiCallX` models the wrapper as it is written — NaN-propagating
`min` / `max` of each array, `np.min` / `np.max` of the two, `1. / (range_max - range_min)` with
Cython's ZeroDivisionError — reading *which* extremes enter from the generated tables
(`tmi_range_min`, `tmi_range_max`, `tmi_scaling`; translate/c20_py.py). -/
namespace Pyunicorn.Access
open Pyunicorn.Generated.StructC20Py

/-- the conversion executed for a sample (to a signed integer of any width `bits`) is defined when the
scaling is not negative and `range_min` is a lower bound of the sample (or one of them is NaN) -/
theorem convOKX_of_bits (bits : Nat) (s m x : XR) (nb : Int) (hnb : 1 ≤ nb)
    (hb : nb ≤ (2 : Int) ^ (bits - 1)) (hs : s.notNeg = true)
    (hmx : m.isNan = true ∨ x.isNan = true ∨ XR.le m x = true) : convOKX bits s m nb x = true := by
  have hr : (XR.mul s (XR.sub x m)).notNeg = true :=
    XR.mul_notNeg _ _ hs (XR.sub_notNeg m x hmx)
  unfold convOKX
  generalize XR.mul s (XR.sub x m) = r at hr
  cases r with
  | nan => rfl
  | pinf => rfl
  | ninf => simp [XR.notNeg] at hr
  | fin q =>
    have hq : 0 ≤ q := by simpa [XR.notNeg] using hr
    simp only
    split
    · rename_i hlt
      have hnbpos : (0 : Rat) < (nb : Rat) := by exact_mod_cast (by omega : (0:Int) < nb)
      apply castDefined_of_bounds (nb := nb) _ _ hb
      · exact Rat.mul_nonneg hq (Rat.le_of_lt hnbpos)
      · calc q * (nb : Rat) < 1 * (nb : Rat) := Rat.mul_lt_mul_of_pos_right hlt hnbpos
          _ = nb := by simp
    · rfl

/-- the conversion executed for a sample is defined when the scaling is not negative and `range_min`
is a lower bound of the sample (or one of them is NaN) -/
theorem convOKX_of (s m x : XR) (nb : Int) (hnb : 1 ≤ nb) (hb : nb ≤ (2 : Int) ^ (32 - 1))
    (hs : s.notNeg = true)
    (hmx : m.isNan = true ∨ x.isNan = true ∨ XR.le m x = true) : convOKX 32 s m nb x = true :=
  convOKX_of_bits 32 s m x nb hnb hb hs hmx

/-- **The kernel on IEEE data, for every scaling and range_min of the right kind.**  For all shapes,
`1 ≤ n_bins < 2^31`, every `scaling` that is not negative (`≥ 0`, `+inf`, NaN — this covers
`1/(max-min)` computed exactly as well as its floating-point outcomes `0` after overflow of the range
and `+inf` for a subnormal range) and every `range_min` that is NaN or a lower bound of all non-NaN
samples of both arrays: no undefined float→int conversion is executed and every access of
`_test_mutual_information_fast` lies inside the arrays the wrapper allocates. -/
theorem tmiKernelX_safe (s m : XR) (N T : Nat) (nb : Int) (dO dS : XData)
    (hnb : 1 ≤ nb) (hbig : nb < (2 : Int) ^ 31) (hs : s.notNeg = true)
    (hm : m.isNan = true ∨ ∀ x, (x ∈ dO.flatten ∨ x ∈ dS.flatten) → x.isNan = true ∨ XR.le m x = true) :
    tmiKernelX s m N T nb dO dS = .safe := by
  have hb32 : nb ≤ (2 : Int) ^ (32 - 1) := by
    have : (2 : Int) ^ (32 - 1) = (2 : Int) ^ 31 := by decide
    omega
  have hcast : ((nb.toNat : Nat) : Int) = nb := Int.toNat_of_nonneg (by omega)
  have hmx : ∀ (d : XData), (∀ x ∈ d.flatten, x ∈ dO.flatten ∨ x ∈ dS.flatten) → ∀ i k,
      m.isNan = true ∨ (d.at i k).isNan = true ∨ XR.le m (d.at i k) = true := by
    intro d hd i k
    rcases hm with h | h
    · exact Or.inl h
    · rcases XData.at_mem d i k with hn | hmem
      · exact Or.inr (Or.inl hn)
      · rcases h _ (hd _ hmem) with h' | h'
        · exact Or.inr (Or.inl h')
        · exact Or.inr (Or.inr h')
  have inO : ∀ x ∈ dO.flatten, x ∈ dO.flatten ∨ x ∈ dS.flatten := fun _ h => Or.inl h
  have inS : ∀ x ∈ dS.flatten, x ∈ dO.flatten ∨ x ∈ dS.flatten := fun _ h => Or.inr h
  have conv : ∀ (d : XData), (∀ x ∈ d.flatten, x ∈ dO.flatten ∨ x ∈ dS.flatten) →
      convsOKX 32 N T s m nb d.at = true := by
    intro d hd
    simp only [convsOKX, List.all_eq_true, List.mem_range]
    intro i _ k _
    exact convOKX_of s m _ nb hnb hb32 hs (hmx d hd i k)
  have key : ∀ (d : XData), (∀ x ∈ d.flatten, x ∈ dO.flatten ∨ x ∈ dS.flatten) → ∀ i k,
      0 ≤ (symbolX s m nb (d.at i k)).getD 0
      ∧ (symbolX s m nb (d.at i k)).getD 0 < ((nb.toNat : Nat) : Int) := by
    intro d hd i k
    obtain ⟨v, hv, h0, h1⟩ := symbolX_in_range s m (d.at i k) nb hnb hs (hmx d hd i k)
    rw [hv, hcast]
    exact ⟨h0, h1⟩
  unfold tmiKernelX
  rw [conv dO inO, conv dS inS]
  simp only [Bool.and_self, if_true]
  exact verdictOf_ne_oob (tmi_in_bounds N T nb.toNat _ _
    (fun i k _ _ => key dO inO i k) (fun i k _ _ => key dS inS i k))

/-- what the generated range terms evaluate to -/
theorem rangeFromX_generated (dO dS : XData) :
    rangeFromX dO dS tmi_range_min tmi_range_max
      = some (XR.min2 (xrMin dO.flatten) (xrMin dS.flatten),
              XR.max2 (xrMax dO.flatten) (xrMax dS.flatten)) := by
  rfl

/-- the minimum over both arrays is NaN or a lower bound of every sample of both -/
theorem min2_xrMin_le (a b : List XR) :
    (XR.min2 (xrMin a) (xrMin b)).isNan = true ∨
      ∀ x, (x ∈ a ∨ x ∈ b) → XR.le (XR.min2 (xrMin a) (xrMin b)) x = true := by
  rcases XR.min2_spec (xrMin a) (xrMin b) with h | ⟨ha, hb⟩
  · exact Or.inl h
  · right
    intro x hx
    rcases hx with hx | hx
    · rcases xrMin_le a with hn | hl
      · rw [(XR.le_notNan ha).2] at hn; cases hn
      · exact XR.le_trans' ha (hl x hx)
    · rcases xrMin_le b with hn | hl
      · rw [(XR.le_notNan hb).2] at hn; cases hn
      · exact XR.le_trans' hb (hl x hx)

/-- `range_min ≤ range_max` unless one of them is NaN -/
theorem range_ordered (a b : List XR) :
    (XR.min2 (xrMin a) (xrMin b)).isNan = true ∨ (XR.max2 (xrMax a) (xrMax b)).isNan = true
    ∨ XR.le (XR.min2 (xrMin a) (xrMin b)) (XR.max2 (xrMax a) (xrMax b)) = true := by
  rcases XR.min2_spec (xrMin a) (xrMin b) with h | ⟨ha, _⟩
  · exact Or.inl h
  rcases XR.max2_spec (xrMax a) (xrMax b) with h | ⟨hA, _⟩
  · exact Or.inr (Or.inl h)
  right; right
  -- `a` is not empty, as its minimum is not NaN
  have hne : a ≠ [] := by
    intro e; subst e
    have := (XR.le_notNan ha).2
    rw [xrMin_nil] at this; cases this
  obtain ⟨x, hx⟩ := List.exists_mem_of_ne_nil _ hne
  rcases xrMin_le a with hn | hl
  · rw [(XR.le_notNan ha).2] at hn; cases hn
  rcases xrMax_ge a with hn | hg
  · rw [(XR.le_notNan hA).1] at hn; cases hn
  exact XR.le_trans' (XR.le_trans' ha (hl x hx)) (XR.le_trans' (hg x hx) hA)

/-- **`Surrogates.test_mutual_information` is safe or raises for every pair of shapes, every
`n_bins ∈ ℤ` and arrays holding any IEEE values** — NaN, `+inf`, `-inf`, finite, in any mixture —
with the range taken from where the current source takes it (the generated terms).  No hypothesis
left: `range_min` is NaN or a lower bound of both arrays (`min2_xrMin_le`), `range_max - range_min`
is not negative (`range_ordered`, `XR.sub_notNeg`), so its reciprocal is not negative or the division
raises (`XR.recip_notNeg`), and `tmiKernelX_safe` applies. -/
theorem tmiCallX_rejects_or_safe (N T N2 T2 : Nat) (nb : Int) (dO dS : XData) :
    tmiCallX tmi_range_min tmi_range_max tmi_scaling N T N2 T2 nb dO dS ≠ .oob := by
  unfold tmiCallX
  split
  · simp
  rename_i hnb
  split
  · simp
  split
  · simp
  rename_i hbig
  split
  · simp
  rw [if_neg (by decide)]
  rw [rangeFromX_generated]
  simp only
  have hd : (XR.sub (XR.max2 (xrMax dO.flatten) (xrMax dS.flatten))
      (XR.min2 (xrMin dO.flatten) (xrMin dS.flatten))).notNeg = true :=
    XR.sub_notNeg _ _ (range_ordered dO.flatten dS.flatten)
  split
  · simp
  · rename_i s hs
    rw [tmiKernelX_safe _ _ N T nb dO dS (by omega) (by omega) (XR.recip_notNeg hd hs)]
    · simp
    · rcases min2_xrMin_le dO.flatten dS.flatten with h | h
      · exact Or.inl h
      · exact Or.inr (fun x hx => Or.inr (h x hx))

/-- non-vacuity and sharpness.  (1) original `[0, +inf]`, surrogates `[-inf, 1]`: `range_min = -inf`,
`range_max = +inf`, `scaling = 1/inf = 0`, every rescaled value is `0·inf = NaN` — safe; (2) the same
with a NaN: range and scaling NaN — safe; (3) all `+inf`: `inf - inf = NaN` — safe; (4) constant data:
ZeroDivisionError; (5) a `range_min` that leaves the surrogates' minimum out (the shape of seeded
change C20-5) on finite data: a negative bin number — `oob`; (6) a `range_min` taken from the original
only, surrogates holding `-inf`: `range_min = 0`, `scaling = 1`, the sample `-inf` reaches `(int)` as
`-inf` — undefined conversion, `oob`; (7) the same at the kernel. -/
theorem tmiCallX_witness :
    tmiCallX tmi_range_min tmi_range_max tmi_scaling 1 2 1 2 4
        [[.fin 0, .pinf]] [[.ninf, .fin 1]] = .safe
    ∧ tmiCallX tmi_range_min tmi_range_max tmi_scaling 1 2 1 2 4
        [[.fin 0, .fin 1]] [[.ninf, .nan]] = .safe
    ∧ tmiCallX tmi_range_min tmi_range_max tmi_scaling 1 2 1 2 4
        [[.pinf, .pinf]] [[.pinf, .pinf]] = .safe
    ∧ tmiCallX tmi_range_min tmi_range_max tmi_scaling 1 2 1 2 4
        [[.fin 3, .fin 3]] [[.fin 3, .fin 3]] = .raise
    ∧ tmiCallX ("np.min", [("original_data", "min"), ("surrogates", "max")]) tmi_range_max tmi_scaling
        1 2 1 2 4 [[.fin 0, .fin 1]] [[.fin (-2), .fin 1]] = .oob
    ∧ tmiCallX ("np.min", [("original_data", "min"), ("original_data", "min")]) tmi_range_max tmi_scaling
        1 2 1 2 4 [[.fin 0, .fin 1]] [[.ninf, .fin 1]] = .oob
    ∧ tmiKernelX (.fin 1) (.fin 0) 1 2 4 [[.fin 0, .fin 1]] [[.ninf, .fin 1]] = .oob := by
  decide +kernel

end Pyunicorn.Access

/-! ## Round 5, second part: the IEEE model restricted to NaN | finite data is the round-1 model,
and the range "over both arrays" is what the source's two-step computation yields -/
namespace Pyunicorn.Access
open Pyunicorn.Generated.StructC20Py

/-- for non-empty arrays the range the wrapper computes from the generated terms
(`np.min((original_data.min(), surrogates.min()))`, …) is the minimum / maximum over the
concatenation of both arrays — for **all** data (round 4: shown on witness data only) -/
theorem rangeFrom_generated (dO dS : Data) (hO : dO.flat ≠ []) (hS : dS.flat ≠ []) :
    rangeFrom dO dS tmi_range_min.2 tmi_range_max.2
      = (optMin (dO.flat ++ dS.flat), optMax (dO.flat ++ dS.flat)) := by
  rw [optMin_append _ _ hO hS, optMax_append _ _ hO hS]
  rfl

/-- `tmiCall` is the kernel verdict for the range read off the generated terms (after the wrapper's
rejections) — `tmiCall_eq_kernelVerdict` with the source's own range computation in place of
"minimum over both arrays" -/
theorem tmiCall_range_from_source (N T : Nat) (nb : Int) (dO dS : Data) (h1 : 1 ≤ nb)
    (h2 : nb < (2 : Int) ^ 31) (h3 : N * T ≠ 0) (hO : dO.flat ≠ []) (hS : dS.flat ≠ []) :
    tmiCall N T N T nb dO dS
      = tmiKernelVerdict (rangeFrom dO dS tmi_range_min.2 tmi_range_max.2).1
          (rangeFrom dO dS tmi_range_min.2 tmi_range_max.2).2 N T nb dO dS := by
  rw [rangeFrom_generated dO dS hO hS]
  exact tmiCall_eq_kernelVerdict N T nb dO dS h1 h2 h3

/-- **`tmiCallX` on arrays without infinities is `tmiCall`** (all shapes, all `n_bins`, all NaN |
finite data in non-empty arrays), with the range terms and the scaling expression of the current
source.  So the round-1 theorem `tmiCall_rejects_or_safe` is the special case of
`tmiCallX_rejects_or_safe`, and every correspondence run of `call tmi` also ties `tmiCallX`. -/
theorem tmiCallX_restricts_to_tmiCall (N T N2 T2 : Nat) (nb : Int) (dO dS : Data)
    (hO : dO.flat ≠ []) (hS : dS.flat ≠ []) :
    tmiCallX tmi_range_min tmi_range_max tmi_scaling N T N2 T2 nb dO.toX dS.toX
      = tmiCall N T N2 T2 nb dO dS :=
  tmiCallX_toX tmi_range_min tmi_range_max rfl rfl N T N2 T2 nb dO dS hO hS

example : tmiCallX tmi_range_min tmi_range_max tmi_scaling 1 2 1 2 2
    (Data.toX [[some 0, some 1]]) (Data.toX [[some 1, none]]) = .safe := by decide +kernel

end Pyunicorn.Access

/-! ## Round 5, third part: the climate kernel on IEEE data; the two surrogate tests with the shape
tests and size sources of the current source as parameters -/
namespace Pyunicorn.Access
open Pyunicorn.Generated.StructC20Py

/-- **`_mutual_information` (climate) on IEEE data**: for all shapes, `1 ≤ n_bins < 2^31`, every
`float scaling` that is not negative and every `float range_min` that is NaN or a lower bound of all
non-NaN samples: every `(long)` conversion is defined and every access lies inside the arrays the
wrapper allocates.  (Tied by the real traces `tracex mi` on data with `±inf` / NaN.) -/
theorem miKernelX_safe (s m : XR) (N T : Nat) (nb : Int) (d : XData)
    (hnb : 1 ≤ nb) (hbig : nb < (2 : Int) ^ 31) (hs : s.notNeg = true)
    (hm : m.isNan = true ∨ ∀ x ∈ d.flatten, x.isNan = true ∨ XR.le m x = true) :
    miKernelX s m N T nb d = .safe := by
  have hb64 : nb ≤ (2 : Int) ^ (64 - 1) := by
    have : (2 : Int) ^ 31 ≤ (2 : Int) ^ (64 - 1) := by decide
    omega
  have hcast : ((nb.toNat : Nat) : Int) = nb := Int.toNat_of_nonneg (by omega)
  have hmx : ∀ i k, m.isNan = true ∨ (d.at i k).isNan = true ∨ XR.le m (d.at i k) = true := by
    intro i k
    rcases hm with h | h
    · exact Or.inl h
    · rcases XData.at_mem d i k with hn | hmem
      · exact Or.inr (Or.inl hn)
      · rcases h _ hmem with h' | h'
        · exact Or.inr (Or.inl h')
        · exact Or.inr (Or.inr h')
  have conv : convsOKX 64 N T s m nb d.at = true := by
    simp only [convsOKX, List.all_eq_true, List.mem_range]
    intro i _ k _
    exact convOKX_of_bits 64 s m _ nb hnb hb64 hs (hmx i k)
  unfold miKernelX
  rw [conv]
  simp only [if_true]
  apply verdictOf_ne_oob
  apply mi_in_bounds
  intro i k _ _
  obtain ⟨v, hv, h0, h1⟩ := symbolX_in_range s m (d.at i k) nb hnb hs (hmx i k)
  rw [hv, hcast]
  exact ⟨h0, h1⟩

example : miKernelX (.fin 0) .ninf 2 2 4 [[.fin 0, .pinf], [.ninf, .nan]] = .safe
    ∧ miKernelX (.fin 1) (.fin 0) 2 2 4 [[.fin 0, .pinf], [.ninf, .nan]] = .oob := by decide +kernel

/-- with the shape test and size sources of the current source, `pearsonObjCall` is `pearsonCall` -/
theorem pearsonObjCall_generated (N T N2 T2 : Nat) :
    pearsonObjCall pearson_pysizes pearson_pychecks N T N2 T2 = pearsonCall N T N2 T2 := by
  unfold pearsonObjCall pearsonCall pyFront
  by_cases h : (N2, T2) = (N, T)
  · obtain ⟨rfl, rfl⟩ := Prod.mk.inj h
    simp [pearson_pychecks, pearson_pysizes, resolveSize, pearsonSizes]
  · have h' : ¬ (N2 = N ∧ T2 = T) := fun ⟨a, b⟩ => h (by rw [a, b])
    simp [pearson_pychecks, h, h']

/-- `Surrogates.test_pearson_correlation`, shape test and size sources as generated: safe or raises
for all shapes of both arrays -/
theorem pearsonObjCall_rejects_or_safe (N T N2 T2 : Nat) :
    pearsonObjCall pearson_pysizes pearson_pychecks N T N2 T2 ≠ .oob := by
  rw [pearsonObjCall_generated]; exact pearsonCall_rejects_or_safe N T N2 T2

/-- a method that takes the sizes from the surrogates and tests nothing (the core of seeded change
C20-8) reads past a shorter original; one that takes them from the original and tests nothing reads
past shorter surrogates (the pinned defect) -/
theorem pearsonObjCall_witness :
    pearsonObjCall [("N", "arr", "surrogates.0", 1, 0), ("n_time", "arr", "surrogates.1", 1, 1)] []
        3 5 3 9 = .oob
    ∧ pearsonObjCall pearson_pysizes [] 3 5 2 3 = .oob
    ∧ pearsonObjCall pearson_pysizes pearson_pychecks 3 5 3 9 = .raise
    ∧ pearsonObjCall pearson_pysizes pearson_pychecks 3 5 3 5 = .safe := by decide +kernel

/-- **`Surrogates.test_mutual_information` with every part the translator reads as a parameter**
(shape test, size sources, range terms, scaling expression — all as they are in the current
source): safe or raises for all shapes of both arrays, all `n_bins ∈ ℤ`, all IEEE data -/
theorem tmiObjCallX_rejects_or_safe (N T N2 T2 : Nat) (nb : Int) (dO dS : XData) :
    tmiObjCallX tmi_pysizes tmi_pychecks tmi_range_min tmi_range_max tmi_scaling N T N2 T2 nb dO dS
      ≠ .oob := by
  unfold tmiObjCallX
  split
  · simp
  by_cases h : (N2, T2) = (N, T)
  · obtain ⟨rfl, rfl⟩ := Prod.mk.inj h
    have : pyFront tmi_pysizes tmi_pychecks "N" "n_time" [[N2, T2], [N2, T2]] = .sizes N2 T2 := by
      simp [pyFront, tmi_pychecks, tmi_pysizes, resolveSize]
    rw [this]
    simp only [and_self, if_true]
    exact tmiCallX_rejects_or_safe N2 T2 N2 T2 nb dO dS
  · have h' : ¬ (N2 = N ∧ T2 = T) := fun ⟨a, b⟩ => h (by rw [a, b])
    have : pyFront tmi_pysizes tmi_pychecks "N" "n_time" [[N, T], [N2, T2]] = .raise := by
      simp [pyFront, tmi_pychecks, h']
    rw [this]
    simp

/-- sharpness: without the shape test, or with the sizes taken from the longer surrogates, the
kernel leaves the shorter array -/
theorem tmiObjCallX_witness :
    tmiObjCallX tmi_pysizes [] tmi_range_min tmi_range_max tmi_scaling 1 4 1 2 2
        [[.fin 0, .fin 1, .pinf, .fin 1]] [[.fin 0, .ninf]] = .oob
    ∧ tmiObjCallX [("N", "arr", "surrogates.0", 1, 0), ("n_time", "arr", "surrogates.1", 1, 1)] []
        tmi_range_min tmi_range_max tmi_scaling 1 2 1 4 2
        [[.fin 0, .fin 1]] [[.fin 0, .fin 1, .nan, .fin 1]] = .oob
    ∧ tmiObjCallX tmi_pysizes tmi_pychecks tmi_range_min tmi_range_max tmi_scaling 1 4 1 2 2
        [[.fin 0, .fin 1, .pinf, .fin 1]] [[.fin 0, .ninf]] = .raise
    ∧ tmiObjCallX tmi_pysizes tmi_pychecks tmi_range_min tmi_range_max tmi_scaling 1 2 1 2 2
        [[.fin 0, .pinf]] [[.fin 0, .ninf]] = .safe := by decide +kernel

end Pyunicorn.Access

/-! # Round 5: the pointer walks of the two mutual-information routines, resolved

`Generated/StructC20Run.lean` (translate/c20_crun.py, regenerated on every run) executes the
statement tree of `_mutual_information` and `_test_mutual_information_fast` symbolically: running
integer offsets (`in_time += n_time` at the end of the `i` loop) and running pointers
(`p_original++` at the end of the `k` loop, `p_mi2 += N`) are induction variables of the loop whose
body they close, so every pointer formation `p = a + e` and every dereference `*p` becomes
`a[closed-form index]`; a bin number read from memory inside an offset (`*p_symbolic`) is a free
parameter.  Rounds 2–4 listed these formations as "running" and left them to the trace model and
T1; now they are in the static tie too. -/
namespace Pyunicorn.Access
open Pyunicorn.Generated.StructC20 Pyunicorn.Generated.StructC20Run

/-- element counts of the arrays of `_test_mutual_information_fast` as the wrapper allocates them -/
def tmiRunCnt (N n_time n_bins : Int) : String → Int
  | "original_data" | "surrogates" | "symbolic_original" | "symbolic_surrogates" => N * n_time
  | "hist_original" | "hist_surrogates" => N * n_bins
  | "hist2d" => n_bins * n_bins
  | "mi" => N * N
  | _ => 0

/-- **every pointer formed and every dereference in the current text of
`_test_mutual_information_fast`** — the walks `p++` / `in_time += n_time` included — is inside its
array (a formed pointer: at most one past the end), for all `N`, `n_time`, `n_bins ≥ 0`, all values
of the loop variables in their ranges and all stored bin numbers in `[0, n_bins)` -/
theorem tmi_run_sites_fine (N n_time n_bins i k j l m sO sS : Int) (hT : 0 ≤ n_time)
    (hB : 0 ≤ n_bins) (hO : 0 ≤ sO ∧ sO < n_bins) (hS : 0 ≤ sS ∧ sS < n_bins) :
    ∀ s ∈ tmi_run_sites N n_time n_bins i k j l m sO sS, s.guard →
      siteFine s (tmiRunCnt N n_time n_bins s.arr) := by
  have r1 := @row2 i N N; have r2 := @row2 i N n_time; have r3 := @row2 j N n_time
  have r4 := @row2 i N n_bins; have r5 := @row2 j N n_bins; have r6 := @row2 l n_bins n_bins
  have r7 := @row2 sO n_bins n_bins
  simp only [tmi_run_sites, List.forall_mem_cons, List.not_mem_nil, false_imp_iff,
    implies_true, and_true, tmiRunCnt]
  (with_reducible and_intros) <;> site_bounds

def miRunCnt (n_samples N n_bins : Int) : String → Int
  | "anomaly" | "symbolic" => N * n_samples
  | "hist" => N * n_bins
  | "hist2d" => n_bins * n_bins
  | "mi" => N * N
  | _ => 0

/-- the same for `_mutual_information` (climate): `p_mi2 = mi + i; p_mi2 += N` walks a column
(`mi[i + j·N]`, `j ≤ i`), `ln_bins += n_bins` the rows of `hist2d` -/
theorem mi_run_sites_fine (n_samples N n_bins i k j l m s s1 s2 : Int) (hT : 0 ≤ n_samples)
    (hB : 0 ≤ n_bins) (h0 : 0 ≤ s ∧ s < n_bins) (h1 : 0 ≤ s1 ∧ s1 < n_bins)
    (h2 : 0 ≤ s2 ∧ s2 < n_bins) :
    ∀ x ∈ mi_run_sites n_samples N n_bins i k j l m s s1 s2, x.guard →
      siteFine x (miRunCnt n_samples N n_bins x.arr) := by
  have r1 := @row2 i N N; have r2 := @row2 i N n_samples; have r3 := @row2 j N n_samples
  have r4 := @row2 i N n_bins; have r5 := @row2 j N n_bins; have r6 := @row2 l n_bins n_bins
  have r7 := @row2 s1 n_bins n_bins; have r8 := @row2 j N N
  simp only [mi_run_sites, List.forall_mem_cons, List.not_mem_nil, false_imp_iff,
    implies_true, and_true, miRunCnt]
  (with_reducible and_intros) <;> site_bounds

/-- the element counts used above are the allocations of the wrappers (generated `…_allocs`) and
the shapes of the arrays they pass -/
theorem run_counts_are_allocations (N T nb : Nat) :
    (tmi_allocs N T nb).map (fun a => (a.1, (a.2.1 : Int)))
      = [("symbolic_original", tmiRunCnt N T nb "symbolic_original"),
         ("symbolic_surrogates", tmiRunCnt N T nb "symbolic_surrogates"),
         ("hist_original", tmiRunCnt N T nb "hist_original"),
         ("hist_surrogates", tmiRunCnt N T nb "hist_surrogates"),
         ("hist2d", tmiRunCnt N T nb "hist2d"), ("mi", tmiRunCnt N T nb "mi")]
    ∧ (mi_allocs T N nb).map (fun a => (a.1, (a.2.1 : Int)))
      = [("symbolic", miRunCnt T N nb "symbolic"), ("hist", miRunCnt T N nb "hist"),
         ("hist2d", miRunCnt T N nb "hist2d"), ("mi", miRunCnt T N nb "mi")] := by
  simp [tmi_allocs, mi_allocs, tmiRunCnt, miRunCnt]

/-- the only stores into the symbol arrays are the two branches of the binning (whose values are
in `[0, n_bins)` by `symbolX_in_range`), and nothing else is written through a pointer than
counters, the 2-d histogram reset and the result -/
theorem run_stores_census :
    tmi_stores = [("symbolic_original", "= (int) (rescaled * n_bins)"),
                  ("symbolic_original", "= n_bins - 1"), ("hist_original", "++"),
                  ("symbolic_surrogates", "= (int) (rescaled * n_bins)"),
                  ("symbolic_surrogates", "= n_bins - 1"), ("hist_surrogates", "++"),
                  ("hist2d", "++"), ("mi", "+= (float) (plm * log(plm/hpm/hpl))"), ("hist2d", "= 0")]
    ∧ mi_stores = [("symbolic", "= (long) (rescaled * n_bins)"), ("symbolic", "= n_bins - 1"),
                   ("hist", "++"), ("hist2d", "++"), ("mi", "+= (float) (plm * log(plm/hpm/hpl))"),
                   ("mi", "= *p_mi"), ("hist2d", "= 0")]
    ∧ tmi_run_symbols = ["s_p_symbolic_original", "s_p_symbolic_surrogates"]
    ∧ mi_run_symbols = ["s_p_symbolic", "s_p_symbolic1", "s_p_symbolic2"] := by
  refine ⟨by decide, by decide, by decide, by decide⟩

/-- non-vacuity: 32 / 27 sites; sharpness: a bin number `n_bins` (one too large) leaves `hist2d` -/
example : (tmi_run_sites 2 3 4 1 2 0 3 3 3 3).length = 32
    ∧ (mi_run_sites 3 2 4 1 2 0 3 3 3 3 3).length = 27 := by decide
example : ¬ (∀ s ∈ tmi_run_sites 2 3 4 1 2 0 3 3 4 3, s.guard →
    siteFine s (tmiRunCnt 2 3 4 s.arr)) := by
  intro h
  have := h ⟨0, "hist2d", 64, ((4 * 4) + 3), [((4 * 4) + 3)],
    (0 ≤ (1:Int) ∧ (1:Int) < 2) ∧ (0 ≤ (0:Int) ∧ (0:Int) < 2) ∧ (0 ≤ (2:Int) ∧ (2:Int) < 3)⟩
    (by simp [tmi_run_sites]) (by decide)
  simp [siteFine, tmiRunCnt] at this

end Pyunicorn.Access

/-! # Round 5: `_nsi_betweenness` — the breadth-first queue and the predecessor lists

The largest group of data-dependent subscripts left to Cython's bounds check after round 4
(`queue[queue_len]`, `flat_predecessors[offsets[l] + n_predecessors[l]]`, `flat_neighbors[l_index]`,
`distances_to_j[l]`, `betweenness_to_j[flat_predecessors[fi]]`, …).  `Model/NsiIdx.lean` evaluates
every subscript of the kernel as a checked read / write (`none` = IndexError); `csrOK` is the
contract on what `Network._nsi_betweenness` passes, stated on the offsets the kernel computes. -/
namespace Pyunicorn.NsiIdx

/-- **`_nsi_betweenness` raises no IndexError** — every subscript it evaluates (the breadth-first
queue, the predecessor lists, the distance / multiplicity / betweenness arrays, the caller's `w`,
`k`, `flat_neighbors`, `is_source`) is inside its array — for every CSR adjacency that satisfies the
contract `csrOK`, for all `N`, all graphs and all target lists -/
theorem nsiBetwIdx_ok (N : Nat) (k nbr : List Nat) (wlen slen : Nat) (targets : List Nat)
    (h : csrOK N k nbr wlen slen targets = true) :
    nsiBetwIdx N k nbr wlen slen targets = some () := by
  unfold csrOK at h
  split at h
  · cases h
  · rename_i off hoff
    simp only [Bool.and_eq_true, decide_eq_true_eq, List.all_eq_true, List.mem_range] at h
    obtain ⟨⟨⟨⟨⟨⟨⟨h1, h2⟩, h3⟩, h4⟩, h5⟩, h6⟩, h7⟩, h8⟩ := h
    have hc : COK ⟨N, off, k, nbr, wlen⟩ := ⟨h1, h2, h3, h6, h7, h8⟩
    simp only [nsiBetwIdx, hoff, Option.bind_eq_bind, Option.bind_some]
    apply allOk_ok
    intro j hj
    exact target_ok ⟨N, off, k, nbr, wlen⟩ hc slen j h4 (h5 j hj)

/-- in particular no outcome `none` (IndexError) under the contract -/
theorem nsiBetwIdx_never_raises (N : Nat) (k nbr : List Nat) (wlen slen : Nat) (targets : List Nat)
    (h : csrOK N k nbr wlen slen targets = true) :
    nsiBetwIdx N k nbr wlen slen targets ≠ none := by
  rw [nsiBetwIdx_ok N k nbr wlen slen targets h]; simp

/-- non-vacuity: the path 0 – 1 – 2 and the triangle with a pendant node satisfy the contract and
the model runs through; sharpness: a directed link into a node without out-links (`0 → 2`) makes
`flat_predecessors[offsets[2] + 0]` leave the array, a neighbour entry `N`, a degree entry that
overstates a row, a target `N` and a weight array one short raise as well — and fail the contract -/
example : csrOK 3 [1, 2, 1] [1, 0, 2, 1] 3 3 [0, 1, 2] = true
    ∧ nsiBetwIdx 3 [1, 2, 1] [1, 0, 2, 1] 3 3 [0, 1, 2] = some ()
    ∧ csrOK 4 [2, 2, 3, 1] [1, 2, 0, 2, 0, 1, 3, 2] 4 4 [3, 0] = true
    ∧ nsiBetwIdx 4 [2, 2, 3, 1] [1, 2, 0, 2, 0, 1, 3, 2] 4 4 [3, 0] = some () := by decide +kernel
example : nsiBetwIdx 3 [1, 0, 0] [2] 3 3 [0] = none ∧ csrOK 3 [1, 0, 0] [2] 3 3 [0] = false
    ∧ nsiBetwIdx 3 [1, 2, 1] [1, 0, 3, 1] 3 3 [0] = none
    ∧ nsiBetwIdx 3 [1, 2, 2] [1, 0, 2, 1] 3 3 [0] = none
    ∧ nsiBetwIdx 3 [1, 2, 1] [1, 0, 2, 1] 3 3 [3] = none
    ∧ nsiBetwIdx 3 [1, 2, 1] [1, 0, 2, 1] 2 3 [0] = none := by decide +kernel

end Pyunicorn.NsiIdx

/-! ## Round 5c: the climate worker `_cython_calculate_mutual_information` over IEEE data, with the
normalisation, from the statements of the current source -/
namespace Pyunicorn.Access
open Pyunicorn.Generated.StructC20Py

/-- minimum and maximum of one array are ordered unless one of them is NaN -/
theorem xrMin_le_xrMax (a : List XR) :
    (xrMin a).isNan = true ∨ (xrMax a).isNan = true ∨ XR.le (xrMin a) (xrMax a) = true := by
  cases a with
  | nil => exact Or.inl xrMin_nil
  | cons x t =>
    rcases xrMin_le (x :: t) with hn | hl
    · exact Or.inl hn
    rcases xrMax_ge (x :: t) with hn | hg
    · exact Or.inr (Or.inl hn)
    exact Or.inr (Or.inr (XR.le_trans' (hl x (by simp)) (hg x (by simp))))

/-- the worker after its own rejections, for any array `p` that reaches the range computation -/
theorem miTail_safe (rnd : XR → XR)
    (hmono : ∀ a b, XR.le a b = true → XR.le (rnd a) (rnd b) = true)
    (hnan : rnd .nan = .nan) (hpos : ∀ s, s.notNeg = true → (rnd s).notNeg = true)
    (R C : Nat) (nb : Int) (hnb : 1 ≤ nb) (hbig : nb < (2 : Int) ^ 31) (d : XData) (s : XR)
    (hs : XR.recip (XR.sub (xrMax d.flatten) (xrMin d.flatten)) = some s) :
    miKernelX (rnd s) (rnd (xrMin d.flatten)) R C nb (d.map fun row => row.map rnd) = .safe := by
  have hd : (XR.sub (xrMax d.flatten) (xrMin d.flatten)).notNeg = true :=
    XR.sub_notNeg _ _ (xrMin_le_xrMax d.flatten)
  apply miKernelX_safe _ _ R C nb _ hnb hbig (hpos _ (XR.recip_notNeg hd hs))
  rcases xrMin_le d.flatten with hn | hl
  · left
    cases hm : xrMin d.flatten <;> simp_all [XR.isNan]
  · right
    intro x hx
    simp only [List.mem_flatten, List.mem_map] at hx
    obtain ⟨l, ⟨row, hrow, rfl⟩, hx⟩ := hx
    simp only [List.mem_map] at hx
    obtain ⟨y, hy, rfl⟩ := hx
    exact Or.inr (hmono _ _ (hl y (List.mem_flatten.2 ⟨row, hrow, hy⟩)))

/-- the range terms, the scaling expression and the kernel-call arguments of the current source are
the ones the model evaluates (static: a changed term breaks it) -/
theorem mi_terms_generated :
    (mi_range_min != "float(anomaly.min())" || mi_range_max != "float(anomaly.max())"
      || mi_scaling != "1.0 / (range_max - range_min)"
      || mi_call_args != ["to_cy(anomaly, FIELD)", "n_samples", "N", "n_bins", "scaling", "range_min"])
    = false := by decide

/-- **`MutualInfoClimateNetwork._cython_calculate_mutual_information` (behind
`calculate_similarity_measure` / `mutual_information`) is safe or raises for every anomaly array of
IEEE values** — NaN, `+inf`, `-inf`, finite in any mixture, every shape `(T, N)`, every
`n_bins ≥ 1` (the public path fixes 32) — with the statements of the worker and of
`Data.normalize_time_series_array`, the range terms, the scaling expression and the arguments of the
kernel call all read off the current source (generated).  For **every** square-root function `sq`
(so also one that underflows to 0 and lets `±inf` through the normalisation) and every conversion
double → float `rnd` that is monotone in the extended order, keeps NaN and keeps "not negative"
(rounding to nearest with overflow to `±inf` is: `rndBig_ok`).  Discharges round 5's "argued, not
proved": the reason is not that infinities cannot reach the kernel but that `range_min` is the
minimum of the very array handed to it. -/
theorem miCallX_rejects_or_safe (sq rnd : XR → XR)
    (hmono : ∀ a b, XR.le a b = true → XR.le (rnd a) (rnd b) = true)
    (hnan : rnd .nan = .nan) (hpos : ∀ s, s.notNeg = true → (rnd s).notNeg = true)
    (T N : Nat) (nb : Int) (hnb : 1 ≤ nb) (a : XData) :
    miCallX mi_steps normalize_steps mi_range_min mi_range_max mi_scaling mi_call_args sq rnd T N nb a
      ≠ .oob := by
  unfold miCallX
  split
  · simp
  split
  · simp
  rename_i hbig
  have hprep : ∃ p, miPrepX mi_steps normalize_steps sq T N a = some p := ⟨_, rfl⟩
  obtain ⟨p, hp⟩ := hprep
  rw [hp]
  simp only
  split
  · simp
  rw [if_neg (by rw [mi_terms_generated]; simp)]
  split
  · simp
  · rename_i s hs
    rw [miTail_safe rnd hmono hnan hpos p.rows p.cols nb hnb (by omega) p.d s hs]
    simp


/-- the hypotheses on the conversion are satisfiable: keep finite values up to `big`, overflow beyond -/
theorem rndBig_ok (big : Rat) (hb : 0 ≤ big) :
    (∀ a b, XR.le a b = true → XR.le (rndBig big a) (rndBig big b) = true)
    ∧ rndBig big .nan = .nan ∧ (∀ s, s.notNeg = true → (rndBig big s).notNeg = true) := by
  refine ⟨?_, rfl, ?_⟩
  · intro a b h
    cases a <;> cases b <;> simp_all [XR.le, rndBig] <;> (repeat' split) <;> simp_all <;> grind
  · intro s h
    cases s <;> simp_all [XR.notNeg, rndBig] <;> (repeat' split) <;> simp_all <;> grind

abbrev miX := miCallX mi_steps normalize_steps mi_range_min mi_range_max mi_scaling mi_call_args

/-- non-vacuity and sharpness (`T = N = 2`, anomaly `[[0, +inf], [2, 1]]`: the column holding `+inf`
normalises to NaN → 0, the other to `∓1`).  (1) safe with range `[-1, 1]`; (2) all NaN / inf: all
zeros, ZeroDivisionError; (3) one sample: all zeros, raises; (4) a square root that underflows to 0:
`∓inf` reach the kernel, `scaling = 1/inf = 0`, every rescaled value NaN — safe; (5) a `float` that
overflows at 1/2: samples and `range_min` become `∓inf` — safe; (6) empty: raises; (7) without the
NaN replacement (two statements of the normalisation): NaN range — safe; (8) a `range_min` of another
form, (9) an unknown statement: `oob` = cannot evaluate; (10) `n_bins = 0` on the worker: `oob`
(bin number −1; the hypothesis `1 ≤ n_bins` is needed). -/
theorem miCallX_witness :
    miX sqrtX (rndBig 1000) 2 2 32 [[.fin 0, .pinf], [.fin 2, .fin 1]] = .safe
    ∧ miX sqrtX (rndBig 1000) 2 2 32 [[.nan, .pinf], [.ninf, .nan]] = .raise
    ∧ miX sqrtX (rndBig 1000) 1 3 32 [[.fin 5, .pinf, .fin (-1)]] = .raise
    ∧ miX (fun _ => .fin 0) (rndBig 1000) 2 2 32 [[.fin 0, .fin 1], [.fin 2, .fin 1]] = .safe
    ∧ miX sqrtX (rndBig (1/2)) 2 2 32 [[.fin 0, .pinf], [.fin 2, .fin 1]] = .safe
    ∧ miX sqrtX (rndBig 1000) 0 3 32 [] = .raise
    ∧ miCallX mi_steps (normalize_steps.take 2) mi_range_min mi_range_max mi_scaling mi_call_args
        sqrtX (rndBig 1000) 2 2 32 [[.fin 0, .pinf], [.fin 2, .fin 1]] = .safe
    ∧ miCallX mi_steps normalize_steps "float(anomaly[0].min())" mi_range_max mi_scaling mi_call_args
        sqrtX (rndBig 1000) 2 2 32 [[.fin 0, .pinf], [.fin 2, .fin 1]] = .oob
    ∧ miCallX mi_steps ("time_series_array -= 1" :: normalize_steps) mi_range_min mi_range_max
        mi_scaling mi_call_args sqrtX (rndBig 1000) 2 2 32 [[.fin 0, .pinf], [.fin 2, .fin 1]] = .oob
    ∧ miX sqrtX (rndBig 1000) 2 2 0 [[.fin 0, .pinf], [.fin 2, .fin 1]] = .oob := by
  decide +kernel

example : (miRangeX mi_steps normalize_steps sqrtX 2 2 [[.fin 0, .pinf], [.fin 2, .fin 1]])
    = some ([[.fin (-1), .fin 1], [.fin 0, .fin 0]], .fin (-1), .fin 1, some (.fin (1/2))) := by
  decide +kernel
/-- the statements of `Data.normalize_time_series_array` in the current source are the three the
lemmas of `Lemmas/AccessMi.lean` speak of (static: an edited statement breaks it) -/
theorem normalize_steps_generated : normalize_steps = normalizeSteps3 := by decide

/-- what the statements of the current worker compute before the range is taken: the normalised
array, transposed, with shape `(N, T)` -/
theorem miPrepX_generated (sq : XR → XR) (T N : Nat) (a : XData) :
    miPrepX mi_steps normalize_steps sq T N a
      = some ⟨tabX N T fun i k =>
          (zeroNanX T N (scaleX sq T N (centreX T N (tabX T N a.at)))).at k i, N, T⟩ := rfl

/-- **Round 5's "argued" claim as a theorem: a column (node) of the anomaly that holds `+inf`, `-inf`
or NaN at any time reaches the range computation and the kernel as a row of zeros**, for every shape
and every square root that maps NaN to NaN.  (So infinities in the *input* never reach the kernel;
`miCallX_rejects_or_safe` does not need this — it also covers infinities *produced* by the
normalisation when the mean of squares underflows.) -/
theorem miPrepX_nonfinite_column_zero (sq : XR → XR) (hsq : sq .nan = .nan) (T N : Nat) (a : XData)
    {j : Nat} (hj : j < N) (h : ∃ t, t < T ∧ (a.at t j).isFin = false) {t : Nat} (ht : t < T)
    (p : Shaped) (hp : miPrepX mi_steps normalize_steps sq T N a = some p) :
    p.rows = N ∧ p.cols = T ∧ p.d.at j t = .fin 0 := by
  rw [miPrepX_generated] at hp
  cases hp
  refine ⟨rfl, rfl, ?_⟩
  show (tabX N T _).at j t = _
  rw [tabX_at _ _ _ hj ht]
  apply normalize_nonfinite_column sq hsq T N _ hj _ ht
  obtain ⟨t0, ht0, hf⟩ := h
  exact ⟨t0, ht0, by rw [tabX_at _ _ _ ht0 hj]; exact hf⟩

/-- no NaN reaches the range computation (the last statement of the normalisation) -/
theorem miPrepX_no_nan (sq : XR → XR) (T N : Nat) (a : XData) {j t : Nat} (hj : j < N) (ht : t < T)
    (p : Shaped) (hp : miPrepX mi_steps normalize_steps sq T N a = some p) :
    (p.d.at j t).isNan = false := by
  rw [miPrepX_generated] at hp
  cases hp
  show ((tabX N T _).at j t).isNan = false
  rw [tabX_at _ _ _ hj ht]
  exact zeroNanX_no_nan T N _ ht hj

example : ∃ p, miPrepX mi_steps normalize_steps sqrtX 2 2 [[.fin 0, .pinf], [.fin 2, .fin 1]] = some p
    ∧ p.d = [[.fin (-1), .fin 1], [.fin 0, .fin 0]] := ⟨_, rfl, by decide +kernel⟩
end Pyunicorn.Access

/-! ## Round 5e — the CSR arguments of `_nsi_betweenness` derived from the source of
`Network.nsi_betweenness` / `Network._nsi_betweenness` (was: "`csrOK` is validated on captured
calls, not derived from the method's source") -/
namespace Pyunicorn.NsiCsr
open Pyunicorn.NsiIdx Pyunicorn.Generated.StructC20Py

/-- the texts of the current source, as the translator read them -/
def genSrc : Src := ⟨nsib_public, nsib_worker, nsib_outdegree, nsib_nz_coords⟩

/-- the statements of the current source are the ones the model evaluates (static tie: any edit
of the two methods, of `outdegree` or of `nz_coords` breaks this) -/
theorem nsiArgs_generated (A : List (List Nat)) (tg : Option (List Nat)) :
    nsiArgs genSrc A tg = some (build A tg) := by
  have : genSrc = knownSrc := by decide
  simp [nsiArgs, this]

/-- the constructed arguments satisfy the contract `csrOK`: for every square symmetric 0/1
adjacency matrix (any size, self-loops allowed), default targets or any given node numbers -/
theorem nsi_betweenness_args_csrOK (A : List (List Nat)) (hA : adjOK A = true)
    (tg : Option (List Nat)) (ht : ∀ t, tg = some t → ∀ j ∈ t, j < A.length) (a : Args)
    (ha : nsiArgs genSrc A tg = some a) :
    csrOK a.N a.k a.nbr a.wlen a.slen a.targets = true := by
  rw [nsiArgs_generated] at ha
  cases ha
  exact build_csrOK A (adjOK_iff A hA) tg ht

/-- **every call the public method can make is safe**: for every undirected network (square
symmetric 0/1 adjacency of any size), `targets=None` or any list of node numbers, any `sources`, any
`nsi`, the arguments `Network.nsi_betweenness` builds — by the statements read off the current
source — make the kernel `_nsi_betweenness` evaluate every subscript inside its array (the index
model returns, never IndexError).  Target entries `≥ N` are outside: the kernel then raises
IndexError at `distances_to_j[j]` (stream T6 a, `any|raise`) -/
theorem nsi_betweenness_public_call_safe (A : List (List Nat)) (hA : adjOK A = true)
    (tg : Option (List Nat)) (ht : ∀ t, tg = some t → ∀ j ∈ t, j < A.length) :
    ∃ a, nsiArgs genSrc A tg = some a ∧
      nsiBetwIdx a.N a.k a.nbr a.wlen a.slen a.targets = some () := by
  refine ⟨build A tg, nsiArgs_generated A tg, ?_⟩
  exact nsiBetwIdx_ok _ _ _ _ _ _
    (nsi_betweenness_args_csrOK A hA tg ht _ (nsiArgs_generated A tg))

/-- non-vacuity: the path 0 – 1 – 2 with a self-loop pair, default and given targets; sharpness: a
directed link `0 → 2` (asymmetric, `adjOK = false`) gives arguments that fail the contract and the
model raises; an entry 2 (not 0/1) overstates the degree — raises; another text of `nz_coords` —
"cannot evaluate" -/
example : adjOK [[0, 1, 0], [1, 0, 1], [0, 1, 0]] = true
    ∧ nsiArgs genSrc [[0, 1, 0], [1, 0, 1], [0, 1, 0]] none = some ⟨3, [1, 2, 1], [1, 0, 2, 1], 3, 3, [0, 1, 2]⟩
    ∧ nsiArgs genSrc [[1, 1], [1, 1]] (some [1]) = some ⟨2, [2, 2], [0, 1, 0, 1], 2, 2, [1]⟩
    ∧ adjOK [[1, 1], [1, 1]] = true := by decide +kernel
example : adjOK [[0, 0, 1], [0, 0, 0], [0, 0, 0]] = false
    ∧ (let a := build [[0, 0, 1], [0, 0, 0], [0, 0, 0]] none
       csrOK a.N a.k a.nbr a.wlen a.slen a.targets = false
       ∧ nsiBetwIdx a.N a.k a.nbr a.wlen a.slen a.targets = none)
    ∧ (let a := build [[0, 2], [2, 0]] none
       nsiBetwIdx a.N a.k a.nbr a.wlen a.slen a.targets = none)
    ∧ nsiArgs { genSrc with nzCoords := "np.array(matrix.T.nonzero()).T" } [[0, 1], [1, 0]] none = none := by
  decide +kernel
end Pyunicorn.NsiCsr
