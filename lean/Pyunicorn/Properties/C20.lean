import Pyunicorn.Lemmas.Access
/-!
# C20 — compiled kernels never touch memory outside their arrays

Statements about the access-trace models `Pyunicorn.Access` (the six raw-pointer
C routines and the wrappers that size their arrays) and
`Pyunicorn.WhileKernels` (the index-before-bound `while` kernels).  The models
are tied to the current sources by `harness/c20.py`: the real load/store trace
of the compiled C files (clang `trace-loads/trace-stores`) must equal the model
trace, and the verdict `safe | raise | oob` of every public call must equal the
one observed on an ASan/UBSan build.
-/
namespace Pyunicorn.Access

/-! ## `_spearman_corr` -/

/-- every access of `_spearman_corr` lies inside its array, for every `m`, `tmax`
(including 0, 1, `m > tmax`, `m < tmax`) with the sizes the wrapper allocates -/
theorem spearman_in_bounds (m tmax : Nat) :
    ∀ a ∈ spearmanTrace m tmax, a.inb (spearmanSizes m tmax) := by
  simp only [spearmanTrace, spearmanGen, forall_forr, List.forall_mem_append,
    List.forall_mem_cons, List.not_mem_nil, false_imp_iff, implies_true, and_true]
  intro i hi dj hdj
  have hj : i + dj < m := by omega
  with_reducible and_intros
  all_goals (try intro t ht)
  all_goals with_reducible and_intros
  all_goals inb_auto

example : spearmanTrace 2 3 ≠ [] := by decide

/-- the public method is safe or raises, whatever the two shapes are -/
theorem spearmanCall_rejects_or_safe (mm mt m tmax : Nat) :
    spearmanCall mm mt m tmax ≠ .oob := by
  unfold spearmanCall
  split
  · simp
  · rw [verdictOf_ne_oob (spearman_in_bounds m tmax)]; simp

example : spearmanCall 2 3 2 3 = .safe := by decide
example : spearmanCall 3 2 2 3 = .raise := by decide

/-- the routine as pinned (mask through `int*`, stride `m`) leaves its arrays
already for a 1×1 input, and for `m > tmax` even with a correctly typed mask -/
theorem spearmanPinned_oob_witness :
    verdictOf (spearmanSizes 1 1) (spearmanPinned 1 1) = .oob
    ∧ verdictOf (spearmanSizes 3 2) (spearmanGen 1 3 3 2) = .oob := by decide

/-! ## `_test_pearson_correlation_fast` -/

theorem pearson_in_bounds (N T : Nat) :
    ∀ a ∈ pearsonTrace N T, a.inb (pearsonSizes N T N T) := by
  simp only [pearsonTrace, forall_forr]
  intro i hi j hj a ha
  split at ha
  · simp only [List.mem_append, mem_forr, List.mem_cons, List.not_mem_nil, or_false] at ha
    rcases ha with ⟨k, hk, rfl | rfl⟩ | rfl
    all_goals inb_auto
  · simp at ha

example : pearsonTrace 2 2 ≠ [] := by decide

theorem pearsonCall_rejects_or_safe (N T N2 T2 : Nat) : pearsonCall N T N2 T2 ≠ .oob := by
  unfold pearsonCall
  split
  · simp
  · split
    · simp
    · rename_i h _
      have h' : (N2, T2) = (N, T) := by simpa using h
      obtain ⟨rfl, rfl⟩ := Prod.mk.inj h'
      rw [verdictOf_ne_oob (pearson_in_bounds N2 T2)]; simp

example : pearsonCall 3 5 3 5 = .safe := by decide
example : pearsonCall 3 5 2 3 = .raise := by decide

/-- the pinned wrapper (no shape check) reads outside a smaller surrogate array -/
theorem pearsonCallPinned_oob_witness : pearsonCallPinned 3 5 2 3 = .oob := by decide

/-! ## current-flow betweenness -/

theorem ecfb_in_bounds (N : Nat) : ∀ a ∈ ecfbTrace N, a.inb (cfbSizes N) := by
  simp only [ecfbTrace, forall_forr, List.forall_mem_append, List.forall_mem_cons,
    List.not_mem_nil, false_imp_iff, implies_true, and_true]
  intro i hi j hj
  with_reducible and_intros
  · intro t ht s hs
    have hs' : s < N := by omega
    with_reducible and_intros
    all_goals inb_auto
  all_goals inb_auto

example : ecfbTrace 3 ≠ [] := by decide

theorem vcfb_in_bounds (N : Nat) (i : Nat) (hi : i < N) :
    ∀ a ∈ vcfbTrace N i, a.inb (cfbSizes N) := by
  simp only [vcfbTrace, forall_forr]
  intro t ht s hs a ha
  have hs' : s < N := by omega
  split at ha
  · simp at ha
  · simp only [mem_forr, List.mem_cons, List.not_mem_nil, or_false] at ha
    obtain ⟨j, hj, h⟩ := ha
    have e1 : ((i : Int) * (N : Int) + (j : Int)) = ((i * N + j : Nat) : Int) := by simp
    have e2 : ((i : Int) * (N : Int) + (s : Int)) = ((i * N + s : Nat) : Int) := by simp
    have e3 : ((i : Int) * (N : Int) + (t : Int)) = ((i * N + t : Nat) : Int) := by simp
    rcases h with rfl | rfl | rfl | rfl | rfl
    · show (Acc.mk 0 (((i : Int) * (N : Int) + (j : Int)) * ((4 : Nat) : Int)) 4 false).inb _
      rw [e1]; inb_auto
    · show (Acc.mk 1 (((i : Int) * (N : Int) + (s : Int)) * ((4 : Nat) : Int)) 4 false).inb _
      rw [e2]; inb_auto
    · inb_auto
    · inb_auto
    · show (Acc.mk 1 (((i : Int) * (N : Int) + (t : Int)) * ((4 : Nat) : Int)) 4 false).inb _
      rw [e3]; inb_auto

example : vcfbTrace 3 1 ≠ [] := by decide

theorem vcfbCall_rejects_or_safe (N : Nat) (i : Int) : vcfbCall N i ≠ .oob := by
  unfold vcfbCall
  split
  · simp
  · rename_i h
    have h0 : 0 ≤ i := by omega
    obtain ⟨k, rfl⟩ := Int.eq_ofNat_of_zero_le h0
    have hk : k < N := by omega
    rw [verdictOf_ne_oob (vcfb_in_bounds N k hk)]; simp

example : vcfbCall 3 1 = .safe := by decide
example : vcfbCall 3 3 = .raise := by decide

/-- the pinned method hands any node index to the C routine -/
theorem vcfbCallPinned_oob_witness :
    vcfbCallPinned 3 3 = .oob ∧ vcfbCallPinned 3 (-1) = .oob := by decide

end Pyunicorn.Access
