import Pyunicorn.Lemmas.SurrogatesPerm
import Pyunicorn.Lemmas.SurrogatesPhase
import Pyunicorn.Lemmas.SurrogatesTwins
/-!
# C15 — Surrogates preserve exactly what each method promises

Theorems about `Pyunicorn.Model.Surrogates` (the model of `surrogates.py`,
`RecurrencePlot.twins/twin_surrogates` and the kernels `_twins_s`, `_twins_r`,
`_twin_surrogates_s`, `_twin_surrogates_r`).  Everything the model takes as an
*input* — the permutation numpy's shuffle applies, the arrays `irfft` returns,
the phases, the `random.random()` stream — is universally quantified here and
recorded / fed by the harness in the correspondence.

Clauses of the statement and where they are:

* shuffle surrogates are row-wise permutations ............ `shuffle_perm`, `fisherYates_shuffle_perm`
* Fourier surrogates keep the amplitudes ................... `fourier_amplitudes_every_call_partial`,
  `phase_multiplication_norm`, `rot_is_multiplication_by_exp`  (partial: numpy's rfft/irfft round trip
  off DC/Nyquist is assumed)
* (refined) AAFT 'true amplitudes' is a row permutation ..... `remap_perm`, `aaft_true_amplitudes_perm`,
  `refined_true_amplitudes_perm` (every number of iterations, every intermediate array)
* 'true spectrum' has the original amplitudes ............... `true_spectrum_amplitude_partial`
* twins are exactly the separated states with identical neighbourhoods
  ............................................................ `twins_iff`, `twins_symm`, `rp_twins_iff`,
  `near_iff`, `recurrence_entry`
* twin surrogates consist of original states, each followed by its own / a twin's successor
  ............................................................ `walk_step`, `walk_states_original_and_successor`,
  `rp_walk_states_original_and_successor`, `twin_walk_on_twin_lists`
* repeated generation does not degrade ...................... the theorems above quantify over the call
  history (`fourierCalls`, both modes), the number of refinement steps and the position `c` of the
  random stream at which a walk starts.
-/
namespace Pyunicorn.Surrogates

/-! ## shuffling -/

/-- `white_noise_surrogates`: whatever permutations the shuffle applies, every
output row is a permutation of the corresponding data row (and no IndexError). -/
theorem shuffle_perm (data : List (List Rat)) (perms : List (List Nat))
    (h : List.Forall₂ (fun r p => p.Perm (List.range r.length)) data perms) :
    ∃ out, whiteNoise data perms = some out ∧ List.Forall₂ List.Perm out data :=
  whiteNoise_perm data perms h

example : whiteNoise [[1, 2, 3], [5, 5, 7]] [[2, 0, 1], [1, 2, 0]] = some [[3, 1, 2], [5, 7, 5]] := by
  decide +kernel
example : List.Forall₂ (fun (r : List Rat) p => p.Perm (List.range r.length))
    [[1, 2, 3], [5, 5, 7]] [[2, 0, 1], [1, 2, 0]] :=
  .cons (by decide) (.cons (by decide) .nil)

/-- the Fisher–Yates loop numpy's `shuffle` runs is a permutation for *every*
stream of draws (so the hypothesis of `shuffle_perm` is what numpy delivers). -/
theorem fisherYates_shuffle_perm (xs : Array α) (draws : List Nat) :
    (fisherYates xs draws).toList.Perm xs.toList :=
  fisherYates_perm xs draws

example : fisherYates #[10, 20, 30, 40] [0, 0, 0] = #[20, 30, 40, 10] := by decide +kernel

/-- an index that is not a valid rank is an error, not a silently wrong sample -/
theorem gather_out_of_bounds_raises (xs : List α) (idx : List Nat) (i : Nat) (hi : i ∈ idx)
    (h : xs.length ≤ i) : gather xs idx = none :=
  gather_none_of_oob xs idx i hi h

example : gather [10, 20, 30] [0, 3] = none := by decide

/-! ## (refined) AAFT, output "true amplitudes" -/

/-- `sorted_original[ranks]` is a permutation of the array for every rank
permutation (numpy's `argsort().argsort()` returns one, ties or not). -/
theorem sorted_ranks_perm (xs : List α) (idx : List Nat) (h : idx.Perm (List.range xs.length)) :
    ∃ ys, gather xs idx = some ys ∧ ys.Perm xs :=
  gather_perm xs idx h

example : gather [10, 20, 30] [2, 0, 1] = some [30, 10, 20] := by decide

/-- the model's `argsort().argsort()` is a permutation of the index range for
every array, ties included -/
theorem ranks_is_perm (s : List Rat) : (ranks s).Perm (List.range s.length) := ranks_perm s

/-- one row of the amplitude adjustment: for *every* ranked array `s` of the
right length the result is a permutation of the data row -/
theorem remap_row_perm (row s : List Rat) (h : s.length = row.length) :
    ∃ ys, remap row s = some ys ∧ ys.Perm row :=
  remap_perm row s h

example : ∃ ys, remap [3, 1, 2] [1 / 2, 7, -1] = some ys ∧ ys.Perm [3, 1, 2] :=
  remap_perm _ _ rfl

/-- `AAFT_surrogates` -/
theorem aaft_true_amplitudes_perm (data s : List (List Rat))
    (h : List.Forall₂ (fun r p => p.length = r.length) data s) :
    ∃ out, aaft data s = some out ∧ List.Forall₂ List.Perm out data :=
  aaft_perm data s h

/-- `refined_AAFT_surrogates(n_iterations = ss.length, "true_amplitudes")`: for
every number of refinement steps and every sequence of intermediate arrays -/
theorem refined_true_amplitudes_perm (data s0 : List (List Rat)) (ss : List (List (List Rat)))
    (h0 : List.Forall₂ (fun r p => p.length = r.length) data s0)
    (hs : ∀ s ∈ ss, List.Forall₂ (fun r p => p.length = r.length) data s) :
    ∃ out, refinedAaft data s0 ss = some out ∧ List.Forall₂ List.Perm out data :=
  refinedAaft_perm data s0 ss h0 hs

example : List.Forall₂ (fun (r p : List Rat) => p.length = r.length) [[3, 1, 2]] [[1 / 2, 7, -1]] :=
  .cons rfl .nil

/-! ## Fourier surrogates and "true spectrum"

Full statement: `|rfft(correlated_noise_surrogates())[i, f]| = |rfft(data)[i, f]|` at every
`0 < f < n/2`, after any number of calls.  Proved: the spectrum *handed to irfft* has exactly the
amplitudes of the cached FFT at every frequency, in every call of every history, whether the
multiplication is done in place on the cached array (pinned code) or on a copy.  Missing: that
`rfft ∘ irfft` is the identity off DC/Nyquist (numpy, trusted; exercised by the oracle). -/

/-- `|z·e^{iφ}|² = |z|²` on the (re, im) pairs the model computes with -/
theorem phase_multiplication_normSq (z : ℝ × ℝ) (φ : ℝ) :
    Pyunicorn.Surrogates.normSq (rot realTrig z φ) = Pyunicorn.Surrogates.normSq z :=
  normSq_rot z φ

/-- the pair model is complex multiplication by `exp(iφ)` (`np.exp(1j * phases)`) -/
theorem rot_is_multiplication_by_exp (z : ℂ) (φ : ℝ) :
    let w := rot realTrig (z.re, z.im) φ
    (⟨w.1, w.2⟩ : ℂ) = z * Complex.exp (φ * Complex.I) :=
  rot_eq_mul_exp z φ

theorem phase_multiplication_norm (z : ℂ) (φ : ℝ) : ‖z * Complex.exp (φ * Complex.I)‖ = ‖z‖ :=
  norm_mul_exp z φ

/-- every call of every call history on one object, both modes -/
theorem fourier_amplitudes_every_call_partial (mode : Mode) (cache : List (ℝ × ℝ))
    (phases : List (List ℝ)) (h : ∀ φs ∈ phases, φs.length = cache.length) :
    ∀ out ∈ fourierCalls realTrig mode cache phases,
      out.map Pyunicorn.Surrogates.normSq = cache.map Pyunicorn.Surrogates.normSq :=
  fourierCalls_amplitudes mode cache phases h

example : ∀ φs ∈ [[(1 : ℝ), 2], [3, 4], [5, 6]], φs.length = [((1 : ℝ), (2 : ℝ)), (0, 1)].length := by
  simp

/-- 'true spectrum' output `irfft(original_amps * r_phases)` with unit-modulus
phases: the spectrum handed to irfft has the original amplitudes (partial for
the same reason). -/
theorem true_spectrum_amplitude_partial (a : ℝ) (ha : 0 ≤ a) (ψ : ℝ) :
    ‖(a : ℂ) * Complex.exp (ψ * Complex.I)‖ = a := by
  rw [norm_mul_exp]
  simp [abs_of_nonneg ha]

/-! ## twins -/

/-- the `for l in range(dimension)` loop with its `break`: neighbours iff every
component differs by at most the threshold (supremum norm) -/
theorem near_iff (thr : Rat) (u v : List Rat) :
    near thr u v = true ↔ ∀ p ∈ List.zip u v, p.1 - p.2 ≤ thr ∧ p.2 - p.1 ≤ thr := by
  induction u generalizing v with
  | nil => simp [near]
  | cons a as ih =>
    cases v with
    | nil => simp [near]
    | cons b bs =>
      have := ih bs
      simp [near] at this ⊢
      simp [this]

/-- entry `(j, k)` of the recurrence matrix `_twins_s` builds: one on the
diagonal, elsewhere the neighbour test of the two state vectors -/
theorem recurrence_entry (thr : Rat) (emb : List (List Rat)) (j k : Nat) (u v : List Rat)
    (hj : emb[j]? = some u) (hk : emb[k]? = some v) :
    (recMatrix thr emb)[j]?.bind (·[k]?) = some (j == k || near thr u v) := by
  simp [recMatrix, List.getElem?_zipIdx, hj, hk]

example : recMatrix (1 / 2) [[0, 1], [1, 2], [0, 3 / 2]]
    = [[true, false, true], [false, true, false], [true, false, true]] := by decide +kernel

/-- `_twins_s`: `k` is listed for `j` iff the two are more than `min_dist`
apart and have identical rows in the recurrence matrix with more than one
neighbour. -/
theorem twins_iff (thr : Rat) (md : Nat) (emb : List (List Rat)) (j k : Nat) :
    (∃ l, (twinsS thr md emb)[j]? = some l ∧ k ∈ l) ↔
      j < emb.length ∧ k < emb.length ∧ (k + md < j ∨ j + md < k) ∧
        ∃ r, (recMatrix thr emb)[j]? = some r ∧ (recMatrix thr emb)[k]? = some r ∧
          r.count true ≠ 1 := by
  unfold twinsS
  simp only [mem_twinLists_iff]
  constructor
  · rintro ⟨hj, hk, h | h⟩
    · obtain ⟨r, h1, h2, h3⟩ := (isTwin_rowCounts_iff _ j k).1 h.2
      exact ⟨hj, hk, .inl h.1, r, h1, h2, h3⟩
    · obtain ⟨r, h1, h2, h3⟩ := (isTwin_rowCounts_iff _ k j).1 h.2
      exact ⟨hj, hk, .inr h.1, r, h2, h1, h3⟩
  · rintro ⟨hj, hk, h | h, r, h1, h2, h3⟩
    · exact ⟨hj, hk, .inl ⟨h, (isTwin_rowCounts_iff _ j k).2 ⟨r, h1, h2, h3⟩⟩⟩
    · exact ⟨hj, hk, .inr ⟨h, (isTwin_rowCounts_iff _ k j).2 ⟨r, h2, h1, h3⟩⟩⟩

example : twinsS (1 / 2) 1 [[0, 1], [1, 2], [2, 0], [0, 1], [1, 2], [2, 0], [0, 1]]
    = [[3, 6], [4], [5], [0, 6], [1], [2], [0, 3]] := by decide +kernel

/-- the twin relation is symmetric -/
theorem twins_symm (thr : Rat) (md : Nat) (emb : List (List Rat)) (j k : Nat) :
    (∃ l, (twinsS thr md emb)[j]? = some l ∧ k ∈ l) ↔
      (∃ l, (twinsS thr md emb)[k]? = some l ∧ j ∈ l) := by
  rw [twins_iff, twins_iff]
  constructor <;>
  · rintro ⟨hj, hk, h, r, h1, h2, h3⟩
    exact ⟨hk, hj, h.symm, r, h2, h1, h3⟩

/-- `RecurrencePlot.twins` (the kernel `_twins_r` with the neighbour counts the
method passes): same characterisation on the object's recurrence matrix; the
kernel's extra trailing list is empty. -/
theorem rp_twins_iff (md : Nat) (R : List (List Bool)) (j k : Nat) :
    (∃ l, (rpTwins md R)[j]? = some l ∧ k ∈ l) ↔
      j < R.length ∧ k < R.length ∧ (k + md < j ∨ j + md < k) ∧
        ∃ r, R[j]? = some r ∧ R[k]? = some r ∧ r.count true ≠ 1 := by
  have hlen := twinLists_length R.length md (isTwin R (rowCounts R))
  have key : (∃ l, (rpTwins md R)[j]? = some l ∧ k ∈ l) ↔
      (∃ l, (twinLists R.length md (isTwin R (rowCounts R)))[j]? = some l ∧ k ∈ l) := by
    unfold rpTwins twinsR
    by_cases hj : j < R.length
    · rw [List.getElem?_append_left (by omega)]
    · constructor
      · rintro ⟨l, h1, h2⟩
        rw [List.getElem?_append_right (by omega)] at h1
        have : l = [] := by
          cases hjj : j - (twinLists R.length md (isTwin R (rowCounts R))).length with
          | zero => rw [hjj] at h1; simpa using h1.symm
          | succ m => rw [hjj] at h1; simp at h1
        subst this; simp at h2
      · rintro ⟨l, h1, _⟩
        have := (List.getElem?_eq_some_iff.1 h1).1
        omega
  rw [key, mem_twinLists_iff]
  constructor
  · rintro ⟨hj, hk, h | h⟩
    · obtain ⟨r, h1, h2, h3⟩ := (isTwin_rowCounts_iff _ j k).1 h.2
      exact ⟨hj, hk, .inl h.1, r, h1, h2, h3⟩
    · obtain ⟨r, h1, h2, h3⟩ := (isTwin_rowCounts_iff _ k j).1 h.2
      exact ⟨hj, hk, .inr h.1, r, h2, h1, h3⟩
  · rintro ⟨hj, hk, h | h, r, h1, h2, h3⟩
    · exact ⟨hj, hk, .inl ⟨h, (isTwin_rowCounts_iff _ j k).2 ⟨r, h1, h2, h3⟩⟩⟩
    · exact ⟨hj, hk, .inr ⟨h, (isTwin_rowCounts_iff _ k j).2 ⟨r, h2, h1, h3⟩⟩⟩

/-- the pinned `RecurrencePlot.twins` summed `R` along the columns (`axis=0`)
while comparing rows: on an asymmetric matrix states 0 and 1 with identical
rows are not listed (repaired by a `fix:` commit; the model `rpTwins` is the
repaired code). -/
theorem rp_twins_columns_miss_a_twin :
    rpTwinsColumns 0 [[true, true, true], [true, true, true], [true, false, true]]
        = [[], [], [], []] ∧
      rpTwins 0 [[true, true, true], [true, true, true], [true, false, true]]
        = [[1], [0], [], []] := by decide

/-! ## the twin walk -/

/-- one step of the walk from an original state `k`: it never fails, lands on an
original state and does so by an allowed transition (`Succ`: own successor,
successor of a twin, or a restart, the latter only if one of these successors
lies beyond the end of the series). -/
theorem walk_step {N : Nat} {tw : List (List Nat)} {pick : Nat → Nat → Nat}
    (hp : GoodPick pick) (hw : WfTwins N tw) (k c : Nat) (hk : k < N) :
    ∃ k' c', next N tw pick k c = some (k', c') ∧ c ≤ c' ∧ k' < N ∧ Succ N tw k k' :=
  next_spec hp hw k c hk

/-- the values `int(floor(random.random() * m))` of a stream in [0, 1) are
admissible choices -/
theorem floor_of_unit_draw_is_index (u : Nat → Rat) (h : ∀ c, 0 ≤ u c ∧ u c < 1) :
    GoodPick (floorPick u) :=
  floorPick_good u h

example : ∀ c : Nat, (0 : Rat) ≤ (fun _ => (3 : Rat) / 4) c ∧ (fun _ => (3 : Rat) / 4) c < 1 := by
  intro c
  show (0 : Rat) ≤ 3 / 4 ∧ (3 : Rat) / 4 < 1
  constructor <;> decide +kernel

/-- `_twin_surrogates_s`: for every stream of draws in [0,1), every stream
position `c` (i.e. after any number of earlier calls) and every family of
well-formed twin tables: all `N` states of every surrogate are original states
and every transition is allowed. -/
theorem walk_states_original_and_successor {N : Nat} (u : Nat → Rat)
    (hu : ∀ c, 0 ≤ u c ∧ u c < 1) (tws : List (List (List Nat)))
    (hw : ∀ tw ∈ tws, WfTwins N tw) (c : Nat) :
    ∃ ls c', walkRows N (floorPick u) tws c = some (ls, c') ∧
      List.Forall₂ (fun l tw => l.length = N ∧ (∀ i ∈ l, i < N) ∧
        (∀ i a b, l[i]? = some a → l[i+1]? = some b → Succ N tw a b)) ls tws :=
  walkRows_spec (floorPick_good u hu) tws hw c

/-- `_twin_surrogates_r` (`n_surrogates` trajectories on one table) -/
theorem rp_walk_states_original_and_successor {N : Nat} {tw : List (List Nat)} (u : Nat → Rat)
    (hu : ∀ c, 0 ≤ u c ∧ u c < 1) (hw : WfTwins N tw) (ns c : Nat) :
    ∃ ls c', walkRep N tw (floorPick u) ns c = some (ls, c') ∧ ls.length = ns ∧
      ∀ l ∈ ls, l.length = N ∧ (∀ i ∈ l, i < N) ∧
        (∀ i a b, l[i]? = some a → l[i+1]? = some b → Succ N tw a b) :=
  walkRep_spec (floorPick_good u hu) hw ns c

/-- the tables the twin search produces are well-formed, so the walk theorems
apply to them: kernel after kernel, as `twin_surrogates` composes them. -/
theorem twin_walk_on_twin_lists (thr : Rat) (md : Nat) (embs : List (List (List Rat))) (N : Nat)
    (hN : ∀ e ∈ embs, e.length = N) (u : Nat → Rat) (hu : ∀ c, 0 ≤ u c ∧ u c < 1) (c : Nat) :
    ∃ ls c', walkRows N (floorPick u) (embs.map (twinsS thr md)) c = some (ls, c') ∧
      List.Forall₂ (fun l tw => l.length = N ∧ (∀ i ∈ l, i < N) ∧
        (∀ i a b, l[i]? = some a → l[i+1]? = some b → Succ N tw a b))
        ls (embs.map (twinsS thr md)) := by
  apply walk_states_original_and_successor u hu
  intro tw htw
  obtain ⟨e, he, rfl⟩ := List.mem_map.1 htw
  have := twinLists_wf e.length md (isTwin (recMatrix thr e) (rowCounts (recMatrix thr e)))
  rw [hN e he] at this
  simpa [twinsS, hN e he] using this

example : WfTwins 7 (twinsS (1 / 2) 1 [[0, 1], [1, 2], [2, 0], [0, 1], [1, 2], [2, 0], [0, 1]]) := by
  have := twinLists_wf 7 1 (isTwin (recMatrix (1 / 2) [[0, 1], [1, 2], [2, 0], [0, 1], [1, 2], [2, 0], [0, 1]])
    (rowCounts (recMatrix (1 / 2) [[0, 1], [1, 2], [2, 0], [0, 1], [1, 2], [2, 0], [0, 1]])))
  simpa [twinsS] using this

/-- a walk that jumps to the future of a twin (2 → 0+1), moves on, and restarts at the end -/
example : walkRow 4 [[2], [], [0], []] (fun c m => [2, 0, 3, 1].getD c 0 % m) 0
    = some ([2, 1, 2, 3], 4) := by decide +kernel

example : GoodPick (fun c m => [2, 0, 3, 1].getD c 0 % m) := fun _ _ hm => Nat.mod_lt _ hm

end Pyunicorn.Surrogates
